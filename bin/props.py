# Per-property configuration of the zsim driver: collected from bin/props.d/*.py,
# each defining FRAGMENT = {"Cxx": {...}}.
import glob, importlib.util, os
PROPS = {}
for _f in sorted(glob.glob(os.path.join(os.path.dirname(os.path.abspath(__file__)), 'props.d', '*.py'))):
    _s = importlib.util.spec_from_file_location('frag_' + os.path.basename(_f)[:-3], _f)
    _m = importlib.util.module_from_spec(_s)
    _s.loader.exec_module(_m)
    PROPS.update(_m.FRAGMENT)
