# configuration of the check for C06 (see bin/props.py)
FRAGMENT = {
 'C06': {'bin': 'w_dvb',
 'world': 'c06',
 'level': 'exploration',
 'quick': {'runs': 60000, 'budget_s': 28, 'workers': 16},
 'thorough': {'runs': 2000000, 'budget_s': 600, 'workers': 16, 'det_sample': 200},
 'level_text': 'seeded exploration of frames (subsets of lines 7-23/320-336 x Teletext/VPS/WSS/caption/raw x payloads, undefined Teletext lines, deliberately invalid '
               'frames) x frame sequences (in two runs of three every ordered pair of: previous frame ends in the first field / in the second field / with undefined '
               'lines of either field parity / with a raw line, next frame begins with undefined lines / a low line of the first field / in the second field / a raw '
               'line; frames of undefined lines only; counters seq_*_then_*) x configurations (data_identifier, PES size range, PES/TS, PID, service mask) x PTS values x callback/coroutine output with planned buffer '
               'sizes x demultiplexer feed partitions; real multiplexer and real demultiplexer under ASan+UBSan; emitted bytes checked by a parser written from '
               'ISO 13818-1 / EN 300 472 / EN 301 775 and by the round trip; sampling, not proof',
 'level_note': 'trusted: the parser and the frame validity rules (taken from the API documentation of vbi_dvb_mux_feed/cor: which frames must be accepted / '
               'rejected; where the documentation and the standard leave the outcome open both are accepted), libzvbi\'s vbi_sliced bit order conventions, clang '
               'sanitizers.  Six dvb_mux.c / dvb_demux.c defects found here are repaired in /repo (regress/C06); the generator steers around nothing',
 'design_ref': 'DESIGN.md section 6 (C06)',
 'rule': 'one evaluation = one simulated run: 1-10 frames (quick) and one or two closing frames fed to one multiplexer with interleaved configuration changes, every emitted packet parsed, '
         'the byte pipe drained by a transport task in scheduler/plan chosen pieces into the demultiplexer, deliveries compared with the accepted frames; '
         'non-trivial = at least 3 accepted frames and 2 deliveries; distinct = distinct event-log hash',
 'fault_kinds': [],
 'components': {'real': ['src/dvb_mux.c', 'src/dvb_demux.c', 'src/hamm.c (vbi_rev8)', 'src/sampling_par.c'],
                'stub': ['byte pipe between multiplexer and demultiplexer = seeded scheduler over producer / transport tasks',
                         'independent TS/PES/data-unit parser', 'raw VBI image and sampling parameters']},
 'assumptions': ['frames whose first numbered line is above the last numbered line delivered before (or that have no numbered line at all) are not recognisable '
                 'as separate frames by their line numbers: delivered joined or separate, both accepted (the oracle works this out for the frames as delivered); '
                 'an undefined line has no number: it neither makes a frame recognisable nor ends a run of ascending numbers',
                 'at most four undefined (line 0) Teletext lines per frame, none when the demultiplexer may have joined 58 lines already (its frame buffer has 64)',
                 'a frame led by undefined lines whose field parity equals that of the last sliced data unit sent before and with a numbered line not above '
                 'the last numbered line sent before is generated like any other (the dvb_demux.c defect that dropped both frames is repaired, '
                 'regress/C06/lead0-same-field.json); only replay files written while it was open (lead0 without lead0_strict) keep the former guard',
                 'plans without the knob lead0 (older replay files) keep the former canonical form: undefined lines never lead a frame, one closing frame',
                 'the field parity of an undefined line is not checked by the parser (only by the round trip)']}
}
