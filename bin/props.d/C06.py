# configuration of the check for C06 (see bin/props.py)
FRAGMENT = {
 'C06': {'bin': 'w_dvb',
 'world': 'c06',
 'level': 'exploration',
 'quick': {'runs': 60000, 'budget_s': 28, 'workers': 16},
 'thorough': {'runs': 2000000, 'budget_s': 600, 'workers': 16, 'det_sample': 200},
 'level_text': 'seeded exploration of frames (subsets of lines 7-23/320-336 x Teletext/VPS/WSS/caption/raw x payloads, undefined Teletext lines, deliberately invalid '
               'frames) x configurations (data_identifier, PES size range, PES/TS, PID, service mask) x PTS values x callback/coroutine output with planned buffer '
               'sizes x demultiplexer feed partitions; real multiplexer and real demultiplexer under ASan+UBSan; emitted bytes checked by a parser written from '
               'ISO 13818-1 / EN 300 472 / EN 301 775 and by the round trip; sampling, not proof',
 'level_note': 'trusted: the parser and the frame validity rules (taken from the API documentation of vbi_dvb_mux_feed/cor: which frames must be accepted / '
               'rejected; where the documentation and the standard leave the outcome open both are accepted), libzvbi\'s vbi_sliced bit order conventions, clang '
               'sanitizers.  The generator steers around nothing; five dvb_mux.c / dvb_demux.c defects found here are repaired in /repo (regress/C06)',
 'design_ref': 'DESIGN.md section 6 (C06)',
 'rule': 'one evaluation = one simulated run: 1-10 frames (quick) fed to one multiplexer with interleaved configuration changes, every emitted packet parsed, '
         'the byte pipe drained by a transport task in scheduler/plan chosen pieces into the demultiplexer, deliveries compared with the accepted frames; '
         'non-trivial = at least 3 accepted frames and 2 deliveries; distinct = distinct event-log hash',
 'fault_kinds': [],
 'components': {'real': ['src/dvb_mux.c', 'src/dvb_demux.c', 'src/hamm.c (vbi_rev8)', 'src/sampling_par.c'],
                'stub': ['byte pipe between multiplexer and demultiplexer = seeded scheduler over producer / transport tasks',
                         'independent TS/PES/data-unit parser', 'raw VBI image and sampling parameters']},
 'assumptions': ['frames whose first line number is above the last line of the previous frame are not recognisable as separate frames: delivered joined or '
                 'separate, both accepted', 'undefined (line 0) Teletext lines are only generated inside a frame, never leading it, at most four per frame',
                 'the field parity of an undefined line is not checked by the parser (only by the round trip)']}
}
