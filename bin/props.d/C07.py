# configuration of the check for C07 (see bin/props.py)
FRAGMENT = {
 'C07': { 'bin': 'w_c07',
 'world': 'c07',
 'level': 'exploration',
 'quick': {'runs': 60000, 'budget_s': 28, 'workers': 16},
 'thorough': {'runs': 2000000, 'budget_s': 600, 'workers': 16, 'det_sample': 200},
 'level_text': 'seeded exploration of PES and TS streams (encoder written from ISO 13818-1 / EN 300 472 / EN 301 775: frames of Teletext / VPS / WSS / caption lines, '
               'unknown-line Teletext units, frames split over PES packets, stuffing variants, reserved and monochrome data units, PES header variants, foreign '
               'stream ids / PIDs / null, adaptation-only and legally duplicated packets; in some runs the real vbi_dvb_mux makes the PES packets) x damage (see fault '
               'kinds) x partitions into feed calls (single bytes, header straddling sizes, cuts at and around unit boundaries; for short streams every single cut '
               'and a lattice of two-cut partitions is enumerated, through vbi_dvb_demux_reset) x callback / coroutine interface with several sliced-array sizes; '
               'differential against the one-call run of the same bytes through a fresh demultiplexer, delivery / recovery oracle against the frames as sent; real '
               'demultiplexer under ASan+UBSan with exactly sized heap buffers; sampling, not proof',
 'level_note': 'trusted: the stream encoder (mine), the classification of sent frames as must-be-delivered versus exempt (exempt: damaged frames, the frame pending '
               'when damage arrives, the first intact frame after a damaged place, in TS additionally a frame that cannot be told from the remainder of that first '
               'frame once its first PES packet is lost to resynchronisation; in PES streams everything inside the length claimed by a damaged packet header counts '
               'as damaged), clang sanitizers, the edge budget as hang detector.  Arbitrary garbage / bit flips / random streams are only used for the robustness and '
               'partition clauses (they can imitate a start code with a 64 KiB length); the recovery clause is evaluated when the framing patterns 00 00 01 / 0x47 '
               'occur only at genuine unit starts of the final byte stream (verified per run)',
 'design_ref': 'DESIGN.md section 6 (C07)',
 'rule': 'one evaluation = one simulated run: a stream of 2-16 frames (quick; 1-5 in enumeration runs) plus foreign units multiplexed by the seeded scheduler, damaged by '
         '0-4 planned faults, delivered once in one call (reference) and once in pieces chosen by plan and scheduler through the planned interface; non-trivial = at '
         'least 3 frames delivered and at least 4 feed calls; distinct = distinct event-log hash',
 'fault_kinds': ['fault_ts_drop', 'fault_ts_dup', 'fault_ts_swap', 'fault_ts_cc', 'fault_ts_tei', 'fault_ts_scrambled', 'fault_ts_pusi', 'fault_ts_afc', 'fault_ts_trunc',
                 'fault_ts_pid', 'fault_pes_drop', 'fault_pes_dup', 'fault_pes_swap', 'fault_pes_trunc', 'fault_pes_length', 'fault_pes_header', 'fault_du_illegal',
                 'fault_bitflip_du', 'fault_bitflip_any', 'fault_garbage_safe', 'fault_garbage_any', 'fault_foreign', 'fault_random_stream', 'fault_du_flood', 'fault_du_flood_more_than_64_lines'],
 'components': {'real': ['src/dvb_demux.c', 'src/hamm.c (vbi_rev8)', 'src/dvb_mux.c (stream source of ~6% of the runs)'],
                'stub': ['PES/TS stream encoder', 'multiplexer of VBI / foreign sources = seeded scheduler', 'fault injector on stream units',
                         'transport = pipe + task taking pieces of planned size from what the scheduler let the sources produce']},
 'assumptions': ['the frame still pending in the demultiplexer when damage arrives (not yet flushed by its successor) may be lost',
                 'consecutive frames are sent recognisable: the first data unit of a frame is a numbered line not above the last line of the previous frame, or an '
                 'unknown-line unit of the other field (EN 301 775 has no frame delimiter but the PTS)',
                 'a duplicated TS packet (same continuity_counter, next in its PID) is legal input (ISO 13818-1 2.4.3.3), a duplicated PES packet is damage',
                 'the coroutine interface delivers at most max_lines lines of a frame (documented) and cannot show a frame without lines',
                 'generate() steers around three reported defects (out/C07/fix-1..3.diff) until they are repaired (knobs steer, lead_in, ts_min2; set STEER_DEFAULT = 0 '
                 'in worlds/w_c07.cc afterwards): TS streams start with a null packet and damaged TS streams carry no PES packet that fits into one TS packet; '
                 'unknown-line units are used only with the callback interface in TS or fault-free PES runs and never lead a frame in the second field; the PES '
                 'coroutine interface is used in undamaged runs only; the reserved data_unit_id 0x00 and the libzvbi private ids 0xB4-0xB6 are not generated']}
}
