# configuration of the check for C07 (see bin/props.py)
FRAGMENT = {
 'C07': {'wip': True,  # lead: remove when the world is registered
 'bin': 'w_c07',
 'world': 'c07',
 'level': 'exploration',
 'quick': {'runs': 24000, 'budget_s': 28, 'workers': 16},
 'thorough': {'runs': 2000000, 'budget_s': 600, 'workers': 16, 'det_sample': 200},
 'level_text': 'seeded exploration of PES and TS streams (encoder written from ISO 13818-1 / EN 300 472 / EN 301 775: frames, split frames, stuffing '
               'variants, foreign stream ids / PIDs / null and adaptation-only packets) x damage (see fault kinds) x partitions into feed calls (single bytes, '
               'header straddling sizes, cuts at and around packet boundaries; for short streams every single cut and a lattice of two-cut partitions is '
               'enumerated) x callback / coroutine interface; differential against the one-call run of the same bytes, recovery oracle for framed-safe damage; '
               'real demultiplexer under ASan+UBSan with exactly sized heap buffers; sampling, not proof',
 'level_note': 'trusted: the stream encoder (mine), the classification of frames as exempt (the frame pending when the damage arrives, frames overlapping '
               'the damaged byte interval, the first frame wholly after it) versus must-be-delivered, clang sanitizers, the edge budget as hang detector.  '
               'Arbitrary garbage / arbitrary bit flips are only used for the robustness and partition clauses (they can imitate a start code with a 64 KiB length)',
 'design_ref': 'DESIGN.md section 6 (C07)',
 'rule': 'one evaluation = one simulated run: a stream of 2-14 frames (quick) plus foreign units, damaged by 0-4 planned faults, delivered once in one call '
         '(reference) and once in pieces chosen by plan and scheduler through the planned interface; non-trivial = at least 3 frames delivered and at least 4 '
         'feed calls; distinct = distinct event-log hash',
 'fault_kinds': ['fault_ts_drop', 'fault_ts_dup', 'fault_ts_swap', 'fault_ts_cc', 'fault_ts_tei', 'fault_ts_scrambled', 'fault_ts_pusi', 'fault_ts_afc',
                 'fault_pes_trunc', 'fault_pes_length', 'fault_pes_header', 'fault_du_illegal', 'fault_bitflip_du', 'fault_bitflip_any', 'fault_garbage_safe',
                 'fault_garbage_any', 'fault_foreign', 'fault_random_stream'],
 'components': {'real': ['src/dvb_demux.c', 'src/hamm.c (vbi_rev8)'],
                'stub': ['PES/TS stream encoder', 'fault injector on stream units', 'transport = seeded scheduler over source / transport tasks']},
 'assumptions': ['the frame still pending in the demultiplexer when damage arrives (not yet flushed by its successor) may be lost',
                 'duplicated TS packets are treated as damage although ISO 13818-1 permits them']}
}
