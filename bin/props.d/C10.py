# configuration of the check for C10 (see bin/props.py)
FRAGMENT = {
 'C10': {'bin': 'w_c10',
 'world': 'c10',
 'level': 'exploration',
 'quick': {'runs': 120000, 'budget_s': 28, 'workers': 16},
 'thorough': {'runs': 4000000, 'budget_s': 600, 'workers': 16, 'det_sample': 200},
 'level_text': 'seeded exploration of cache operation histories (two parties: a client issuing the history, a holder keeping page references across it; '
               'memory limit set between one page and 1 GiB so that eviction runs; one random run in five is an exactly-full flavour: plain pages, a limit of exactly 1-3 of them, two page numbers that may share a hash chain, many wildcard look-ups) plus a bounded-exhaustive prefix, against a reference map with a '
               'structural audit of the real lists, counters and memory accounting after every call; real cache.c (CACHE_CONSISTENCY=1) and the '
               'channel-switch path of vbi.c under ASan+UBSan; sampling beyond the prefix, not proof',
 'level_note': 'trusted: the reference map and subpage-key rules (written from the statement and EN 300 706 A.1), the list walker, the allocation tracker, '
               'clang sanitizers.  Leniencies: eviction victims are not predicted (any unreferenced page may go while the call is under memory pressure, as long as the '
               'eviction was needed: memory_used + largest victim + room the call needed > limit); '
               'a store that fails under memory pressure is accepted (knob strict_put=0, see out/C10/fix-4.diff); clock pages 23:01-23:59 may be filed '
               'under 0; vbi_cache_hi_subno may be anything between the highest version cached now and the highest ever stored, unchecked for pages that '
               'ever had a subno > 0xFF; foreach is checked for what it visits and that it ends, not for completeness',
 'design_ref': 'DESIGN.md section 6 (C10)',
 'exhaustive_note': 'bounded-exhaustive prefix: all 14^4 = 38416 (quick; thorough 14^5 = 537824) histories over a 14-symbol operation alphabet (store and '
                    'keep / store and release pages A=0x100, B=0x171 [same hash chain], C=0x1AB [hex page]; a second, larger subpage of A; wildcard '
                    'look-up and keep of A, B, C; release oldest / newest reference; channel switch; foreach) are enumerated in blocks of 64 histories, '
                    'each history on a fresh decoder with leak check, under 3 memory limits (one page / about two / unlimited); one run in eight '
                    'executes one block chosen by its seed, i.e. blocks are drawn with replacement: m = counter exh_histories / (3 * 14^depth) is the '
                    'expected number of times each (history, limit) pair was run and 1 - exp(-m) the expected share of the prefix covered (quick tier '
                    'on an idle 16-core machine: 40-60 thousand runs, m = 3-4, 95-98 %; on a loaded machine less - read the counter; thorough tier: '
                    'depth 4 complete with overwhelming probability, depth 5 sampled)',
 'rule': 'one evaluation = one simulated run: either one block of 64 enumerated histories of depth 4 (5), or a random history of 8-118 (20-300) operations '
         'from a per-run sub-alphabet of 7 page numbers x 13 subpage numbers x 11 page functions/size classes (put, get with 5 masks, ref, unref, is_cached, '
         'hi_subno, page-type update, foreach both directions, channel switch both ways, network add/ref/unref) issued by two tasks interleaved by the '
         'seeded scheduler; non-trivial = at least 3 successful stores and 1 look-up hit; distinct = distinct event-log hash',
 'state_note': 'hash of (live pages, replaced-but-held pages, held pages, networks, operation) over the first 12 operations of each run, plus the '
               'interleaving hash of the two tasks',
 'fault_kinds': ['fault_replace_while_held', 'fault_switch_while_held', 'fault_network_drop_while_held', 'fault_late_release_after_network_drop',
                 'fault_memory_pressure', 'fault_page_larger_than_limit', 'fault_put_nonpage'],
 'components': {'real': ['src/cache.c', 'src/vbi.c (vbi_chsw_reset, vbi_channel_switched, vbi_is_cached, vbi_cache_hi_subno)',
                         'src/teletext.c / src/caption.c (channel-switch resets)'],
                'stub': ['page sources = two tasks (client, holder) on the seeded scheduler calling the cache API directly (no Teletext decoding)',
                         'memory limit written into vbi_cache.memory_limit (libzvbi 0.2 has no setter)',
                         'page-type updates written into the page statistics as MIP/BTT reception does']},
 'assumptions': ['memory_limit is poked through cache-priv.h: 0.2 ships a fixed 1 GiB limit, so eviction, victim scans and block reuse are unreachable '
                 'through the public API of this version',
                 'the subpage key of a page follows EN 300 706 A.1 as implemented by the documented store rules (one version for pages without '
                 'subpages and clock pages, subno 0x01-0x79 for pages with subpages, S1 digit for hex pages)']}
}
