# configuration of the check for C01 (see bin/props.py)
FRAGMENT = {
 'C01': {'bin': 'w_c01',
 'world': 'c01',
 'level': 'exploration',
 'quick': {'runs': 30000, 'budget_s': 35, 'workers': 16},
 'thorough': {'runs': 400000, 'budget_s': 900, 'workers': 16, 'det_sample': 100},
 'level_text': 'seeded exploration of broadcaster x viewer histories on one vbi_decoder: frames of 0-40 sliced lines (Teletext Level 1-3.5 pages, POP/GPOP/DRCS/MOT/MIP/BTT/AIT/MPT '
               'tables, EACEM trigger page, 8/30, caption channels 1-8, XDS of every class, ITV triggers, VPS, WSS, CPR-1204, random lines) through a faulty channel and with '
               'broken timestamps, interleaved at frame granularity with the read-side API (fetch at every level, export by every module with random options, region rendering '
               'into exactly sized canvases, print, links, title, classification, search, channel switch, handler changes) and with API calls (the re-entrant subset, and handler registration changes) from inside event callbacks; a third of the Teletext stations transmit the complete TOP navigation set and links point at pages the station really transmits, so that titles, TOP labels and the TOP index are built from received data; '
               'real decoder under ASan+UBSan with live asserts, deterministic edge budget per call, self-deadlock detector, allocator accounting; sampling, not proof',
 'level_note': 'trusted: clang sanitizers, the edge budget as hang detector (2e9 edges per vbi_decode, 3e9 per vbi_search_next - two orders of magnitude above the observed maxima), '
               'the allocator hooks; no functional oracle. Growth bound: bytes held between two frames <= bytes after vbi_decoder_new + 400 kB + 6000 x (distinct (page,subcode) '
               'sent + 2 per channel fault + 1 per random line). Steered around two acknowledged defects by named constants in the world file: AVOID_SEARCH_WRAP_HANG (property C17 '
               'owns the repair) and AVOID_STALE_PAGE_POINTERS (vbi_page keeps unreferenced pointers into the cache; no small fix). Page numbers passed to the API stay in the '
               'documented range 0x100-0x8FF (0x900 for vbi_fetch_vt_page only)',
 'design_ref': 'DESIGN.md section 6 (C01)',
 'rule': 'one evaluation = one simulated run: 15-125 broadcaster operations (each a page transmission, a caption/XDS/ITV burst, VPS/WSS/8-30 repeats, random lines, idle frames or a '
         'timestamp fault; 10-3300 frames), 10-100 viewer operations and 0-40 operations executed inside event callbacks, interleaved by the seeded scheduler; '
         'non-trivial = at least 10 frames decoded and at least one page (Teletext or caption) fetched successfully; distinct = distinct event-log hash',
 'fault_kinds': ['fault_bitflip', 'fault_bitflip2', 'fault_burst', 'fault_byte', 'fault_drop', 'fault_dup', 'fault_reorder', 'fault_wrong_id', 'fault_wrong_line',
                 'fault_random_line', 'fault_xds_malformed', 'fault_ts_repeat', 'fault_ts_backwards', 'fault_ts_jump', 'fault_ts_huge', 'fault_ts_short', 'fault_ts_gap',
                 'fault_ts_zero'],
 'components': {'real': ['src/vbi.c', 'src/packet.c', 'src/teletext.c', 'src/cache.c', 'src/caption.c', 'src/trigger.c', 'src/wss.c', 'src/lang.c', 'src/tables.c',
                         'src/search.c', 'src/ure.c', 'src/export.c', 'src/exp-txt.c', 'src/exp-html.c', 'src/exp-gfx.c', 'src/exp-vtx.c', 'src/exp-templ.c', 'src/conv.c',
                         'src/packet-830.c', 'src/vps.c', 'src/hamm.c', 'src/event.c', 'src/misc.c', 'src/pdc.c', 'src/xds_demux.c'],
                'stub': ['broadcaster task: Teletext/caption/XDS/VPS/WSS transmitter written from the standards, channel fault injector, timestamp faults',
                         'viewer task and callback op queue', 'frame scheduler (seeded)', 'simulated wall clock (gettimeofday wrap)',
                         'mutex self-deadlock detector (pthread_mutex_* wrap)', 'mktime wrap (libc time zone string churn attributed to libc)']},
 'assumptions': ['API arguments stay inside their documented ranges; the quantifier of the statement is over inputs and histories, not over arbitrary API arguments',
                 'one-time process-global allocations (iconv modules pinned by open handles, libpng, gettext, time zone) are made before accounting starts',
                 'vbi_decode is never called from a handler (documented as forbidden)']}
}
