# configuration of the check for C02 (see bin/props.py)
FRAGMENT = {
 'C02': {'bin': 'w_c02', 'world': 'c02', 'level': 'exploration',
  'level_text': 'seeded exploration of magazine multiplex schedules (parallel and serial mode), page/subpage/national-option/erase/update histories and frame packings against a reference page store and an independent Level-1 formatter (EN 300 706 12.2, Table 36); real decoder under ASan+UBSan; sampling, not proof',
  'level_note': 'trusted: my transmitter (Hamming/parity/packet layout from EN 300 706), my Level-1 formatter and national option table, the termination rule of the statement; held-mosaic cells after a size or alpha/mosaic change accept both the standard and the common-practice rendering, but only once a mosaic character of the same row has been displayed (before that the held mosaic is the start-of-row blank under both readings and is compared strictly); row 24 is not compared when it is replaced by the FLOF bar; fault-free channel',
  'design_ref': 'DESIGN.md section 6 (C02)',
  'quick': {'runs': 80000, 'budget_s': 35, 'workers': 16},
  'thorough': {'runs': 600000, 'budget_s': 900, 'workers': 16, 'det_sample': 100},
  'rule': 'one evaluation = one simulated run: up to 8 magazine transmitter tasks with carousels of 5-70 page transmissions (rows in any order or omitted, X/27/0, erase or update, subpages, 8 national options, row styles incl. hold mosaics in effect before the first mosaic of a row) and, in two thirds of the runs, time filling headers xFF in magazines with pages and in otherwise unused magazines (they terminate pages and never are pages; counters filler_headers*), interleaved packet by packet by the seeded scheduler; 1-16 packets per vbi_decode call; non-trivial = at least 3 pages terminated and checked and at least 2 magazine switches; distinct = distinct event-log hash',
  'fault_kinds': [],
  'components': {'real': ['src/vbi.c', 'src/packet.c', 'src/teletext.c', 'src/cache.c', 'src/lang.c', 'src/hamm.c'], 'stub': ['broadcast multiplexer = seeded scheduler over magazine tasks', 'frame packer']},
  'assumptions': ['consistent header text: 24 fixed characters + page number + constant clock', 'no two consecutive headers with the same page number in one magazine (undefined by the statement; such pages are not checked)', 'C5/C6/C7/C10 clear'],
 }
}
