# configuration of the check for C18 (see bin/props.py)
FRAGMENT = {
 'C18': {'bin': 'w_proxy',
 'world': 'c18',
 'level': 'exploration',
 'quick': {'runs': 100000, 'budget_s': 30, 'workers': 16},
 'thorough': {'runs': 600000, 'budget_s': 900, 'workers': 16, 'det_sample': 100},
 'level_text': 'seeded exploration of one simulated universe per run: the real daemon (daemon/proxyd.c main(), select loop or acquisition thread '
               'with deferred cancellation), real proxy-msg.c and 1-5 real proxy-client.c clients as tasks over a simulated kernel (AF_UNIX '
               'stream sockets with bounded buffers 64 B - 64 KiB, select, pipe, clock, alarm/signals, pthread mutex/cond/create/cancel/join) '
               'and a simulated capture device; schedules (random / sticky / PCT at every syscall and pthread operation), connect / read / stall / '
               'service change / close scripts, short send/recv, EINPROGRESS connects, slow readers; in about half of the runs a device task makes '
               'device reads fail as scripted (read returns 0 although select reported the descriptor readable / the blocking read of the '
               'thread variant returns early, or -1 with EIO / EAGAIN / EBUSY; bursts of 1-40 back to back or up to 40 ms apart, between '
               'frames or on a frame that is due, the frame lost in the driver or not), long reads as quiet phases; oracle = per client subsequence of the device '
               'hand-over log (exactly once, in order, timestamp, filtered lines, no gap for a reader that keeps up), grants = direct capture, '
               'a subscribed client is never left a full second (25 frame periods) in one read call without a frame unless a device fault was '
               'planned for that window, white-box queue audit and device-open-iff-subscribed at every quiescent point, daemon heap back to its baseline and one '
               'descriptor left when the last client is gone; sampling, not proof',
 'level_note': 'trusted: the simulated kernel (my model of Linux socket/select/pipe semantics; EINTR is not injected into non-blocking socket '
               'calls), the capture device stub (frames generated per 40 ms of simulated time, grants computed with the library\'s own '
               'vbi_raw_decoder_add_services on a fixed VBI window), the hand-over log as ground truth (only frames a device read returned with > 0 are in it; failed reads '
               'hand nothing over; EINTR / ETIME are not injected at the capture interface because io-v4l2k.c and io-v4l.c retry them internally), clang ASan/UBSan (bounds reports '
               '"index -1" of the VBI_GET_SERVICE_P macro are filtered, see worlds/w_proxy.cc).  Raw (unsliced) services, TCP/IP listening, '
               'syslog and channel flush notifications are not exercised under C18.  Frames captured before a client\'s own service change '
               'and delivered after it are checked for order and uniqueness only',
 'design_ref': 'DESIGN.md section 6 (C18)',
 'rule': 'one evaluation = one simulated run of 0.1-20 simulated seconds: 1-5 clients with scripts of 2-14 operations against one daemon, in about half of the runs a device task with 1-4 bursts of failing reads; '
         'non-trivial = at least 10 frames received in total and at least one client received 5 or more; distinct = distinct event-log hash',
 'fault_kinds': ['fault_short_send', 'fault_short_recv', 'fault_connect_inprogress', 'fault_client_stall', 'fault_dev_read_timeout',
                 'fault_dev_read_eio', 'fault_dev_read_eagain', 'fault_dev_read_ebusy'],
 'state_note': 'hash of the first 24 scheduling decisions of each run plus abstract daemon states at quiescent points (number of connections, '
               'queue depths, service union, per client state / queued frames / token state)',
 'components': {'real': ['daemon/proxyd.c (embedded unmodified, main() renamed)', 'src/proxy-msg.c', 'src/proxy-client.c', 'src/inout.c',
                         'src/raw_decoder.c / decoder.c (service negotiation)'],
                'stub': ['simulated kernel simk/kernel.cc (sockets, select, pipe, vfs, clock, signals, pthreads) behind -Wl,--wrap',
                         'capture device (takes the place of io-v4l2k.c / io-v4l.c via the vbi_capture function table)',
                         'clients\' application code (scripts)']},
 'assumptions': ['a client "keeps up" when it is inside a read call whenever simulated time passes; simulated time only advances when every task is blocked',
                 'service ids of captured lines are matched against the granted set by intersection, as sliced ids are unions of sub-services']}
}
