# configuration of the check for C08 (see bin/props.py)
FRAGMENT = {
 'C08': {'bin': 'w_c08',
 'world': 'c08',
 'level': 'exploration',
 'quick': {'runs': 60000, 'budget_s': 32, 'workers': 16},
 'thorough': {'runs': 2000000, 'budget_s': 900, 'workers': 16, 'det_sample': 200},
 'level_text': 'seeded exploration of caption command histories on up to six of the eight channels x channel/field interleavings (seeded scheduler = the two '
               'field multiplexers, resume codes inserted on every sender change) x field-1 control code doubling (never / always / per code) x decoder joining a '
               'field mid-stream (3 runs in 10: the field opens with the tail of a caption, no mode command seen yet, while the other field is captioned) x '
               'vbi_channel_switched() in the middle of the transmissions (1 run in 6), against my own '
               'EIA-608 / 47 CFR 15.119 decoder model fed with the same byte pairs; the real service decoder (vbi_decode -> caption.c) under ASan+UBSan; all '
               'eight pages fetched after every frame; sampling, not proof',
 'level_note': 'fault-free channel (C08 has no fault clause). GENERATED AND COMPARED: RCL/RU2-4/RDC/TR/RTD, EOC, EDM, ENM, PAC (15 rows, 8 indents, 7 colours, '
               'italics, underline), mid-row codes, the 96 basic and 16 special characters incl. transparent space, 33+ characters per row, BS, DER, TO1-3, CR, '
               'FON, background attributes 10 20-2F and 17 2D (each preceded by the space EIA-608 6.2 requires), fillers, 525 and 625 line numbers. Compared '
               'per cell of rows 1-15 x columns 1-32: character; colour/underline/italic/flash of non-blank cells; background/opacity of caption channels. '
               'Sync points: after a pair ending in a space, a spacing attribute, PAC, CR (roll-up/text), DER, EDM, EOC, TR, a style-changing or shrinking RUx; '
               'NOT after BS, TO, transparent space, RCL/RDC/RTD (caption.c updates word-granularly; the statement allows that). Event clause: >=1 '
               'VBI_EVENT_CAPTION between two sync points at which the compared projection of the model differs. Cross-talk clause: a page that changes in a '
               'frame that did not address its channel must afterwards equal the model completely. LENIENCIES: margin columns 0/33 (room for the legibility space) hold no character and on caption channels may be solid only next to, or formerly next to, a character in column 1 / 32; a cell empty '
               'in the model may be a solid blank when it is/was next to a character (15.119(d) legibility space); attributes of blanks not compared; '
               'attributes of characters written after BS, after CR without PAC (non-default pen), after a PAC/TO into a row that already holds characters are '
               'not compared (15.119(h) vs EIA-608 Annex C.7/C.14); roll-up base row too near the top: window shifted down (Annex C.4). NOT GENERATED '
               '(guard_* counters): extended characters, FA/FAU, colour PACs in Text mode, Text rows >32 characters, BS/DER with the cursor run into column 32, '
               'text before a PAC after EOC, EOC outside pop-on style, roll-up growing above row 1, a leading NUL in a field-2 text pair, identical control '
               'pairs in consecutive field-2 frames, X-filler-X on field 1 (sent doubled); style changes pop-on <-> paint-on/roll-up are preceded by the '
               'erase commands captioning practice uses (knob hygiene=1; with 0 the single-working-copy design of caption.c shows, see report). ORPHAN DATA '
               '(characters, PACs, mid-row and other non-selecting codes a field carries before its first RCL/RU2-4/RDC/TR/RTD/EOC since decoder birth or '
               'since vbi_channel_switched): the model discards them (they act on the channel and style the field\'s last mode command selected - there is '
               'none); pages of the OTHER field stay strictly compared (this catches seeded C08-m6); LENIENCY for the four channels of the SAME field '
               '(DESIGN soft spot (ii), ignored or shown): not compared until their memories were erased by a command (EDM+ENM, erasing style change, TR), '
               'attributes until a PAC / colour code, encoder sends a PAC first (lenient_orphan_same_field counts the skipped comparisons; knob '
               'orphan_strict=1, never generated, removes the leniency). CHANNEL SWITCH: reference = new decoder (documented: "deletion of all cached ... '
               'Closed Caption pages"), all eight pages must be blank after the next frame; no event demanded for that; underline/italic/flash of text '
               'written after the switch without PAC not compared (knob chsw_strict=0; caption.c keeps these three pen attributes across the reset, '
               'reported with replay out/C08/s01-*.json and fix-1.diff). Automatic channel-switch detection by a timestamp gap is not exercised. trusted: the '
               'model, my reading of the standards from memory (text not available offline; every disputed point is a leniency or a guard), clang sanitizers',
 'design_ref': 'DESIGN.md section 6 (C08)',
 'rule': 'one evaluation = one simulated run: 1-6 channel encoder tasks (CC1-4, T1-4) each with 1-4 captions (pop-on / roll-up / paint-on / text, swarm-selected '
         'feature classes, optional unstructured tail; in 3 runs of 10 the channels of one or both fields begin with the tail of a caption whose mode command '
         'the decoder did not see; in 1 run of 6 one or two vbi_channel_switched() calls), byte pairs interleaved by the seeded scheduler, one vbi_decode() '
         'per frame with lines 21+284 (22+335), '
         '8 x vbi_fetch_cc_page per frame; non-trivial = at least 4 page comparisons of which at least 2 against a non-blank model page; distinct = distinct '
         'event-log hash',
 'fault_kinds': ['sched_resume_inserted', 'sched_ctrl_doubled', 'sched_ctrl_single', 'frames_both_fields', 'ref_dedupe', 'ref_window_moved',
                 'ref_window_top_clamped', 'ref_text_scrolled', 'ref_col32_overwrite', 'unaddressed_page_change', 'event_clause_checked',
                 'sched_join_midstream', 'sched_orphan_pair', 'probe_orphan_text_while_other_field_active', 'sched_channel_switch'],
 'components': {'real': ['src/vbi.c (vbi_decode, events)', 'src/caption.c', 'src/lang.c (vbi_caption_unicode)'],
                'stub': ['field multiplexers = seeded scheduler over eight channel encoder tasks (resume codes, doubling, fillers)',
                         'reference EIA-608 decoder model (RefDecoder)']},
 'assumptions': ['EIA-608 / 47 CFR 15.119 read from memory; src/cc608_decoder.c (second decoder in the repository, with citations) consulted as a second '
                 'opinion for triage only',
                 'since decoder birth / channel switch a field may carry any non-selecting data before its first mode command (decoder joined mid-stream); once a '
                 'channel is selected the encoder always selects a style before sending text on another channel (resume code on sender change)']}
}
