# configuration of the check for C11 (see bin/props.py)
FRAGMENT = {
 'C11': {'bin': 'w_c11',
 'world': 'c11',
 'level': 'exploration',
 'quick': {'runs': 400000, 'budget_s': 30, 'workers': 16},
 'thorough': {'runs': 6000000, 'budget_s': 600, 'workers': 16, 'det_sample': 200},
 'level_text': 'seeded exploration of registration histories (register / unregister / legacy add / legacy remove, masks 0, single bits, unions, -1, '
               '2-6 handler identities in four function/user-pointer layouts) x re-entrancy scripts (which handler does what to itself, the next, the '
               'previous, the first, the last or a named handler at its n-th invocation) x event sources (direct vbi_send_event and real sliced data '
               'through vbi_decode: Teletext pages, caption words, XDS, VPS, 8/30 format 1 and 2, WSS, immediate and deferred ITV triggers) against an ordered-list reference model; '
               'in half of the runs a continuous Teletext transmission (page carousels in 1-3 of the 8 magazines, rows that identify page, transmission and row, '
               'erase flag, time-filling headers) runs across every change of the set of TTX_PAGE requesters - packet by packet, so a boundary falls anywhere in a page - '
               'beside handlers for every other event type, against a reference receiver with an acquisition gate (events and cached row text); the '
               'real dispatcher and service decoders under ASan+UBSan; sampling, not proof',
 'level_note': 'trusted: the reference model (written from the statement and the documentation of vbi_event_handler_register), the link-time seam '
               '-Wl,--wrap=vbi_send_event that brackets each raised event (events raised from inside vbi.c by a channel switch are not bracketed and are '
               'avoided: one station, steady timestamps, consistent headers), clang sanitizers.  Accepted either way because the statement is silent: a '
               'handler whose mask is changed while an event is being delivered and whose turn has not come may be called or not; a handler added during '
               'delivery is called zero times or once; a handler removed and registered again during delivery counts as a newly added one; a Teletext page '
               'on air (header .. next header of its magazine that passes) while the set of TTX_PAGE requesters changes - also by a handler running while its header '
               'is decoded - may be dropped, or announced once and cached with exactly those of its own rows that were sent while a handler requested TTX_PAGE '
               '(never a row from the gap, never a row of another page); a page whose header was sent in the gap is never acquired',
 'design_ref': 'DESIGN.md section 6 (C11)',
 'rule': 'one evaluation = one simulated run: one decoder, 2-6 handler identities, 0-8 script entries, 7-45 operations of one or two tasks interleaved '
         'frame by frame by the seeded scheduler (a third of the runs without scripts); every raised event is checked against the model when it is '
         'raised, at every callback and when the delivery ends; every Teletext probe page is looked up right after its transmission; at every Teletext header the '
         'VBI_EVENT_TTX_PAGE raised (or not) and the cached text of the page that ends there are compared with the gated reference receiver, and every page '
         'number transmitted is audited at the end of the run; '
         'non-trivial = at least 2 deliveries reached two or more handlers, at least 5 handler calls, and (when the plan has scripts) at least one '
         'scripted action ran inside a callback; distinct = distinct event-log hash',
 'fault_kinds': ['fault_cb_remove_self', 'fault_cb_remove_next', 'fault_cb_remove_prev', 'fault_cb_remove_later', 'fault_cb_remove_absent',
                 'fault_cb_rereg_self', 'fault_cb_rereg_other', 'fault_cb_mask_change', 'fault_cb_add_new', 'fault_cb_legacy_add',
                 'fault_cb_legacy_remove', 'fault_ttx_flip_api', 'fault_ttx_flip_in_callback', 'fault_ttx_off_midpage', 'fault_ttx_on_midpage'],
 'components': {'real': ['src/vbi.c (vbi_event_handler_register/unregister/add/remove, vbi_event_enable, vbi_send_event, vbi_decode)',
                         'src/packet.c (Teletext acquisition gate, 8/30, VPS)', 'src/caption.c', 'src/wss.c', 'src/trigger.c', 'src/cache.c'],
                'stub': ['re-entrancy script interpreter (handler callbacks)', 'Teletext / caption / XDS / VPS / 8/30 / WSS / ITV trigger transmitters',
                         'link-time bracket around vbi_send_event']},
 'assumptions': ['legacy vbi_event_handler_add matches on the function only: it changes the mask of every registration of that function (each keeps its own '
                 'user pointer and position) or removes them all when the mask is 0, and appends (function, user) only when none matched',
                 'changing the mask of a registered (function, user) pair keeps its position in the call order (documentation of vbi_event_handler_register)',
                 'events are not raised from inside a handler (vbi_decode must not be called from a handler; vbi_send_event is internal)']}
}
