# configuration of the check for C17 (see bin/props.py)
FRAGMENT = {
 'C17': {'bin': 'w_c17',
 'world': 'c17',
 'level': 'exploration',
 'quick': {'runs': 80000, 'budget_s': 32, 'workers': 16},
 'thorough': {'runs': 2000000, 'budget_s': 900, 'workers': 16, 'det_sample': 200},
 'level_text': 'seeded exploration of cache populations (decimal, hexadecimal, subpage, single-version and clock pages over 1-3 magazines, transmitted '
               'as real Teletext through vbi_decode), patterns (literals, literals cut out of cached pages, a generated regular-expression subset; case '
               'folded or not), start positions (a cached page, its neighbours, uncached, wildcard / zero / explicit subpage, 0x100 and 0x8FF edges; contexts '
               'sharing a start page), call histories on long-lived contexts (whole passes run to not-found followed by passes in the same or the opposite '
               'direction, passes left or turned in the middle, cancels), and broadcaster/searcher interleavings (cache updates between vbi_search_next calls) '
               'against a page-store model, the Level-1 formatter of worlds/ttx.h, an independent set-of-positions matcher and a pass model of the documented '
               'semantics of vbi_search_next; every vbi_search_next under an edge budget; real decoder, cache, formatter, search and regex engine under '
               'ASan+UBSan; sampling, not proof',
 'level_note': 'trusted: my transmitter and Level-1 formatter (as in C02), my regex parser/matcher for the generated subset, the pass model (forward: keys '
               '>= start ascending then the rest; backward: keys below the start descending then the rest; a pass after not-found restarts from the start page '
               'of vbi_search_new, in either direction (search.h); a direction change starts a new pass at the last returned page). Lenient where the '
               'statement is silent: hexadecimal pages may be skipped; a match that exists only when "." / a negated class matches the row separator, or '
               'only under one reading of the lower row of double-height text, may or may not be found; the same page may be returned again for a further '
               'occurrence (must lie strictly beyond the previous one); backward passes may visit the start page first or last (or all its subpages first '
               'with a wildcard subpage), but every backward pass from one start page over one cache must follow the same reading, whatever happened before '
               '(oracle:search-start-moved); passes restarted after not-found in a context that changed direction in the middle of a pass may begin at any '
               'page (order, once-per-pass, completeness and not-found still checked); a pass during which the cache changed gets per-return checks only '
               '(page cached, contains a match now, highlight spells a match) plus termination from the change on, the next pass is judged in full again. '
               'NOT from the statement: completeness is waived for regular expressions whose symbols overlap (ure.c first-transition automaton, reported '
               'as a suspected defect)',
 'design_ref': 'DESIGN.md section 6 (C17), section 8 rows 4-5',
 'rule': 'one evaluation = one simulated run: 0-15 page transmissions from a carousel of 1-8 page numbers (0-23 rows from the alphabet "AB ab.+" with '
         'colour / double width / double height / double size attributes, erase or update), 1-3 search contexts (half of them reusing the start page of '
         'the previous one), each either 1-24 vbi_search_next calls with direction changes or a script of 1-6 segments (a whole pass to not-found, at most '
         '40 calls, or 1-4 single calls; direction kept or reversed per segment), optional cancelling progress callback; 60% static cache, 40% interleaved '
         'with the broadcaster packet by packet by the seeded scheduler (passes between two cache updates get the strict order/completeness oracle too); '
         'non-trivial = at least one page found, at least one pass ended with not-found and at least 2 pages cached; distinct = distinct event-log hash',
 'fault_kinds': ['fault_update_between_calls', 'fault_current_page_replaced', 'fault_progress_cancel'],
 'components': {'real': ['src/search.c', 'src/ure.c', 'src/cache.c', 'src/teletext.c', 'src/packet.c', 'src/vbi.c', 'src/lang.c', 'src/hamm.c'],
                'stub': ['broadcaster (Teletext transmitter library worlds/ttx.h, time-filler header terminates every page)',
                         'searcher = scripted API client', 'multiplexing of both = seeded scheduler']},
 'assumptions': ['a page number has one subpage class (hex: S1 0-3; decimal ending in 7: clock page hhmm; other odd: subcode 0000; even: subpages 01-79)',
                 'no X/26, X/27, X/28, MOT/MIP/BTT pages: displayed text equals the Level-1 rendering at every implementation level',
                 'no mosaics, conceal, ESC: "displayed text" is unambiguous; an empty match is not an occurrence',
                 'regex subset: literals, ".", classes and negated classes of literals/ranges, "* + ?", "|", groups, "^" first and "$" last']}
}
