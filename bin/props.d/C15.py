# configuration of the check for C15 (see bin/props.py)
FRAGMENT = {
 'C15': {'bin': 'w_c15',
 'world': 'c15',
 'level': 'exploration',
 'quick': {'runs': 300000, 'budget_s': 30, 'workers': 16},
 'thorough': {'runs': 3000000, 'budget_s': 600, 'workers': 16, 'det_sample': 200},
 'level_text': 'seeded exploration of packet interleavings (selected IDL/PFC sources, foreign addresses/streams, ordinary pages) x block sizes and alignments '
               'x dropped/corrupted packets against payload-level reference lists; encoders written from EN 300 708; real demultiplexers under ASan+UBSan fed '
               'from exactly 42-byte heap buffers; sampling, not proof',
 'level_note': 'trusted: the IDL-A and PFC encoders (mine), the classification of blocks as must/may/must-not be delivered under faults (PFC: a block must be '
               'delivered when every page it touches is undamaged - resynchronisation at the next page header is accepted; IDL: the original copy arriving '
               'intact must be delivered; a gap between consecutive deliveries demands VBI_IDL_DATA_LOST, the flag without a gap is accepted only when a '
               'CRC-corrupted copy reached the demux in between), clang sanitizers.  PFC leniency: when the tail of a page, the next header and the '
               'first packets of the next page up to exactly the expected packet number are all lost, the received continuity sequence has no gap '
               '(PFC packets carry no page identity); blocks assembled from such spliced packets are unspecified and tolerated until the next header '
               '(counter pfc_undetectable_splice, about 1 run in 15000)',
 'design_ref': 'DESIGN.md section 6 (C15)',
 'rule': 'one evaluation = one simulated run: 0-40 IDL packets of the selected address (with repeats), 0-28 PFC blocks (sizes 0-2047, every end alignment) '
         'laid out into pages, foreign IDL/PFC sources and page noise, interleaved packet by packet by the seeded scheduler; faults attached to packets, '
         'IDL also as per-copy fault patterns over a packet and its repeats (original fails its CRC and the announced repeats are lost, etc.); '
         'non-trivial = at least 3 deliveries and more than 10 task switches; distinct = distinct event-log hash',
 'fault_kinds': ['fault_idl_drop', 'fault_idl_crc', 'fault_idl_ham2', 'fault_idl_ham1', 'fault_pfc_drop', 'fault_pfc_ham2', 'fault_pfc_ham1',
                 # compound shapes: a packet announcing a repeat failed its CRC / and the announced repeat never arrived /
                 # and the next readable packet is a fresh one after an earlier delivery (data-lost flag demanded)
                 'idl_crc_on_repeating_packet', 'idl_repeat_lost', 'idl_repeat_lost_then_fresh'],
 'components': {'real': ['src/idl_demux.c', 'src/pfc_demux.c', 'src/hamm.c'],
                'stub': ['Teletext packet multiplexer = seeded scheduler over source tasks',
                         'IDL-A / PFC encoders',
                         'fault injector (drop, CRC, Hamming single/double)']},
 'assumptions': ['CRC convention for implicit continuity index derived algebraically (EN 300 708 text not available offline); payload-level oracle is '
                 'independent of it',
                 'a dummy byte is not appended when the 8th equal byte is the last data byte of a packet']}
}
