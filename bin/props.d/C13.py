# configuration of the check for C13 (see bin/props.py)
FRAGMENT = {
 'C13': {'bin': 'w_c13',
 'world': 'c13',
 'level': 'exploration',
 'quick': {'runs': 300000, 'budget_s': 35, 'workers': 16},
 'thorough': {'runs': 2000000, 'budget_s': 600, 'workers': 16, 'det_sample': 200},
 'level_text': 'seeded exploration of reception histories: carrier tasks (VPS, 8/30 format 1, 8/30 format 2, WSS-625; or XDS network name / call '
               'letter packets in 525-line runs) interleaved line by line into frames by the seeded scheduler x station scripts over unambiguous rows '
               'of the CNI table (switches, back-and-forth, programme and WSS changes, Teletext pages that must stay cached, empty frames) x faults '
               'attached to single receptions, against a reference model of the statement (per-carrier repeat streaks, shared re-announcement '
               'permission, last announced station / aspect, page sets) x handler population (up to four handlers, event masks seeded, registered / re-registered / '
               'removed at script points through both registration APIs) x real re-tunes (station change together with dropped frames, the new station then '
               'transmitting for 50-110 more frames, Teletext pages in all eight magazines); real service decoder under ASan+UBSan; events attributed to the exact line '
               'through link-time wrappers of the per-line entry points; sampling, not proof',
 'level_note': 'trusted: my VPS / 8/30-1 / 8/30-2 / WSS / XDS encoders (EN 300 231, EN 300 706 9.8, EN 300 294, EIA-608; cross-checked once per '
               'process against the library\'s stand-alone decode functions), the CNI table as the definition of station identity, the leniencies '
               'listed in assumptions, clang sanitizers',
 'design_ref': 'DESIGN.md section 6 (C13)',
 'rule': 'one evaluation = one simulated run: 15-85 reception opportunities per carrier (6-30 XDS packets per source), a station script of 6-12 steps, '
         '1-5 lines per vbi_decode() call with timestamps advancing 40 ms (33.4 ms for XDS), a third of the runs fault free; XDS stations: 8 network names x own / '
         'second affiliate / shared call letters or none, a third of the station switches go to an affiliate (same name, other call letters); 60% strict 625-line runs, '
         '15% 625-line runs with dropped frames (from a gap on the oracle is relaxed to fidelity + debounce + memory safety + "old pages gone after a real change" '
         'until the suspected channel switch is visibly over: executed by the decoder, or a change between identified stations confirmed; then strict again), '
         '25% 525-line XDS runs; half of the runs change the handler population: 20% with a complete observer in slot 0 (always NETWORK | NETWORK_ID | TTX_PAGE) '
         'plus clients that come and go, 30% with specialised clients only (one or two event types each; NETWORK / NETWORK_ID / TTX_PAGE listeners come and go; in '
         'a third of these nobody ever listens to NETWORK / NETWORK_ID; 525-line runs keep one NETWORK listener); uncorrectable Hamming faults hit every protected '
         'byte of 8/30 format 1 (designation, initial page) and format 2 (designation, initial page, 13 PDC bytes) with equal probability; '
         'half of the 625-line runs give the stations their own Teletext page header text (one per station, or three services shared by all), a fifth of the '
         'pages are transmitted in magazine serial mode; '
         'non-trivial = at least 20 receptions and (at least one accepted NETWORK event or at least 5 evaluated events); distinct = distinct event-log hash',
 'fault_kinds': ['fault_vps_cni', 'fault_8301_cni', 'fault_8302_cni', 'fault_vps_pil', 'fault_8302_pil', 'fault_8301_time', 'fault_drop',
                 'fault_ham1', 'fault_ham2', 'fault_wss_word', 'fault_wss_parity', 'fault_gap', 'fault_retune', 'fault_handler_change', 'fault_8301_ham1', 'fault_8301_ham2', 'fault_8301_time_offset',
                 'page_header_of_another_station', 'header_switch_network_blank', 'pages_serial_mode',
                 'fault_ham2_designation', 'fault_ham2_initial_page', 'fault_ham2_lci_luf_prf', 'fault_ham2_cni_byte', 'fault_ham2_other_pdc_byte',
                 'fault_xds_deviate', 'fault_xds_parity', 'fault_xds_checksum', 'fault_xds_drop'],
 'components': {'real': ['src/vbi.c', 'src/packet.c', 'src/wss.c', 'src/caption.c', 'src/tables.c', 'src/network-table.h', 'src/packet-830.c',
                         'src/vps.c', 'src/cache.c', 'src/event.c', 'src/hamm.c'],
                'stub': ['broadcast channel = seeded scheduler over carrier tasks + frame packer',
                         'station script (tuner)', 'VPS / 8/30 / WSS / XDS encoders', 'fault injector attached to receptions',
                         'observers wrapped around vbi_decode_vps / _teletext / _caption / _wss_625 (link time, pass-through)']},
 'assumptions': ['stations are table rows whose codes are unique in their column; a received code that is not such a code is not decided (any nuid/name)',
                 'XDS is never mixed with VPS/Teletext/WSS in one run (event.h: "will not combine in real life")',
                 'all stations transmit Teletext with the same header text (header based switch detection is another mechanism)',
                 'debounce is demanded for the carrier whose line raised the event; the other cni_* fields must equal the most recent reception there (or 0 after a blank event)',
                 'after a changed value on any carrier one repeated NETWORK_ID is accepted (shared confirmation counter)',
                 'after a blank NETWORK event (station revoked, vbi_network all zero: the client holds 0 for every carrier) the first reception on EACH '
                 'carrier counts as a changed value: its identifier is announced once more, this is not "announced again while the same value keeps arriving"',
                 'WSS: "several repeats" read as a reception and two identical repeats (no number is documented); anamorphic ratio any value != 1',
                 'VPS PROG_ID: label must have been received before, not necessarily consecutively; 8/30-2 PROG_ID and LOCAL_TIME: fidelity only',
                 'first identification and loss of identification (blank event): cache may or may not be cleared',
                 'XDS: a NETWORK event is accepted for every confirmed change of the (name, call) pair; a call packet in transmission across a decoder reset may be lost',
                 'XDS change clause: station identity = network name + call letters; a NETWORK event is overdue when the name was received three times in a row '
                 'unchanged since name or call letters last changed (the statement gives no deadline, "received again unchanged" would be two) and the call letters '
                 'received last differ from the announced ones (or no call letters were ever received and the names differ); a new name under unchanged call '
                 'letters is not decided',
                 'dropped frames: vbi_decode() documents that a channel switch may eventually be assumed; ONE assumed switch (station revoked, identifiers forgotten and '
                 'announced afresh, cache dropped) is accepted per suspicion, at any later time; the suspicion ends with a blank NETWORK event raised by no reception '
                 '(switch executed) or with the NETWORK event of a confirmed change between two identified stations (the switch that was suspected); a suspicion that '
                 'ends invisibly leaves the run relaxed',
                 '"not announced again" (ASPECT, and the aspect carried by PROG_INFO) is demanded while at least one handler that received the announcement has kept '
                 'that event type registered ever since; without such a witness a fresh announcement is accepted (not demanded); with no ASPECT handler PROG_INFO '
                 'from a WSS line is held to the aspect fidelity / debounce clauses',
                 'station clauses that demand events or a cache content (exactly one NETWORK event per change, NETWORK before NETWORK_ID, pages kept / dropped, '
                 'PROG_INFO repeat, aspect liveness) apply while a handler that has listened to NETWORK since the last NETWORK event (or the start) exists; without one '
                 'the decoder identifies stations and resets its cache unobserved (VPS and XDS are decoded whatever handlers exist): pages count as "may be cached", '
                 'a confirmed non-table identifier may have revoked the station unobserved; fidelity, debounce, from-invalid and quiescence clauses of the observable '
                 'events stay on; when NETWORK / NETWORK_ID are enabled afresh (nobody listened before) every carrier counts as revoked',
                 'an 8/30 packet with an uncorrectable byte outside the fields an event is read from (initial page; format 2 for NETWORK / NETWORK_ID: a PDC byte that '
                 'carries no CNI bit) is undecided: a receiver may use or discard it, the debounce clause is evaluated over both readings; uncorrectable designation, or '
                 'an uncorrectable byte the event is read from (PROG_ID: any of the 13 PDC bytes): no event may come from the packet',
                 'WSS "several identical repeats" are repeats of the station the announcement is made for: receptions before a NETWORK event by which the decoder '
                 'reports that it left an identified station (other station, station revoked, assumed switch; vbi_channel_switched() documents that a switch resets the '
                 'decoding context) do not count, at least three receptions since are demanded; a first identification is no such event, resets the model cannot '
                 'observe (nobody listening to NETWORK, no station identified) leave the count alone',
                 'Teletext header heuristic ("the decoder attempts to detect channel switches automatically"): a rolling header (pages 100-199, any page in serial '
                 'mode) whose text differs from a rolling header received since the last decoder reset the model observed is evidence of another station: a blank '
                 'NETWORK event (station no longer identified; not a network event of the change clause) from that page, the cache dropped, identifiers announced '
                 'afresh and the page itself lost are accepted, silently when no station was identified; after the NETWORK event of a change between identified stations '
                 'the headers seen before are forgotten, so the new station\'s pages are no such evidence (exactly one NETWORK event, its pages stay cached)',
                 'one event = its delivery to the lowest-numbered subscribed handler (which handlers receive it is C11); handler masks change between frames only',
                 'corrupted words never produce CNI 0 and never 0x0DC3 on 8/30-2; WSS subtitle code 11 (reserved) is not transmitted']}
}
