# configuration of the check for C16 (see bin/props.py)
FRAGMENT = {
 'C16': {'bin': 'w_c16',
 'world': 'c16',
 'level': 'fault_enumeration',
 'quick': {'runs': 12000, 'budget_s': 28, 'workers': 16},
 'thorough': {'runs': 400000, 'budget_s': 600, 'workers': 16, 'det_sample': 100},
 'level_text': 'per export: a fault-free pass counts the writes W the export issues to the target (write() for vbi_export_file, fopencookie write function and '
               'fwrite/vfprintf calls for vbi_export_stdio); then fault kinds (short write, write()=0 up to and beyond the retry limit, EINTR, EIO, ENOSPC, '
               'close EINTR x n, close EIO as deferred write error, open EINTR x n / EACCES, cookie write short / 0, fwrite short, vfprintf failure) are attached '
               'to write indices: every index x every kind when the export op is marked "enumerate" (always in part of the runs), a planned subset with first/last '
               'otherwise; pages come out of the real decoder fed by a Teletext broadcaster task and a caption encoder task interleaved with the exporter by the '
               'seeded scheduler; module x random legal option vector from vbi_export_info_enum / vbi_export_option_info_enum; vbi_export_mem sizes 0, 1, '
               'needed-1, needed, needed+1, seeded ones and (sweeps) every size for text/html; enumeration over fault points per sampled page/module/options, not proof',
 'level_note': 'trusted: the in-memory file layer (open/write/close/stat/unlink semantics incl. unlink of an open file, close EINTR leaves the descriptor open, '
               'close EIO = deferred write error losing the last chunk), glibc fopencookie/stdio, libc iconv as the judge of "representable in the target '
               'encoding", vbi_export_alloc as the anchor of the four-way byte comparison (its own repeatability is checked with the heap pre-filled differently), '
               'clang sanitizers.  The pure clauses (text round trip, vbi_print_page_region, region rendering) are invariants on simulation-reached pages only: '
               'no separate search, a miss there is no evidence about the technique',
 'design_ref': 'DESIGN.md section 6 (C16), section 8 row 13',
 'rule': 'one evaluation = one simulated run: 1-5 Teletext pages (Level 1 attributes incl. sizes/boxes/conceal/mosaics, X/26 enhancements, X/27/0, X/28/0, '
         'newsflash/subtitle/suppress-header/inhibit flags), 0-5 caption bursts (roll-up, pop-on, paint-on, text mode, erase, mid-row/special/extended codes), '
         '1-3 exporter ops (export with its fault ops / region render / print) plus 0-2 text option sweeps (control 0/1/2 x format or charset x gfx_chr, every vector over all '
         'four targets and the content clause; also after every export with the text module) scheduled between the transmitted packets; Teletext rows incl. headline rows '
         'and words of mixed size (every size attribute, flash / conceal / box); non-trivial = at least one export compared over '
         'all four targets on a page with >= 20 non-blank cells and more than 5 task switches; distinct = distinct event-log hash',
 'fault_kinds': ['fault_write_short', 'fault_write_zero', 'fault_write_eintr', 'fault_write_eio', 'fault_write_enospc', 'fault_close_eintr', 'fault_close_eio',
                 'fault_open_eintr', 'fault_open_eacces', 'fault_cookie_short', 'fault_cookie_zero_eio', 'fault_cookie_zero_enospc', 'fault_fwrite_short',
                 'fault_vfprintf_fail'],
 'components': {'real': ['src/export.c', 'src/exp-txt.c', 'src/exp-html.c', 'src/exp-gfx.c', 'src/conv.c', 'src/teletext.c', 'src/caption.c', 'src/packet.c',
                         'src/cache.c', 'src/vbi.c', 'src/lang.c', 'libpng/zlib (system)', 'glibc stdio + fopencookie + iconv'],
                'stub': ['file layer: open/write/close/stat/unlink under /zsimfs/ (link-time --wrap, everything else goes to libc)',
                         'fopencookie write function over the same in-memory inodes; fwrite/vfprintf of export.o observed and faulted at link time',
                         'Teletext broadcaster (worlds/ttx.h) and EIA-608 caption encoder tasks',
                         'heap pre-fill hook (makes dependence on uninitialised heap memory deterministic)']},
 'assumptions': ['close() returning EINTR leaves the descriptor open (POSIX leaves it unspecified; the reading under which the retry in export.c is correct)',
                 'exp-vtx.c and exp-templ.c are not registered modules in this build (vbi_export_info_enum lists html, png, ppm, text, xpm) and are not exercised',
                 'DRCS pages are not transmitted: draw_drcs paths are not reached',
                 'for cells covered by a double width/height/size neighbour vbi_print_page_region may print the character or a blank (statement silent)',
                 'text module with control=1/2: ECMA-48 control functions (CSI ... final byte, ESC intermediates final byte) are removed before the comparison; the right '
                 'halves of double width / double size characters (VBI_OVER_TOP / VBI_OVER_BOTTOM) may be left out, printed as the character or as a blank (format.h: they '
                 '"can be safely ignored when scanning the page"; statement silent); every other cell is demanded, with control=0 every cell',
                 'the html module has no content clause in the statement: only the target-independence clauses are checked for it',
                 'write_fd treats a short write and EINTR as fatal: a reported failure is an accepted outcome (probe_short_write_or_eintr_fatal)']}
}
