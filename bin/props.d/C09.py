# configuration of the check for C09 (see bin/props.py)
FRAGMENT = {
 'C09': {'bin': 'w_c09',
 'world': 'c09',
 'level': 'exploration',
 'level_text': 'seeded exploration of multiplex schedules x packet faults (tens of thousands of runs per quick check) against a reference reassembler; both '
               'XDS consumers (vbi_xds_demux and the service decoder path) run real code under ASan+UBSan; sampling, not proof',
 'level_note': 'trusted: the reference reassembler (written from the statement), the simulated field-2 multiplexer, clang sanitizers; payload bytes restricted '
               'to 0x20-0x7F; class/type outside the documented tables and NUL-pad-then-more-payload packets are checked for safety and content but may be '
               'delivered or not',
 'design_ref': 'DESIGN.md section 6 (C09)',
 'quick': {'runs': 40000, 'budget_s': 25, 'workers': 16},
 'thorough': {'runs': 4000000, 'budget_s': 600, 'workers': 16, 'det_sample': 200},
 'rule': 'one evaluation = one simulated run: 1-4 XDS packet sources, a caption source and an idle source multiplexed pair by pair by the seeded scheduler '
         '(continue codes inserted on resumption), faults attached to packets; non-trivial = the reference delivered >= 2 valid packets and >= 1 packet was '
         'interrupted and resumed; distinct = distinct event-log hash',
 'fault_kinds': ['fault_checksum', 'fault_parity', 'fault_nostart', 'fault_midnul', 'fault_noterm', 'fault_restart', 'fault_parity_term'],
 'components': {'real': ['src/xds_demux.c', 'src/caption.c (xds_separator, xds_decoder)', 'src/vbi.c (vbi_decode, events)'],
                'stub': ['field-2 multiplexer = seeded scheduler over source tasks', 'fault injector (parity/checksum/start/terminator/pad)']},
 'assumptions': ['reference reassembler written from the property statement (EIA-608 XDS framing rules)',
                 'payload bytes are 0x20-0x7F as XDS requires; packets with a NUL pad followed by more payload are treated as undetermined for delivery '
                 '(size/safety still checked)']}
}
