# configuration of the check for C09 (see bin/props.py)
FRAGMENT = {
 'C09': {'bin': 'w_c09',
 'world': 'c09',
 'level': 'exploration',
 'level_text': 'seeded exploration of multiplex schedules x packet faults (tens of thousands of runs per quick check) against a reference reassembler; both '
               'XDS consumers (vbi_xds_demux and the service decoder path) run real code under ASan+UBSan; a quarter of the runs transmit a programme guide '
               '(current, future and channel class items repeated round after round, optional programme boundary) and check that programme id number and '
               'name are announced, not only that nothing wrong is announced; two guide runs in five are a station identifying itself by network name and '
               'call letters round after round, with boundaries at which the call letters alone, the name alone or both change, and the station must be '
               'announced (NETWORK / NETWORK_ID) with the new name and call letters; sampling, not proof',
 'level_note': 'trusted: the reference reassembler (written from the statement), the simulated field-2 multiplexer, clang sanitizers; payload bytes restricted '
               'to 0x20-0x7F; class/type outside the documented tables and NUL-pad-then-more-payload packets are checked for safety and content but may be '
               'delivered or not; the announcement clause is bounded liveness with a deliberately loose bound (PROG_INFO carrying the id number / name must have '
               'been raised once the packet was received 4 times while nothing of its class changed and no fault, parity error, undetermined packet or '
               'NETWORK event occurred in that time; the second-occurrence rule needs 2, an id-number change in between 3); length, rating and the other '
               'items are only checked for fidelity, not for being announced; station clause: NETWORK or NETWORK_ID carrying name X and call letters Y must '
               'have been raised once the name packet was received 3 times undisturbed after the last change of name or call letters (the documented rule '
               'needs 2); an announcement of (X, Y) made earlier in the same run of (X, Y) is accepted, and any call letters while a call letters packet is '
               'undetermined',
 'design_ref': 'DESIGN.md section 6 (C09)',
 'quick': {'runs': 300000, 'budget_s': 25, 'workers': 16},
 'thorough': {'runs': 4000000, 'budget_s': 600, 'workers': 16, 'det_sample': 200},
 'rule': 'one evaluation = one simulated run: 1-4 XDS packet sources, a caption source and an idle source multiplexed pair by pair by the seeded scheduler '
         '(continue codes inserted on resumption), faults attached to packets; 1 run in 4 is a programme guide: 2-10 items of the current, future and channel '
         'class repeated 5-8 rounds, optionally a programme boundary with new contents and 5-8 more rounds, sent by one carousel, one carousel per class '
         'or one source per item (counters guide_runs, guide_runs_programme_boundary, live_checks = announcement clause evaluated, '
         'live_checks_other_class_renewed = evaluated while the other programme class changed during the confirmation, live_disturbances, guide_runs_station, net_live_checks / net_live_checks_with_call = station clause evaluated); non-trivial = the reference delivered >= 2 valid packets and >= 1 packet was '
         'interrupted and resumed; distinct = distinct event-log hash',
 'fault_kinds': ['fault_demux_reset', 'fault_checksum', 'fault_parity', 'fault_nostart', 'fault_midnul', 'fault_noterm', 'fault_restart', 'fault_parity_term'],
 'components': {'real': ['src/xds_demux.c', 'src/caption.c (xds_separator, xds_decoder)', 'src/vbi.c (vbi_decode, events)'],
                'stub': ['field-2 multiplexer = seeded scheduler over source tasks', 'fault injector (parity/checksum/start/terminator/pad)']},
 'assumptions': ['reference reassembler written from the property statement (EIA-608 XDS framing rules)',
                 '"announced after the documented repeat" is read as: the announcement must come when the identical packets keep repeating undisturbed '
                 '(an announcement that never comes is a violation); how soon is bounded loosely (4 receptions)',
                 'payload bytes are 0x20-0x7F as XDS requires; packets with a NUL pad followed by more payload are treated as undetermined for delivery '
                 '(size/safety still checked)']}
}
