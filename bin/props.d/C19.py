# configuration of the check for C19 (see bin/props.py)
FRAGMENT = {
 'C19': {'bin': 'w_proxy',
 'world': 'c19',
 'level': 'exploration',
 'quick': {'runs': 60000, 'budget_s': 32, 'workers': 16},
 'thorough': {'runs': 600000, 'budget_s': 900, 'workers': 16, 'det_sample': 100},
 'level_text': 'the C18 universe (real daemon, proxy-msg.c, proxy-client.c over the simulated kernel and capture device) plus 0-4 byte-level '
               'adversary tasks and token clients; adversaries send valid protocol messages (connect, service, token, notify, reclaim confirm, '
               'ioctl, close, pid request, suspend, server-only and unknown types) mutated as planned: illegal / inconsistent length field, '
               'wrong type, out-of-range field values (strict +-127, buffer_count 0/255, raw services, magic / endianness / version, huge '
               'arg_size, any notify flags), bit flips, truncation at any byte followed by silence (up to 70 simulated seconds, beyond the '
               'daemon\'s 60 s connect timeout) or disconnect, trailing garbage, duplicates, random bytes, never reading replies; token clients '
               'request, return, release channel control through the real client API at random priorities; oracles: daemon alive (sanitizers, '
               'asserts, exit, livelock), witnesses keep the full C18 oracle and are never disconnected, connection / descriptor / heap '
               'baseline after everybody left, token exclusivity and asked-for-it over the global order of socket events; sampling, not proof',
 'level_note': 'trusted: as C18, plus my protocol model used to build the valid messages (structures of src/proxy-msg.h) and to parse the '
               'daemon\'s byte streams for the token oracle.  Around a channel flush notification (sent by a token client or an adversary) '
               'frames captured up to 2 s before it may be missing at any client (the daemon discards every queue by design)',
 'design_ref': 'DESIGN.md section 6 (C19)',
 'rule': 'one evaluation = one simulated run: 1-4 clients (witnesses and/or token clients) and 0-4 adversaries with scripts of 2-16 operations; '
         'non-trivial = at least 5 frames received by well-behaved clients and at least one adversary byte sent or token request seen; '
         'distinct = distinct event-log hash',
 'fault_kinds': ['fault_adv_bad_length', 'fault_adv_bad_type', 'fault_adv_bad_field', 'fault_adv_bitflips', 'fault_adv_truncated',
                 'fault_adv_trailing_garbage', 'fault_adv_duplicate', 'fault_adv_random_bytes', 'fault_channel_flush', 'fault_short_send',
                 'fault_short_recv', 'fault_client_stall'],
 'state_note': 'hash of the first 24 scheduling decisions of each run plus abstract daemon states at quiescent points (connections, queue depths, '
               'service union, per client state / queued frames / token state)',
 'components': {'real': ['daemon/proxyd.c (embedded unmodified, main() renamed)', 'src/proxy-msg.c', 'src/proxy-client.c', 'src/inout.c'],
                'stub': ['simulated kernel simk/kernel.cc behind -Wl,--wrap', 'capture device', 'adversary byte generators', 'client scripts']},
 'assumptions': ['a TOKEN_REQ of any content counts as "asked for channel control"',
                 'hand-back events are taken at the moment the daemon has received the message, grants at the moment it sends TOKEN_IND / TOKEN_CNF']}
}
