# configuration of the check for C03 (see bin/props.py)
FRAGMENT = {
 'C03': {'bin': 'w_c02', 'world': 'c03', 'level': 'fault_enumeration',
  'level_text': 'for recorded base transmissions (3-5 pages, headers, rows, X/26, X/27/0, X/28/0, 8/30) EVERY single bit of every protected byte is flipped, one at a time, and the decoder state (page events, set of cached pages, Level 1 and 2.5 rendering of every page) compared with the fault-free twin resp. the twin without that packet; beyond that sampled double-bit, two-byte, burst and drop faults on larger transmissions; exhaustive per base transmission, sampling across transmissions',
  'level_note': 'trusted: protection tags of my transmitter, the differential oracle (the twin is the same decoder without the fault), observables = events + cached set + rendered cells. Uncorrectable header page/subcode/control bytes and mixtures of fault classes are checked for clause 4 (no page under a number never transmitted) and memory safety only; rows of pages carrying X/26 are exempt from the parity-row rule as the statement says',
  'design_ref': 'DESIGN.md section 6 (C03)',
  'quick': {'runs': 4000, 'budget_s': 26, 'workers': 16, 'det_sample': 12},
  'thorough': {'runs': 300000, 'budget_s': 1200, 'workers': 16, 'det_sample': 60},
  'rule': 'one evaluation = one simulated run = one recorded multiplex transmission decoded once fault-free and once per fault; about 1 in 150 runs (1 in 40 thorough) enumerates all single-bit faults of its transmission (counter enumerated_transmissions, counter decodes = number of faulted decodes), the others apply 1-3 sampled faults; non-trivial = the twin cached at least 2 pages and at least one fault was evaluated; distinct = distinct event-log hash',
  'fault_kinds': ['fault_single_bit_protected', 'fault_double_address', 'fault_parity_row', 'fault_parity_header_text', 'fault_drop', 'fault_burst', 'fault_two_bytes', 'fault_two_bits_one_byte', 'enumerated_transmissions'],
  'exhaustive_note': 'single-bit faults: exhaustive over all protected bits of each enumerated base transmission (see counters enumerated_transmissions, fault_single_bit_protected, fault_parity_row)',
  'components': {'real': ['src/vbi.c', 'src/packet.c', 'src/teletext.c', 'src/cache.c', 'src/hamm.c', 'src/lang.c'], 'stub': ['broadcast multiplexer = seeded scheduler over magazine tasks (recorded)', 'bit-error channel']},
  'assumptions': ['differential oracle: equality with the fault-free twin of the same build', 'header text consistent as in C02'],
 }
}
