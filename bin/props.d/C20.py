# configuration of the check for C20 (see bin/props.py)
FRAGMENT = {
 'C20': {'bin': 'w_c20',
 'world': 'c20',
 'variant': 'race',
 'level': 'exploration',
 'quick': {'runs': 25000, 'budget_s': 30, 'workers': 16},
 'thorough': {'runs': 600000, 'budget_s': 900, 'workers': 16, 'det_sample': 100},
 'level_text': 'seeded exploration of thread schedules of the documented cross-thread uses in the race build (library compiled with '
               '-fsanitize-coverage=trace-loads,trace-stores: every load / store of the code under test and every simulated mutex operation is a '
               'preemption point; policies random / sticky / PCT, preemption rate 1/2 ... 1/1000 per access): (a) one task feeding caption '
               'frames through vbi_decode() (pop-on, roll-up, erase commands on both fields, optional fetch from the event handler) against 1-2 '
               'tasks calling vbi_fetch_cc_page() and one calling vbi_channel_switched(); (b) one task calling vbi_raw_decode() on generated '
               'images against two tasks adding / removing / checking services.  Oracles: vector-clock happens-before race detector over the '
               'decoder objects, deadlock detection, and equality of every returned value (fetched page, service set, decoded lines) with a '
               'sequential replay of the same operations in mutex acquisition order; sampling, not proof',
 'level_note': 'trusted: the simulated pthread layer and scheduler (simk/kernel.cc), the race detector (simk/race.cc; 8 byte granules, accesses of '
               'the vbi_decoder / vbi_raw_decoder / vbi3_raw_decoder objects only), memcpy/memset seen through wrapped __asan_mem*; operations '
               'outside the documented list (vbi_raw_decoder_resize, Teletext fetches, vbi_classify_page on caption pages) are not scheduled '
               'concurrently.  Raw images carry Teletext and VPS lines only (io-sim.c\'s caption signal generator has an undefined '
               'double->unsigned conversion, outside this property); a channel switch request must not get lost (functional clause on top of the differential one, runs without Teletext only: the caption decoder must be reset between the vbi_decode() call during which vbi_channel_switched() was invoked and the second call with a regular timestamp after the one during which it returned; dropped frames put the decoder into its 40-frame countdown so that requests meet a running countdown)',
 'design_ref': 'DESIGN.md section 6 (C20)',
 'rule': 'one evaluation = one simulated run: 20-400 caption frames (in half of the runs together with Teletext pages on the same decoder: rolling headers in two magazines, '
         'headers hit by parity errors, headers of another network, dropped frames - the inputs that make the decoding thread take chswcd_mutex and reset the caption decoder itself) '
         'with 5-400 fetches and 0-5 channel switch requests, or 3-30 raw frames with '
         '6-80 service operations; non-trivial = at least 3 foreign operations positioned between acquisitions of the primary task and more than 20 '
         'task switches; distinct = distinct event-log hash',
 'fault_kinds': ['fault_frames_dropped', 'fault_foreign_network_header', 'fault_header_parity_error'],
 'state_note': 'hash of the first 24 scheduling decisions of each run',
 'components': {'real': ['src/caption.c', 'src/vbi.c', 'src/packet.c', 'src/cache.c', 'src/decoder.c', 'src/raw_decoder.c', 'src/bit_slicer.c', 'src/io-sim.c (signal generator for the images)'],
                'stub': ['simulated pthreads + scheduler (simk/kernel.cc)', 'race detector / memory access preemption (simk/race.cc)', 'caption byte stream generator']},
 'assumptions': ['a data race is two accesses to the same 8 byte granule, at least one a write, not ordered by mutex release->acquire edges',
                 'the order of mutex acquisitions decides the linearisation; the sequential replay runs foreign operations right before the primary task\'s n-th acquisition']}
}
