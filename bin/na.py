# Properties not claimed, with the reason.  Entries for properties that have a check in props.py are ignored.
WIP = 'not claimed yet: the simulated world for this property is still being built (see DESIGN.md build order); no verdict is given'
NA = {
 'C04': 'not applicable to deterministic simulation: waveform -> bits is a pure one-shot function of (sampling configuration, image); no schedule, clock, fault or retained state in the quantifier (DESIGN.md section 7)',
 'C05': 'not applicable: memory bounds of one call over all image contents/configurations is a pure function of its input (fuzzing / bounded model checking territory), no fault arrives mid-operation into retained state (DESIGN.md section 7)',
 'C12': 'not applicable: eight stateless codec functions over value ranges (inverse laws, single-bit tolerance) - exhaustive enumeration of pure functions, no state, schedule, time or I/O (DESIGN.md section 7)',
 'C14': 'not applicable: vbi_pil_to_time and the validity windows are pure functions of (PIL, reference time, zone, ambient TZ); the only injectable faults (setenv/strdup ENOMEM) make TZ restoration impossible by construction (DESIGN.md section 7)',
}
for k in ['C01','C02','C03','C06','C07','C08','C10','C11','C13','C15','C16','C17','C18','C19','C20']:
    NA.setdefault(k, WIP)
