// zsim: compiler-inserted callbacks from the code under test
// (-fsanitize-coverage=trace-pc-guard): deterministic step counter used as a
// hang detector, and an edge bitmap used as the reach measure.
#include <unistd.h>

#include <cstdint>
#include <cstdio>
#include <cstring>
#include <vector>

#include "sim.h"

namespace sim {
static uint64_t g_edges = 0;
static uint64_t g_budget_limit = ~0ull;
static char g_opname[128] = "";
static uint32_t g_nguards = 0;
static std::vector<uint8_t>* g_bitmap = nullptr;
static size_t g_covered = 0;
std::function<void()>* g_preempt_hook = nullptr;

void budget_begin(const char* opname, uint64_t max_edges) {
  snprintf(g_opname, sizeof g_opname, "%s", opname);
  g_budget_limit = g_edges + max_edges;
}
void budget_end() { g_budget_limit = ~0ull; }
uint64_t edges_executed() { return g_edges; }
size_t edges_total() { return g_nguards; }
size_t edges_covered() { return g_covered; }
void coverage_bitmap(std::vector<uint8_t>& out) { if (g_bitmap) out = *g_bitmap; else out.clear(); }

static void hang() __attribute__((noreturn));
static void hang() {
  char buf[256];
  int n = snprintf(buf, sizeof buf, "\nZSIM-HANG op=%s edges>%llu\n", g_opname,
                   (unsigned long long)(g_budget_limit));
  if (write(2, buf, (size_t)n)) {}
  _exit(78);
}
}  // namespace sim

extern "C" {
__attribute__((no_sanitize("address", "undefined")))
void __sanitizer_cov_trace_pc_guard_init(uint32_t* start, uint32_t* stop) {
  if (start == stop || *start) return;
  for (uint32_t* x = start; x < stop; x++) *x = ++sim::g_nguards;
  if (!sim::g_bitmap) sim::g_bitmap = new std::vector<uint8_t>();
  sim::g_bitmap->resize(sim::g_nguards + 1, 0);
}

__attribute__((no_sanitize("address", "undefined")))
void __sanitizer_cov_trace_pc_guard(uint32_t* guard) {
  uint32_t g = *guard;
  if (++sim::g_edges > sim::g_budget_limit) sim::hang();
  uint8_t* b = sim::g_bitmap->data();
  if (!b[g]) { b[g] = 1; sim::g_covered++; }
  if (sim::g_preempt_hook) (*sim::g_preempt_hook)();
}
}
