// zsim: deterministic simulation core — plans, run context, tasks, scheduler,
// simulated clock.  See /verif/DESIGN.md section 3 and 4.
#pragma once
#include <ucontext.h>

#include <cstdarg>
#include <cstdint>
#include <functional>
#include <map>
#include <queue>
#include <set>
#include <string>
#include <vector>

#include "alloc.h"
#include "json.h"
#include "rng.h"

namespace sim {

// ---------------------------------------------------------------- plans ----
// A plan is the complete description of one simulated run: knobs (world
// configuration, scheduler policy and seed) and a list of operations.  Every
// operation belongs to a task, has a kind, integer arguments and optionally a
// byte string.  Faults are operations too, or arguments of the operation they
// hit.  Worlds must interpret any sub-list of a plan as a valid plan (values
// are taken modulo what exists) so that ddmin can drop arbitrary operations.
struct Op {
  int task = 0;
  std::string kind;
  std::vector<int64_t> a;
  std::string s;
  int64_t arg(size_t i, int64_t d = 0) const { return i < a.size() ? a[i] : d; }
};

struct Plan {
  std::string world;
  uint64_t seed = 0;  // the run seed it was generated from (informational + sched seed default)
  std::map<std::string, int64_t> knobs;
  std::vector<Op> ops;
  std::vector<int> trace;  // explicit scheduler decisions (optional)

  int64_t knob(const std::string& k, int64_t d = 0) const {
    auto it = knobs.find(k); return it == knobs.end() ? d : it->second;
  }
  Json to_json() const;
  static bool from_json(const Json& j, Plan& p);
};

std::string hex(const std::string& bytes);
std::string unhex(const std::string& h);

// ------------------------------------------------------------ run context --
struct RunCtx {
  // result
  bool failed = false;
  std::string cls;     // violation class, e.g. "oracle:xds-delivery"
  std::string detail;  // human readable
  bool nontrivial = false;
  Fnv log_hash;
  uint64_t events = 0;
  std::map<std::string, int64_t> stats;  // faults fired, probes, counters
  double sim_seconds = 0;
  std::set<uint64_t> states;  // abstract states / interleaving prefixes reached (hashed)
  bool verbose = false;       // print event log lines to stderr
  std::string tier = "quick";

  void fail(const std::string& cls_, const char* fmt, ...) __attribute__((format(printf, 3, 4)));
  void log(const char* fmt, ...) __attribute__((format(printf, 2, 3)));
  void count(const std::string& k, int64_t n = 1) { HarnessScope hs; stats[k] += n; }
  void state(uint64_t h) { HarnessScope hs; if (states.size() < 4096) states.insert(h); }
};

// ---------------------------------------------------------------- worlds ---
struct World {
  virtual ~World() {}
  virtual const char* name() const = 0;      // e.g. "c09"
  virtual const char* property() const = 0;  // e.g. "C09"
  virtual Plan generate(uint64_t run_seed, const std::string& tier) = 0;
  virtual void run(const Plan& plan, RunCtx& ctx) = 0;
  // simplification candidates for one op (smaller / simpler variants); default: shrink ints
  virtual std::vector<Op> simplify(const Op& op);
};
void register_world(World* w);
#define ZSIM_REGISTER_WORLD(T) \
  static struct T##_reg { T##_reg() { ::sim::register_world(new T()); } } T##_reg_instance;

// ---------------------------------------------------------------- tasks ----
struct Task;
enum class Policy { RR_RANDOM = 0, STICKY = 1, PCT = 2 };

class Sched {
 public:
  Sched(RunCtx& ctx, uint64_t sched_seed, Policy pol, int param);
  ~Sched();
  Task* spawn(const std::string& name, std::function<void()> fn, size_t stack = 256 * 1024);
  // Runs until all tasks are done, or nothing can make progress, or max_switches.
  // Returns: 0 all done, 1 deadlock (blocked tasks, no timers), 2 budget exhausted
  int run(uint64_t max_switches = 100000000ull);

  // --- called from inside tasks
  void yield();                 // scheduling point
  void block();                 // block current task until wake()
  void wake(Task* t);
  void sleep_ns(int64_t ns);    // simulated sleep
  Task* current() { return cur_; }
  int current_id();
  bool in_task() { return cur_ != nullptr; }
  void kill_all();              // abandon all unfinished tasks (stacks freed without unwinding)
  void finish_current() __attribute__((noreturn));  // terminate the calling task (exit / pthread_exit / cancellation)
  void set_after_switch(std::function<void()> fn) { after_switch_ = std::move(fn); }  // run in scheduler context after every task switch
  size_t runnable_count();
  void set_before_switch(std::function<void(Task*)> fn) { before_switch_ = std::move(fn); }  // run in scheduler context before a task is resumed

  // --- clock / discrete events
  int64_t now_ns() const { return now_; }
  void set_now(int64_t t) { now_ = t; }
  void at(int64_t when_ns, std::function<void()> fn);  // run fn (in scheduler context) at time
  void set_trace(const std::vector<int>& tr) { trace_ = tr; trace_pos_ = 0; use_trace_ = true; }
  const std::vector<int>& decisions() const { return decisions_; }
  uint64_t switches() const { return switches_; }
  std::vector<Task*>& tasks() { return tasks_; }
  const char* task_name(Task* t);
  int task_id(Task* t);
  bool task_done(Task* t);
  bool task_blocked(Task* t);
  uint64_t interleaving_hash() const { return il_hash_.h; }

 private:
  struct Ev { int64_t at; uint64_t seq; std::function<void()> fn;
    bool operator<(const Ev& o) const { return at != o.at ? at > o.at : seq > o.seq; } };
  Task* pick();
  void switch_to(Task* t);
  static void trampoline(unsigned lo, unsigned hi);
  RunCtx& ctx_;
  uint64_t seed_;
  Policy pol_;
  int param_;
  std::vector<Task*> tasks_;
  Task* cur_ = nullptr;
  Task* last_ = nullptr;
  ucontext_t main_;
  int64_t now_ = 0;
  uint64_t seq_ = 0, switches_ = 0, decisions_n_ = 0;
  std::priority_queue<Ev> evq_;
  std::vector<int> trace_, decisions_;
  size_t trace_pos_ = 0;
  bool use_trace_ = false;
  Fnv il_hash_;
  std::vector<uint64_t> pct_change_;
  std::function<void()> after_switch_;
  std::function<void(Task*)> before_switch_;
};

// --------------------------------------------------- coverage / step budget
// Implemented in cov.cc through -fsanitize-coverage=trace-pc-guard callbacks
// from the code under test.
void budget_begin(const char* opname, uint64_t max_edges);  // arm the hang detector
void budget_end();
uint64_t edges_executed();          // dynamic count since process start
size_t edges_total();               // static number of guards
size_t edges_covered();             // distinct guards hit so far in this process
void coverage_bitmap(std::vector<uint8_t>& out);
extern std::function<void()>* g_preempt_hook;  // optional: called on every edge (race build)

// ------------------------------------------------------------- allocator ---
size_t heap_bytes();  // current allocated bytes (ASan allocator), 0 when unavailable

// the common main()
int zsim_main(int argc, char** argv);

}  // namespace sim
