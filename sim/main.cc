// zsim: common main — run / one / plan / min / replay modes, forked child
// execution with classification of sanitizer/assert/hang deaths, ddmin.
#include <fcntl.h>
#include <signal.h>
#include <sys/time.h>
#include <sys/wait.h>
#include <unistd.h>

#include <algorithm>
#include <cstdarg>
#include <cstdio>
#include <cstdlib>
#include <cstring>

#include "sim.h"

extern "C" {
size_t __sanitizer_get_current_allocated_bytes() __attribute__((weak));
// non-inline so that it is emitted; classify sanitizer deaths by exit code 77
__attribute__((used, visibility("default"))) const char* __asan_default_options() {
  return "exitcode=77:detect_leaks=0:abort_on_error=0:allocator_may_return_null=1:"
         "detect_stack_use_after_return=0:external_symbolizer_path=/usr/bin/llvm-symbolizer-14:"
         "handle_abort=0:print_summary=1:max_malloc_fill_size=4096:malloc_fill_byte=190";
}
// a world binary may supply its own UBSan options (e.g. no stack traces when it filters recoverable reports)
extern const char* zsim_ubsan_options __attribute__((weak));
__attribute__((used, visibility("default"), no_sanitize("address", "undefined"))) const char* __ubsan_default_options() {
  if (&zsim_ubsan_options && zsim_ubsan_options) return zsim_ubsan_options;
  return "print_stacktrace=1:exitcode=77:external_symbolizer_path=/usr/bin/llvm-symbolizer-14";
}
}

namespace sim {

// ------------------------------------------------------------------ util ---
std::string hex(const std::string& b) {
  static const char* d = "0123456789abcdef";
  std::string r;
  r.reserve(b.size() * 2);
  for (unsigned char c : b) { r += d[c >> 4]; r += d[c & 15]; }
  return r;
}
std::string unhex(const std::string& h) {
  std::string r;
  auto v = [](char c) { return c >= '0' && c <= '9' ? c - '0' : c >= 'a' && c <= 'f' ? c - 'a' + 10 : c >= 'A' && c <= 'F' ? c - 'A' + 10 : 0; };
  for (size_t i = 0; i + 1 < h.size(); i += 2) r += (char)(v(h[i]) * 16 + v(h[i + 1]));
  return r;
}

size_t heap_bytes() { return __sanitizer_get_current_allocated_bytes ? __sanitizer_get_current_allocated_bytes() : 0; }

Json Plan::to_json() const {
  Json j = Json::obj();
  j.set("world", world);
  j.set("seed", std::to_string(seed));
  Json k = Json::obj();
  for (auto& kv : knobs) k.set(kv.first, (long long)kv.second);
  j.set("knobs", k);
  Json o = Json::arr();
  for (auto& op : ops) {
    Json e = Json::arr();
    e.push(op.task);
    e.push(op.kind);
    Json a = Json::arr();
    for (auto v : op.a) a.push((long long)v);
    e.push(a);
    if (!op.s.empty()) e.push(hex(op.s));
    o.push(e);
  }
  j.set("ops", o);
  if (!trace.empty()) {
    Json t = Json::arr();
    for (int v : trace) t.push(v);
    j.set("trace", t);
  }
  return j;
}

bool Plan::from_json(const Json& j, Plan& p) {
  if (j.t != Json::OBJ) return false;
  p.world = j.gets("world");
  p.seed = strtoull(j.gets("seed", "0").c_str(), nullptr, 10);
  p.knobs.clear(); p.ops.clear(); p.trace.clear();
  if (const Json* k = j.get("knobs")) for (auto& kv : k->o) p.knobs[kv.first] = kv.second.i;
  if (const Json* o = j.get("ops")) {
    for (auto& e : o->a) {
      if (e.t != Json::ARR || e.a.size() < 3) return false;
      Op op;
      op.task = (int)e.a[0].i;
      op.kind = e.a[1].s;
      for (auto& v : e.a[2].a) op.a.push_back(v.i);
      if (e.a.size() > 3) op.s = unhex(e.a[3].s);
      p.ops.push_back(op);
    }
  }
  if (const Json* t = j.get("trace")) for (auto& v : t->a) p.trace.push_back((int)v.i);
  return true;
}

void RunCtx::fail(const std::string& cls_, const char* fmt, ...) {
  char buf[2048];
  va_list ap; va_start(ap, fmt); vsnprintf(buf, sizeof buf, fmt, ap); va_end(ap);
  HarnessScope hs;
  if (verbose) fprintf(stderr, "  !! FAIL %s: %s\n", cls_.c_str(), buf);
  if (failed) return;
  failed = true; cls = cls_; detail = buf;
}

void RunCtx::log(const char* fmt, ...) {
  char buf[1024];
  va_list ap; va_start(ap, fmt); int n = vsnprintf(buf, sizeof buf, fmt, ap); va_end(ap);
  if (n < 0) n = 0;
  if (n >= (int)sizeof buf) n = sizeof buf - 1;
  log_hash.bytes(buf, (size_t)n);
  log_hash.u64(++events);
  if (verbose) fprintf(stderr, "  [%llu] %s\n", (unsigned long long)events, buf);
}

std::vector<Op> World::simplify(const Op& op) {
  std::vector<Op> r;
  for (size_t i = 0; i < op.a.size(); i++) {
    if (op.a[i] == 0) continue;
    Op z = op; z.a[i] = 0; r.push_back(z);
    if (op.a[i] > 1 || op.a[i] < -1) { Op h = op; h.a[i] = op.a[i] / 2; r.push_back(h); }
    if (op.a[i] > 2) { Op d = op; d.a[i] = op.a[i] - 1; r.push_back(d); }
  }
  return r;
}

static std::vector<World*>& worlds() { static std::vector<World*> w; return w; }
void register_world(World* w) { worlds().push_back(w); }
static World* find_world(const std::string& n) {
  for (World* w : worlds()) if (n == w->name()) return w;
  return nullptr;
}

static double wall() { struct timeval tv; gettimeofday(&tv, nullptr); return tv.tv_sec + tv.tv_usec * 1e-6; }

// ----------------------------------------------------------- result line ---
struct Result {
  bool ok = true;
  std::string cls, detail;
  uint64_t hash = 0;
  bool nontrivial = false;
  std::map<std::string, int64_t> stats;
  double sim_s = 0;
  std::vector<uint64_t> states;
  uint64_t events = 0;
};

static Json result_json(int64_t idx, const Result& r, size_t nops) {
  Json j = Json::obj();
  j.set("idx", (long long)idx);
  j.set("ok", r.ok);
  if (!r.ok) { j.set("cls", r.cls); j.set("detail", r.detail); }
  char hb[32]; snprintf(hb, sizeof hb, "%016llx", (unsigned long long)r.hash);
  j.set("hash", hb);
  j.set("nontrivial", r.nontrivial);
  j.set("ops", (long long)nops);
  j.set("events", (long long)r.events);
  j.set("sim_ms", (long long)(r.sim_s * 1000));
  Json s = Json::obj();
  for (auto& kv : r.stats) s.set(kv.first, (long long)kv.second);
  j.set("stats", s);
  Json st = Json::arr();
  size_t n = 0;
  for (uint64_t h : r.states) { if (n++ >= 64) break; snprintf(hb, sizeof hb, "%llx", (unsigned long long)h); st.push(hb); }
  j.set("states", st);
  return j;
}

static Result run_inproc(World* w, const Plan& p, const std::string& tier, bool verbose) {
  RunCtx ctx;
  ctx.verbose = verbose;
  ctx.tier = tier;
  w->run(p, ctx);
  budget_end();
  Result r;
  r.ok = !ctx.failed; r.cls = ctx.cls; r.detail = ctx.detail;
  r.hash = ctx.log_hash.h; r.nontrivial = ctx.nontrivial; r.stats = ctx.stats;
  r.sim_s = ctx.sim_seconds; r.events = ctx.events;
  r.states.assign(ctx.states.begin(), ctx.states.end());
  return r;
}

// ---------------------------------------------- classification of deaths ---
static std::string basename_of(const std::string& p) {
  size_t s = p.rfind('/'); return s == std::string::npos ? p : p.substr(s + 1);
}

static std::string classify_death(const std::string& err, int status, std::string& detail) {
  size_t p;
  detail.clear();
  if ((p = err.find("ZSIM-HANG op=")) != std::string::npos) {
    size_t e = err.find_first_of(" \n", p + 13);
    detail = err.substr(p, err.find('\n', p) - p);
    return "hang@" + err.substr(p + 13, e - (p + 13));
  }
  if ((p = err.find("ZSIM-FATAL ")) != std::string::npos) {
    size_t e = err.find('\n', p);
    detail = err.substr(p, e - p);
    size_t sp = err.find(' ', p + 11);
    return "fatal:" + err.substr(p + 11, std::min(sp, e) - (p + 11));
  }
  if ((p = err.find("Assertion `")) != std::string::npos) {
    // prog: file:line: func: Assertion `x' failed.
    size_t ls = err.rfind('\n', p); ls = (ls == std::string::npos) ? 0 : ls + 1;
    std::string line = err.substr(ls, err.find('\n', p) - ls);
    detail = line;
    // split by ": "
    std::vector<std::string> parts; size_t a = 0, b;
    while ((b = line.find(": ", a)) != std::string::npos) { parts.push_back(line.substr(a, b - a)); a = b + 2; }
    if (parts.size() >= 2) return "assert@" + basename_of(parts[1]);
    return "assert@?";
  }
  if ((p = err.find("ERROR: AddressSanitizer: ")) != std::string::npos) {
    size_t e = err.find_first_of(" \n", p + 25);
    std::string kind = err.substr(p + 25, e - (p + 25));
    detail = err.substr(p, err.find('\n', p) - p);
    // first frame inside /repo
    size_t q = p;
    std::string where = "?";
    for (int k = 0; k < 40; k++) {
      q = err.find("\n    #", q);
      if (q == std::string::npos) break;
      size_t le = err.find('\n', q + 1);
      std::string fr = err.substr(q + 1, le - q - 1);
      size_t in = fr.find(" in ");
      if (in != std::string::npos && fr.find("/verif/") == std::string::npos && (fr.find("/src/") != std::string::npos || fr.find("/daemon/") != std::string::npos)) {
        size_t fe = fr.find(' ', in + 4);
        where = fr.substr(in + 4, fe - (in + 4));
        detail += " | " + fr.substr(in + 4);
        break;
      }
      q = le - 1;
      if (le == std::string::npos) break;
    }
    return "asan:" + kind + "@" + where;
  }
  if ((p = err.find("runtime error: ")) != std::string::npos) {
    size_t ls = err.rfind('\n', p); ls = (ls == std::string::npos) ? 0 : ls + 1;
    std::string loc = err.substr(ls, p - ls);  // "/repo/src/x.c:12:3: "
    detail = err.substr(ls, err.find('\n', p) - ls);
    // strip trailing ": " and the column
    while (!loc.empty() && (loc.back() == ' ' || loc.back() == ':')) loc.pop_back();
    size_t c = loc.rfind(':');
    if (c != std::string::npos) loc = loc.substr(0, c);
    return "ubsan@" + basename_of(loc);
  }
  if (WIFSIGNALED(status)) { detail = "killed by signal"; return "crash:signal" + std::to_string(WTERMSIG(status)); }
  detail = "unexpected exit";
  return "crash:exit" + std::to_string(WIFEXITED(status) ? WEXITSTATUS(status) : -1);
}

// Run a plan in a forked child; the child's result line comes back through a
// pipe; if the child dies its stderr is classified.
static Result run_forked(World* w, const Plan& p, const std::string& tier, bool verbose, double timeout_s = 120) {
  int pfd[2];
  if (pipe(pfd)) { perror("pipe"); exit(3); }
  char tmpl[] = "/tmp/zsim-err-XXXXXX";
  int efd = mkstemp(tmpl);
  unlink(tmpl);
  fflush(stdout); fflush(stderr);
  pid_t pid = fork();
  if (pid == 0) {
    close(pfd[0]);
    if (!verbose) dup2(efd, 2);
    alarm((unsigned)timeout_s);
    Result r = run_inproc(w, p, tier, verbose);
    std::string line = result_json(0, r, p.ops.size()).str();
    if (write(pfd[1], line.data(), line.size())) {}
    _exit(0);
  }
  close(pfd[1]);
  std::string out; char buf[65536]; ssize_t n;
  while ((n = read(pfd[0], buf, sizeof buf)) > 0) out.append(buf, (size_t)n);
  close(pfd[0]);
  int status = 0;
  waitpid(pid, &status, 0);
  Result r;
  Json j;
  if (WIFEXITED(status) && WEXITSTATUS(status) == 0 && Json::parse(out, j) && j.t == Json::OBJ) {
    r.ok = j.get("ok") && j.get("ok")->b;
    r.cls = j.gets("cls"); r.detail = j.gets("detail");
    r.hash = strtoull(j.gets("hash").c_str(), nullptr, 16);
    r.nontrivial = j.get("nontrivial") && j.get("nontrivial")->b;
    r.events = (uint64_t)j.geti("events");
    if (const Json* s = j.get("stats")) for (auto& kv : s->o) r.stats[kv.first] = kv.second.i;
  } else {
    std::string err;
    lseek(efd, 0, SEEK_SET);
    while ((n = read(efd, buf, sizeof buf)) > 0) err.append(buf, (size_t)n);
    r.ok = false;
    if (WIFSIGNALED(status) && WTERMSIG(status) == SIGALRM) { r.cls = "hang@wallclock"; r.detail = "child exceeded wall-clock backstop"; }
    else r.cls = classify_death(err, status, r.detail);
    if (verbose) fprintf(stderr, "%s\n", err.c_str());
    if (getenv("ZSIM_KEEP_STDERR")) fprintf(stderr, "---- child stderr ----\n%s\n", err.c_str());
  }
  close(efd);
  return r;
}

// ------------------------------------------------------------------ ddmin --
struct Minimizer {
  World* w; std::string tier; std::string target; int tests = 0; int max_tests; double deadline;
  bool fails(const Plan& p) {
    if (tests >= max_tests || wall() > deadline) return false;
    tests++;
    Result r = run_forked(w, p, tier, false, 60);
    return !r.ok && r.cls == target;
  }
  Plan ddmin(Plan p) {
    size_t n = 2;
    while (p.ops.size() >= 2) {
      size_t len = p.ops.size();
      size_t chunk = (len + n - 1) / n;
      bool reduced = false;
      // try complements (remove one chunk)
      for (size_t i = 0; i < len && !reduced; i += chunk) {
        Plan q = p;
        q.ops.erase(q.ops.begin() + (long)i, q.ops.begin() + (long)std::min(len, i + chunk));
        if (fails(q)) { p = q; n = std::max<size_t>(n - 1, 2); reduced = true; }
      }
      if (!reduced) {
        if (chunk == 1) break;
        n = std::min(len, n * 2);
      }
      if (tests >= max_tests || wall() > deadline) break;
    }
    if (p.ops.size() == 1) { Plan q = p; q.ops.clear(); if (fails(q)) p = q; }
    return p;
  }
  Plan simplify_args(Plan p) {
    bool progress = true;
    int rounds = 0;
    while (progress && rounds++ < 4) {
      progress = false;
      for (size_t i = 0; i < p.ops.size(); i++) {
        for (const Op& cand : w->simplify(p.ops[i])) {
          Plan q = p; q.ops[i] = cand;
          if (fails(q)) { p = q; progress = true; break; }
        }
        if (tests >= max_tests || wall() > deadline) return p;
      }
    }
    return p;
  }
};

// ------------------------------------------------------------------- main --
static const char* argval(int argc, char** argv, const char* name, const char* def) {
  for (int i = 0; i + 1 < argc; i++) if (!strcmp(argv[i], name)) return argv[i + 1];
  return def;
}
static bool argflag(int argc, char** argv, const char* name) {
  for (int i = 0; i < argc; i++) if (!strcmp(argv[i], name)) return true;
  return false;
}

static uint64_t run_seed(uint64_t base, int64_t idx) { return splitmix64(base ^ (0x9E3779B97F4A7C15ull * (uint64_t)(idx + 1))); }

int zsim_main(int argc, char** argv) {
  if (argc < 3) {
    fprintf(stderr, "usage: %s <world> run|one|plan|min|replay|list ...\nworlds:", argv[0]);
    for (World* w : worlds()) fprintf(stderr, " %s(%s)", w->name(), w->property());
    fprintf(stderr, "\n");
    return 3;
  }
  setvbuf(stdout, nullptr, _IOLBF, 0);
  World* w = find_world(argv[1]);
  if (!w) { fprintf(stderr, "unknown world %s\n", argv[1]); return 3; }
  std::string mode = argv[2];
  uint64_t seed = strtoull(argval(argc, argv, "--seed", "1"), nullptr, 10);
  std::string tier = argval(argc, argv, "--tier", "quick");
  bool verbose = argflag(argc, argv, "--verbose");

  if (mode == "run") {
    int64_t start = atoll(argval(argc, argv, "--start", "0"));
    int64_t stride = atoll(argval(argc, argv, "--stride", "1"));
    int64_t count = atoll(argval(argc, argv, "--count", "100"));
    double tl = atof(argval(argc, argv, "--time", "0"));
    double t0 = wall();
    for (int64_t k = 0; k < count; k++) {
      int64_t idx = start + k * stride;
      printf("B %lld\n", (long long)idx);
      Plan p = w->generate(run_seed(seed, idx), tier);
      Result r = run_inproc(w, p, tier, false);
      printf("R %s\n", result_json(idx, r, p.ops.size()).str().c_str());
      // after a failed run the process state is suspect (abandoned tasks, statics of the code under test): the driver
      // starts a fresh worker for the remaining indices
      if (!r.ok) break;
      if (tl > 0 && wall() - t0 > tl) break;
    }
    Json c = Json::obj();
    c.set("edges_total", (long long)edges_total());
    c.set("edges_covered", (long long)edges_covered());
    std::vector<uint8_t> bm; coverage_bitmap(bm);
    std::string packed((bm.size() + 7) / 8, '\0');
    for (size_t i = 0; i < bm.size(); i++) if (bm[i]) packed[i / 8] |= (char)(1 << (i % 8));
    c.set("bitmap", hex(packed));
    printf("C %s\n", c.str().c_str());
    return 0;
  }
  if (mode == "plan") {
    int64_t idx = atoll(argval(argc, argv, "--idx", "0"));
    Plan p = w->generate(run_seed(seed, idx), tier);
    printf("%s\n", p.to_json().str().c_str());
    return 0;
  }
  if (mode == "one") {
    int64_t idx = atoll(argval(argc, argv, "--idx", "0"));
    Plan p = w->generate(run_seed(seed, idx), tier);
    Result r = run_forked(w, p, tier, verbose);
    printf("R %s\n", result_json(idx, r, p.ops.size()).str().c_str());
    return r.ok ? 0 : 1;
  }
  if (mode == "min") {
    int64_t idx = atoll(argval(argc, argv, "--idx", "0"));
    std::string out = argval(argc, argv, "--out", "/dev/stdout");
    Plan p = w->generate(run_seed(seed, idx), tier);
    Result r0 = run_forked(w, p, tier, false);
    if (r0.ok) { printf("M {\"reproduced\":false}\n"); return 2; }
    Minimizer m{w, tier, r0.cls, 0, atoi(argval(argc, argv, "--max-tests", "500")),
                wall() + atof(argval(argc, argv, "--max-time", "90"))};
    size_t before = p.ops.size();
    Plan q = m.ddmin(p);
    q = m.simplify_args(q);
    q = m.ddmin(q);
    Result r1 = run_forked(w, q, tier, false);
    if (r1.ok || r1.cls != r0.cls) { q = p; r1 = r0; }
    Json f = Json::obj();
    f.set("property", w->property());
    f.set("world", w->name());
    f.set("tier", tier);
    f.set("class", r1.cls);
    f.set("detail", r1.detail);
    char hb[32]; snprintf(hb, sizeof hb, "%016llx", (unsigned long long)r1.hash);
    f.set("hash", hb);
    f.set("base_seed", std::to_string(seed));
    f.set("idx", (long long)idx);
    f.set("ops_before", (long long)before);
    f.set("ops_after", (long long)q.ops.size());
    f.set("min_tests", m.tests);
    f.set("plan", q.to_json());
    write_file(out, f.str() + "\n");
    Json s = Json::obj();
    s.set("reproduced", true); s.set("cls", r1.cls); s.set("ops_before", (long long)before);
    s.set("ops_after", (long long)q.ops.size()); s.set("tests", m.tests); s.set("detail", r1.detail);
    printf("M %s\n", s.str().c_str());
    return 0;
  }
  if (mode == "minf") {  // minimise the plan of a replay file (e.g. a generated plan with a knob changed by hand)
    if (argc < 4) return 3;
    std::string text; Json j; Plan p;
    if (!read_file(argv[3], text) || !Json::parse(text, j) || !j.get("plan") || !Plan::from_json(*j.get("plan"), p)) { fprintf(stderr, "cannot read %s\n", argv[3]); return 3; }
    std::string out = argval(argc, argv, "--out", "/dev/stdout");
    Result r0 = run_forked(w, p, tier, false);
    if (r0.ok) { printf("M {\"reproduced\":false}\n"); return 2; }
    Minimizer m{w, tier, r0.cls, 0, atoi(argval(argc, argv, "--max-tests", "500")), wall() + atof(argval(argc, argv, "--max-time", "90"))};
    size_t before = p.ops.size();
    Plan q = m.ddmin(p); q = m.simplify_args(q); q = m.ddmin(q);
    Result r1 = run_forked(w, q, tier, false);
    if (r1.ok || r1.cls != r0.cls) { q = p; r1 = r0; }
    Json f = Json::obj();
    f.set("property", w->property()); f.set("world", w->name()); f.set("tier", tier); f.set("class", r1.cls); f.set("detail", r1.detail);
    char hb[32]; snprintf(hb, sizeof hb, "%016llx", (unsigned long long)r1.hash);
    f.set("hash", hb); f.set("idx", (long long)j.geti("idx")); f.set("ops_before", (long long)before); f.set("ops_after", (long long)q.ops.size()); f.set("plan", q.to_json());
    write_file(out, f.str() + "\n");
    printf("M {\"reproduced\":true,\"cls\":\"%s\",\"ops_before\":%zu,\"ops_after\":%zu}\n", r1.cls.c_str(), before, q.ops.size());
    return 0;
  }
  if (mode == "replay") {
    if (argc < 4) return 3;
    std::string text; Json j; Plan p;
    if (!read_file(argv[3], text) || !Json::parse(text, j) || !j.get("plan") || !Plan::from_json(*j.get("plan"), p)) {
      fprintf(stderr, "cannot read replay file %s\n", argv[3]); return 3;
    }
    std::string t = j.gets("tier", tier);
    Result r = run_forked(w, p, t, verbose);
    printf("R %s\n", result_json(j.geti("idx"), r, p.ops.size()).str().c_str());
    std::string want = j.gets("class");
    char hb[32]; snprintf(hb, sizeof hb, "%016llx", (unsigned long long)r.hash);
    bool same = !r.ok && r.cls == want && (r.hash == 0 || j.gets("hash") == hb || strtoull(j.gets("hash").c_str(), nullptr, 16) == 0);
    printf("REPLAY %s class=%s expected=%s\n", r.ok ? "clean" : (same ? "reproduced" : "different"), r.cls.c_str(), want.c_str());
    return r.ok ? 0 : 1;
  }
  fprintf(stderr, "unknown mode %s\n", mode.c_str());
  return 3;
}

}  // namespace sim

int main(int argc, char** argv) { return sim::zsim_main(argc, argv); }
