// zsim: minimal JSON value, parser and writer (plans, replay files, results).
#pragma once
#include <cstdint>
#include <cstdio>
#include <cstdlib>
#include <map>
#include <string>
#include <vector>

namespace sim {

struct Json {
  enum T { NUL, BOOL, INT, STR, ARR, OBJ } t = NUL;
  bool b = false;
  int64_t i = 0;
  std::string s;
  std::vector<Json> a;
  std::vector<std::pair<std::string, Json>> o;  // insertion ordered

  Json() {}
  Json(bool v) : t(BOOL), b(v) {}
  Json(int v) : t(INT), i(v) {}
  Json(unsigned v) : t(INT), i(v) {}
  Json(long v) : t(INT), i(v) {}
  Json(long long v) : t(INT), i(v) {}
  Json(unsigned long v) : t(INT), i((int64_t)v) {}
  Json(unsigned long long v) : t(INT), i((int64_t)v) {}
  Json(const char* v) : t(STR), s(v) {}
  Json(const std::string& v) : t(STR), s(v) {}
  static Json arr() { Json j; j.t = ARR; return j; }
  static Json obj() { Json j; j.t = OBJ; return j; }

  Json& set(const std::string& k, const Json& v) {
    t = OBJ;
    for (auto& kv : o) if (kv.first == k) { kv.second = v; return *this; }
    o.emplace_back(k, v);
    return *this;
  }
  Json& push(const Json& v) { t = ARR; a.push_back(v); return *this; }
  const Json* get(const std::string& k) const {
    for (auto& kv : o) if (kv.first == k) return &kv.second;
    return nullptr;
  }
  int64_t geti(const std::string& k, int64_t d = 0) const {
    const Json* j = get(k); return (j && j->t == INT) ? j->i : (j && j->t == BOOL ? (int64_t)j->b : d);
  }
  std::string gets(const std::string& k, const std::string& d = "") const {
    const Json* j = get(k); return (j && j->t == STR) ? j->s : d;
  }

  static void esc(std::string& out, const std::string& s) {
    out += '"';
    for (unsigned char c : s) {
      switch (c) {
        case '"': out += "\\\""; break;
        case '\\': out += "\\\\"; break;
        case '\n': out += "\\n"; break;
        case '\r': out += "\\r"; break;
        case '\t': out += "\\t"; break;
        default:
          if (c < 0x20 || c >= 0x7f) { char b[8]; snprintf(b, sizeof b, "\\u%04x", c); out += b; }
          else out += (char)c;
      }
    }
    out += '"';
  }
  void dump(std::string& out) const {
    switch (t) {
      case NUL: out += "null"; break;
      case BOOL: out += b ? "true" : "false"; break;
      case INT: out += std::to_string(i); break;
      case STR: esc(out, s); break;
      case ARR:
        out += '[';
        for (size_t k = 0; k < a.size(); k++) { if (k) out += ','; a[k].dump(out); }
        out += ']';
        break;
      case OBJ:
        out += '{';
        for (size_t k = 0; k < o.size(); k++) {
          if (k) out += ',';
          esc(out, o[k].first); out += ':'; o[k].second.dump(out);
        }
        out += '}';
        break;
    }
  }
  std::string str() const { std::string r; dump(r); return r; }

  // ---- parser (accepts what dump() writes plus whitespace; numbers: integers,
  // a fractional part is truncated)
  struct P { const char* p; const char* e; bool ok = true; };
  static void ws(P& p) { while (p.p < p.e && (*p.p == ' ' || *p.p == '\n' || *p.p == '\t' || *p.p == '\r')) p.p++; }
  static Json parse_val(P& p) {
    ws(p);
    Json j;
    if (p.p >= p.e) { p.ok = false; return j; }
    char c = *p.p;
    if (c == '{') {
      p.p++; j.t = OBJ; ws(p);
      if (p.p < p.e && *p.p == '}') { p.p++; return j; }
      while (p.ok) {
        ws(p);
        Json k = parse_val(p);
        if (k.t != STR) { p.ok = false; break; }
        ws(p);
        if (p.p >= p.e || *p.p != ':') { p.ok = false; break; }
        p.p++;
        Json v = parse_val(p);
        j.o.emplace_back(k.s, v);
        ws(p);
        if (p.p < p.e && *p.p == ',') { p.p++; continue; }
        if (p.p < p.e && *p.p == '}') { p.p++; break; }
        p.ok = false;
      }
    } else if (c == '[') {
      p.p++; j.t = ARR; ws(p);
      if (p.p < p.e && *p.p == ']') { p.p++; return j; }
      while (p.ok) {
        j.a.push_back(parse_val(p));
        ws(p);
        if (p.p < p.e && *p.p == ',') { p.p++; continue; }
        if (p.p < p.e && *p.p == ']') { p.p++; break; }
        p.ok = false;
      }
    } else if (c == '"') {
      p.p++; j.t = STR;
      while (p.p < p.e && *p.p != '"') {
        if (*p.p == '\\' && p.p + 1 < p.e) {
          p.p++;
          switch (*p.p) {
            case 'n': j.s += '\n'; break;
            case 'r': j.s += '\r'; break;
            case 't': j.s += '\t'; break;
            case 'u': {
              if (p.p + 4 < p.e) {
                char b[5] = {p.p[1], p.p[2], p.p[3], p.p[4], 0};
                j.s += (char)strtol(b, nullptr, 16);
                p.p += 4;
              }
              break;
            }
            default: j.s += *p.p;
          }
          p.p++;
        } else j.s += *p.p++;
      }
      if (p.p < p.e) p.p++; else p.ok = false;
    } else if (c == 't' && p.e - p.p >= 4) { p.p += 4; j.t = BOOL; j.b = true; }
    else if (c == 'f' && p.e - p.p >= 5) { p.p += 5; j.t = BOOL; j.b = false; }
    else if (c == 'n' && p.e - p.p >= 4) { p.p += 4; j.t = NUL; }
    else {
      char* end = nullptr;
      j.t = INT;
      j.i = strtoll(p.p, &end, 10);
      if (end == p.p) { p.ok = false; return j; }
      p.p = end;
      if (p.p < p.e && (*p.p == '.' || *p.p == 'e' || *p.p == 'E')) {
        while (p.p < p.e && (*p.p == '.' || *p.p == 'e' || *p.p == 'E' || *p.p == '+' || *p.p == '-' || (*p.p >= '0' && *p.p <= '9'))) p.p++;
      }
    }
    return j;
  }
  static bool parse(const std::string& text, Json& out) {
    P p{text.data(), text.data() + text.size()};
    out = parse_val(p);
    return p.ok;
  }
};

static inline bool read_file(const std::string& path, std::string& out) {
  FILE* f = fopen(path.c_str(), "rb");
  if (!f) return false;
  char buf[65536]; size_t n;
  out.clear();
  while ((n = fread(buf, 1, sizeof buf, f)) > 0) out.append(buf, n);
  fclose(f);
  return true;
}
static inline bool write_file(const std::string& path, const std::string& data) {
  FILE* f = fopen(path.c_str(), "wb");
  if (!f) return false;
  size_t n = fwrite(data.data(), 1, data.size(), f);
  return fclose(f) == 0 && n == data.size();
}

}  // namespace sim
