// zsim: allocator observation.  Allocations made while a SutScope is active
// are tracked; at the end of a run the set of live tracked blocks must be
// empty ("every byte released") and the peak is reported ("bounded growth").
#include <cstddef>
#include <cstdint>
#include <cstdio>
#include <cstring>

#include "alloc.h"

extern "C" int __sanitizer_install_malloc_and_free_hooks(void (*malloc_hook)(const volatile void*, size_t),
                                                         void (*free_hook)(const volatile void*)) __attribute__((weak));

namespace sim {
int g_sut_depth = 0;
static const size_t TAB = 1 << 16;  // open addressing, power of two
struct Slot { const volatile void* p; size_t n; };
static Slot g_tab[TAB];
static size_t g_live = 0, g_live_bytes = 0, g_peak_bytes = 0;
static bool g_overflow = false, g_installed = false;

static inline size_t hp(const volatile void* p) { return (size_t)(((uintptr_t)p >> 4) * 0x9E3779B97F4A7C15ull >> 40) & (TAB - 1); }

static void on_malloc(const volatile void* p, size_t n) {
  if (g_sut_depth <= 0 || !p) return;
  if (g_live * 2 >= TAB) { g_overflow = true; return; }
  size_t i = hp(p);
  while (g_tab[i].p && g_tab[i].p != (const volatile void*)1) i = (i + 1) & (TAB - 1);
  g_tab[i].p = p; g_tab[i].n = n;
  g_live++; g_live_bytes += n;
  if (g_live_bytes > g_peak_bytes) g_peak_bytes = g_live_bytes;
}
static void on_free(const volatile void* p) {
  if (!p || g_live == 0) return;
  size_t i = hp(p);
  for (size_t k = 0; k < TAB && g_tab[i].p; k++, i = (i + 1) & (TAB - 1)) {
    if (g_tab[i].p == p) {
      g_live--; g_live_bytes -= g_tab[i].n;
      g_tab[i].p = (const volatile void*)1;  // tombstone
      g_tab[i].n = 0;
      return;
    }
  }
}

void alloc_track_reset() {
  if (!g_installed && __sanitizer_install_malloc_and_free_hooks) {
    __sanitizer_install_malloc_and_free_hooks(on_malloc, on_free);
    g_installed = true;
  }
  memset(g_tab, 0, sizeof g_tab);
  g_live = g_live_bytes = g_peak_bytes = 0;
  g_overflow = false;
  g_sut_depth = 0;
}
bool alloc_track_available() { return g_installed; }
size_t alloc_live_blocks() { return g_live; }
size_t alloc_live_bytes() { return g_live_bytes; }
size_t alloc_peak_bytes() { return g_peak_bytes; }
bool alloc_overflowed() { return g_overflow; }
extern "C" void __asan_describe_address(void*) __attribute__((weak));
void alloc_describe_live() {  // debugging aid: allocation stacks of the blocks still live (stderr)
  int n = 0;
  for (size_t i = 0; i < TAB && n < 8; i++)
    if (g_tab[i].p && g_tab[i].p != (const volatile void*)1) { if (__asan_describe_address) __asan_describe_address((void*)g_tab[i].p); n++; }
}
std::string alloc_live_summary() {
  std::string r;
  int n = 0;
  for (size_t i = 0; i < TAB && n < 6; i++)
    if (g_tab[i].p && g_tab[i].p != (const volatile void*)1) { r += (n ? "," : ""); r += std::to_string(g_tab[i].n); n++; }
  return r;
}
}  // namespace sim
