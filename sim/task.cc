// zsim: cooperative tasks (ucontext coroutines), seeded scheduler, simulated clock.
#include <errno.h>
#include <sys/mman.h>

#include <algorithm>
#include <cstdio>
#include <cstdlib>
#include <cstring>

#include "sim.h"

extern "C" {
void __sanitizer_start_switch_fiber(void** fake_stack_save, const void* bottom, size_t size) __attribute__((weak));
void __sanitizer_finish_switch_fiber(void* fake_stack_save, const void** bottom_old, size_t* size_old) __attribute__((weak));
}

// Fast context switch (x86-64 SysV): swapcontext() makes a sigprocmask system call per switch, which dominated the
// run time of scheduler-heavy worlds (proxy, race build).  Callee-saved registers are pushed on the old stack, the
// stack pointers exchanged.  Build with -DZSIM_UCONTEXT to fall back to ucontext.
#if defined(__x86_64__) && !defined(ZSIM_UCONTEXT)
#define ZSIM_FAST_SWITCH 1
extern "C" void zsim_ctx_switch(void** from_sp, void* to_sp);
__asm__(
    ".text\n"
    ".globl zsim_ctx_switch\n"
    ".type zsim_ctx_switch,@function\n"
    "zsim_ctx_switch:\n"
    "  pushq %rbp\n  pushq %rbx\n  pushq %r12\n  pushq %r13\n  pushq %r14\n  pushq %r15\n"
    "  movq %rsp, (%rdi)\n"
    "  movq %rsi, %rsp\n"
    "  popq %r15\n  popq %r14\n  popq %r13\n  popq %r12\n  popq %rbx\n  popq %rbp\n"
    "  ret\n"
    ".size zsim_ctx_switch,.-zsim_ctx_switch\n");
#endif

namespace sim {

struct Task {
  int id = 0;
  std::string name;
  ucontext_t uc;
  void* sp = nullptr;     // saved stack pointer (fast switch)
  char* stack = nullptr;  // usable region
  size_t stack_size = 0;
  char* map = nullptr;
  size_t map_size = 0;
  std::function<void()> fn;
  enum St { RUNNABLE, BLOCKED, DONE } st = RUNNABLE;
  uint64_t local_step = 0;
  int saved_errno = 0;
  void* fake = nullptr;
  uint64_t prio = 0;
  Sched* sched = nullptr;
};

static const void* g_main_bottom = nullptr;
static size_t g_main_size = 0;

Sched::Sched(RunCtx& ctx, uint64_t sched_seed, Policy pol, int param)
    : ctx_(ctx), seed_(sched_seed), pol_(pol), param_(param) {
  if (pol_ == Policy::PCT) {
    // param = number of priority change points, placed at seeded decision indices
    for (int i = 0; i < param_; i++)
      pct_change_.push_back(hash_mix(seed_, 0xC0FFEE + i) % 2000);
  }
}

Sched::~Sched() { kill_all(); }

void Sched::kill_all() {
  for (Task* t : tasks_) {
    if (t->map) munmap(t->map, t->map_size);
    delete t;
  }
  tasks_.clear();
  cur_ = last_ = nullptr;
  while (!evq_.empty()) evq_.pop();
}

#ifdef ZSIM_FAST_SWITCH
static Task* g_entering = nullptr;
static void* g_main_sp = nullptr;
static void fast_entry() {
  Task* t = g_entering;
  if (__sanitizer_finish_switch_fiber) __sanitizer_finish_switch_fiber(nullptr, &g_main_bottom, &g_main_size);
  t->fn();
  t->st = Task::DONE;
  if (__sanitizer_start_switch_fiber) __sanitizer_start_switch_fiber(nullptr, g_main_bottom, g_main_size);
  zsim_ctx_switch(&t->sp, g_main_sp);
  abort();  // never resumed
}
#endif

void Sched::trampoline(unsigned lo, unsigned hi) {
  Task* t = (Task*)(((uintptr_t)hi << 32) | (uintptr_t)lo);
  if (__sanitizer_finish_switch_fiber) __sanitizer_finish_switch_fiber(nullptr, &g_main_bottom, &g_main_size);
  t->fn();
  t->st = Task::DONE;
  Sched* s = t->sched;
  if (__sanitizer_start_switch_fiber) __sanitizer_start_switch_fiber(nullptr, g_main_bottom, g_main_size);
  swapcontext(&t->uc, &s->main_);
  abort();  // never resumed
}

Task* Sched::spawn(const std::string& name, std::function<void()> fn, size_t stack) {
  Task* t = new Task();
  t->id = (int)tasks_.size();
  t->name = name;
  t->fn = std::move(fn);
  t->sched = this;
  size_t pg = 4096;
  t->map_size = stack + pg;
  t->map = (char*)mmap(nullptr, t->map_size, PROT_READ | PROT_WRITE, MAP_PRIVATE | MAP_ANONYMOUS | MAP_STACK, -1, 0);
  if (t->map == MAP_FAILED) { perror("mmap stack"); abort(); }
  mprotect(t->map, pg, PROT_NONE);
  t->stack = t->map + pg;
  t->stack_size = stack;
  getcontext(&t->uc);
  t->uc.uc_stack.ss_sp = t->stack;
  t->uc.uc_stack.ss_size = t->stack_size;
  t->uc.uc_link = nullptr;
#ifdef ZSIM_FAST_SWITCH
  {
    // initial frame: six zeroed callee-saved registers and the entry address; after the pops and the ret the
    // stack pointer is 8 modulo 16, as at any function entry
    uintptr_t top = ((uintptr_t)t->stack + t->stack_size) & ~(uintptr_t)15;
    uintptr_t* f = (uintptr_t*)(top - 8 * 10);
    for (int i = 0; i < 6; i++) f[i] = 0;
    f[6] = (uintptr_t)&fast_entry;
    f[7] = 0;  // fake return address of fast_entry
    t->sp = f;
  }
#endif
#ifndef ZSIM_FAST_SWITCH
  uintptr_t p = (uintptr_t)t;
  makecontext(&t->uc, (void (*)())trampoline, 2, (unsigned)(p & 0xffffffffu), (unsigned)(p >> 32));
#endif
  t->prio = hash_mix(seed_, 0xA11CE + t->id) | 1;
  tasks_.push_back(t);
  return t;
}

const char* Sched::task_name(Task* t) { return t ? t->name.c_str() : "-"; }
int Sched::task_id(Task* t) { return t ? t->id : -1; }
bool Sched::task_done(Task* t) { return t->st == Task::DONE; }
bool Sched::task_blocked(Task* t) { return t->st == Task::BLOCKED; }
int Sched::current_id() { return cur_ ? cur_->id : -1; }

Task* Sched::pick() {
  Task* r[64];
  size_t n = 0;
  for (Task* t : tasks_)
    if (t->st == Task::RUNNABLE && n < 64) r[n++] = t;
  if (n == 0) return nullptr;
  if (n == 1) return r[0];
  size_t idx;
  if (use_trace_ && trace_pos_ < trace_.size()) {
    idx = (size_t)trace_[trace_pos_++] % n;
  } else {
    uint64_t key = last_ ? hash_mix(hash_mix(seed_, (uint64_t)last_->id + 1), last_->local_step)
                         : hash_mix(seed_, 0x5EED0000 + decisions_n_);
    idx = key % n;
    if (pol_ == Policy::STICKY && last_ && last_->st == Task::RUNNABLE) {
      if ((int)((key >> 33) % 100) < param_)
        for (size_t i = 0; i < n; i++) if (r[i] == last_) idx = i;
    } else if (pol_ == Policy::PCT) {
      for (uint64_t c : pct_change_)
        if (c == decisions_n_ && last_) last_->prio = (last_->prio >> 20) | 1;  // demote
      idx = 0;
      for (size_t i = 1; i < n; i++) if (r[i]->prio > r[idx]->prio) idx = i;
    }
  }
  decisions_n_++;
  if (decisions_.size() < 100000) decisions_.push_back((int)idx);
  return r[idx];
}

void Sched::switch_to(Task* t) {
  cur_ = t;
  switches_++;
  if (switches_ <= 24) il_hash_.u64((uint64_t)t->id);  // schedule-prefix hash (interleaving measure)
  errno = t->saved_errno;
  void* fake = nullptr;
  if (__sanitizer_start_switch_fiber) __sanitizer_start_switch_fiber(&fake, t->stack, t->stack_size);
#ifdef ZSIM_FAST_SWITCH
  g_entering = t;
  zsim_ctx_switch(&g_main_sp, t->sp);
#else
  swapcontext(&main_, &t->uc);
#endif
  if (__sanitizer_finish_switch_fiber) __sanitizer_finish_switch_fiber(fake, nullptr, nullptr);
  t->saved_errno = errno;
  last_ = t;
  cur_ = nullptr;
}

int Sched::run(uint64_t max_switches) {
  for (;;) {
    if (ctx_.failed) return 3;
    if (switches_ >= max_switches) return 2;
    // fire events that are due
    while (!evq_.empty() && evq_.top().at <= now_) {
      auto fn = evq_.top().fn;
      evq_.pop();
      fn();
    }
    Task* t = pick();
    if (!t) {
      if (!evq_.empty()) {
        now_ = std::max(now_, evq_.top().at);
        continue;
      }
      for (Task* x : tasks_) if (x->st != Task::DONE) return 1;
      return 0;
    }
    if (before_switch_) before_switch_(t);
    switch_to(t);
    if (after_switch_) after_switch_();
  }
}

void Sched::yield() {
  Task* t = cur_;
  if (!t) return;
  t->local_step++;
  if (__sanitizer_start_switch_fiber) __sanitizer_start_switch_fiber(&t->fake, g_main_bottom, g_main_size);
#ifdef ZSIM_FAST_SWITCH
  zsim_ctx_switch(&t->sp, g_main_sp);
#else
  swapcontext(&t->uc, &main_);
#endif
  if (__sanitizer_finish_switch_fiber) __sanitizer_finish_switch_fiber(t->fake, &g_main_bottom, &g_main_size);
}

void Sched::finish_current() {
  Task* t = cur_;
  if (!t) { fprintf(stderr, "zsim: finish_current() outside task\n"); abort(); }
  t->st = Task::DONE;
  if (__sanitizer_start_switch_fiber) __sanitizer_start_switch_fiber(nullptr, g_main_bottom, g_main_size);
#ifdef ZSIM_FAST_SWITCH
  zsim_ctx_switch(&t->sp, g_main_sp);
#else
  swapcontext(&t->uc, &main_);
#endif
  abort();  // never resumed
}

size_t Sched::runnable_count() {
  size_t n = 0;
  for (Task* t : tasks_) if (t->st == Task::RUNNABLE) n++;
  return n;
}

void Sched::block() {
  Task* t = cur_;
  if (!t) { fprintf(stderr, "zsim: block() outside task\n"); abort(); }
  t->st = Task::BLOCKED;
  yield();
}

void Sched::wake(Task* t) {
  if (t && t->st == Task::BLOCKED) t->st = Task::RUNNABLE;
}

void Sched::sleep_ns(int64_t ns) {
  Task* t = cur_;
  if (!t) { now_ += ns; return; }
  at(now_ + (ns < 0 ? 0 : ns), [this, t] { wake(t); });
  block();
}

void Sched::at(int64_t when_ns, std::function<void()> fn) {
  evq_.push(Ev{when_ns, ++seq_, std::move(fn)});
}

}  // namespace sim
