// zsim: seeded randomness.  One integer decides everything.
#pragma once
#include <cstdint>
#include <cstring>
#include <string>

namespace sim {

static inline uint64_t splitmix64(uint64_t x) {
  x += 0x9E3779B97F4A7C15ull;
  x = (x ^ (x >> 30)) * 0xBF58476D1CE4E5B9ull;
  x = (x ^ (x >> 27)) * 0x94D049BB133111EBull;
  return x ^ (x >> 31);
}

static inline uint64_t hash_mix(uint64_t a, uint64_t b) {
  return splitmix64(a ^ splitmix64(b + 0x632BE59BD9B4E019ull));
}

static inline uint64_t hash_str(const char* s) {
  uint64_t h = 0xcbf29ce484222325ull;
  for (; *s; ++s) { h ^= (unsigned char)*s; h *= 0x100000001b3ull; }
  return h;
}

// Sequential stream (used for plan generation only; never at run time for
// scheduling, which uses keyed hashes so that removing an op of one task
// does not shift decisions of others).
struct Rng {
  uint64_t s;
  explicit Rng(uint64_t seed = 1) : s(seed) {}
  Rng(uint64_t seed, const char* tag) : s(hash_mix(seed, hash_str(tag))) {}
  uint64_t next() { s += 0x9E3779B97F4A7C15ull; uint64_t x = s;
    x = (x ^ (x >> 30)) * 0xBF58476D1CE4E5B9ull;
    x = (x ^ (x >> 27)) * 0x94D049BB133111EBull;
    return x ^ (x >> 31); }
  // uniform in [0,n)
  uint64_t below(uint64_t n) { return n ? next() % n : 0; }
  int64_t range(int64_t lo, int64_t hi) { return lo + (int64_t)below((uint64_t)(hi - lo + 1)); }
  bool chance(unsigned num, unsigned den) { return below(den) < num; }
  template <class T> const T& pick(const T* arr, size_t n) { return arr[below(n)]; }
  Rng fork(const char* tag) { return Rng(next(), tag); }
};

// Incremental FNV-1a 64 for event logs.
struct Fnv {
  uint64_t h = 0xcbf29ce484222325ull;
  void bytes(const void* p, size_t n) {
    const unsigned char* b = (const unsigned char*)p;
    for (size_t i = 0; i < n; i++) { h ^= b[i]; h *= 0x100000001b3ull; }
  }
  void u64(uint64_t v) { bytes(&v, 8); }
  void str(const std::string& s) { bytes(s.data(), s.size()); u64(s.size()); }
};

}  // namespace sim
