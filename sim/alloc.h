#pragma once
#include <cstddef>
#include <string>
namespace sim {
extern int g_sut_depth;
// RAII: allocations inside are attributed to the system under test
struct SutScope { SutScope() { g_sut_depth++; } ~SutScope() { g_sut_depth--; } };
// RAII: temporarily leave SUT attribution (inside callbacks that run harness code)
struct HarnessScope { int saved; HarnessScope() : saved(g_sut_depth) { g_sut_depth = 0; } ~HarnessScope() { g_sut_depth = saved; } };
void alloc_track_reset();
bool alloc_track_available();
size_t alloc_live_blocks();
size_t alloc_live_bytes();
size_t alloc_peak_bytes();
bool alloc_overflowed();
std::string alloc_live_summary();
void alloc_describe_live();
}
