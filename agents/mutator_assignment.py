#!/usr/bin/env python3
"""Writes ASSIGNMENT.md into each round-N mutator scratch worktree: property text only + rules (nothing from /verif's checks)."""
import json, sys, os, glob
rnd = sys.argv[1] if len(sys.argv) > 1 else '2'
names = sys.argv[2].split(',') if len(sys.argv) > 2 else ['m3', 'm4', 'm5']
props = {json.loads(l)['id']: json.loads(l) for l in open('/verif/properties.jsonl')}
taken = {}
for d in sorted(glob.glob('/verif/seeded/*/')):
    pid = os.path.basename(d[:-1]).split('-')[0]
    t = open(d + 'README.md').readline().strip().lstrip('# ').split('—', 1)[-1].split(' - ', 1)[-1].split(' -- ', 1)[-1].strip()
    taken.setdefault(pid, []).append(t)
for pid in open('/verif/bin/registered.txt').read().split():
    W = f'/tmp/mut{rnd}_{pid}'
    if not os.path.isdir(W): continue
    p = props[pid]
    tk = '\n'.join('  - ' + t for t in taken.get(pid, [])) or '  (none)'
    EXTRA = '' if rnd not in ('3', '4', '5', '6') else ('* Prefer changes whose effect depends on HISTORY or TIMING rather than on a single input: state that survives from an earlier\n'
        '  operation (a stale flag, counter, pointer, cached length, buffer content), an error/early-return path taken earlier that leaves\n'
        '  something half-updated, a particular order of two legal calls, a resource reused after release, a boundary reached only after\n'
        '  several steps (wrap-around, full buffer, n-th repetition), or two cooperating edits in different functions that each look\n'
        '  harmless.  Avoid one-line changes of a constant or comparison operator that a single well-chosen input exposes.\n')
    open(W + '/ASSIGNMENT.md', 'w').write(f"""# Assignment: break property {pid} of libzvbi with realistic source changes

You work ONLY in the git worktree `{W}` (a scratch copy of the zapping-vbi/zvbi repository: libzvbi, a C library
that captures and decodes VBI data — Teletext, Closed Caption, VPS, WSS — with DVB VBI mux/demux, a Teletext page
cache and a proxy daemon).  It is configured and built in-tree (autotools; `make -j4` rebuilds incrementally,
`make check` runs the 19 tests, static library at `src/.libs/libzvbi.a`, daemon at `daemon/`).  Never touch `/repo`
or `/verif` and do not read anything under `/verif`.  There is no network.

## The property

**{pid} — {p['title']}**

{p['statement']}

## What to deliver

{len(names)} independent source changes ("mutations") named {', '.join(names)}, each of which

* breaks the property above (say which clause) in the library/daemon source (`src/`, `daemon/`),
* still compiles without new warnings and still passes `make check` (all 19 tests),
* looks like a plausible maintenance change or slip (tidy-up, refactoring, off-by-one, dropped fix-up, reordered
  statements, wrong mask, missing lock, swapped condition, lost state reset ...) — small, typically 1-15 lines,
* does NOT show up in ordinary use at once: it must need something specific to manifest — a particular
  interleaving, a crash/fault/transmission error at a particular point, a multi-step sequence of operations, an
  unusual-but-legal input, or two cooperating sites that each look fine alone.  Explain exactly what it needs.
{EXTRA}* The {len(names)} changes must differ from one another in mechanism and, if the property has several clauses, in the
  clause they break.  The following mechanisms were already used by someone else — pick different ones:
{tk}

For each mutation `mN` create the directory `{W}/mutations/mN/` containing

* `patch.diff` — `git diff` against HEAD of the worktree (source files only, applies with `git apply` at the root),
* a demonstration: `demo.c` (compiled by
  `cc -w -I{W} -I{W}/src demo.c {W}/src/.libs/libzvbi.a -lpthread -lm -lpng -lz -o demo`; for programs that need
  internal headers include them relative to those -I paths) **or** `demo.sh` (run as `sh mutations/mN/demo.sh` from
  the worktree root; use this form when you need other compile flags, threads, or the daemon binary).  The
  demonstration must exit 0 on the unchanged tree and non-zero with the patch applied (after `make -j4`), print what
  it observed, finish within 60 s, and be deterministic (if it depends on thread timing make it reliable, e.g. by
  forcing the interleaving with sleeps/barriers or by repeating until it shows).
* `README.md` — first line `# {pid} / mN — <one-line title>`, then: the change, the clause broken, what it needs to
  manifest, how to run the demonstration and the observed output without and with the patch.

Work one mutation at a time: edit, `make -j4`, `make check` (must be 19/19 passing: look at the `# PASS/# FAIL`
summary lines of both test directories), build and run the demo (must fail), save `git diff > mutations/mN/patch.diff`,
then `git checkout -- .`, `make -j4`, run the demo again (must pass).  Leave the worktree clean (`git status` shows
only the untracked `mutations/` directory and this file) and built from unchanged sources when you finish.

Your final message: for each mutation one paragraph (file/function changed, clause broken, what it needs to
manifest, demo results with/without).  If you could not produce a working mutation say so plainly rather than
delivering one that does not meet the requirements.
""")
    print(W)
