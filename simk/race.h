// zsim race build: happens-before data-race detector and memory-access preemption for code compiled with
// clang -fsanitize-coverage=trace-loads,trace-stores (every load and store of the code under test calls
// __sanitizer_cov_load*/store*) plus -Wl,--wrap of __asan_memcpy/__asan_memset/__asan_memmove for range accesses.
// FastTrack-style vector clocks: one clock per task, edges from simulated mutex unlock -> lock, cond signal -> wake,
// thread create / exit / join (simk::Kernel::sync_hook); shadow state per 8-byte granule: last write epoch and the
// last read epoch of every task.  DESIGN.md section 3.6.
#pragma once
#include <cstddef>
#include <cstdint>
#include <string>

#include "kernel.h"

namespace simk {

struct RaceReport { bool found = false; std::string what; };

class RaceDetector {
 public:
  static const int MAXT = 12;
  RaceDetector(Kernel& k, uint64_t seed);
  ~RaceDetector();
  void arm();     // start tracking (after single-threaded set-up; earlier accesses happen-before everything)
  void disarm();
  // preemption at memory accesses: a scheduling point with probability 1/every (0 = never)
  void set_preempt(unsigned every) { preempt_every_ = every; }
  // accesses outside [lo,hi) ranges are ignored when at least one range is registered
  void watch(const void* p, size_t n);
  void forget(const void* p, size_t n);  // memory released: forget its history
  RaceReport report;
  uint64_t accesses = 0, preemptions = 0, granules = 0;
  void on_access(const void* addr, size_t size, bool write, const void* pc);
  void on_sync(const char* op, const void* obj, int task);

 private:
  Kernel& k_;
  uint64_t seed_;
  bool armed_ = false;
  unsigned preempt_every_ = 0;
  struct Impl;
  Impl* d_;
};

extern RaceDetector* RD;  // the active detector, null outside

}  // namespace simk
