// zsim simulated kernel — see kernel.h.
#include "kernel.h"

#include <errno.h>
#include <fcntl.h>
#include <pthread.h>
#include <setjmp.h>
#include <signal.h>
#include <stdarg.h>
#include <sys/socket.h>
#include <sys/time.h>
#include <sys/un.h>
#include <unistd.h>

#include <algorithm>
#include <cstdio>
#include <cstdlib>
#include <cstring>

namespace simk {

Kernel* K = nullptr;

static void harness_fatal(const char* what) {
  fprintf(stderr, "\nZSIM-FATAL simk %s\n", what);
  _exit(79);
}

Kernel::Kernel(sim::Sched& s, sim::RunCtx& c, uint64_t fault_seed) : sched(s), ctx(c), fseed(fault_seed) {
  fds_.resize(FD_MAX);
  K = this;
}

Kernel::~Kernel() {
  for (Chan* ch : chans_) delete ch;
  if (K == this) K = nullptr;
}

Chan* Kernel::new_chan(size_t cap) {
  Chan* c = new Chan();
  c->cap = cap;
  chans_.push_back(c);
  return c;
}

Thread& Kernel::thr() {
  sim::Task* t = sched.current();
  if (!t) return outside_;
  return thr_[t];
}
Thread& Kernel::thr_of(sim::Task* t) { return t ? thr_[t] : outside_; }

void Kernel::set_pid(sim::Task* t, int pid, bool is_main) {
  Thread& th = thr_[t];
  th.pid = pid;
  th.is_main = is_main;
}

Fd* Kernel::get(int fd) {
  if (fd < FD_BASE || fd >= FD_MAX) return nullptr;
  Fd* f = &fds_[(size_t)fd];
  return f->kind == FK_FREE ? nullptr : f;
}

int Kernel::alloc_fd(FdKind k) {
  for (int i = FD_BASE; i < FD_MAX; i++) {
    if (fds_[(size_t)i].kind == FK_FREE) {
      fds_[(size_t)i] = Fd();
      fds_[(size_t)i].kind = k;
      fds_[(size_t)i].owner_pid = thr().pid;
      return i;
    }
  }
  errno = EMFILE;
  return -1;
}

int Kernel::make_device_fd(std::function<bool()> readable) {
  int fd = alloc_fd(FK_DEV);
  if (fd >= 0) fds_[(size_t)fd].dev_readable = std::move(readable);
  return fd;
}

void Kernel::free_fd(int fd) { fds_[(size_t)fd] = Fd(); }

int Kernel::open_fds(int pid) {
  int n = 0;
  for (int i = FD_BASE; i < FD_MAX; i++)
    if (fds_[(size_t)i].kind != FK_FREE && (pid < 0 || fds_[(size_t)i].owner_pid == pid)) n++;
  return n;
}

void Kernel::wake_all() {
  std::vector<sim::Task*> w;
  w.swap(waiters_);
  for (sim::Task* t : w) sched.wake(t);
}

void Kernel::wait() {
  sim::Task* t = sched.current();
  if (!t) harness_fatal("blocking call outside a task");
  waiters_.push_back(t);
  sched.block();
}

void Kernel::wait_until(int64_t t_ns) {
  sim::Task* t = sched.current();
  if (!t) harness_fatal("blocking call outside a task");
  sched.at(t_ns, [this, t] { sched.wake(t); });
  waiters_.push_back(t);
  sched.block();
  // remove a stale registration (woken by the timer, not by wake_all)
  waiters_.erase(std::remove(waiters_.begin(), waiters_.end(), t), waiters_.end());
}

void Kernel::run_pending_signals() {
  Thread& th = thr();
  while (th.pending & ~th.blocked_sigs) {
    uint32_t p = th.pending & ~th.blocked_sigs;
    int signo = __builtin_ctz(p);
    th.pending &= ~(1u << signo);
    auto hp = handlers.find(th.pid);
    void (*h)(int) = nullptr;
    if (hp != handlers.end()) { auto it = hp->second.find(signo); if (it != hp->second.end()) h = it->second; }
    if (h && h != SIG_IGN && h != SIG_DFL) { ctx.log("signal %d handled by pid %d", signo, th.pid); count("signals_delivered"); h(signo); }
  }
}

void Kernel::enter(const char* what) {
  if (!sched.current()) return;
  static int ktrace = getenv("ZSIM_KTRACE") ? 1 : 0;
  if (ktrace) fprintf(stderr, "    k: %s %s t=%lld\n", sched.task_name(sched.current()), what, (long long)now_ns());
  if (yield_on_syscall) sched.yield();
  // POSIX cancellation points act on a pending (deferred) cancellation request when they are entered
  if (what[0] == '!') cancel_point();
}

bool Kernel::cancel_point() {
  Thread& th = thr();
  if (sched.current() && th.cancel_pending && th.cancel_enabled) do_cancel();
  return false;
}

void Kernel::post_signal(int pid, int signo) {
  for (auto& kv : thr_) {
    if (kv.second.pid == pid && kv.second.is_main && !kv.second.exited) {
      kv.second.pending |= 1u << signo;
      wake_all();
      return;
    }
  }
}

bool Kernel::sim_path(const char* p) {
  return p && (!strncmp(p, "/dev/simvbi", 11) || !strncmp(p, "/tmp/vbiproxy-dev-simvbi", 24));
}

// ------------------------------------------------------------- sockets ----
int Kernel::sys_socket(int domain, int type, int) {
  if (domain != AF_UNIX || (type & 0xF) != SOCK_STREAM) { errno = EAFNOSUPPORT; return -1; }
  return alloc_fd(FK_SOCK_NEW);
}

int Kernel::sys_bind(int fd, const char* path) {
  Fd* f = get(fd);
  if (!f || f->kind != FK_SOCK_NEW) { errno = EINVAL; return -1; }
  if (vfs.count(path)) { errno = EADDRINUSE; return -1; }
  Node n; n.mode = S_IFSOCK | 0755;
  vfs[path] = n;
  f->path = path;
  return 0;
}

int Kernel::sys_listen(int fd, int backlog) {
  Fd* f = get(fd);
  if (!f || f->kind != FK_SOCK_NEW || f->path.empty()) { errno = EINVAL; return -1; }
  f->kind = FK_SOCK_LISTEN;
  f->backlog_max = backlog < 1 ? 1 : backlog;
  vfs[f->path].listen_fd = fd;
  return 0;
}

int Kernel::sys_connect(int fd, const char* path) {
  Fd* f = get(fd);
  if (!f || f->kind != FK_SOCK_NEW) { errno = EISCONN; return -1; }
  auto it = vfs.find(path);
  if (it == vfs.end()) { errno = ENOENT; return -1; }
  Fd* l = get(it->second.listen_fd);
  if (!l || l->kind != FK_SOCK_LISTEN) { errno = ECONNREFUSED; count("connect_refused"); return -1; }
  if ((int)l->backlog.size() >= l->backlog_max) { errno = EAGAIN; count("connect_backlog_full"); return -1; }
  int sfd = alloc_fd(FK_SOCK_STREAM);
  if (sfd < 0) return -1;
  f = get(fd); l = get(it->second.listen_fd);  // (vector not resized, but be explicit)
  Fd* s = get(sfd);
  s->owner_pid = l->owner_pid;
  Chan* c2s = new_chan(sock_cap);
  Chan* s2c = new_chan(sock_cap);
  f->kind = FK_SOCK_STREAM; f->in = s2c; f->out = c2s; f->path = path;
  s->in = c2s; s->out = s2c; s->path = path;
  l->backlog.push_back(sfd);
  wake_all();
  if (f->nonblock && connect_inprogress_pct > 0 && (int)(fkey(0xC0, (uint64_t)fd * 131 + l->nread++) % 100) < connect_inprogress_pct) {
    f->connecting = true;
    f->connect_done_ns = now_ns() + 1000 * (int64_t)(fkey(0xC1, (uint64_t)fd) % 5000);
    int64_t when = f->connect_done_ns;
    sched.at(when, [this] { wake_all(); });
    count("fault_connect_inprogress");
    errno = EINPROGRESS;
    return -1;
  }
  return 0;
}

int Kernel::sys_accept(int fd) {
  for (;;) {
    Fd* l = get(fd);
    if (!l || l->kind != FK_SOCK_LISTEN) { errno = EINVAL; return -1; }
    if (!l->backlog.empty()) {
      int s = l->backlog.front();
      l->backlog.pop_front();
      if (io_hook) { IoEvent e{"accept", fd, l->tag, thr().pid, nullptr, 0, (long)s, 0}; io_hook(e); }
      return s;
    }
    if (l->nonblock) { errno = EAGAIN; return -1; }
    thr().at_cancel_point = true; wait(); thr().at_cancel_point = false;
    cancel_point();
  }
}

long Kernel::sys_send(int fd, const void* buf, size_t n, const char* op) {
  for (;;) {
    Fd* f = get(fd);
    if (!f) { errno = EBADF; return -1; }
    if (f->kind != FK_SOCK_STREAM && f->kind != FK_PIPE_W) { errno = f->kind == FK_SOCK_NEW ? ENOTCONN : EBADF; return -1; }
    if (f->connecting) {
      if (now_ns() < f->connect_done_ns) { if (f->nonblock) { errno = EAGAIN; return -1; } wait_until(f->connect_done_ns); continue; }
      f->connecting = false;
    }
    Chan* c = f->out;
    if (c->rd_closed) { errno = EPIPE; count("epipe"); return -1; }
    uint64_t k = f->nwrite++;
    if (!f->nonblock && eintr_pct > 0 && (int)(fkey(0xE1, (uint64_t)fd * 1000003 + k) % 100) < eintr_pct) { count("fault_send_eintr"); errno = EINTR; return -1; }
    size_t room = c->cap > c->q.size() ? c->cap - c->q.size() : 0;
    if (room == 0 || n == 0) {
      if (n == 0) return 0;
      if (f->nonblock) { errno = EAGAIN; count("send_eagain"); return -1; }
      thr().at_cancel_point = true; wait(); thr().at_cancel_point = false;
      cancel_point();
      continue;
    }
    size_t m = std::min(n, room);
    if (m < n) count("send_partial");
    if (m > 1 && short_io_pct > 0 && (int)(fkey(0xE2, (uint64_t)fd * 1000003 + k) % 100) < short_io_pct) {
      m = 1 + (size_t)(fkey(0xE3, (uint64_t)fd * 1000003 + k) % (m - 1));
      count("fault_short_send");
    }
    const uint8_t* b = (const uint8_t*)buf;
    for (size_t i = 0; i < m; i++) c->q.push_back(b[i]);
    c->total += m;
    if (io_hook) { IoEvent e{op, fd, f->tag, thr().pid, buf, (long)n, (long)m, 0}; io_hook(e); }
    wake_all();
    return (long)m;
  }
}

long Kernel::sys_recv(int fd, void* buf, size_t n, const char* op) {
  for (;;) {
    Fd* f = get(fd);
    if (!f) { errno = EBADF; return -1; }
    if (f->kind != FK_SOCK_STREAM && f->kind != FK_PIPE_R) { errno = f->kind == FK_SOCK_NEW ? ENOTCONN : EBADF; return -1; }
    Chan* c = f->in;
    uint64_t k = f->nread++;
    if (!f->nonblock && eintr_pct > 0 && (int)(fkey(0xE4, (uint64_t)fd * 1000003 + k) % 100) < eintr_pct) { count("fault_recv_eintr"); errno = EINTR; return -1; }
    if (c->q.empty()) {
      if (c->wr_closed) { if (io_hook) { IoEvent e{op, fd, f->tag, thr().pid, buf, (long)n, 0, 0}; io_hook(e); } return 0; }
      if (n == 0) return 0;
      if (f->nonblock) { errno = EAGAIN; return -1; }
      thr().at_cancel_point = true; wait(); thr().at_cancel_point = false;
      cancel_point();
      continue;
    }
    size_t m = std::min(n, c->q.size());
    if (m > 1 && short_io_pct > 0 && (int)(fkey(0xE5, (uint64_t)fd * 1000003 + k) % 100) < short_io_pct) {
      m = 1 + (size_t)(fkey(0xE6, (uint64_t)fd * 1000003 + k) % (m - 1));
      count("fault_short_recv");
    }
    uint8_t* b = (uint8_t*)buf;
    for (size_t i = 0; i < m; i++) { b[i] = c->q.front(); c->q.pop_front(); }
    if (io_hook) { IoEvent e{op, fd, f->tag, thr().pid, buf, (long)n, (long)m, 0}; io_hook(e); }
    wake_all();
    return (long)m;
  }
}

int Kernel::sys_close(int fd) {
  Fd* f = get(fd);
  if (!f) { errno = EBADF; count("close_ebadf"); return -1; }
  if (io_hook) { IoEvent e{"close", fd, f->tag, thr().pid, nullptr, 0, 0, 0}; io_hook(e); }
  if (f->kind == FK_SOCK_LISTEN) {
    for (int s : f->backlog) {  // never accepted: the connecting side sees a reset
      Fd* sf = get(s);
      if (sf) { sf->in->rd_closed = true; sf->out->wr_closed = true; free_fd(s); }
    }
    auto it = vfs.find(f->path);
    if (it != vfs.end() && it->second.listen_fd == fd) it->second.listen_fd = -1;
  }
  if (f->in) f->in->rd_closed = true;
  if (f->out) f->out->wr_closed = true;
  free_fd(fd);
  wake_all();
  return 0;
}

int Kernel::sys_pipe(int fds[2]) {
  int r = alloc_fd(FK_PIPE_R);
  if (r < 0) return -1;
  int w = alloc_fd(FK_PIPE_W);
  if (w < 0) { free_fd(r); return -1; }
  Chan* c = new_chan(pipe_cap);
  get(r)->in = c;
  get(w)->out = c;
  fds[0] = r; fds[1] = w;
  return 0;
}

int Kernel::sys_fcntl(int fd, int cmd, long arg) {
  Fd* f = get(fd);
  if (!f) { errno = EBADF; return -1; }
  if (cmd == F_SETFL) { f->nonblock = (arg & O_NONBLOCK) != 0; return 0; }
  if (cmd == F_GETFL) return O_RDWR | (f->nonblock ? O_NONBLOCK : 0);
  if (cmd == F_SETFD || cmd == F_GETFD) return 0;
  errno = EINVAL;
  return -1;
}

int Kernel::sys_getsockopt_error(int fd, int* val) {
  Fd* f = get(fd);
  if (!f) { errno = EBADF; return -1; }
  *val = f->so_error;
  f->so_error = 0;
  return 0;
}

int Kernel::sys_select(int nfds, fd_set* r, fd_set* w, fd_set* e, struct timeval* tv) {
  int64_t deadline = -1;
  if (tv) deadline = now_ns() + (int64_t)tv->tv_sec * 1000000000ll + (int64_t)tv->tv_usec * 1000ll;
  fd_set rin, win;
  FD_ZERO(&rin); FD_ZERO(&win);
  if (r) rin = *r;
  if (w) win = *w;
  if (nfds > FD_MAX) nfds = FD_MAX;
  bool armed = false;
  for (;;) {
    Thread& th = thr();
    if (th.pending & ~th.blocked_sigs) {
      run_pending_signals();
      count("select_eintr");
      errno = EINTR;
      return -1;
    }
    cancel_point();
    int n = 0;
    fd_set rout, wout;
    FD_ZERO(&rout); FD_ZERO(&wout);
    for (int fd = FD_BASE; fd < nfds; fd++) {
      bool wr = FD_ISSET(fd, &win), rd = FD_ISSET(fd, &rin);
      if (!wr && !rd) continue;
      Fd* f = get(fd);
      if (!f) { errno = EBADF; count("select_ebadf"); return -1; }
      if (rd) {
        bool ok = false;
        switch (f->kind) {
          case FK_SOCK_LISTEN: ok = !f->backlog.empty(); break;
          case FK_SOCK_STREAM: case FK_PIPE_R: ok = !f->in->q.empty() || f->in->wr_closed; break;
          case FK_DEV: ok = f->dev_readable ? f->dev_readable() : false; break;
          default: ok = false;
        }
        if (ok) { FD_SET(fd, &rout); n++; }
      }
      if (wr) {
        bool ok = false;
        switch (f->kind) {
          case FK_SOCK_STREAM: case FK_PIPE_W:
            if (f->connecting) { if (now_ns() >= f->connect_done_ns) { f->connecting = false; ok = true; } }
            else ok = f->out->q.size() < f->out->cap || f->out->rd_closed;
            break;
          default: ok = false;
        }
        if (ok) { FD_SET(fd, &wout); n++; }
      }
    }
    if (n > 0 || (deadline >= 0 && now_ns() >= deadline)) {
      if (r) *r = rout;
      if (w) *w = wout;
      if (e) FD_ZERO(e);
      if (n == 0) count("select_timeout");
      return n;
    }
    th.at_cancel_point = true; th.in_select = true;
    if (deadline >= 0) {
      if (!armed) { armed = true; }
      wait_until(deadline);
    } else wait();
    thr().at_cancel_point = false; thr().in_select = false;
  }
}

unsigned Kernel::sys_alarm(unsigned sec) {
  int pid = thr().pid;
  int64_t gen = ++alarm_gen[pid];
  if (sec > 0) {
    sched.at(now_ns() + (int64_t)sec * 1000000000ll, [this, pid, gen] {
      if (alarm_gen[pid] == gen) { count("alarms_fired"); post_signal(pid, SIGALRM); }
    });
  }
  return 0;
}

// ------------------------------------------------------------ pthreads ----
int Kernel::mutex_lock(const void* m, bool try_only) {
  sim::Task* me = sched.current();
  int my = me ? sched.task_id(me) : -2;
  if (me && yield_on_syscall) sched.yield();
  if (sync_hook) sync_hook("pre_lock", m, my);
  for (;;) {
    Mutex& mx = mutexes[m];
    if (mx.owner == -1) {
      mx.owner = my;
      mx.acquisitions++;
      if (sync_hook) sync_hook("lock", m, my);
      return 0;
    }
    if (try_only) return EBUSY;
    if (mx.owner == my) { deadlocked = true; ctx.fail("deadlock", "task %d locks a mutex it already holds", my); if (me) { sched.block(); } harness_fatal("self deadlock outside a task"); }
    if (!me) harness_fatal("mutex contended outside a task");
    count("mutex_contended");
    mx.waiters.push_back(me);
    sched.block();
  }
}

int Kernel::mutex_unlock(const void* m) {
  sim::Task* me = sched.current();
  int my = me ? sched.task_id(me) : -2;
  Mutex& mx = mutexes[m];
  if (mx.owner != my) { count("unlock_not_owner"); if (mx.owner == -1) return EPERM; }
  if (sync_hook) sync_hook("unlock", m, my);
  mx.owner = -1;
  std::vector<sim::Task*> w;
  w.swap(mx.waiters);
  for (sim::Task* t : w) sched.wake(t);
  if (me && yield_on_syscall) sched.yield();
  return 0;
}

int Kernel::cond_wait(const void* c, const void* m, int64_t deadline_ns) {
  sim::Task* me = sched.current();
  if (!me) harness_fatal("cond_wait outside a task");
  bool signalled = false;
  conds[c].waiters.push_back({me, &signalled});
  mutex_unlock(m);
  int rc = 0;
  Thread& th = thr();
  while (!signalled) {
    if (th.cancel_pending && th.cancel_enabled) break;
    if (deadline_ns >= 0 && now_ns() >= deadline_ns) { rc = ETIMEDOUT; break; }
    th.at_cancel_point = true;
    if (deadline_ns >= 0) { sim::Task* t = me; sched.at(deadline_ns, [this, t] { sched.wake(t); }); }
    sched.block();
    th.at_cancel_point = false;
  }
  if (!signalled) {
    auto& ws = conds[c].waiters;
    for (size_t i = 0; i < ws.size(); i++) if (ws[i].first == me) { ws.erase(ws.begin() + (long)i); break; }
  } else if (sync_hook) sync_hook("cond_woken", c, sched.task_id(me));
  mutex_lock(m, false);
  if (th.cancel_pending && th.cancel_enabled) do_cancel();
  return rc;
}

int Kernel::cond_signal(const void* c, bool all) {
  auto it = conds.find(c);
  if (sync_hook) sync_hook("cond_signal", c, sched.current() ? sched.task_id(sched.current()) : -2);
  if (it == conds.end()) return 0;
  auto& ws = it->second.waiters;
  while (!ws.empty()) {
    *ws.front().second = true;
    sched.wake(ws.front().first);
    ws.erase(ws.begin());
    if (!all) break;
  }
  return 0;
}

void Kernel::thread_exit(void* ret) {
  Thread& th = thr();
  if (!th.cleanup.empty()) {  // run the cleanup handlers first, like a cancellation
    th.retval = ret;
    void* b = th.cleanup.back();
    th.in_kernel = 0; sim::g_sut_depth = (th.pid == tracked_pid) ? 1 : 0;  // leaving the kernel without unwinding the KScopes
    siglongjmp((struct __jmp_buf_tag*)b, 1);
  }
  th.retval = ret;
  th.exited = true;
  if (sync_hook) sync_hook("thread_exit", sched.current(), sched.task_id(sched.current()));
  for (sim::Task* j : th.joiners) sched.wake(j);
  th.joiners.clear();
  wake_all();
  sched.finish_current();
}

void Kernel::do_cancel() {
  Thread& th = thr();
  th.cancel_pending = false;
  th.cancel_enabled = false;
  th.at_cancel_point = false;
  count("thread_cancelled");
  ctx.log("task %d cancelled", sched.current_id());
  thread_exit((void*)-1);
}

}  // namespace simk

// =========================================================== link seams ====
using simk::K;
static inline bool in_sim() { return K != nullptr && K->sched.in_task(); }
static inline bool is_simfd(int fd) { return K != nullptr && K->get(fd) != nullptr; }
// a descriptor number in the simulated range that is not open must fail with EBADF, never reach the real kernel
static inline bool in_sim_range(int fd) { return K != nullptr && fd >= simk::Kernel::FD_BASE && fd < simk::Kernel::FD_MAX && K->sched.in_task(); }

extern "C" {
int __real_socket(int, int, int);
int __real_bind(int, const struct sockaddr*, socklen_t);
int __real_listen(int, int);
int __real_accept(int, struct sockaddr*, socklen_t*);
int __real_connect(int, const struct sockaddr*, socklen_t);
ssize_t __real_send(int, const void*, size_t, int);
ssize_t __real_recv(int, void*, size_t, int);
ssize_t __real_read(int, void*, size_t);
ssize_t __real_write(int, const void*, size_t);
int __real_close(int);
int __real_select(int, fd_set*, fd_set*, fd_set*, struct timeval*);
int __real_fcntl(int, int, ...);
int __real_setsockopt(int, int, int, const void*, socklen_t);
int __real_getsockopt(int, int, int, void*, socklen_t*);
int __real_unlink(const char*);
int __real_chmod(const char*, mode_t);
int __real_chown(const char*, uid_t, gid_t);
int __real_stat(const char*, struct stat*);
int __real_lstat(const char*, struct stat*);
ssize_t __real_readlink(const char*, char*, size_t);
int __real_access(const char*, int);
int __real_open(const char*, int, ...);
time_t __real_time(time_t*);
int __real_gettimeofday(struct timeval*, void*);
unsigned __real_alarm(unsigned);
unsigned __real_sleep(unsigned);
pid_t __real_getpid(void);
int __real_sigaction(int, const struct sigaction*, struct sigaction*);
int __real_ioctl(int, unsigned long, ...);
int __real_kill(pid_t, int);

int __wrap_socket(int d, int t, int p) {
  if (!in_sim()) return __real_socket(d, t, p);
  simk::KScope ks;
  K->enter("socket");
  return K->sys_socket(d, t, p);
}
int __wrap_bind(int fd, const struct sockaddr* a, socklen_t l) {
  if (!is_simfd(fd)) return __real_bind(fd, a, l);
  simk::KScope ks;
  K->enter("bind");
  if (a->sa_family != AF_UNIX) { errno = EINVAL; return -1; }
  return K->sys_bind(fd, ((const struct sockaddr_un*)a)->sun_path);
}
int __wrap_listen(int fd, int b) {
  if (!is_simfd(fd)) return __real_listen(fd, b);
  simk::KScope ks;
  K->enter("listen");
  return K->sys_listen(fd, b);
}
int __wrap_accept(int fd, struct sockaddr* a, socklen_t* l) {
  if (!is_simfd(fd)) { if (in_sim_range(fd)) { errno = EBADF; return -1; } return __real_accept(fd, a, l); }
  simk::KScope ks;
  K->enter("!accept");
  int r = K->sys_accept(fd);
  if (r >= 0 && a && l) {
    struct sockaddr_un un; memset(&un, 0, sizeof un); un.sun_family = AF_UNIX;
    socklen_t n = (socklen_t)sizeof(sa_family_t);
    memcpy(a, &un, std::min<size_t>(*l, n));
    *l = n;
  }
  return r;
}
int __wrap_connect(int fd, const struct sockaddr* a, socklen_t l) {
  if (!is_simfd(fd)) return __real_connect(fd, a, l);
  simk::KScope ks;
  K->enter("!connect");
  if (a->sa_family != AF_UNIX) { errno = EAFNOSUPPORT; return -1; }
  return K->sys_connect(fd, ((const struct sockaddr_un*)a)->sun_path);
}
ssize_t __wrap_send(int fd, const void* b, size_t n, int fl) {
  if (!is_simfd(fd)) { if (in_sim_range(fd)) { errno = EBADF; return -1; } return __real_send(fd, b, n, fl); }
  simk::KScope ks;
  K->enter("!send");
  return K->sys_send(fd, b, n, "send");
}
ssize_t __wrap_recv(int fd, void* b, size_t n, int fl) {
  if (!is_simfd(fd)) { if (in_sim_range(fd)) { errno = EBADF; return -1; } return __real_recv(fd, b, n, fl); }
  simk::KScope ks;
  K->enter("!recv");
  return K->sys_recv(fd, b, n, "recv");
}
ssize_t __wrap_read(int fd, void* b, size_t n) {
  if (!is_simfd(fd)) { if (in_sim_range(fd)) { errno = EBADF; return -1; } return __real_read(fd, b, n); }
  simk::KScope ks;
  K->enter("!read");
  if (K->get(fd)->kind == simk::FK_DEV) { errno = EINVAL; return -1; }
  return K->sys_recv(fd, b, n, "read");
}
ssize_t __wrap_write(int fd, const void* b, size_t n) {
  if (!is_simfd(fd)) { if (in_sim_range(fd)) { errno = EBADF; return -1; } return __real_write(fd, b, n); }
  simk::KScope ks;
  K->enter("!write");
  return K->sys_send(fd, b, n, "write");
}
int __wrap_close(int fd) {
  if (!is_simfd(fd)) { if (in_sim_range(fd)) { K->count("close_ebadf"); errno = EBADF; return -1; } return __real_close(fd); }
  simk::KScope ks;
  if (getenv("ZSIM_KTRACE")) fprintf(stderr, "    k: close(%d) kind %d\n", fd, (int)K->get(fd)->kind);
  K->enter("!close");
  return K->sys_close(fd);
}
int __wrap_select(int n, fd_set* r, fd_set* w, fd_set* e, struct timeval* tv) {
  if (!in_sim()) return __real_select(n, r, w, e, tv);
  simk::KScope ks;
  K->enter("!select");
  return K->sys_select(n, r, w, e, tv);
}
int __wrap_fcntl(int fd, int cmd, ...) {
  va_list ap; va_start(ap, cmd); long arg = va_arg(ap, long); va_end(ap);
  if (!is_simfd(fd)) { if (in_sim_range(fd)) { errno = EBADF; return -1; } return __real_fcntl(fd, cmd, arg); }
  simk::KScope ks;
  return K->sys_fcntl(fd, cmd, arg);
}
int __wrap_setsockopt(int fd, int lv, int o, const void* v, socklen_t l) {
  if (!is_simfd(fd)) return __real_setsockopt(fd, lv, o, v, l);
  simk::KScope ks;
  return 0;
}
int __wrap_getsockopt(int fd, int lv, int o, void* v, socklen_t* l) {
  if (!is_simfd(fd)) return __real_getsockopt(fd, lv, o, v, l);
  simk::KScope ks;
  if (lv == SOL_SOCKET && o == SO_ERROR && v && l && *l >= sizeof(int)) { *l = sizeof(int); return K->sys_getsockopt_error(fd, (int*)v); }
  errno = ENOPROTOOPT;
  return -1;
}
int __wrap_unlink(const char* p) {
  if (!K || !simk::Kernel::sim_path(p)) return __real_unlink(p);
  simk::KScope ks;
  auto it = K->vfs.find(p);
  if (it == K->vfs.end()) { errno = ENOENT; return -1; }
  K->vfs.erase(it);
  return 0;
}
int __wrap_chmod(const char* p, mode_t m) {
  if (!K || !simk::Kernel::sim_path(p)) return __real_chmod(p, m);
  simk::KScope ks;
  auto it = K->vfs.find(p);
  if (it == K->vfs.end()) { errno = ENOENT; return -1; }
  it->second.mode = (it->second.mode & S_IFMT) | (m & 07777);
  return 0;
}
int __wrap_chown(const char* p, uid_t u, gid_t g) {
  if (!K || !simk::Kernel::sim_path(p)) return __real_chown(p, u, g);
  simk::KScope ks;
  auto it = K->vfs.find(p);
  if (it == K->vfs.end()) { errno = ENOENT; return -1; }
  it->second.uid = u; it->second.gid = g;
  return 0;
}
static int sim_stat(const char* p, struct stat* st) {
  auto it = K->vfs.find(p);
  if (it == K->vfs.end()) { errno = ENOENT; return -1; }
  memset(st, 0, sizeof *st);
  st->st_mode = it->second.mode; st->st_uid = it->second.uid; st->st_gid = it->second.gid; st->st_nlink = 1;
  return 0;
}
int __wrap_stat(const char* p, struct stat* st) {
  if (!K || !simk::Kernel::sim_path(p)) return __real_stat(p, st);
  simk::KScope ks;
  return sim_stat(p, st);
}
int __wrap_lstat(const char* p, struct stat* st) {
  if (!K || !simk::Kernel::sim_path(p)) return __real_lstat(p, st);
  simk::KScope ks;
  return sim_stat(p, st);
}
ssize_t __wrap_readlink(const char* p, char* b, size_t n) {
  if (!K || !simk::Kernel::sim_path(p)) return __real_readlink(p, b, n);
  simk::KScope ks;
  errno = EINVAL;
  return -1;
}
int __wrap_access(const char* p, int m) {
  if (!K || !simk::Kernel::sim_path(p)) return __real_access(p, m);
  simk::KScope ks;
  if (!K->vfs.count(p)) { errno = ENOENT; return -1; }
  return 0;
}
int __wrap_open(const char* p, int fl, ...) {
  va_list ap; va_start(ap, fl); int mode = va_arg(ap, int); va_end(ap);
  if (!K || !simk::Kernel::sim_path(p)) return __real_open(p, fl, mode);
  simk::KScope ks;
  errno = ENXIO;  // the simulated capture device is reached through the capture interface, never through open()
  return -1;
}
int zsim_pipe(int fds[2]) {
  if (!in_sim()) return pipe(fds);
  simk::KScope ks;
  K->enter("pipe");
  return K->sys_pipe(fds);
}
time_t __wrap_time(time_t* t) {
  if (!K) return __real_time(t);
  simk::KScope ks;
  time_t v = (time_t)(K->epoch_s + K->now_ns() / 1000000000ll);
  if (t) *t = v;
  return v;
}
int __wrap_gettimeofday(struct timeval* tv, void* tz) {
  if (!K) return __real_gettimeofday(tv, tz);
  simk::KScope ks;
  if (tv) { tv->tv_sec = (time_t)(K->epoch_s + K->now_ns() / 1000000000ll); tv->tv_usec = (suseconds_t)((K->now_ns() % 1000000000ll) / 1000); }
  return 0;
}
unsigned __wrap_alarm(unsigned s) {
  if (!in_sim()) return __real_alarm(s);
  simk::KScope ks;
  return K->sys_alarm(s);
}
unsigned __wrap_sleep(unsigned s) {
  if (!in_sim()) return __real_sleep(s);
  simk::KScope ks;
  K->count("sleep_calls");
  K->sched.sleep_ns((int64_t)s * 1000000000ll);
  return 0;
}
pid_t __wrap_getpid(void) {
  if (!in_sim()) return __real_getpid();
  simk::KScope ks;
  return K->thr().pid;
}
int __wrap_sigaction(int signo, const struct sigaction* act, struct sigaction* old) {
  if (!in_sim()) return __real_sigaction(signo, act, old);
  simk::KScope ks;
  if (old) memset(old, 0, sizeof *old);
  if (act && signo > 0 && signo < 32) K->handlers[K->thr().pid][signo] = act->sa_handler;
  return 0;
}
int __wrap_ioctl(int fd, unsigned long req, ...) {
  va_list ap; va_start(ap, req); void* arg = va_arg(ap, void*); va_end(ap);
  if (!is_simfd(fd)) { if (in_sim_range(fd)) { errno = EBADF; return -1; } return __real_ioctl(fd, req, arg); }
  simk::KScope ks;
  errno = ENOTTY;
  return -1;
}
int __wrap_kill(pid_t pid, int sig) {
  if (!in_sim()) return __real_kill(pid, sig);
  simk::KScope ks;
  K->post_signal((int)pid, sig);
  return 0;
}

// ---------------------------------------------------------------- pthreads
int __real_pthread_mutex_init(pthread_mutex_t*, const pthread_mutexattr_t*);
int __real_pthread_mutex_destroy(pthread_mutex_t*);
int __real_pthread_mutex_lock(pthread_mutex_t*);
int __real_pthread_mutex_trylock(pthread_mutex_t*);
int __real_pthread_mutex_unlock(pthread_mutex_t*);
int __real_pthread_cond_init(pthread_cond_t*, const pthread_condattr_t*);
int __real_pthread_cond_destroy(pthread_cond_t*);
int __real_pthread_cond_wait(pthread_cond_t*, pthread_mutex_t*);
int __real_pthread_cond_timedwait(pthread_cond_t*, pthread_mutex_t*, const struct timespec*);
int __real_pthread_cond_signal(pthread_cond_t*);
int __real_pthread_cond_broadcast(pthread_cond_t*);
int __real_pthread_create(pthread_t*, const pthread_attr_t*, void* (*)(void*), void*);
int __real_pthread_join(pthread_t, void**);
void __real_pthread_exit(void*) __attribute__((noreturn));
int __real_pthread_cancel(pthread_t);
void __real_pthread_testcancel(void);
int __real_pthread_setcancelstate(int, int*);
int __real_pthread_setcanceltype(int, int*);
int __real_pthread_sigmask(int, const sigset_t*, sigset_t*);
void __real___pthread_register_cancel(__pthread_unwind_buf_t*);
void __real___pthread_unregister_cancel(__pthread_unwind_buf_t*);
void __real___pthread_unwind_next(__pthread_unwind_buf_t*) __attribute__((noreturn));

int __wrap_pthread_mutex_init(pthread_mutex_t* m, const pthread_mutexattr_t* a) {
  if (!K) return __real_pthread_mutex_init(m, a);
  simk::KScope ks;
  memset(m, 0, sizeof *m);
  K->mutexes[m] = simk::Mutex();
  return 0;
}
int __wrap_pthread_mutex_destroy(pthread_mutex_t* m) {
  if (!K) return __real_pthread_mutex_destroy(m);
  simk::KScope ks;
  K->mutexes.erase(m);
  return 0;
}
int __wrap_pthread_mutex_lock(pthread_mutex_t* m) {
  if (!K) return __real_pthread_mutex_lock(m);
  simk::KScope ks;
  return K->mutex_lock(m, false);
}
int __wrap_pthread_mutex_trylock(pthread_mutex_t* m) {
  if (!K) return __real_pthread_mutex_trylock(m);
  simk::KScope ks;
  return K->mutex_lock(m, true);
}
int __wrap_pthread_mutex_unlock(pthread_mutex_t* m) {
  if (!K) return __real_pthread_mutex_unlock(m);
  simk::KScope ks;
  return K->mutex_unlock(m);
}
int __wrap_pthread_cond_init(pthread_cond_t* c, const pthread_condattr_t* a) {
  if (!K) return __real_pthread_cond_init(c, a);
  simk::KScope ks;
  memset(c, 0, sizeof *c);
  K->conds[c] = simk::Cond();
  return 0;
}
int __wrap_pthread_cond_destroy(pthread_cond_t* c) {
  if (!K) return __real_pthread_cond_destroy(c);
  simk::KScope ks;
  K->conds.erase(c);
  return 0;
}
int __wrap_pthread_cond_wait(pthread_cond_t* c, pthread_mutex_t* m) {
  if (!K) return __real_pthread_cond_wait(c, m);
  simk::KScope ks;
  return K->cond_wait(c, m, -1);
}
int __wrap_pthread_cond_timedwait(pthread_cond_t* c, pthread_mutex_t* m, const struct timespec* ts) {
  if (!K) return __real_pthread_cond_timedwait(c, m, ts);
  simk::KScope ks;
  int64_t dl = ((int64_t)ts->tv_sec - K->epoch_s) * 1000000000ll + ts->tv_nsec;
  if (dl < 0) dl = 0;
  return K->cond_wait(c, m, dl);
}
int __wrap_pthread_cond_signal(pthread_cond_t* c) {
  if (!K) return __real_pthread_cond_signal(c);
  simk::KScope ks;
  return K->cond_signal(c, false);
}
int __wrap_pthread_cond_broadcast(pthread_cond_t* c) {
  if (!K) return __real_pthread_cond_broadcast(c);
  simk::KScope ks;
  return K->cond_signal(c, true);
}
int __wrap_pthread_create(pthread_t* th, const pthread_attr_t* a, void* (*fn)(void*), void* arg) {
  if (!in_sim()) return __real_pthread_create(th, a, fn, arg);
  simk::KScope ks;
  simk::Kernel* k = K;
  int pid = k->thr().pid;
  int parent = k->sched.current_id();
  size_t idx = k->threads.size();
  k->threads.push_back(nullptr);
  sim::Task* t = k->sched.spawn("thread" + std::to_string(idx), [k, fn, arg] {
    void* r = fn(arg);
    k->thread_exit(r);
  });
  k->threads[idx] = t;
  k->set_pid(t, pid, false);
  if (k->sync_hook) k->sync_hook("thread_create", t, parent);
  *th = (pthread_t)(1000 + idx);
  k->count("threads_created");
  return 0;
}
static sim::Task* thread_of(pthread_t th) {
  size_t i = (size_t)th - 1000;
  return (K && i < K->threads.size()) ? K->threads[i] : nullptr;
}
int __wrap_pthread_join(pthread_t th, void** ret) {
  if (!in_sim()) return __real_pthread_join(th, ret);
  simk::KScope ks;
  sim::Task* t = thread_of(th);
  if (!t) return ESRCH;
  simk::Thread& tt = K->thr_of(t);
  while (!tt.exited) {
    tt.joiners.push_back(K->sched.current());
    K->sched.block();
  }
  if (K->sync_hook) K->sync_hook("thread_join", t, K->sched.current_id());
  if (ret) *ret = tt.retval;
  return 0;
}
void __wrap_pthread_exit(void* r) {
  if (!in_sim()) __real_pthread_exit(r);
  simk::KScope ks;
  K->thread_exit(r);
}
int __wrap_pthread_cancel(pthread_t th) {
  if (!in_sim()) return __real_pthread_cancel(th);
  simk::KScope ks;
  sim::Task* t = thread_of(th);
  if (!t) return ESRCH;
  simk::Thread& tt = K->thr_of(t);
  if (tt.exited) return 0;
  tt.cancel_pending = true;
  K->count("cancel_requests");
  // a task blocked at a cancellation point acts on the request at once
  if (tt.at_cancel_point) K->sched.wake(t);
  return 0;
}
void __wrap_pthread_testcancel(void) {
  if (!in_sim()) { __real_pthread_testcancel(); return; }
  simk::KScope ks;
  K->cancel_point();
}
int __wrap_pthread_setcancelstate(int st, int* old) {
  if (!in_sim()) return __real_pthread_setcancelstate(st, old);
  simk::KScope ks;
  simk::Thread& t = K->thr();
  if (old) *old = t.cancel_enabled ? PTHREAD_CANCEL_ENABLE : PTHREAD_CANCEL_DISABLE;
  t.cancel_enabled = st == PTHREAD_CANCEL_ENABLE;
  return 0;
}
int __wrap_pthread_setcanceltype(int ty, int* old) {
  if (!in_sim()) return __real_pthread_setcanceltype(ty, old);
  simk::KScope ks;
  if (old) *old = PTHREAD_CANCEL_DEFERRED;
  return 0;
}
int __wrap_pthread_sigmask(int how, const sigset_t* set, sigset_t* old) {
  if (!in_sim()) return __real_pthread_sigmask(how, set, old);
  simk::KScope ks;
  simk::Thread& t = K->thr();
  if (old) sigemptyset(old);
  if (set) {
    uint32_t m = 0;
    for (int s = 1; s < 32; s++) if (sigismember(set, s)) m |= 1u << s;
    if (how == SIG_BLOCK) t.blocked_sigs |= m; else if (how == SIG_UNBLOCK) t.blocked_sigs &= ~m; else t.blocked_sigs = m;
  }
  return 0;
}
void __wrap___pthread_register_cancel(__pthread_unwind_buf_t* b) {
  if (!in_sim()) { __real___pthread_register_cancel(b); return; }
  simk::KScope ks;
  K->thr().cleanup.push_back(b);
}
void __wrap___pthread_unregister_cancel(__pthread_unwind_buf_t* b) {
  if (!in_sim()) { __real___pthread_unregister_cancel(b); return; }
  simk::KScope ks;
  auto& c = K->thr().cleanup;
  if (!c.empty() && c.back() == b) c.pop_back();
}
void __wrap___pthread_unwind_next(__pthread_unwind_buf_t* b) {
  if (!in_sim()) __real___pthread_unwind_next(b);
  simk::KScope ks;
  simk::Thread& t = K->thr();
  if (!t.cleanup.empty() && t.cleanup.back() == b) t.cleanup.pop_back();
  K->thread_exit(t.retval);  // continues with the next cleanup frame, or finishes the task
}
}  // extern "C"
