// zsim simulated kernel: AF_UNIX stream sockets, pipes, device fds, a tiny
// VFS, select(), clock, alarm()/signals and pthreads for code that runs as
// tasks on sim::Sched.  The seam is the link line (-Wl,--wrap=...; see
// worlds/simk.mk): every libc entry point used by daemon/proxyd.c,
// src/proxy-msg.c and src/proxy-client.c dispatches to this kernel when a
// universe is active and the fd / path / calling context is simulated, and to
// the real libc otherwise.  DESIGN.md sections 3.4, 3.5.
#pragma once
#include <sys/select.h>
#include <sys/stat.h>
#include <sys/types.h>

#include <cstdint>
#include <deque>
#include <functional>
#include <map>
#include <string>
#include <vector>

#include "sim.h"

namespace simk {

enum FdKind { FK_FREE = 0, FK_SOCK_NEW, FK_SOCK_LISTEN, FK_SOCK_STREAM, FK_PIPE_R, FK_PIPE_W, FK_DEV };

struct Chan {  // one direction of a byte stream
  std::deque<uint8_t> q;
  size_t cap = 4096;
  bool wr_closed = false;  // the writing end is gone
  bool rd_closed = false;  // the reading end is gone
  uint64_t total = 0;      // bytes ever written
};

struct Fd {
  FdKind kind = FK_FREE;
  bool nonblock = false;
  Chan* in = nullptr;    // we read from
  Chan* out = nullptr;   // we write to
  std::string path;      // bound / connected path
  std::deque<int> backlog;  // FK_SOCK_LISTEN: server-side fds waiting for accept
  int backlog_max = 5;
  int so_error = 0;
  bool connecting = false;  // connect() returned EINPROGRESS, completes at connect_done_ns
  int64_t connect_done_ns = 0;
  int owner_pid = 0;
  uint64_t nread = 0, nwrite = 0;  // per-fd operation counters (fault keys)
  int tag = -1;                    // world defined (e.g. client index) for tracing
  // FK_DEV
  std::function<bool()> dev_readable;
};

struct Node { mode_t mode = 0; uid_t uid = 0; gid_t gid = 0; int listen_fd = -1; };

struct Thread {  // per task state
  int pid = 1;
  bool is_main = true;          // receives the signals of its process
  uint32_t pending = 0;         // pending signal bitmask
  uint32_t blocked_sigs = 0;
  bool cancel_pending = false, cancel_enabled = true;
  bool at_cancel_point = false;
  bool in_select = false;       // blocked inside select()
  std::vector<void*> cleanup;   // __pthread_unwind_buf_t*
  void* retval = nullptr;
  bool exited = false;
  int in_kernel = 0;            // inside a simulated syscall (allocator attribution)
  std::vector<sim::Task*> joiners;
};

struct Mutex { int owner = -1; std::vector<sim::Task*> waiters; uint64_t acquisitions = 0; };
struct Cond { std::vector<std::pair<sim::Task*, bool*>> waiters; };

struct Stats { std::map<std::string, int64_t> c; };

// Per syscall trace hook (the world may record socket-boundary events).
struct IoEvent { const char* op; int fd; int tag; int pid; const void* buf; long len; long res; int err; };

class Kernel {
 public:
  Kernel(sim::Sched& s, sim::RunCtx& ctx, uint64_t fault_seed);
  ~Kernel();
  sim::Sched& sched;
  sim::RunCtx& ctx;
  uint64_t fseed;
  static const int FD_BASE = 64, FD_MAX = 512;
  int64_t epoch_s = 1000000000;  // time() at sim time 0

  // knobs (set by the world before tasks start)
  size_t sock_cap = 4096;       // per direction capacity of stream sockets
  size_t pipe_cap = 16;         // acquisition thread wake-up pipe
  int short_io_pct = 0;         // percentage of send/recv calls cut short
  int eintr_pct = 0;            // percentage of blocking-capable calls that fail with EINTR first
  int connect_inprogress_pct = 0;
  bool yield_on_syscall = true;
  int tracked_pid = -1;         // allocations of this process (outside the kernel) count as system under test

  // ---- tasks / processes
  Thread& thr();                       // state of the calling task (or of the "outside" pseudo task)
  Thread& thr_of(sim::Task* t);
  void set_pid(sim::Task* t, int pid, bool is_main);
  void post_signal(int pid, int signo);  // deliver to the main task of pid
  std::map<int, std::map<int, void (*)(int)>> handlers;  // pid -> signo -> handler
  std::map<int, int64_t> alarm_gen;                      // pid -> generation (cancels older alarms)

  // ---- fds
  Fd* get(int fd);
  int alloc_fd(FdKind k);
  int make_device_fd(std::function<bool()> readable);
  void free_fd(int fd);
  void wake_all();   // some kernel state changed: every task blocked in the kernel re-evaluates
  void wait();       // block the calling task until wake_all() or a timer
  void wait_until(int64_t t_ns);
  void enter(const char* what);  // scheduling point + signal/cancel handling; call at syscall entry
  bool cancel_point();           // true if the calling task must be cancelled now (does not return then)
  std::function<void(const IoEvent&)> io_hook;
  int open_fds(int pid = -1);

  // ---- vfs
  std::map<std::string, Node> vfs;
  static bool sim_path(const char* p);

  // ---- syscalls (errno set, -1 on error)
  int sys_socket(int domain, int type, int proto);
  int sys_bind(int fd, const char* path);
  int sys_listen(int fd, int backlog);
  int sys_accept(int fd);
  int sys_connect(int fd, const char* path);
  long sys_send(int fd, const void* buf, size_t n, const char* op);
  long sys_recv(int fd, void* buf, size_t n, const char* op);
  int sys_close(int fd);
  int sys_select(int nfds, fd_set* r, fd_set* w, fd_set* e, struct timeval* tv);
  int sys_pipe(int fds[2]);
  int sys_fcntl(int fd, int cmd, long arg);
  int sys_getsockopt_error(int fd, int* val);
  unsigned sys_alarm(unsigned sec);
  int64_t now_ns() { return sched.now_ns(); }

  // ---- pthreads
  std::map<const void*, Mutex> mutexes;  // keyed by address: looked up, never iterated
  std::map<const void*, Cond> conds;
  std::vector<sim::Task*> threads;       // pthread_t = index + 1000
  int mutex_lock(const void* m, bool try_only);
  int mutex_unlock(const void* m);
  int cond_wait(const void* c, const void* m, int64_t deadline_ns /* <0: none */);
  int cond_signal(const void* c, bool all);
  std::function<void(const char* op, const void* obj, int task)> sync_hook;  // race detector edges

  void do_cancel() __attribute__((noreturn));   // unwind cleanup handlers of the calling task, then finish it
  void thread_exit(void* ret) __attribute__((noreturn));
  void count(const std::string& k, int64_t n = 1) { ctx.count(k, n); }
  bool deadlocked = false;

 private:
  std::vector<Fd> fds_;
  std::vector<Chan*> chans_;
  std::map<sim::Task*, Thread> thr_;
  Thread outside_;
  std::vector<sim::Task*> waiters_;
  Chan* new_chan(size_t cap);
  uint64_t fkey(uint64_t a, uint64_t b) { return sim::hash_mix(sim::hash_mix(fseed, a), b); }
  void run_pending_signals();
};

extern Kernel* K;  // the active universe's kernel, null outside

// RAII at every simulated syscall: what the kernel itself allocates is not the caller's
struct KScope {
  Thread* t; int saved;
  KScope() : t(K ? &K->thr() : nullptr), saved(sim::g_sut_depth) { if (t) t->in_kernel++; sim::g_sut_depth = 0; }
  ~KScope() { if (t) t->in_kernel--; sim::g_sut_depth = (t && t->in_kernel) ? 0 : saved; }
};

}  // namespace simk
