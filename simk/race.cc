// zsim race build — see race.h.
#include "race.h"

#include <cstdio>
#include <cstring>
#include <map>
#include <unordered_map>
#include <vector>

extern "C" void __sanitizer_symbolize_pc(void* pc, const char* fmt, char* out, size_t out_size) __attribute__((weak));

namespace simk {

RaceDetector* RD = nullptr;

struct VC {
  uint32_t c[RaceDetector::MAXT];
  VC() { memset(c, 0, sizeof c); }
  void join(const VC& o) { for (int i = 0; i < RaceDetector::MAXT; i++) if (o.c[i] > c[i]) c[i] = o.c[i]; }
};

struct Shadow {
  uint32_t wclk = 0; int wtid = -1; const void* wpc = nullptr;
  uint32_t rclk[RaceDetector::MAXT];
  const void* rpc = nullptr;
  Shadow() { memset(rclk, 0, sizeof rclk); }
};

struct Range { uintptr_t lo, hi; int id; };

struct RaceDetector::Impl {
  VC vc[MAXT];
  std::map<const void*, VC> sync;   // looked up by address, never iterated
  std::unordered_map<uintptr_t, Shadow> shadow;
  std::vector<Range> ranges;
  uint64_t cnt[MAXT];
  Impl() { memset(cnt, 0, sizeof cnt); for (int i = 0; i < MAXT; i++) vc[i].c[i] = 1; }
};

RaceDetector::RaceDetector(Kernel& k, uint64_t seed) : k_(k), seed_(seed), d_(new Impl()) {
  RD = this;
  k_.sync_hook = [this](const char* op, const void* obj, int task) { on_sync(op, obj, task); };
}
RaceDetector::~RaceDetector() {
  k_.sync_hook = nullptr;
  if (RD == this) RD = nullptr;
  delete d_;
}
void RaceDetector::arm() { armed_ = true; }
void RaceDetector::disarm() { armed_ = false; }
void RaceDetector::watch(const void* p, size_t n) {
  sim::HarnessScope hs;
  d_->ranges.push_back(Range{(uintptr_t)p, (uintptr_t)p + n, (int)d_->ranges.size()});
}
void RaceDetector::forget(const void* p, size_t n) {
  for (uintptr_t g = (uintptr_t)p >> 3; g <= ((uintptr_t)p + n - 1) >> 3; g++) d_->shadow.erase(g);
}

static std::string where(const void* pc) {
  char b[256];
  if (pc && __sanitizer_symbolize_pc) { __sanitizer_symbolize_pc((void*)pc, "%f %s:%l", b, sizeof b); const char* s = strrchr(b, '/'); std::string r(b); if (s) { const char* sp = strchr(b, ' '); r = std::string(b, sp ? (size_t)(sp - b) : 0) + " " + (s + 1); } return r; }
  return "?";
}
static std::string funcname(const void* pc) {
  char b[256];
  if (pc && __sanitizer_symbolize_pc) { __sanitizer_symbolize_pc((void*)pc, "%f", b, sizeof b); return b; }
  return "?";
}

void RaceDetector::on_sync(const char* op, const void* obj, int task) {
  if (task < 0 || task >= MAXT) return;
  sim::HarnessScope hs;
  Impl& d = *d_;
  VC& me = d.vc[task];
  if (!strcmp(op, "lock") || !strcmp(op, "cond_woken")) { auto it = d.sync.find(obj); if (it != d.sync.end()) me.join(it->second); }
  else if (!strcmp(op, "unlock")) { d.sync[obj] = me; me.c[task]++; }
  else if (!strcmp(op, "cond_signal")) { d.sync[obj].join(me); me.c[task]++; }
  else if (!strcmp(op, "thread_create")) { int child = k_.sched.task_id((sim::Task*)obj); if (child >= 0 && child < MAXT) { d.vc[child] = me; d.vc[child].c[child]++; } me.c[task]++; }
  else if (!strcmp(op, "thread_exit")) { d.sync[obj] = me; me.c[task]++; }
  else if (!strcmp(op, "thread_join")) { auto it = d.sync.find(obj); if (it != d.sync.end()) me.join(it->second); }
}

void RaceDetector::on_access(const void* addr, size_t size, bool write, const void* pc) {
  if (!armed_ || report.found) return;
  sim::Task* cur = k_.sched.current();
  if (!cur) return;
  int t = k_.sched.task_id(cur);
  if (t < 0 || t >= MAXT) return;
  Impl& d = *d_;
  uintptr_t a = (uintptr_t)addr;
  const Range* rg = nullptr;
  for (const Range& r : d.ranges) if (a < r.hi && a + size > r.lo) { rg = &r; break; }
  if (!d.ranges.empty() && !rg) return;
  accesses++;
  {
    sim::HarnessScope hs;
    VC& me = d.vc[t];
    for (uintptr_t g = a >> 3; g <= (a + size - 1) >> 3; g++) {
      Shadow& s = d.shadow[g];
      const char* kind = nullptr; int other = -1; const void* opc = nullptr;
      if (s.wtid >= 0 && s.wtid != t && s.wclk > me.c[s.wtid]) { kind = write ? "write after unordered write" : "read after unordered write"; other = s.wtid; opc = s.wpc; }
      if (!kind && write) for (int o = 0; o < MAXT; o++) if (o != t && s.rclk[o] > me.c[o]) { kind = "write after unordered read"; other = o; opc = s.rpc; break; }
      if (kind) {
        report.found = true;
        char b[768];
        snprintf(b, sizeof b, "%s: task %d (%s) at %s and task %d (%s) at %s access %zu byte(s) at offset %ld of watched object #%d without a happens-before edge", kind, t,
                 k_.sched.task_name(cur), where(pc).c_str(), other, other < (int)k_.sched.tasks().size() ? k_.sched.task_name(k_.sched.tasks()[(size_t)other]) : "?", where(opc).c_str(), size,
                 rg ? (long)(a - rg->lo) : 0L, rg ? rg->id : -1);
        report.what = b;
        std::string f1 = funcname(pc), f2 = funcname(opc);
        if (f2 < f1) std::swap(f1, f2);
        k_.ctx.fail("race:" + f1 + "/" + f2, "%s", b);
        return;
      }
      if (write) { s.wtid = t; s.wclk = me.c[t]; s.wpc = pc; memset(s.rclk, 0, sizeof s.rclk); }
      else { s.rclk[t] = me.c[t]; s.rpc = pc; }
    }
    granules = d.shadow.size();
  }
  if (preempt_every_) {
    uint64_t n = d.cnt[t]++;
    if (sim::hash_mix(sim::hash_mix(seed_, (uint64_t)t), n) % preempt_every_ == 0) { preemptions++; k_.sched.yield(); }
  }
}

}  // namespace simk

// ---- compiler inserted callbacks and range wrappers ----------------------------------------------------------------
#define ACC(p, n, w) do { if (simk::RD) simk::RD->on_access((const void*)(p), (n), (w), __builtin_return_address(0)); } while (0)
extern "C" {
void __sanitizer_cov_load1(uint8_t* p) { ACC(p, 1, false); }
void __sanitizer_cov_load2(uint16_t* p) { ACC(p, 2, false); }
void __sanitizer_cov_load4(uint32_t* p) { ACC(p, 4, false); }
void __sanitizer_cov_load8(uint64_t* p) { ACC(p, 8, false); }
void __sanitizer_cov_load16(void* p) { ACC(p, 16, false); }
void __sanitizer_cov_store1(uint8_t* p) { ACC(p, 1, true); }
void __sanitizer_cov_store2(uint16_t* p) { ACC(p, 2, true); }
void __sanitizer_cov_store4(uint32_t* p) { ACC(p, 4, true); }
void __sanitizer_cov_store8(uint64_t* p) { ACC(p, 8, true); }
void __sanitizer_cov_store16(void* p) { ACC(p, 16, true); }

void* __real___asan_memcpy(void*, const void*, size_t);
void* __real___asan_memmove(void*, const void*, size_t);
void* __real___asan_memset(void*, int, size_t);
void* __wrap___asan_memcpy(void* d, const void* s, size_t n) { if (n) { ACC(s, n, false); ACC(d, n, true); } return __real___asan_memcpy(d, s, n); }
void* __wrap___asan_memmove(void* d, const void* s, size_t n) { if (n) { ACC(s, n, false); ACC(d, n, true); } return __real___asan_memmove(d, s, n); }
void* __wrap___asan_memset(void* d, int c, size_t n) { if (n) ACC(d, n, true); return __real___asan_memset(d, c, n); }
}
