LDFLAGS_w_proxy = $(SIMK_LDFLAGS)
EXTRAOBJ_w_proxy = $(SIMK_OBJ) $(O)/wc/proxyd_embed.o
# VBI_GET_SERVICE_P forms services+strict before subtracting VBI_MIN_STRICT: for strict -1 UBSan reports index -1 although
# nothing is accessed; bounds reports of this TU are recoverable and filtered by __ubsan_on_report in w_proxy.cc
CFLAGS_wc_proxyd_embed = -fsanitize-recover=bounds
