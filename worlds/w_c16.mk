# C16: the file layer (what export.o really calls: open write close stat unlink) and the
# stdio calls of export.o (fwrite vfprintf) are redirected to the simulated layer of
# worlds/w_c16.cc; everything not addressed to the simulated file system goes to __real_*.
LDFLAGS_w_c16 := -Wl,--wrap=open,--wrap=write,--wrap=close,--wrap=stat,--wrap=unlink,--wrap=fwrite,--wrap=vfprintf
