// C08 — Closed Caption display memory follows EIA-608 / 47 CFR 15.119 for every command sequence.
//
// World: one vbi_decoder with a VBI_EVENT_CAPTION handler.  Eight channel
// encoder tasks (CC1-4, T1-4) each run a script of caption operations; the two
// field multiplexers (field 1: CC1 CC2 T1 T2 on line 21, field 2: CC3 CC4 T3
// T4 on line 284) are the seeded scheduler: whichever task runs next gets the
// next byte-pair slot of its field; when the sender of a field changes, the
// channel's resume code (RCL / RU2-4 / RDC / RTD) is inserted first, as a real
// encoder must.  Field-1 control codes are sent doubled or single (plan's
// choice), field-2 codes single, empty slots carry 80 80.  One frame = one
// vbi_decode() with both lines, timestamps +33.4 ms.
//
// Two further dimensions of the history (added after seeded change C08-m6 was missed: field-2 text received before the first
// field-2 mode command was written into CC1; every run used to open each field with a resume code):
//  * "joined mid-stream" (op join + a caption tail): the decoder comes into being while the channels of a field are in the
//    middle of a transmission; the first sender of that field does not repeat its resume code, so the field begins with
//    characters / PACs / mid-row codes / ... that belong to no known channel, while the other field is being captioned.
//  * "channel switch" (op chsw): vbi_channel_switched() between two frames; reference = a new decoder; all channels go on
//    with their scripts mid-stream.
// Such data must not appear on any channel of the other field (strict, nothing new in the oracle: page comparison and
// cross-talk clause); on the channels of the same field the oracle is lenient (RefDecoder::orphan).
//
// Oracle: RefDecoder below, my own EIA-608 / 47 CFR 15.119 decoder model that
// consumes the very same byte pairs (it is NOT derived from caption.c).  The
// page fetched with vbi_fetch_cc_page() is compared with the model's displayed
// memory only at the sync points where the statement makes content visible
// (see Effect::sync).  Where the standard leaves freedom, or where I am not
// certain of its text, either the comparison is relaxed (Cell::adc / bdc /
// box) or the encoder does not produce the situation (guard_* counters); every
// such place carries a comment starting with "LENIENCY" or "GUARD".
#include <cstdio>
#include <cstring>
#include <map>
#include <set>

#include "alloc.h"
#include "sim.h"
#include "tx.h"

extern "C" {
#include "src/libzvbi.h"
}

using namespace sim;

namespace {

// ---------------------------------------------------------------------------
// 47 CFR 15.119 (g) character set, transcribed from the standard's table.
static unsigned cc_unicode(int c) {
  switch (c) {
    case 0x2A: return 0x00E1;  // a acute
    case 0x5C: return 0x00E9;  // e acute
    case 0x5E: return 0x00ED;  // i acute
    case 0x5F: return 0x00F3;  // o acute
    case 0x60: return 0x00FA;  // u acute
    case 0x7B: return 0x00E7;  // c cedilla
    case 0x7C: return 0x00F7;  // division sign
    case 0x7D: return 0x00D1;  // N tilde
    case 0x7E: return 0x00F1;  // n tilde
    case 0x7F: return 0x25A0;  // solid block
    default: return (unsigned)c;
  }
}
static unsigned cc_special(int n) {  // 0x11 0x30 + n
  static const unsigned t[16] = {0x00AE, 0x00B0, 0x00BD, 0x00BF, 0x2122, 0x00A2, 0x00A3, 0x266A,
                                 0x00E0, 0x0020 /* transparent space, handled separately */, 0x00E8, 0x00E2, 0x00EA, 0x00EE, 0x00F4, 0x00FB};
  return t[n & 15];
}
// caption colour index (PAC / mid-row order): white green blue cyan red yellow magenta (7 = black, background only)
static int vbi_col(int k) {
  static const int m[8] = {VBI_WHITE, VBI_GREEN, VBI_BLUE, VBI_CYAN, VBI_RED, VBI_YELLOW, VBI_MAGENTA, VBI_BLACK};
  return m[k & 7];
}

enum Mode { M_NONE = 0, M_POPON, M_PAINTON, M_ROLLUP, M_TEXT };
static const char* mode_name[] = {"none", "popon", "painton", "rollup", "text"};
enum { OP_OPAQUE = 0, OP_SEMI = 1, OP_TRANSP_BG = 2 };

struct Cell {
  uint16_t uc = 0;  // 0 = transparent (nothing in memory)
  uint8_t fg = 0, ul = 0, it = 0, fl = 0, bg = 7, op = OP_OPAQUE;
  bool adc = false;  // LENIENCY: foreground/underline/italic/flash not compared (see Pen::adc)
  bool bdc = false;  // LENIENCY: background/opacity not compared
  bool box = false;  // LENIENCY (transparent cells): may show as a solid blank, 15.119(d): "a solid space equal
                     // to one column width may be placed before the first and after the last character of each row"
};
struct Pen { uint8_t fg = 0, ul = 0, it = 0, fl = 0, bg = 7, op = OP_OPAQUE; bool adc = false, bdc = false;
  bool dflt() const { return fg == 0 && !ul && !it && !fl; }
  bool bgdflt() const { return bg == 7 && op == OP_OPAQUE; } };

struct Effect {
  int chan = -1;       // channel (0..7) the pair acted on, -1 none
  bool sync = false;   // the statement makes the channel's content visible after this pair
  bool executed = false;
  const char* what = "";
};

struct Chan {
  bool text = false;
  Mode mode = M_NONE;
  Cell mem[2][15][34];  // [memory][row 0..14][column 1..32; 0 and 33: the margin columns of the page, only .box is used]
  int disp = 0;
  int row = 14, col = 1, depth = 3;
  Pen pen;
  bool edge = false;      // the cursor "ran into" column 32 (see GUARD edge)
  bool need_pac = false;  // GUARD: cursor position after EOC is left to the decoder ("a PAC should follow")
  // LENIENCY orphan-same-field: unk[k] = memory k may hold data this field carried before any channel of the field was
  // selected (see RefDecoder::orphan); the channel's page is not judged until both memories were erased by a command
  bool unk[2] = {false, false};
  bool tainted() const { return unk[0] || unk[1]; }
  Cell (*act())[34] { return mem[mode == M_POPON ? disp ^ 1 : disp]; }
  bool row_empty(Cell (*m)[34], int r) const { for (int c = 1; c <= 32; c++) if (m[r][c].uc) return false; return true; }
  bool mem_empty(int k) const { for (int r = 0; r < 15; r++) for (int c = 1; c <= 32; c++) if (mem[k][r][c].uc) return false; return true; }
  // for the style-switch guard: nothing was written since the last erase (a cell that held a character, or was next to one,
  // may keep a solid blank in the decoder although the model's cell is empty again after BS / DER: LENIENCY legibility space)
  bool mem_clean(int k) const { for (int r = 0; r < 15; r++) for (int c = 0; c <= 33; c++) if (mem[k][r][c].uc || mem[k][r][c].box) return false; return true; }
  void erase(int k) { for (int r = 0; r < 15; r++) for (int c = 0; c <= 33; c++) mem[k][r][c] = Cell(); unk[k] = false; }
  void erase_row(Cell (*m)[34], int r) { for (int c = 0; c <= 33; c++) m[r][c] = Cell(); }
  void advance() { if (col < 32) col++; else edge = true; }
  void put(unsigned uc) {
    Cell c; c.uc = (uint16_t)uc; c.fg = pen.fg; c.ul = pen.ul; c.it = pen.it; c.fl = pen.fl; c.bg = pen.bg; c.op = pen.op;
    c.adc = pen.adc; c.bdc = pen.bdc;
    Cell(*m)[34] = act();
    m[row][col] = c;
    m[row][col - 1].box = true;   // col 1: the left margin column
    m[row][col + 1].box = true;   // col 32: the right margin column
    advance();
  }
  void cr_pen() {  // LENIENCY: attributes of a row begun without PAC (after CR): 15.119(h)(1) says white, the
                   // code under test and common decoders keep the pen -> not compared unless the pen is the default
    if (!pen.dflt()) pen.adc = true;
    if (!pen.bgdflt()) pen.bdc = true;
  }
};

// ---------------------------------------------------------------------------
// Reference decoder: EIA-608 / 47 CFR 15.119, per field a current channel and
// the control-code repetition rule, per channel the display memories.
struct RefDecoder {
  Chan ch[8];
  int cur[2] = {-1, -1};  // current channel (0..7) per field
  int last[2][2] = {{-1, -1}, {-1, -1}};
  std::map<std::string, int64_t>* stats = nullptr;
  void cnt(const char* k) { if (stats) (*stats)[k]++; }
  RefDecoder() {
    for (int i = 4; i < 8; i++) { ch[i].text = true; ch[i].mode = M_TEXT; ch[i].row = 0; ch[i].depth = 15; }
  }

  Effect feed(int f, int b0, int b1) {
    Effect e;
    int c1 = b0 & 0x7F, c2 = b1 & 0x7F;  // the channel is fault free: parity always correct
    if (c1 == 0 && c2 == 0) {  // 80 80 filler: 15.119(i)(1) speaks of "the next frame"; a filler frame ends the repetition window
      last[f][0] = -1;
      return e;
    }
    if (c1 >= 0x10 && c1 <= 0x1F) {
      // 15.119(i)(1): "If the next frame contains a perfect repeat of the same pair, the redundant code is ignored."
      // (field 1 only; field-2 codes are never sent twice in a row by this world, see GUARD f2-repeat)
      if (f == 0 && last[0][0] == c1 && last[0][1] == c2) {
        last[0][0] = -1; cnt("ref_dedupe"); e.what = "dup";
        e.chan = cur[0];
        return e;
      }
      last[f][0] = c1; last[f][1] = c2;
      bool unselected = cur[f] < 0;
      control(f, c1, c2, e);
      if (unselected && cur[f] < 0) orphan(f);  // not one of RCL RU2-4 RDC TR RTD EOC
      return e;
    }
    last[f][0] = -1;
    if (cur[f] < 0) { orphan(f); return e; }
    Chan& c = ch[cur[f]];
    e.chan = cur[f];
    if (c.mode == M_NONE) return e;
    e.executed = true; e.what = "txt";
    for (int i = 0; i < 2; i++) {
      int x = i ? c2 : c1;
      if (x < 0x20) continue;  // 15.119(i)(1): a non-printing character 00-0F alone is ignored
      c.put(cc_unicode(x));
      e.sync = (x == 0x20);  // completed word: the pair ended with a space
      if (c.edge) cnt("ref_col32_overwrite");
    }
    return e;
  }

  // Data received on field f while no channel of that field is selected (decoder switched on, or tuned in, in the middle of
  // a transmission).  The statement's reference is "a reference EIA-608 / 47 CFR 15.119 model": characters, PACs, mid-row
  // and the other non-selecting codes carry no channel / mode of their own - they act on the channel and style chosen by
  // the last RCL / RU2-4 / RDC / TR / RTD / EOC of THEIR field (15.119(f): "the decoder ... remains in that mode until
  // another mode command"; EIA-608: each field is an independent data stream, CC1 CC2 T1 T2 on field 1, CC3 CC4 T3 T4 on
  // field 2), so before the first such command of the field they belong to no known channel and the model discards them.
  // In particular they can never reach a channel of the OTHER field: those pages stay strictly compared.
  // LENIENCY orphan-same-field: what a decoder does with such data on the channels of the SAME field is not spelled out
  // (DESIGN.md C08 soft spot (ii): "characters received before any mode command: ignored or shown"): the four channels of
  // field f are marked - memories unknown until erased by a command (EDM+ENM, a style change that erases, TR), pen
  // attributes unknown until set (PAC / colour code), cursor unknown until a PAC (encoder guard need_pac).
  bool orphan_strict = false;  // knob orphan_strict=1 (never generated): no leniency, the model's "discarded" is demanded on the same field too
  void orphan(int f) {
    cnt("ref_orphan_pair");
    if (orphan_strict) return;
    for (int k = 0; k < 4; k++) {
      Chan& c = ch[(k & 2 ? 4 : 0) + f * 2 + (k & 1)];
      c.unk[0] = c.unk[1] = true;
      c.pen.adc = c.pen.bdc = true;
      if (!c.text) c.need_pac = true;
    }
  }

  void control(int f, int c1, int c2, Effect& e) {
    int chbit = (c1 >> 3) & 1;
    int textbit = cur[f] >= 0 ? (cur[f] & 4) : 0;
    int addressed = textbit + f * 2 + chbit;
    c1 &= 7;
    e.executed = true;
    if (c2 >= 0x40) {  // PAC
      static const int rowmap[16] = {10, -1, 0, 1, 2, 3, 11, 12, 13, 14, 4, 5, 6, 7, 8, 9};
      int row = rowmap[c1 * 2 + ((c2 >> 5) & 1)];
      e.what = "pac";
      if (row < 0 || cur[f] < 0) return;
      Chan& c = ch[addressed];
      e.chan = addressed;
      if (c.mode == M_NONE) return;
      pac(c, row, c2 & 0x1F);
      e.sync = true;
      return;
    }
    if (c1 == 4 || c1 == 5) {  // miscellaneous control codes 14/15/1C/1D 2x
      misc(f, chbit, addressed, c2 & 15, e);
      return;
    }
    if (cur[f] < 0) return;
    Chan& c = ch[addressed];
    e.chan = addressed;
    if (c.mode == M_NONE) return;
    if (c1 == 1 && c2 >= 0x20 && c2 <= 0x2F) {  // mid-row code, 15.119(h)(1)(i): spacing attribute
      int k = (c2 >> 1) & 7;
      c.pen.ul = c2 & 1;
      c.pen.fl = 0;  // (h)(1)(ii)/(iii): colour and italics codes end flash
      if (k < 7) { c.pen.fg = (uint8_t)k; c.pen.it = 0; c.pen.adc = false; }  // (ii) colour turns off italics
      else c.pen.it = 1;                                                      // (iii) italics does not change the colour
      c.put(0x20);
      e.sync = true; e.what = "mid";
    } else if (c1 == 1 && c2 >= 0x30 && c2 <= 0x3F) {  // special characters
      e.what = "spc";
      if (c2 == 0x39) {  // transparent space: nothing displayed in this cell, cursor advances
        Cell(*m)[34] = c.act();
        m[c.row][c.col] = Cell();
        c.advance();
      } else {
        c.put(cc_special(c2 & 15));
      }
    } else if (c1 == 7 && c2 >= 0x21 && c2 <= 0x23) {  // tab offsets: move the cursor only
      e.what = "tab";
      int n = c2 & 3;
      Cell(*m)[34] = c.act();
      if (c.col + n > 32) { c.col = 32; c.edge = true; } else c.col += n;
      if (c.col > 1 && m[c.row][c.col - 1].uc) c.pen.adc = true;  // LENIENCY: EIA-608 Annex C.7 (attributes of the left neighbour) vs pen
    } else if (c1 == 0 && c2 >= 0x20 && c2 <= 0x2F) {  // background attribute, EIA-608 6.2: spacing, replaces the preceding space
      e.what = "bga";
      c.pen.bg = (uint8_t)((c2 >> 1) & 7); c.pen.op = (c2 & 1) ? OP_SEMI : OP_OPAQUE; c.pen.bdc = false;
      bg_space(c);
      e.sync = true;
    } else if (c1 == 7 && c2 == 0x2D) {  // background transparent
      e.what = "bga";
      c.pen.op = OP_TRANSP_BG; c.pen.bdc = false;
      bg_space(c);
      e.sync = true;
    }
    // everything else (extended characters, FA/FAU, reserved) is not generated
  }
  void bg_space(Chan& c) {  // the attribute takes the place of the space the encoder sent before it (GUARD bga: col > 1, previous cell is a space)
    Cell(*m)[34] = c.act();
    int col = c.col > 1 && !c.edge ? c.col - 1 : c.col;
    Cell s; s.uc = 0x20; s.fg = c.pen.fg; s.ul = c.pen.ul; s.it = c.pen.it; s.fl = c.pen.fl; s.bg = c.pen.bg; s.op = c.pen.op; s.adc = c.pen.adc;
    m[c.row][col] = s;
  }

  void move_window(Chan& c, int newbase) {  // 15.119(f)(1)(ii): "the entire window will move intact (and without erasing) to the new base row"
    if (newbase == c.row) return;
    Cell(*m)[34] = c.mem[c.disp];
    Cell tmp[4][34];
    int n = c.depth;
    for (int i = 0; i < n; i++) {  // i-th row above the base
      int r = c.row - i;
      for (int k = 0; k <= 33; k++) { tmp[i][k] = r >= 0 ? m[r][k] : Cell(); if (r >= 0) m[r][k] = Cell(); }
    }
    for (int i = 0; i < n; i++) {
      int r = newbase - i;
      if (r >= 0) for (int k = 0; k <= 33; k++) m[r][k] = tmp[i][k];
    }
    c.row = newbase;
    cnt("ref_window_moved");
  }
  void pac(Chan& c, int row, int lo5) {
    bool same_row = false;
    if (c.mode == M_TEXT) {
      // 15.119(e)(1) / EIA-608 7.4: in Text mode the row of a PAC is not used; only indenting PACs are generated (GUARD text-pac)
      same_row = true;
    } else if (c.mode == M_ROLLUP) {
      // base row too close to the top for the window: EIA-608 Annex C.4 moves the base row down so that the whole
      // window fits (the code under test does the same); DESIGN leniency (i) is therefore not needed
      int base = row < c.depth - 1 ? c.depth - 1 : row;
      if (row < c.depth - 1) cnt("ref_window_top_clamped");
      same_row = base == c.row;
      move_window(c, base);
    } else {
      same_row = row == c.row;
      c.row = row;
    }
    c.edge = false; c.need_pac = false;
    bool indent = lo5 & 0x10;
    c.col = indent ? 1 + ((lo5 >> 1) & 7) * 4 : 1;
    int k = (lo5 >> 1) & 7;
    c.pen.ul = lo5 & 1; c.pen.fl = 0;
    if (indent || k == 7) c.pen.fg = 0; else c.pen.fg = (uint8_t)k;
    c.pen.it = (!indent && k == 7);
    // LENIENCY: a PAC into a row that already holds characters: 15.119(h)(1)(i) ("will not alter any attributes when used
    // to position the cursor in the midst of a row") and EIA-608 Annex C.7 (new character assumes the attributes of its
    // left neighbour) vs. PAC attributes -> attributes of what follows are not compared until the next colour code
    c.pen.adc = !c.row_empty(c.act(), c.row);
    // background: "remains in effect until the end of the row"; a PAC on the same row is undecided
    c.pen.bdc = same_row && !c.pen.bgdflt();
    c.pen.bg = 7; c.pen.op = OP_OPAQUE;
  }

  void misc(int f, int chbit, int addressed, int code, Effect& e) {
    int cap = f * 2 + chbit, txt = 4 + f * 2 + chbit;
    switch (code) {
      case 0: {  // RCL, 15.119(f)(2): select pop-on; memories and cursor unchanged
        Chan& c = ch[cap]; cur[f] = cap; e.chan = cap; e.what = "rcl";
        c.mode = M_POPON;
        return;
      }
      case 5: case 6: case 7: {  // RU2-4
        Chan& c = ch[cap]; cur[f] = cap; e.chan = cap; e.what = "ru";
        int n = code - 3;
        if (c.mode == M_ROLLUP) {
          // (f)(1)(iv)?: depth changes at once, base row stays; a smaller window loses its top rows
          if (n < c.depth) {
            Cell(*m)[34] = c.mem[c.disp];
            for (int r = c.row - c.depth + 1; r <= c.row - n; r++) if (r >= 0) { if (!c.row_empty(m, r)) e.sync = true; c.erase_row(m, r); }
          }
          c.depth = n;
        } else if (c.mode == M_NONE) {
          c.mode = M_ROLLUP; c.depth = n; c.row = 14; c.col = 1; c.edge = false; c.need_pac = false;
        } else {  // from pop-on / paint-on: (f)(1)(x) both memories are erased, (f)(1)(ii) base row 15, column 1
          if (!c.mem_empty(c.disp)) e.sync = true;
          c.erase(0); c.erase(1);
          c.mode = M_ROLLUP; c.depth = n; c.row = 14; c.col = 1; c.edge = false; c.need_pac = false;
        }
        return;
      }
      case 9: {  // RDC, (f)(3): select paint-on; nothing erased, cursor unchanged
        Chan& c = ch[cap]; cur[f] = cap; e.chan = cap; e.what = "rdc";
        c.mode = M_PAINTON;
        return;
      }
      case 10: {  // TR: EIA-608 7.4 clears the text memory, cursor to the upper left
        Chan& c = ch[txt]; cur[f] = txt; e.chan = txt; e.what = "tr";
        c.erase(c.disp); c.row = 0; c.col = 1; c.edge = false;
        c.unk[0] = c.unk[1] = false;  // a text channel has one memory
        e.sync = true;
        return;
      }
      case 11: {  // RTD
        cur[f] = txt; e.chan = txt; e.what = "rtd";
        return;
      }
      case 15: {  // EOC, (f)(2): the memories are swapped ("flip memories"), pop-on style selected
        Chan& c = ch[cap]; cur[f] = cap; e.chan = cap; e.what = "eoc";
        c.disp ^= 1; c.mode = M_POPON; c.need_pac = true;
        e.sync = true;
        return;
      }
      default: break;
    }
    if (code == 12 || code == 14) {  // EDM / ENM act on the caption channel's memories (also during Text mode, EIA-608 Annex B.7)
      Chan& c = ch[cap]; e.chan = cap;
      if (code == 12) { c.erase(c.disp); e.sync = true; e.what = "edm"; }
      else { c.erase(c.disp ^ 1); e.what = "enm"; }
      return;
    }
    if (cur[f] < 0) return;
    Chan& c = ch[addressed];
    e.chan = addressed;
    if (c.mode == M_NONE) return;
    Cell(*m)[34] = c.act();
    switch (code) {
      case 1:  // BS (f)(1)(vi): cursor one column left, erasing what is there; ignored in column 1
        e.what = "bs";
        if (c.col > 1) { c.col--; m[c.row][c.col] = Cell(); if (c.col > 1 && m[c.row][c.col - 1].uc) m[c.row][c.col].box = true; }
        c.pen.adc = true;  // LENIENCY: EIA-608 Annex C.14 (area without attributes) vs pen
        return;
      case 4:  // DER (f)(1)(vii): erase from the cursor to the end of the row
        e.what = "der";
        for (int k = c.col; k <= 32; k++) m[c.row][k] = Cell();
        if (c.col > 1 && m[c.row][c.col - 1].uc) m[c.row][c.col].box = true;  // the cell behind the last remaining character (LENIENCY box)
        e.sync = true;
        return;
      case 8:  // FON, 15.119(h)(1)(i): spacing attribute
        e.what = "fon";
        c.pen.fl = 1;
        c.put(0x20);
        e.sync = true;
        return;
      case 13:  // CR
        e.what = "cr";
        if (c.mode == M_ROLLUP) {  // (f)(1)(iii): roll the window, cursor to column 1 of the base row
          int top = c.row - c.depth + 1; if (top < 0) top = 0;
          for (int r = top; r < c.row; r++) for (int k = 0; k <= 33; k++) m[r][k] = m[r + 1][k];
          c.erase_row(m, c.row);
          c.col = 1; c.edge = false; c.cr_pen();
          e.sync = true;
        } else if (c.mode == M_TEXT) {  // EIA-608 7.4: next row; on the last row the text scrolls up
          if (c.row < 14) c.row++;
          else { for (int r = 0; r < 14; r++) for (int k = 0; k <= 33; k++) m[r][k] = m[r + 1][k]; c.erase_row(m, 14); cnt("ref_text_scrolled"); }
          c.col = 1; c.edge = false; c.cr_pen();
          e.sync = true;
        }
        // (f)(2)(i), (f)(3)(i): "Carriage returns have no effect on cursor location" in pop-on and paint-on style
        return;
      default: return;
    }
  }
};

// ---------------------------------------------------------------------------
enum Feat { FT_POPON = 1, FT_ROLLUP = 2, FT_PAINTON = 4, FT_TEXT = 8, FT_ATTR = 16, FT_SPECIAL = 32, FT_EDIT = 64 /* BS DER TO */,
            FT_ERASE = 128 /* EDM ENM */, FT_BGA = 256, FT_FON = 512, FT_CHAOS = 1024, FT_FIELD2 = 2048, FT_MULTI = 4096 };

struct C08 : World {
  const char* name() const override { return "c08"; }
  const char* property() const override { return "C08"; }

  // ---------------------------------------------------------------- plan ---
  static void word(Rng& r, std::string& s, bool special_ok) {
    int n = 1 + (int)r.below(7);
    for (int i = 0; i < n; i++) {
      if (special_ok && r.chance(1, 12)) { static const char t[] = {0x2A, 0x5C, 0x5E, 0x5F, 0x60, 0x7B, 0x7C, 0x7D, 0x7E, 0x7F, 0x27, 0x24}; s += t[r.below(sizeof t)]; }
      else if (r.chance(1, 6)) s += (char)(0x21 + r.below(0x5E));
      else s += (char)('a' + r.below(26));
    }
  }
  static Op mk(int t, const char* kind, std::vector<int64_t> a, const std::string& s = "") { Op o; o.task = t; o.kind = kind; o.a = a; o.s = s; return o; }

  void gen_text(Rng& r, Plan& p, int t, unsigned feat, int budget) {
    // a run of words (each followed by a space), decorated with the enabled extras
    int words = 1 + (int)r.below((uint64_t)budget);
    for (int w = 0; w < words; w++) {
      std::string s; word(r, s, feat & FT_SPECIAL); s += ' ';
      if (r.chance(1, 10)) { std::string s2; word(r, s2, false); s += s2 + ' '; }
      p.ops.push_back(mk(t, "txt", {(int64_t)r.below(2), (int64_t)r.below(2)}, s));
      if ((feat & FT_ATTR) && r.chance(1, 5)) p.ops.push_back(mk(t, "mid", {(int64_t)r.below(16), (int64_t)r.below(2)}));
      if ((feat & FT_SPECIAL) && r.chance(1, 6)) p.ops.push_back(mk(t, "spc", {(int64_t)r.below(16), (int64_t)r.below(2)}));
      if ((feat & FT_EDIT) && r.chance(1, 8)) {
        int k = (int)r.below(3);
        if (k == 0) { std::string s2; word(r, s2, false); p.ops.push_back(mk(t, "txt", {0, 0}, s2)); int nb = r.chance(1, 3) ? (int)s2.size() + (int)r.below(9) : 1 + (int)r.below(3); for (int i = 0; i < nb; i++) p.ops.push_back(mk(t, "bs", {(int64_t)r.below(2)})); }
        else if (k == 1) p.ops.push_back(mk(t, "tab", {1 + (int64_t)r.below(3), (int64_t)r.below(2)}));
        else p.ops.push_back(mk(t, "der", {(int64_t)r.below(2)}));
      }
      if ((feat & FT_BGA) && r.chance(1, 8)) p.ops.push_back(mk(t, "bga", {(int64_t)r.below(17), (int64_t)r.below(2)}));
      if ((feat & FT_FON) && r.chance(1, 10)) p.ops.push_back(mk(t, "fon", {(int64_t)r.below(2)}));
    }
  }
  void gen_rowstart_edit(Rng& r, Plan& p, int t, unsigned feat) {  // BS at/near column 1, DER into existing text, right after a PAC
    if (!(feat & FT_EDIT) || !r.chance(1, 6)) return;
    if (r.chance(1, 2)) { p.ops.push_back(mk(t, "der", {(int64_t)r.below(2)})); return; }
    std::string s2; int n = 1 + (int)r.below(2); for (int i = 0; i < n; i++) s2 += (char)('A' + r.below(26));
    p.ops.push_back(mk(t, "txt", {0, 0}, s2));
    int nb = 1 + (int)r.below(3); for (int i = 0; i < nb; i++) p.ops.push_back(mk(t, "bs", {(int64_t)r.below(2)}));
  }
  Op gen_pac(Rng& r, int t, unsigned feat, int row) {
    int64_t style;
    if (!(feat & FT_ATTR)) style = r.chance(1, 2) ? 0x10 | ((int64_t)r.below(8) << 1) : 0;  // white, any indent
    else style = (int64_t)r.below(32);
    return mk(t, "pac", {row, style, (int64_t)r.below(2)});
  }

  // one caption (pop-on / roll-up / paint-on) or one text transmission of channel t
  void gen_caption(Rng& r, Plan& p, int t, unsigned feat) {
    bool text = t >= 4;
    if (text) {
      p.ops.push_back(mk(t, "mode", {r.chance(1, 3) ? 1 : 0, (int64_t)r.below(2)}));
      int rows = 1 + (int)r.below(r.chance(1, 5) ? 20 : 5);
      for (int i = 0; i < rows; i++) {
        if ((feat & FT_ATTR) && r.chance(1, 4)) p.ops.push_back(mk(t, "pac", {(int64_t)r.below(15), 0x10 | ((int64_t)r.below(16)), (int64_t)r.below(2)}));
        gen_text(r, p, t, feat, 3);
        p.ops.push_back(mk(t, "cr", {(int64_t)r.below(2)}));
      }
      return;
    }
    std::vector<int> styles;
    if (feat & FT_POPON) styles.push_back(0);
    if (feat & FT_ROLLUP) styles.push_back(1);
    if (feat & FT_PAINTON) styles.push_back(2);
    if (styles.empty()) styles.push_back(0);
    int style = styles[r.below(styles.size())];
    if (style == 0) {  // pop-on: RCL [ENM] (PAC text)* [EDM] EOC
      p.ops.push_back(mk(t, "mode", {0, (int64_t)r.below(2)}));
      if ((feat & FT_ERASE) && r.chance(1, 2)) p.ops.push_back(mk(t, "enm", {(int64_t)r.below(2)}));
      int rows = 1 + (int)r.below(4);
      int row0 = (int)r.below(15);
      for (int i = 0; i < rows; i++) {
        p.ops.push_back(gen_pac(r, t, feat, r.chance(1, 4) ? (int)r.below(15) : (row0 + i) % 15));
        gen_rowstart_edit(r, p, t, feat);
        gen_text(r, p, t, feat, r.chance(1, 8) ? 9 : 3);
      }
      if ((feat & FT_ERASE) && r.chance(1, 3)) p.ops.push_back(mk(t, "edm", {(int64_t)r.below(2)}));
      p.ops.push_back(mk(t, "eoc", {(int64_t)r.below(2)}));
      if ((feat & FT_ERASE) && r.chance(1, 6)) p.ops.push_back(mk(t, "edm", {(int64_t)r.below(2)}));
    } else if (style == 1) {  // roll-up: RUn PAC (text CR)*
      p.ops.push_back(mk(t, "mode", {1 + (int64_t)r.below(3), (int64_t)r.below(2)}));
      int rows = 1 + (int)r.below(6);
      for (int i = 0; i < rows; i++) {
        if (i == 0 || r.chance(1, 3)) p.ops.push_back(gen_pac(r, t, feat, r.chance(1, 3) ? (int)r.below(5) : r.chance(1, 2) ? 14 : (int)r.below(15)));
        gen_text(r, p, t, feat, r.chance(1, 8) ? 9 : 3);
        p.ops.push_back(mk(t, "cr", {(int64_t)r.below(2)}));
        if (r.chance(1, 8)) p.ops.push_back(mk(t, "mode", {1 + (int64_t)r.below(3), (int64_t)r.below(2)}));
      }
      if ((feat & FT_ERASE) && r.chance(1, 3)) p.ops.push_back(mk(t, "edm", {(int64_t)r.below(2)}));
    } else {  // paint-on: RDC (PAC text)*
      p.ops.push_back(mk(t, "mode", {4, (int64_t)r.below(2)}));
      int rows = 1 + (int)r.below(4);
      int prow = -1;
      for (int i = 0; i < rows; i++) {
        int row = (prow >= 0 && r.chance(1, 3)) ? prow : (int)r.below(15);  // revisit a row: paint over / DER into existing text
        prow = row;
        p.ops.push_back(gen_pac(r, t, feat, row));
        gen_rowstart_edit(r, p, t, feat);
        gen_text(r, p, t, feat, r.chance(1, 8) ? 9 : 3);
      }
      if ((feat & FT_ERASE) && r.chance(1, 3)) p.ops.push_back(mk(t, "edm", {(int64_t)r.below(2)}));
    }
    if ((feat & FT_CHAOS) && r.chance(1, 2)) {  // unstructured tail: any operation anywhere
      int n = 1 + (int)r.below(8);
      for (int i = 0; i < n; i++) {
        switch (r.below(10)) {
          case 0: p.ops.push_back(mk(t, "cr", {(int64_t)r.below(2)})); break;
          case 1: p.ops.push_back(gen_pac(r, t, feat, (int)r.below(15))); break;
          case 2: p.ops.push_back(mk(t, "mode", {(int64_t)r.below(5), (int64_t)r.below(2)})); break;
          case 3: p.ops.push_back(mk(t, "eoc", {(int64_t)r.below(2)})); break;
          case 4: if (feat & FT_ERASE) p.ops.push_back(mk(t, r.chance(1, 2) ? "edm" : "enm", {(int64_t)r.below(2)})); break;
          case 5: if (feat & FT_EDIT) p.ops.push_back(mk(t, r.chance(1, 2) ? "bs" : "der", {(int64_t)r.below(2)})); break;
          case 6: if (feat & FT_EDIT) p.ops.push_back(mk(t, "tab", {1 + (int64_t)r.below(3), (int64_t)r.below(2)})); break;
          case 7: p.ops.push_back(mk(t, "idle", {1 + (int64_t)r.below(4)})); break;
          default: gen_text(r, p, t, feat, 2); break;
        }
      }
    }
    if (r.chance(1, 5)) p.ops.push_back(mk(t, "idle", {1 + (int64_t)r.below(5)}));
  }

  Plan generate(uint64_t seed, const std::string& tier) override {
    Plan p; p.world = name(); p.seed = seed;
    Rng r(seed, "plan");
    p.knobs["sched_seed"] = (int64_t)(r.next() >> 1);
    p.knobs["policy"] = (int64_t)r.below(3);
    p.knobs["pparam"] = (p.knobs["policy"] == 1) ? 40 + (int64_t)r.below(55) : (int64_t)r.below(4);
    p.knobs["doubling"] = (int64_t)r.below(3);  // 0 never, 1 always, 2 per control code (op argument)
    p.knobs["std625"] = r.chance(1, 8);
    p.knobs["hygiene"] = 1;
    // swarm: random subset of feature classes
    unsigned feat = (unsigned)r.below(1u << 13);
    if (!(feat & (FT_POPON | FT_ROLLUP | FT_PAINTON | FT_TEXT))) feat |= 1u << r.below(4);
    if (r.chance(1, 4)) feat |= FT_POPON | FT_ROLLUP | FT_PAINTON | FT_TEXT | FT_ATTR | FT_SPECIAL | FT_EDIT | FT_ERASE | FT_FIELD2 | FT_MULTI;
    if (const char* e = getenv("C08_FEAT")) feat = (unsigned)strtoul(e, nullptr, 0);  // development aid: fixed feature slice
    p.knobs["feat"] = feat;
    int nchan = (feat & FT_MULTI) ? 1 + (int)r.below(6) : 1;
    std::vector<int> chans;
    for (int i = 0; i < nchan; i++) {
      int c;
      for (int tries = 0;; tries++) {
        bool text = (feat & FT_TEXT) && (!(feat & (FT_POPON | FT_ROLLUP | FT_PAINTON)) || r.chance(1, 3));
        c = (text ? 4 : 0) + (int)r.below(4);
        if (!(feat & FT_FIELD2)) c &= ~2;
        bool dup = false; for (int x : chans) if (x == c) dup = true;
        if (!dup || tries > 6) break;
      }
      bool dup = false; for (int x : chans) if (x == c) dup = true;
      if (!dup) chans.push_back(c);
    }
    // Workload dimension "joined mid-stream" (own random stream: the rest of the plan is what it was without it).  The
    // statement quantifies over "all command/character sequences over all eight channels and both fields"; a decoder is
    // switched on in the middle of a transmission as a rule, so a field's sequence may well begin with the tail of a
    // caption whose RCL / RUx / RDC / TR / RTD went out before the decoder existed.  joined bit f: every channel of field
    // f+1 starts with such a tail (a caption generated as usual, cut at a random point, the part before the cut not sent),
    // and the first sender of the field does not repeat its resume code.  The other field is made sure to carry a channel
    // of its own, so that the tail arrives while the other field's channels are selected and being written.
    Rng rj(seed, "join");
    int joined = rj.chance(3, 10) ? 1 + (int)rj.below(3) : 0;
    if (const char* e = getenv("C08_JOIN")) joined = atoi(e) & 3;  // development aid
    if (getenv("C08_CHSW_STRICT")) p.knobs["chsw_strict"] = 1;       // development aid (the generator never sets this knob otherwise)
    if (getenv("C08_ORPHAN_STRICT")) p.knobs["orphan_strict"] = 1;   // development aid (the generator never sets this knob otherwise)
    if (joined) {
      for (int f = 0; f < 2; f++) {
        bool have = false; for (int x : chans) if (((x >> 1) & 1) == f) have = true;
        if (!have) chans.push_back((rj.chance(1, 4) ? 4 : 0) + f * 2 + (int)rj.below(2));
      }
      for (int t : chans) {
        if (!((joined >> ((t >> 1) & 1)) & 1)) continue;
        p.ops.push_back(mk(t, "join", {}));
        int nidle = (int)rj.below(4);  // the other field gets ahead
        for (int i = 0; i < nidle; i++) p.ops.push_back(mk(t, "idle", {1 + (int64_t)rj.below(7)}));
        Plan tail; gen_caption(rj, tail, t, feat | (rj.chance(1, 2) ? FT_ATTR | FT_SPECIAL | FT_EDIT | FT_ERASE : 0));
        size_t cut = 1 + (size_t)rj.below(tail.ops.size() > 1 ? tail.ops.size() - 1 : 1);  // at least the leading mode command is not seen
        if (tail.ops.size() > cut + 12 && rj.chance(2, 3)) cut = tail.ops.size() - 1 - (size_t)rj.below(12);  // mostly short tails
        for (size_t i = cut; i < tail.ops.size(); i++) p.ops.push_back(tail.ops[i]);
      }
    }
    int scale = tier == "thorough" ? 2 : 1;
    for (int t : chans) {
      int ncap = (1 + (int)r.below(4)) * scale;
      for (int k = 0; k < ncap; k++) gen_caption(r, p, t, feat);
    }
    // Workload dimension "channel switch": vbi_channel_switched() somewhere in the middle of the transmissions ("to reset
    // the decoding context ... includes deletion of all cached Teletext and Closed Caption pages", executed when "the next
    // frame is about to be decoded").  Afterwards the decoder is in the position of a new decoder joining all channels
    // mid-stream: every channel continues its script where it was, the first sender of each field without a resume code.
    if (rj.chance(1, 6) && !p.ops.empty()) {
      int n = 1 + (int)rj.below(2);
      for (int i = 0; i < n; i++) {
        size_t at = (size_t)rj.below(p.ops.size());
        p.ops.insert(p.ops.begin() + (long)at, mk(p.ops[at].task, "chsw", {}));
      }
    }
    return p;
  }

  // ----------------------------------------------------------------- run ---
  struct St {
    RunCtx* ctx = nullptr;
    vbi_decoder* dec = nullptr;
    RefDecoder ref;
    int64_t ev[8] = {0};
    int64_t ev_at_sync[8] = {0};
    std::vector<uint64_t> proj_at_sync[8];
    bool have_proj[8] = {false};
    bool bad_event = false; int bad_pgno = 0;
    // the page as fetched from inside the handler of the last caption event of the current vbi_decode() call, per channel
    bool ev_in_call[8] = {false}; vbi_char at_event[8][15 * 34]; bool at_event_ok[8] = {false};
    // frame under construction
    int slot[2][2] = {{0x80, 0x80}, {0x80, 0x80}};
    bool full[2] = {false, false};
    Effect eff[2], eff_prev[2];
    bool suppress[2] = {false, false};
    int cur_before[2] = {-1, -1};
    int sender[2] = {-1, -1};
    int lastpair[2][2] = {{-1, -1}, {-1, -1}};  // last non-filler pair placed per field
    bool armedA = false, armedB = false;  // field 1: would a repeat of lastpair be taken as the redundant copy (reading A: fillers end the window; B: they do not)
    int idle_since[2] = {0, 0};
    vbi_char prev[8][15 * 34];
    double ts = 2000.0;
    int frames = 0, compares = 0, nonblank_compares = 0;
    bool active[8] = {false};
    std::set<int> compared_chans;
    int lines[2] = {21, 284};
    unsigned sliced_id = VBI_SLICED_CAPTION_525;
    bool chsw_strict = false;
  };
  static St* g;

  static void ev_handler(vbi_event* ev, void*) {
    HarnessScope hs;
    if (ev->type != VBI_EVENT_CAPTION) return;
    int pgno = ev->ev.caption.pgno;
    if (pgno < 1 || pgno > 8) { g->bad_event = true; g->bad_pgno = pgno; return; }
    g->ev[pgno - 1]++;
    // fetching from inside the handler is documented as permitted; what is visible now is what the event announces
    vbi_page pg; vbi_bool ok;
    { SutScope ss; ok = vbi_fetch_cc_page(g->dec, &pg, pgno, TRUE); }
    g->ev_in_call[pgno - 1] = true; g->at_event_ok[pgno - 1] = ok;
    if (ok) memcpy(g->at_event[pgno - 1], pg.text, sizeof g->at_event[pgno - 1]);
  }

  static uint64_t cell_key(const Cell& m, bool text) {  // projection of the model that the comparison looks at
    if (!m.uc) return 0;
    uint64_t k = m.uc;
    if (m.uc != 0x20 && !m.adc) k |= ((uint64_t)m.fg << 16) | ((uint64_t)m.ul << 20) | ((uint64_t)m.it << 21) | ((uint64_t)m.fl << 22);
    if (!m.bdc && !text) k |= ((uint64_t)m.bg << 24) | ((uint64_t)m.op << 28);
    return k | (1ull << 40);
  }

  // compare one fetched page with the model's displayed memory
  static bool compare(int chn, const vbi_page& pg, const Effect& e) {
    St& s = *g;
    Chan& c = s.ref.ch[chn];
    Cell(*m)[34] = c.mem[c.disp];
    if (c.tainted()) {  // LENIENCY orphan-same-field (RefDecoder::orphan): page and event clause not judged until the memories were erased
      s.ctx->count("lenient_orphan_same_field");
      s.have_proj[chn] = false;
      return true;
    }
    std::string cls = std::string("oracle:page-") + mode_name[c.mode] + "-" + e.what;
    if (pg.rows != 15 || pg.columns != 34 || pg.pgno != chn + 1) {
      s.ctx->fail("oracle:page-geometry", "CC page %d fetched with pgno=%d rows=%d columns=%d", chn + 1, pg.pgno, pg.rows, pg.columns);
      return false;
    }
    bool nonblank = false;
    // The margin columns 0 and 33 of the page are the library's room for the legibility space of 15.119(d) ("a solid space
    // equal to one character width before the first and after the last character of a row"): they hold no character, and on
    // a caption channel a margin cell may be solid only next to (LENIENCY box: or formerly next to) a character in column 1
    // resp. 32 - a solid margin cell on a row whose neighbouring column was never written is visible content the display
    // memory does not have.
    for (int r = 0; r < 15 && !c.text; r++) {
      for (int side = 0; side < 2; side++) {
        int k = side ? 33 : 0, nb = side ? 32 : 1;
        const vbi_char& gc = pg.text[r * 34 + k];
        const char* why = nullptr;
        if (gc.unicode != 0x20) why = "character in a margin column";
        else if (gc.opacity != VBI_TRANSPARENT_SPACE && !m[r][k].box && !m[r][nb].uc && !m[r][nb].box) why = "solid margin cell on a row whose neighbouring column holds nothing";
        if (why) {
          s.ctx->fail(cls, "CC page %d (%s) after %s: row %d margin column %d: %s (fetched U+%04X op%d)", chn + 1, mode_name[c.mode], e.what, r + 1, k, why, gc.unicode, gc.opacity);
          return false;
        }
      }
    }
    for (int r = 0; r < 15; r++) {
      for (int k = 1; k <= 32; k++) {
        const Cell& mc = m[r][k];
        const vbi_char& gc = pg.text[r * 34 + k];
        const char* why = nullptr;
        if (!mc.uc) {
          // nothing in display memory here.  Caption channels: transparent; LENIENCY box: next to (or formerly next to) a
          // character a solid blank is accepted.  Text channels: the text box is solid, any blank is accepted.
          bool adj = mc.box || (k > 1 && m[r][k - 1].uc) || (k < 32 && m[r][k + 1].uc);
          if (gc.unicode != 0x20) why = "character where display memory is empty";
          else if (!c.text && !adj && gc.opacity != VBI_TRANSPARENT_SPACE) why = "solid cell where display memory is empty";
        } else {
          nonblank = true;
          if (gc.unicode != mc.uc) why = "character";
          else if (mc.uc != 0x20 && !mc.adc) {
            // LENIENCY: colour/underline/italic/flash of blanks are not compared (the standard is silent about underlined spaces)
            if ((int)gc.foreground != vbi_col(mc.fg)) why = "foreground colour";
            else if ((int)gc.underline != mc.ul) why = "underline";
            else if ((int)gc.italic != mc.it) why = "italic";
            else if ((int)gc.flash != mc.fl) why = "flash";
          }
          if (!why && !mc.bdc && !c.text) {
            int want = mc.op == OP_OPAQUE ? VBI_OPAQUE : mc.op == OP_SEMI ? VBI_SEMI_TRANSPARENT : VBI_TRANSPARENT_FULL;
            if ((int)gc.opacity != want) why = "opacity";
            else if (mc.op != OP_TRANSP_BG && (int)gc.background != vbi_col(mc.bg)) why = "background colour";
          }
        }
        if (why) {
          char mrow[33], grow[33];
          for (int q = 1; q <= 32; q++) {
            unsigned mu = m[r][q].uc, gu = pg.text[r * 34 + q].unicode;
            mrow[q - 1] = !mu ? '.' : mu == 0x20 ? '_' : mu < 0x7F ? (char)mu : '#';
            grow[q - 1] = (gu == 0x20 && pg.text[r * 34 + q].opacity == VBI_TRANSPARENT_SPACE) ? '.' : gu == 0x20 ? '_' : gu < 0x7F ? (char)gu : '#';
          }
          mrow[32] = grow[32] = 0;
          s.ctx->fail(cls, "CC page %d (%s) after %s: row %d column %d differs in %s: model U+%04X fg%d ul%d it%d fl%d bg%d op%d, fetched U+%04X fg%d ul%d it%d fl%d bg%d op%d | model row [%s] fetched row [%s]",
                      chn + 1, mode_name[c.mode], e.what, r + 1, k, why, mc.uc, vbi_col(mc.fg), mc.ul, mc.it, mc.fl, vbi_col(mc.bg), mc.op,
                      gc.unicode, gc.foreground, gc.underline, gc.italic, gc.flash, gc.background, gc.opacity, mrow, grow);
          return false;
        }
      }
    }
    s.compares++;
    if (nonblank) s.nonblank_compares++;
    s.compared_chans.insert(chn);
    s.ctx->count(std::string("cmp_") + mode_name[c.mode]);
    s.ctx->count(std::string("sync_") + e.what);
    // event clause: the visible page (as far as it is compared) differs from the one at the previous sync point
    std::vector<uint64_t> proj; proj.reserve(15 * 32);
    for (int r = 0; r < 15; r++) for (int k = 1; k <= 32; k++) proj.push_back(cell_key(m[r][k], c.text));
    if (s.have_proj[chn] && proj != s.proj_at_sync[chn]) {
      s.ctx->count("event_clause_checked");
      if (s.ev[chn] == s.ev_at_sync[chn]) {
        s.ctx->fail(std::string("oracle:event-") + mode_name[c.mode] + "-" + e.what, "CC page %d: visible page changed since the previous sync point (now after %s) but no VBI_EVENT_CAPTION was raised for it", chn + 1, e.what);
        return false;
      }
    }
    s.proj_at_sync[chn].swap(proj); s.have_proj[chn] = true; s.ev_at_sync[chn] = s.ev[chn];
    return true;
  }

  static void flush() {
    St& s = *g;
    if (s.ctx->failed) return;
    vbi_sliced* sl = (vbi_sliced*)malloc(2 * sizeof(vbi_sliced));
    memset(sl, 0, 2 * sizeof(vbi_sliced));
    for (int f = 0; f < 2; f++) {
      sl[f].id = s.sliced_id; sl[f].line = (uint32_t)s.lines[f];
      sl[f].data[0] = (uint8_t)s.slot[f][0]; sl[f].data[1] = (uint8_t)s.slot[f][1];
      if (!s.full[f]) { s.eff[f] = s.ref.feed(f, 0x80, 0x80); s.idle_since[f]++; if (f == 0) s.armedA = false; }
    }
    if (s.full[0] && s.full[1]) s.ctx->count("frames_both_fields");
    s.ctx->log("frame %d f1=%02x%02x f2=%02x%02x", s.frames, s.slot[0][0], s.slot[0][1], s.slot[1][0], s.slot[1][1]);
    s.ts += 1001.0 / 30000.0;
    s.frames++;
    budget_begin("vbi_decode", 2000000);
    { SutScope ss; vbi_decode(s.dec, sl, 2, s.ts); }
    budget_end();
    free(sl);
    if (s.bad_event) { s.ctx->fail("oracle:event-pgno", "VBI_EVENT_CAPTION with pgno %d", s.bad_pgno); return; }
    // fetch all eight pages: cross-talk check (a channel that is not addressed must not change) + sync comparison
    for (int chn = 0; chn < 8 && !s.ctx->failed; chn++) {
      // channels without a script can only change through cross-talk: looked at every 8th frame (cost)
      if (!s.active[chn] && (s.frames & 7) != 0 && !s.ev_in_call[chn]) continue;
      vbi_page pg;
      vbi_bool ok;
      budget_begin("vbi_fetch_cc_page", 200000);
      { SutScope ss; ok = vbi_fetch_cc_page(s.dec, &pg, chn + 1, TRUE); }
      budget_end();
      if (!ok) { s.ctx->fail("oracle:fetch-failed", "vbi_fetch_cc_page(%d) returned FALSE", chn + 1); return; }
      if (s.ev_in_call[chn]) {
        // "A caption event for the channel is raised whenever that visible page changed": what the handler of the last
        // event of this call saw must be what is visible when vbi_decode() returns - a later change would be a
        // change of the visible page without an event.
        s.ev_in_call[chn] = false;
        s.ctx->count("in_handler_fetches_compared");
        if (!s.at_event_ok[chn]) { s.ctx->fail("oracle:fetch-failed", "vbi_fetch_cc_page(%d) from inside the caption event handler returned FALSE", chn + 1); return; }
        for (int i = 0; i < 15 * 34; i++) {
          const vbi_char &a = pg.text[i], &b = s.at_event[chn][i];
          if (a.unicode != b.unicode || a.opacity != b.opacity || a.foreground != b.foreground || a.background != b.background ||
              a.underline != b.underline || a.italic != b.italic || a.flash != b.flash) {
            s.ctx->fail("oracle:event-stale", "CC page %d: row %d column %d changed (U+%04X -> U+%04X) after the last VBI_EVENT_CAPTION raised for it in this vbi_decode() call: the visible page changed without an event", chn + 1, i / 34, i % 34, b.unicode, a.unicode);
            return;
          }
        }
      }
      int f = (chn >> 1) & 1;
      bool changed = false;
      for (int i = 0; i < 15 * 34 && !changed; i++) {
        const vbi_char &a = pg.text[i], &b = s.prev[chn][i];
        if (a.unicode != b.unicode || a.opacity != b.opacity || a.foreground != b.foreground || a.background != b.background ||
            a.underline != b.underline || a.italic != b.italic || a.flash != b.flash) changed = true;
      }
      if (changed) {
        Fnv h; for (int i = 0; i < 15 * 34; i++) { uint32_t v[3] = {pg.text[i].unicode, (uint32_t)(pg.text[i].opacity | pg.text[i].foreground << 8 | pg.text[i].background << 16), (uint32_t)(pg.text[i].underline | pg.text[i].italic << 1 | pg.text[i].flash << 2)}; h.bytes(v, sizeof v); }
        s.ctx->log("page %d changed %016llx", chn + 1, (unsigned long long)h.h);
        int after = s.ref.cur[f];
        bool addressed = chn == s.cur_before[f] || chn == after || chn == s.eff[f].chan;
        if (!addressed) {
          // A channel that is not addressed in this frame has no input pending: the only legitimate change of its page is
          // the late display of characters it received earlier (word-granular update), i.e. afterwards the page must equal
          // the model's display memory completely.  Anything else is cross-talk between channels.
          s.ctx->count("unaddressed_page_change");
          Effect x; x.chan = chn; x.what = "unaddressed";
          if (!compare(chn, pg, x)) return;
        }
        memcpy(s.prev[chn], pg.text, sizeof s.prev[chn]);
      }
      if (s.eff[f].chan == chn && s.eff[f].sync && !s.suppress[f]) {
        if (!compare(chn, pg, s.eff[f])) return;
      }
    }
    for (int f = 0; f < 2; f++) {
      s.slot[f][0] = s.slot[f][1] = 0x80; s.full[f] = false; s.eff[f] = Effect(); s.suppress[f] = false;
      s.cur_before[f] = s.ref.cur[f];
    }
  }

  // vbi_channel_switched() between two frames.  Documented (vbi.c): "reset the decoding context ... This includes deletion of
  // all cached Teletext and Closed Caption pages.  ... the reset is not executed until the next frame is about to be decoded".
  // Reference: a new decoder (all memories empty, no style, no channel selected on either field).  The repetition window of
  // the line-21 signal (RefDecoder::last, armedA/B) is a property of the signal and continues.  The statement's event clause
  // is about changes brought about by caption data; that the pages go blank here without an event is not judged.
  static void channel_switch() {
    St& s = *g;
    if (s.ctx->failed) return;
    if (s.full[0] || s.full[1]) flush();  // what was sent before the switch is decoded before it
    if (s.ctx->failed) return;
    RefDecoder fresh;
    for (int i = 0; i < 8; i++) s.ref.ch[i] = fresh.ch[i];
    s.ref.cur[0] = s.ref.cur[1] = -1;
    // LENIENCY chsw-pen (knob chsw_strict=0, the generator's value): underline / italic / flash of characters written after
    // the switch without a PAC or colour code first are not compared.  vbi_caption_channel_switched() resets colour and
    // opacity of the pen but not these three (reported as a suspected defect with chsw_strict=1 replay); neither the
    // statement nor the documentation of vbi_channel_switched() names the pen.
    if (!s.chsw_strict) for (int i = 0; i < 8; i++) s.ref.ch[i].pen.adc = true;
    for (int i = 0; i < 8; i++) { s.have_proj[i] = false; s.ev_at_sync[i] = s.ev[i]; }
    for (int f = 0; f < 2; f++) { s.eff[f] = s.eff_prev[f] = Effect(); s.cur_before[f] = -1; s.suppress[f] = false; }
    s.ctx->log("channel switch");
    s.ctx->count("sched_channel_switch");
    budget_begin("vbi_channel_switched", 100000);
    { SutScope ss; vbi_channel_switched(s.dec, 0); }
    budget_end();
    flush();  // one frame without caption data: the reset is executed
    for (int chn = 0; chn < 8 && !s.ctx->failed; chn++) {
      vbi_page pg; vbi_bool ok;
      budget_begin("vbi_fetch_cc_page", 200000);
      { SutScope ss; ok = vbi_fetch_cc_page(s.dec, &pg, chn + 1, TRUE); }
      budget_end();
      if (!ok) { s.ctx->fail("oracle:fetch-failed", "vbi_fetch_cc_page(%d) returned FALSE", chn + 1); return; }
      Effect x; x.chan = chn; x.what = "chsw";
      if (!compare(chn, pg, x)) return;
      s.have_proj[chn] = false;
      memcpy(s.prev[chn], pg.text, sizeof s.prev[chn]);
    }
  }

  static bool is_ctrl(int b0) { int c = b0 & 0x7F; return c >= 0x10 && c <= 0x1F; }

  // put one pair into the slot of field f (delivering the frame under construction first when the slot is taken)
  static void place_raw(int f, int b0, int b1, bool suppress_compare) {
    St& s = *g;
    if (s.ctx->failed) return;
    if (s.full[f]) flush();
    if (s.ctx->failed) return;
    s.slot[f][0] = b0; s.slot[f][1] = b1; s.full[f] = true;
    Effect e = s.ref.feed(f, b0, b1);
    if (s.ref.cur[f] < 0 && ((b0 | b1) & 0x7F)) {  // the pair belongs to no known channel
      s.ctx->count("sched_orphan_pair");
      int o = s.ref.cur[f ^ 1];
      if (o >= 0 && s.ref.ch[o].mode != M_NONE) {
        s.ctx->count("probe_orphan_while_other_field_active");
        if ((b0 & 0x7F) >= 0x20) s.ctx->count("probe_orphan_text_while_other_field_active");
      }
    }
    if (!strcmp(e.what, "dup")) { Effect d = s.eff_prev[f]; e = d; }
    s.eff[f] = e; s.eff_prev[f] = e;
    s.suppress[f] = suppress_compare;
  }
  static void place(int f, int c1, int c2, bool dbl) {
    St& s = *g;
    int b0 = tx::odd_parity((uint8_t)c1), b1 = tx::odd_parity((uint8_t)c2);
    bool ctrl = is_ctrl(b0);
    bool same_as_last = ctrl && s.lastpair[f][0] == b0 && s.lastpair[f][1] == b1;
    if (f == 1) {
      // GUARD f2-repeat: EIA-608-B 8.3 lets field-2 control codes repeat like field-1 codes, 15.119 knows only field 1.
      // Two identical field-2 control pairs in consecutive frames are therefore ambiguous: the encoder separates them by a filler frame.
      if (same_as_last && s.idle_since[1] == 0) {
        if (s.full[1]) flush();
        s.full[1] = false; flush();  // a frame whose field-2 slot is 80 80
        s.ctx->count("guard_f2_repeat_separated");
      }
      dbl = false;
    } else if (ctrl && same_as_last && s.armedA != s.armedB) {
      // GUARD f1-repeat-after-idle: X, filler frames, X.  By 15.119(i)(1) the second X is a new command (not "the next frame"),
      // a decoder that keeps the repetition window open across fillers takes it for the redundant copy.  armedA / armedB track
      // whether a repeat of the last control pair would be ignored under the two readings; while they disagree the pair is sent
      // doubled: both readings execute it exactly once, and the page is compared after the second copy.
      place_raw(0, b0, b1, true);
      place_raw(0, b0, b1, false);
      s.idle_since[0] = 0;
      s.ctx->count("guard_f1_repeat_after_idle_doubled");
      return;
    }
    if (f == 0) {
      if (!(ctrl && same_as_last)) s.armedA = s.armedB = false;
      int copies = (ctrl && dbl) ? 2 : 1;
      for (int i = 0; i < copies; i++) { s.armedA = ctrl && !s.armedA; s.armedB = ctrl && !s.armedB; }
    }
    place_raw(f, b0, b1, false);
    if (ctrl && dbl) { place_raw(f, b0, b1, false); s.ctx->count("sched_ctrl_doubled"); }
    else if (ctrl) s.ctx->count("sched_ctrl_single");
    s.lastpair[f][0] = b0; s.lastpair[f][1] = b1; s.idle_since[f] = 0;
  }

  void run(const Plan& plan, RunCtx& ctx) override {
    static bool warmed = false;
    if (!warmed) { warmed = true; vbi_decoder* d = vbi_decoder_new(); vbi_decoder_delete(d); }
    alloc_track_reset();
    St* stp = new St(); St& st = *stp; st.ctx = &ctx; g = stp;
    st.ref.stats = &ctx.stats;
    Sched sched(ctx, (uint64_t)plan.knob("sched_seed", (int64_t)plan.seed), (Policy)(((plan.knob("policy") % 3) + 3) % 3), (int)plan.knob("pparam"));
    if (plan.knob("std625") & 1) { st.lines[0] = 22; st.lines[1] = 335; st.sliced_id = VBI_SLICED_CAPTION_625; }
    int doubling = (int)(((plan.knob("doubling") % 3) + 3) % 3);
    bool hygiene = plan.knob("hygiene", 1) != 0;
    st.chsw_strict = plan.knob("chsw_strict", 0) != 0;
    st.ref.orphan_strict = plan.knob("orphan_strict", 0) != 0;
    { SutScope ss;
      st.dec = vbi_decoder_new();
      vbi_event_handler_register(st.dec, VBI_EVENT_CAPTION, ev_handler, nullptr);
    }
    for (int chn = 0; chn < 8; chn++) {  // initial pages (all blank)
      vbi_page pg; { SutScope ss; vbi_fetch_cc_page(st.dec, &pg, chn + 1, TRUE); }
      memcpy(st.prev[chn], pg.text, sizeof st.prev[chn]);
    }
    std::vector<std::vector<const Op*>> per(8);
    for (auto& op : plan.ops) per[((op.task % 8) + 8) % 8].push_back(&op);
    for (int t = 0; t < 8; t++) st.active[t] = !per[t].empty();

    int resumes = 0;
    bool joined[8] = {false};  // "join" op: the decoder came into being while channel t was in the middle of a transmission
    // the field of channel t has no selected channel yet: what is sent now belongs to no known channel (RefDecoder::orphan)
    auto unselected = [&](int t) { return st.ref.cur[(t >> 1) & 1] < 0; };
    // one control code of channel t (resume code first when the field's sender changed)
    auto chan_c1 = [&](int t, int base) { return base | ((t & 1) ? 8 : 0); };
    auto misc_c1 = [&](int t) { return chan_c1(t, (t & 2) ? 0x15 : 0x14); };  // EIA-608: field-2 miscellaneous codes are 15/1D
    auto resume = [&](int t) {
      int f = (t >> 1) & 1;
      if (st.sender[f] == t) return;
      if (st.sender[f] < 0 && joined[t] && st.ref.cur[f] < 0) {
        // first sender of the field since the decoder exists, and it was in the middle of a transmission then: its
        // resume code went out before the decoder could see it and is not repeated
        st.sender[f] = t; ctx.count("sched_join_midstream");
        return;
      }
      Chan& c = st.ref.ch[t];
      int code;
      if (t >= 4) code = 0x2B;  // RTD
      else switch (c.mode) {
        case M_POPON: code = 0x20; break;
        case M_PAINTON: code = 0x29; break;
        case M_ROLLUP: code = 0x25 + (c.depth - 2); break;
        default: code = (t % 3 == 0) ? 0x20 : (t % 3 == 1) ? 0x26 : 0x29; break;  // the encoder's first command selects a style
      }
      place(f, misc_c1(t), code, doubling == 1 || (doubling == 2 && ((t + resumes) & 1)));
      if (st.sender[f] >= 0) { resumes++; ctx.count("sched_resume_inserted"); }
      st.sender[f] = t;
    };
    auto ctl = [&](int t, int c1, int c2, bool dbl) {
      if (ctx.failed) return;
      resume(t);
      place((t >> 1) & 1, c1, c2, doubling == 1 || (doubling == 2 && dbl));
      sched.yield();
    };
    auto guard = [&](const char* k) { ctx.count(std::string("guard_") + k); };

    for (int t = 0; t < 8; t++) {
      if (per[t].empty()) continue;
      sched.spawn(std::string(t < 4 ? "CC" : "T") + std::to_string((t & 3) + 1), [&, t] {
        int f = (t >> 1) & 1;
        Chan& c = st.ref.ch[t];
        for (const Op* op : per[t]) {
          if (ctx.failed) return;
          const std::string& k = op->kind;
          bool dbl = op->arg(k == "pac" ? 2 : (k == "mid" || k == "spc" || k == "tab" || k == "bga" || k == "mode") ? 1 : 0) & 1;
          if (k == "join") { joined[t] = true; continue; }
          if (k == "chsw") {
            channel_switch();
            for (int i = 0; i < 8; i++) joined[i] = true;
            for (int i = 0; i < 2; i++) st.sender[i] = -1;
            sched.yield();
            continue;
          }
          if (k == "idle") {
            int n = (int)(((op->arg(0) % 8) + 8) % 8);
            for (int i = 0; i < n && !ctx.failed; i++) {  // the channel keeps its field but sends fillers
              if (st.full[f]) flush();
              st.full[f] = false; flush();
              sched.yield();
            }
            continue;
          }
          if (k == "mode") {
            int m = (int)(((op->arg(0) % 5) + 5) % 5);
            if (t >= 4) { ctl(t, misc_c1(t), (m & 1) ? 0x2A : 0x2B, dbl); continue; }  // TR / RTD
            Mode target = m == 0 ? M_POPON : m == 4 ? M_PAINTON : M_ROLLUP;
            if (hygiene && c.mode != M_NONE && c.mode != target) {
              // GUARD style-switch: caption.c keeps one working copy instead of the standard's two memories while in roll-up /
              // paint-on style (reported as a finding); the encoder clears what that design cannot carry across a style change,
              // as captioning practice does (ENM after RCL, EDM before RDC).
              if (target == M_PAINTON && (!c.mem_clean(0) || !c.mem_clean(1) || c.tainted())) {
                if (c.mode == M_POPON) ctl(t, misc_c1(t), 0x2E, dbl);
                ctl(t, misc_c1(t), 0x2C, dbl);
                guard("style_switch_erase");
              }
            }
            if (target == M_ROLLUP && c.mode == M_ROLLUP && c.row < (m + 1) - 1) { guard("rollup_grow_above_top"); continue; }  // GUARD: window would grow above row 1, not specified
            Mode before = c.mode;
            ctl(t, misc_c1(t), m == 0 ? 0x20 : m == 4 ? 0x29 : 0x24 + m, dbl);
            if (hygiene && target == M_POPON && (before == M_PAINTON || before == M_ROLLUP)) { ctl(t, misc_c1(t), 0x2E, dbl); guard("style_switch_erase"); }
            continue;
          }
          // every other operation needs a selected style; the encoder's resume code provides one
          if (k == "eoc") {
            if (c.mode != M_POPON && t < 4 && hygiene) { guard("eoc_outside_popon"); continue; }  // GUARD: see style-switch
            if (t >= 4) continue;
            ctl(t, misc_c1(t), 0x2F, dbl);
            continue;
          }
          if (k == "edm" || k == "enm") {
            if (t >= 4) continue;  // text channels do not send caption erase commands
            ctl(t, misc_c1(t), k == "edm" ? 0x2C : 0x2E, dbl);
            continue;
          }
          if (k == "pac") {
            int row = (int)(((op->arg(0) % 15) + 15) % 15);
            int lo5 = (int)(op->arg(1) & 0x1F);
            if (t >= 4) lo5 |= 0x10;  // GUARD text-pac: colour PACs in Text mode (column unchanged or column 1?) are not generated
            static const int pac_c1[15] = {0x11, 0x11, 0x12, 0x12, 0x15, 0x15, 0x16, 0x16, 0x17, 0x17, 0x10, 0x13, 0x13, 0x14, 0x14};
            static const int pac_hi[15] = {0x40, 0x60, 0x40, 0x60, 0x40, 0x60, 0x40, 0x60, 0x40, 0x60, 0x40, 0x40, 0x60, 0x40, 0x60};
            if (c.mode == M_ROLLUP && row < c.depth - 1) ctx.count("probe_rollup_base_near_top");
            ctl(t, chan_c1(t, pac_c1[row]), pac_hi[row] | lo5, dbl);
            continue;
          }
          if (c.need_pac && hygiene && !unselected(t)) { guard("need_pac_after_eoc"); continue; }  // GUARD: cursor after EOC is the decoder's choice
          if (k == "txt") {
            std::string s = op->s;
            for (auto& chx : s) { int x = (unsigned char)chx & 0x7F; if (x < 0x20) x = 0x20 + (x & 0x1F); chx = (char)x; }
            bool lead_pad = op->arg(0) & 1;
            // GUARD f2-lead-nul: 15.119(i)(1) ("that character alone will be ignored and the second character will be treated
            // normally") is written for field 1; on field 2 a pair starting with 00 is also the XDS filler, and caption.c drops
            // the whole pair there.  Odd-length text on field 2 is padded at the end only.
            if (lead_pad && f == 1) { lead_pad = false; guard("f2_lead_nul"); }
            size_t i = 0;
            while (i < s.size() && !ctx.failed) {
              if (c.text && c.edge) { guard("text_row_full"); break; }  // GUARD: Text mode rows longer than 32 characters (wrap or overwrite?) not generated
              int a, b;
              if (lead_pad && i == 0) { a = 0; b = s[i++]; }
              else { a = s[i++]; b = i < s.size() ? s[i++] : 0; }
              resume(t);
              place(f, a, b, false);
              ctx.count("pairs_text");
              sched.yield();
            }
            continue;
          }
          if (k == "cr") { ctl(t, misc_c1(t), 0x2D, dbl); continue; }
          if (k == "mid") { ctl(t, chan_c1(t, 0x11), 0x20 | (int)(op->arg(0) & 15), dbl); continue; }
          if (k == "spc") { ctl(t, chan_c1(t, 0x11), 0x30 | (int)(op->arg(0) & 15), dbl); continue; }
          if (k == "fon") { ctl(t, misc_c1(t), 0x28, dbl); continue; }
          if (k == "tab") { int n = 1 + (int)(((op->arg(0) % 3) + 3) % 3); ctl(t, chan_c1(t, 0x17), 0x20 | n, dbl); continue; }
          if (k == "bs" || k == "der") {
            // GUARD edge: after a character was stored in column 32 (or a tab ran into it) the standard keeps the cursor ON
            // column 32 while decoders commonly keep it "behind" it; BS / DER then act on different columns
            if (c.edge) { guard("edge_bs_der"); continue; }
            ctl(t, misc_c1(t), k == "bs" ? 0x21 : 0x24, dbl);
            continue;
          }
          if (k == "bga") {
            // GUARD bga: EIA-608 6.2: the encoder precedes a background attribute by a space which the attribute replaces
            if (c.mode == M_NONE && !unselected(t)) continue;
            if (c.edge || c.col >= 31) { guard("bga_at_margin"); continue; }
            resume(t);
            place(f, 0x20, 0, false);
            int code = (int)(((op->arg(0) % 17) + 17) % 17);
            if (code == 16) ctl(t, chan_c1(t, 0x17), 0x2D, dbl); else ctl(t, chan_c1(t, 0x10), 0x20 | code, dbl);
            continue;
          }
        }
      });
    }
    int rc = sched.run(4000000);
    if (rc == 2) ctx.fail("harness:budget", "scheduler budget exhausted");
    if (!ctx.failed) flush();
    for (int i = 0; i < 3 && !ctx.failed; i++) flush();  // trailing filler frames
    ctx.state(sched.interleaving_hash());
    { SutScope ss; vbi_decoder_delete(st.dec); }
    if (!ctx.failed && alloc_track_available() && alloc_live_blocks() != 0)
      ctx.fail("leak", "%zu blocks (%zu bytes; sizes %s) still allocated after delete", alloc_live_blocks(), alloc_live_bytes(), alloc_live_summary().c_str());
    ctx.count("frames", st.frames);
    ctx.count("compares", st.compares);
    ctx.nontrivial = st.compares >= 4 && st.nonblank_compares >= 2;
    ctx.sim_seconds = st.ts - 2000.0;
    g = nullptr;
    delete stp;
  }
};
C08::St* C08::g = nullptr;
ZSIM_REGISTER_WORLD(C08)

}  // namespace
