// Transmitter-side encoders written from the standards (EN 300 706, EIA-608),
// not from the decoder sources: odd parity, Hamming 8/4, Hamming 24/18.
#pragma once
#include <cstdint>
#include <cstring>
#include <string>
#include <vector>

namespace tx {

static inline uint8_t odd_parity(uint8_t c) {  // 7 data bits -> bit 7 makes the count of ones odd
  c &= 0x7F;
  unsigned n = __builtin_popcount(c);
  return (n & 1) ? c : (uint8_t)(c | 0x80);
}

// EN 300 706 8.2: Hamming 8/4.  Bits (LSB first transmitted): P1 D1 P2 D2 P3 D3 P4 D4
static inline uint8_t ham84(unsigned n) {
  unsigned d1 = n & 1, d2 = (n >> 1) & 1, d3 = (n >> 2) & 1, d4 = (n >> 3) & 1;
  unsigned p1 = 1 ^ d1 ^ d3 ^ d4;
  unsigned p2 = 1 ^ d1 ^ d2 ^ d4;
  unsigned p3 = 1 ^ d1 ^ d2 ^ d3;
  unsigned p4 = 1 ^ p1 ^ d1 ^ p2 ^ d2 ^ p3 ^ d3 ^ d4;
  return (uint8_t)(p1 | (d1 << 1) | (p2 << 2) | (d2 << 3) | (p3 << 4) | (d3 << 5) | (p4 << 6) | (d4 << 7));
}

// EN 300 706 8.3: Hamming 24/18.  18 data bits D1..D18, 6 protection bits.
// Byte 0: P1 P2 D1 P3 D2 D3 D4 P4; byte 1: D5..D11 P5; byte 2: D12..D18 P6.
static inline void ham2418(uint32_t d, uint8_t out[3]) {
  unsigned D[19];
  for (int i = 1; i <= 18; i++) D[i] = (d >> (i - 1)) & 1;
  unsigned bit[25] = {0};
  // positions 1..24: P1=1 P2=2 D1=3 P3=4 D2=5 D3=6 D4=7 P4=8 D5..D11=9..15 P5=16 D12..D18=17..23 P6=24
  bit[3] = D[1]; bit[5] = D[2]; bit[6] = D[3]; bit[7] = D[4];
  for (int i = 5; i <= 11; i++) bit[9 + (i - 5)] = D[i];
  for (int i = 12; i <= 18; i++) bit[17 + (i - 12)] = D[i];
  // P1..P5: odd parity over positions having that bit set in their index
  for (int p = 0; p < 5; p++) {
    unsigned pos = 1u << p, x = 1;
    for (unsigned k = 1; k <= 23; k++) if ((k & pos) && k != pos) x ^= bit[k];
    bit[pos] = x;
  }
  unsigned x = 1;
  for (unsigned k = 1; k <= 23; k++) x ^= bit[k];
  bit[24] = x;
  for (int b = 0; b < 3; b++) {
    unsigned v = 0;
    for (int k = 0; k < 8; k++) v |= bit[b * 8 + k + 1] << k;
    out[b] = (uint8_t)v;
  }
}

static inline uint8_t rev8(uint8_t c) {
  c = (uint8_t)(((c & 0xF0) >> 4) | ((c & 0x0F) << 4));
  c = (uint8_t)(((c & 0xCC) >> 2) | ((c & 0x33) << 2));
  c = (uint8_t)(((c & 0xAA) >> 1) | ((c & 0x55) << 1));
  return c;
}

}  // namespace tx
