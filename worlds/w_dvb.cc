// C06 / C07 — DVB VBI multiplexer and demultiplexer.
//
// c06: producer task (frames of sliced / raw lines, configuration changes) ->
//      real vbi_dvb_mux (PES or TS; callback or coroutine interface with output
//      buffers of planned sizes) -> byte pipe -> transport task (pieces whose
//      size the scheduler and the plan decide) -> real vbi_dvb_demux (callback
//      or coroutine) -> consumer.  Oracles: an independent parser of the
//      emitted bytes (ISO 13818-1 TS/PES syntax, EN 300 472 / EN 301 775 data
//      units) and the round trip.
// c07: a stream built by an encoder written here from the standards (so that
//      foreign packets, legal variations and damage can be expressed), cut
//      into pieces; oracles: partition independence (differential against a
//      one-call run of the same bytes), robustness (sanitizers, edge budget),
//      recovery after damage.
//
// Sources of the format knowledge (not dvb_demux.c / dvb_mux.c):
//  ISO/IEC 13818-1 2.4.3.2 (transport packet), 2.4.3.6/7 (PES packet, PTS);
//  EN 300 472 4.2 / EN 301 775 4.3 (PES_packet_length = N*184-6,
//  PES_header_data_length 0x24, data_identifier), EN 301 775 4.4 table 1 (data
//  unit = id, length, data field, stuffing bytes 0xFF), 4.5-4.9 (data fields:
//  reserved '11', field_parity (1 = first field), line_offset; Teletext framing
//  code + 42 bytes, VPS 13 bytes, WSS 14 bits + '11', CC 16 bits, monochrome
//  samples: first/last segment flags, first_pixel_position, n_pixels), bits in
//  transmission order = msb first; libzvbi's vbi_sliced stores Teletext, WSS
//  and caption bytes lsb-first-transmitted, VPS msb first (sliced.h).
#include <cstdio>
#include <cstdlib>
#include <cstring>
#include <map>
#include <set>

#include "alloc.h"
#include "sim.h"

extern "C" {
#include "src/libzvbi.h"
// declared in src/dvb_demux.h ("experimental"), not in the installed header
vbi_dvb_demux* _vbi_dvb_ts_demux_new(vbi_dvb_demux_cb* callback, void* user_data, unsigned int pid);
}

using namespace sim;

namespace {

typedef std::string Bytes;
static const int64_t PTS_MASK = 0x1FFFFFFFFll;

static unsigned rev8(unsigned c) { unsigned r = 0; for (int i = 0; i < 8; i++) if (c & (1u << i)) r |= 0x80u >> i; return r; }

enum Cls { C_TTX = 0, C_VPS, C_WSS, C_CC, C_RAW, C_BAD, C_NONE };
struct Svc { unsigned id; Cls cls; int nbytes; };
static const Svc SVC[] = {
    {VBI_SLICED_TELETEXT_B_625, C_TTX, 42}, {VBI_SLICED_TELETEXT_B_L10_625, C_TTX, 42}, {VBI_SLICED_TELETEXT_B_L25_625, C_TTX, 42},
    {VBI_SLICED_VPS, C_VPS, 13},            {VBI_SLICED_WSS_625, C_WSS, 2},            {VBI_SLICED_CAPTION_625, C_CC, 2},
    {VBI_SLICED_CAPTION_625_F1, C_CC, 2},   {VBI_SLICED_VBI_625, C_RAW, 0},            {VBI_SLICED_CAPTION_525, C_BAD, 2},
    {VBI_SLICED_WSS_CPR1204, C_BAD, 3},     {VBI_SLICED_NONE, C_NONE, 0}};
static const int NSVC = (int)(sizeof SVC / sizeof SVC[0]);

// one input line of a frame
struct Line {
  int line = 0;
  int svc = 0;
  Bytes data;  // nbytes payload (sliced) or the samples (raw)
  Cls cls() const { return SVC[svc].cls; }
};
struct Frame {
  std::vector<Line> lines;
  int64_t pts = 0;
};

// what the demultiplexer handed out
struct GotLine { unsigned id, line; Bytes data; };
struct GotFrame { int64_t pts; std::vector<GotLine> lines; };

static size_t relevant_bytes(unsigned id) {
  if (id & VBI_SLICED_TELETEXT_B_625) return 42;
  if (id & (VBI_SLICED_VPS | VBI_SLICED_VPS_F2)) return 13;
  if (id & (VBI_SLICED_WSS_625 | VBI_SLICED_CAPTION_625 | VBI_SLICED_CAPTION_525)) return 2;
  return 3;
}
static bool same_frame(const GotFrame& a, const GotFrame& b) {
  if (a.pts != b.pts || a.lines.size() != b.lines.size()) return false;
  for (size_t i = 0; i < a.lines.size(); i++)
    if (a.lines[i].id != b.lines[i].id || a.lines[i].line != b.lines[i].line || a.lines[i].data != b.lines[i].data) return false;
  return true;
}
static std::string frame_str(const GotFrame& f) {
  char b[64]; snprintf(b, sizeof b, "pts=%llx n=%zu [", (unsigned long long)f.pts, f.lines.size());
  std::string s = b;
  for (size_t i = 0; i < f.lines.size() && i < 12; i++) { snprintf(b, sizeof b, "%s%u:%x", i ? " " : "", f.lines[i].line, f.lines[i].id); s += b; }
  if (f.lines.size() > 12) s += " ..";
  return s + "]";
}

// does the delivered line carry the sent one?  Service compared as a class: the demultiplexer
// reports VBI_SLICED_TELETEXT_B for every Teletext line and the _F1 subset for caption on line 21.
static bool line_matches(const Line& e, const GotLine& g, std::string& why) {
  char b[160];
  if ((int)g.line != e.line) { snprintf(b, sizeof b, "line %u instead of %d", g.line, e.line); why = b; return false; }
  unsigned allowed = 0;
  switch (e.cls()) {
    case C_TTX: allowed = VBI_SLICED_TELETEXT_B_625; break;
    case C_VPS: allowed = VBI_SLICED_VPS; break;
    case C_WSS: allowed = VBI_SLICED_WSS_625; break;
    case C_CC: allowed = VBI_SLICED_CAPTION_625; break;
    default: break;
  }
  bool idok = g.id != 0 && (g.id & ~allowed) == 0;
  if (e.cls() == C_CC && !(g.id & VBI_SLICED_CAPTION_625_F1)) idok = false;  // line 21 is in the first field
  if (!idok) { snprintf(b, sizeof b, "line %d: service id 0x%x is not of the sent class (0x%x)", e.line, g.id, SVC[e.svc].id); why = b; return false; }
  Bytes want = e.data, have = g.data.substr(0, want.size());
  if (e.cls() == C_WSS) { want[1] = (char)(want[1] & 0x3F); have[1] = (char)(have[1] & 0x3F); }  // 14 bits are carried
  if (want != have) { snprintf(b, sizeof b, "line %d: payload %s.. instead of %s..", e.line, hex(have.substr(0, 8)).c_str(), hex(want.substr(0, 8)).c_str()); why = b; return false; }
  return true;
}

// ------------------------------------------------------------------------
// Independent parser of the multiplexer output
// ------------------------------------------------------------------------
struct PDu {
  unsigned id = 0, len = 0;
  bool parity = false;  // field_parity bit: 1 = first field
  unsigned offset = 0;  // line_offset
  Bytes data;           // payload converted to the vbi_sliced convention (or samples)
  bool first = false, last = false; unsigned fpp = 0, npix = 0;  // raw
  int line() const { return offset == 0 ? 0 : (parity ? (int)offset : 313 + (int)offset); }
};
struct PPes {
  size_t size = 0;
  int64_t pts = 0;
  unsigned data_identifier = 0;
  std::vector<PDu> du;  // without stuffing units
  int stuffing_units = 0, stuffed_inside = 0;
};

static bool fixed_di(unsigned di) { return di >= 0x10 && di <= 0x1F; }

#define PFAIL(...) do { char b_[256]; snprintf(b_, sizeof b_, __VA_ARGS__); err = b_; return false; } while (0)

static bool decode_pts(const unsigned char* p, unsigned prefix, int64_t& pts, std::string& err) {
  if ((p[0] >> 4) != prefix) PFAIL("time stamp prefix bits %x, expected %x", p[0] >> 4, prefix);
  if (!(p[0] & 1) || !(p[2] & 1) || !(p[4] & 1)) PFAIL("time stamp marker bit is zero (%02x %02x %02x %02x %02x)", p[0], p[1], p[2], p[3], p[4]);
  pts = ((int64_t)((p[0] >> 1) & 7) << 30) | ((int64_t)p[1] << 22) | ((int64_t)(p[2] >> 1) << 15) | ((int64_t)p[3] << 7) | (p[4] >> 1);
  return true;
}

static bool parse_pes(const Bytes& b, PPes& out, std::string& err) {
  const unsigned char* p = (const unsigned char*)b.data();
  size_t n = b.size();
  if (n < 46 + 2) PFAIL("PES packet of %zu bytes is too short for the 45 byte header, data_identifier and one data unit", n);
  if (p[0] != 0 || p[1] != 0 || p[2] != 1) PFAIL("packet_start_code_prefix %02x%02x%02x", p[0], p[1], p[2]);
  if (p[3] != 0xBD) PFAIL("stream_id %02x is not private_stream_1", p[3]);
  size_t plen = (size_t)p[4] * 256 + p[5];
  if (plen + 6 != n) PFAIL("PES_packet_length %zu + 6 differs from the %zu bytes emitted for the frame", plen, n);
  if (n % 184) PFAIL("PES packet size %zu is not a multiple of 184", n);
  if ((p[6] & 0xC0) != 0x80) PFAIL("PES header flags byte %02x does not begin with '10'", p[6]);
  if (p[6] & 0x30) PFAIL("PES_scrambling_control %x", (p[6] >> 4) & 3);
  if (!(p[6] & 0x04)) PFAIL("data_alignment_indicator is 0 (EN 301 775 4.3 requires 1)");
  unsigned fl = p[7];
  if (!(fl & 0x80)) PFAIL("PTS_DTS_flags %x: no PTS (EN 300 472 4.2: PTS shall be present)", fl >> 6);
  if (p[8] != 0x24) PFAIL("PES_header_data_length 0x%02x, must be 0x24", p[8]);
  size_t k = 9;
  if (!decode_pts(p + k, (fl & 0x40) ? 3 : 2, out.pts, err)) return false;
  k += 5;
  if (fl & 0x40) { int64_t dts; if (!decode_pts(p + k, 1, dts, err)) return false; k += 5; }
  if (fl & 0x20) k += 6;
  if (fl & 0x10) k += 3;
  if (fl & 0x08) k += 1;
  if (fl & 0x04) k += 1;
  if (fl & 0x02) k += 2;
  if (k > 45) PFAIL("optional header fields need %zu bytes, more than PES_header_data_length", k - 9);
  if (!(fl & 0x01))  // with a PES extension the parser cannot tell its size; otherwise the rest is stuffing
    for (; k < 45; k++) if (p[k] != 0xFF) PFAIL("PES header stuffing byte %zu is %02x", k, p[k]);
  out.size = n;
  out.data_identifier = p[45];
  bool fixed = fixed_di(out.data_identifier);
  size_t pos = 46;
  while (pos < n) {
    if (n - pos < 2) PFAIL("%zu byte(s) at the end of the packet are not a data unit", n - pos);
    PDu d; d.id = p[pos]; d.len = p[pos + 1];
    if (pos + 2 + d.len > n) PFAIL("data unit id %02x length %u at offset %zu crosses the end of the PES packet (%zu)", d.id, d.len, pos, n);
    if (fixed && d.len != 0x2C) PFAIL("data_unit_length %u with data_identifier 0x%02x (must be 0x2C)", d.len, out.data_identifier);
    const unsigned char* q = p + pos + 2;
    size_t used = 0;  // bytes of the data field; what follows must be stuffing bytes
    switch (d.id) {
      case 0xFF: used = 0; out.stuffing_units++; break;
      case 0x02: case 0x03: {
        if (d.len < 44) PFAIL("Teletext data unit with data_unit_length %u < 44", d.len);
        if ((q[0] & 0xC0) != 0xC0) PFAIL("Teletext data unit: reserved bits %x", q[0] >> 6);
        d.parity = q[0] & 0x20; d.offset = q[0] & 31;
        if (q[1] != 0xE4) PFAIL("Teletext data unit: framing code %02x, expected E4", q[1]);
        for (int i = 0; i < 42; i++) d.data += (char)rev8(q[2 + i]);
        used = 44; break;
      }
      case 0xC3: {
        if (d.len < 14) PFAIL("VPS data unit with data_unit_length %u < 14", d.len);
        if ((q[0] & 0xC0) != 0xC0) PFAIL("VPS data unit: reserved bits %x", q[0] >> 6);
        d.parity = q[0] & 0x20; d.offset = q[0] & 31;
        d.data.assign((const char*)q + 1, 13);
        used = 14; break;
      }
      case 0xC4: {
        if (d.len < 3) PFAIL("WSS data unit with data_unit_length %u < 3", d.len);
        if ((q[0] & 0xC0) != 0xC0) PFAIL("WSS data unit: reserved bits %x", q[0] >> 6);
        d.parity = q[0] & 0x20; d.offset = q[0] & 31;
        if ((q[2] & 3) != 3) PFAIL("WSS data unit: reserved bits after the 14 data bits are %x", q[2] & 3);
        d.data += (char)rev8(q[1]); d.data += (char)(rev8(q[2]) & 0x3F);
        used = 3; break;
      }
      case 0xC5: {
        if (d.len < 3) PFAIL("caption data unit with data_unit_length %u < 3", d.len);
        if ((q[0] & 0xC0) != 0xC0) PFAIL("caption data unit: reserved bits %x", q[0] >> 6);
        d.parity = q[0] & 0x20; d.offset = q[0] & 31;
        d.data += (char)rev8(q[1]); d.data += (char)rev8(q[2]);
        used = 3; break;
      }
      case 0xC6: {
        if (d.len < 4) PFAIL("monochrome samples data unit with data_unit_length %u < 4", d.len);
        d.first = q[0] & 0x80; d.last = q[0] & 0x40; d.parity = q[0] & 0x20; d.offset = q[0] & 31;
        d.fpp = q[1] * 256u + q[2]; d.npix = q[3];
        if (d.npix < 1 || d.npix > 251) PFAIL("monochrome samples data unit: n_pixels %u", d.npix);
        if (d.len < 4 + d.npix) PFAIL("monochrome samples data unit: data_unit_length %u < 4 + n_pixels %u", d.len, d.npix);
        if (d.fpp + d.npix > 720) PFAIL("monochrome samples data unit: pixels %u..%u beyond 720", d.fpp, d.fpp + d.npix);
        d.data.assign((const char*)q + 4, d.npix);
        used = 4 + d.npix; break;
      }
      default: PFAIL("data_unit_id 0x%02x at offset %zu is none the multiplexer may produce", d.id, pos);
    }
    for (size_t i = used; i < d.len; i++)
      if (q[i] != 0xFF) PFAIL("data unit id %02x: stuffing byte %zu of %u is %02x", d.id, i, d.len, q[i]);
    if (d.id != 0xFF) { if (d.len > used) out.stuffed_inside++; out.du.push_back(d); }
    pos += 2 + d.len;
  }
  return true;
}

// TS packets carrying exactly one PES packet; cc = last continuity counter seen (-1 none)
static bool parse_ts(const Bytes& b, unsigned pid, int& cc, Bytes& pes, std::string& err) {
  if (b.empty() || b.size() % 188) PFAIL("%zu bytes emitted for a frame are not a whole number of TS packets", b.size());
  pes.clear();
  for (size_t k = 0; k * 188 < b.size(); k++) {
    const unsigned char* p = (const unsigned char*)b.data() + k * 188;
    if (p[0] != 0x47) PFAIL("TS packet %zu: sync byte %02x", k, p[0]);
    if (p[1] & 0x80) PFAIL("TS packet %zu: transport_error_indicator set", k);
    bool pusi = p[1] & 0x40;
    if (pusi != (k == 0)) PFAIL("TS packet %zu of the frame: payload_unit_start_indicator %d", k, pusi);
    unsigned gp = ((p[1] & 0x1Fu) << 8) | p[2];
    if (gp != pid) PFAIL("TS packet %zu: PID 0x%x, expected 0x%x", k, gp, pid);
    if (p[3] & 0xC0) PFAIL("TS packet %zu: transport_scrambling_control %x", k, p[3] >> 6);
    if ((p[3] & 0x30) != 0x10) PFAIL("TS packet %zu: adaptation_field_control %x (EN 300 472: payload only)", k, (p[3] >> 4) & 3);
    int c = p[3] & 15;
    if (cc >= 0 && c != ((cc + 1) & 15)) PFAIL("TS packet %zu: continuity_counter %d after %d", k, c, cc);
    cc = c;
    pes.append((const char*)p + 4, 184);
  }
  return true;
}

// ------------------------------------------------------------------------
// The real demultiplexer behind one interface (callback or coroutine)
// ------------------------------------------------------------------------
struct Sink {
  RunCtx* ctx = nullptr;
  vbi_dvb_demux* dx = nullptr;
  bool cor = false;
  bool quiet = false;  // no event log (reference / enumeration runs)
  const char* tag = "dx";
  std::vector<GotFrame> got;
  uint64_t calls = 0;

  void record(const vbi_sliced* s, unsigned n, int64_t pts) {
    GotFrame f; f.pts = pts;
    for (unsigned i = 0; i < n; i++) {
      GotLine l; l.id = s[i].id; l.line = s[i].line;
      l.data.assign((const char*)s[i].data, relevant_bytes(s[i].id));
      f.lines.push_back(l);
    }
    got.push_back(f);
    if (!quiet) ctx->log("%s frame %zu: %s", tag, got.size() - 1, frame_str(f).c_str());
  }
  static vbi_bool cb(vbi_dvb_demux*, void* ud, const vbi_sliced* s, unsigned n, int64_t pts) {
    HarnessScope hs;
    Sink* k = (Sink*)ud;
    if (n > 64) { k->ctx->fail("oracle:demux-lines", "callback with %u lines (the frame buffer has 64)", n); n = 64; }
    k->record(s, n, pts);
    return TRUE;
  }
  bool open(RunCtx* c, bool ts, unsigned pid, bool use_cor) {
    ctx = c; cor = use_cor;
    SutScope ss;
    dx = ts ? _vbi_dvb_ts_demux_new(use_cor ? nullptr : cb, this, pid) : vbi_dvb_pes_demux_new(use_cor ? nullptr : cb, this);
    return dx != nullptr;
  }
  void close() { if (dx) { SutScope ss; vbi_dvb_demux_delete(dx); dx = nullptr; } }
  void reset() { SutScope ss; vbi_dvb_demux_reset(dx); }
  // one piece, in an exactly sized heap buffer
  void feed(const unsigned char* data, size_t n) {
    if (n == 0 || ctx->failed) return;
    unsigned char* hb = (unsigned char*)malloc(n);
    memcpy(hb, data, n);
    calls++;
    if (!cor) {
      budget_begin("vbi_dvb_demux_feed", 400 * (uint64_t)n + 400000);
      vbi_bool r;
      { SutScope ss; r = vbi_dvb_demux_feed(dx, hb, (unsigned)n); }
      budget_end();
      if (!quiet) ctx->log("%s feed %zu -> %d", tag, n, r);
      // the callback always returns TRUE, hence no error can be reported
      if (!r) ctx->fail("oracle:demux-feed-false", "vbi_dvb_demux_feed returned FALSE although the callback never failed");
    } else {
      const uint8_t* p = hb; unsigned left = (unsigned)n;
      vbi_sliced* out = (vbi_sliced*)malloc(64 * sizeof(vbi_sliced));
      int guard = 0;
      while (left > 0 && !ctx->failed) {
        int64_t pts = -12345;
        const uint8_t* p0 = p; unsigned l0 = left;
        budget_begin("vbi_dvb_demux_cor", 400 * (uint64_t)left + 400000);
        unsigned nl;
        { SutScope ss; nl = vbi_dvb_demux_cor(dx, out, 64, &pts, &p, &left); }
        budget_end();
        if (p < p0 || (size_t)(p - p0) != l0 - left || left > l0) { ctx->fail("oracle:demux-cor-pointer", "vbi_dvb_demux_cor moved the buffer by %ld but buffer_left %u -> %u", (long)(p - p0), l0, left); break; }
        if (nl > 64) { ctx->fail("oracle:demux-lines", "vbi_dvb_demux_cor returned %u lines, max_lines was 64", nl); break; }
        if (nl > 0) record(out, nl, pts);
        else if (left > 0 && ++guard > 100000) { ctx->fail("oracle:demux-cor-stall", "vbi_dvb_demux_cor keeps returning 0 lines with %u bytes left", left); break; }
        if (!quiet) ctx->log("%s cor %u -> %u lines, %u left", tag, l0, nl, left);
      }
      free(out);
    }
    free(hb);
  }
};

// payload bytes whose wire forms (as is, bit reversed, bit reversed | 3) are neither 0x00 nor 0x47:
// a stream built from them contains no start code prefix and no TS sync byte inside payloads
static const std::vector<unsigned char>& safe_alphabet() {
  static std::vector<unsigned char> v;
  if (v.empty())
    for (unsigned c = 1; c < 256; c++) {
      unsigned r = rev8(c);
      if (c == 0x47 || r == 0x47 || (r | 3) == 0x47 || r == 0) continue;
      v.push_back((unsigned char)c);
    }
  return v;
}

// mode: 0 random, 1 zeros, 2 ones, 3 sprinkled with start code / sync byte imitations, 4 safe alphabet
static Bytes gen_payload(int n, uint64_t dseed, int mode, int stamp) {
  Rng r(dseed, "payload");
  Bytes d;
  for (int i = 0; i < n; i++) {
    switch (mode) {
      case 1: d += (char)0; break;
      case 2: d += (char)0xFF; break;
      case 3: { static const unsigned char pat[] = {0x00, 0x00, 0x80, 0xBD, 0xE2, 0x47, 0x00, 0x00, 0x80, 0x03}; d += (char)pat[(i + (int)(dseed % 7)) % 10]; break; }
      case 4: d += (char)safe_alphabet()[r.below(safe_alphabet().size())]; break;
      default: d += (char)r.below(256); break;
    }
  }
  if (stamp >= 0 && n >= 1) {
    const std::vector<unsigned char>& a = safe_alphabet();
    d[0] = (char)a[(size_t)stamp % a.size()];
    if (n >= 2) d[1] = (char)a[((size_t)stamp / a.size()) % a.size()];
  }
  return d;
}

static bool ttx_line_ok(int l) { return l == 0 || (l >= 7 && l <= 22) || (l >= 320 && l <= 335); }
static bool raw_line_ok(int l) { return (l >= 7 && l <= 23) || (l >= 320 && l <= 336); }
static bool line_ok_for(Cls c, int l) {
  switch (c) {
    case C_TTX: return ttx_line_ok(l);
    case C_VPS: return l == 16;
    case C_WSS: return l == 23;
    case C_CC: return l == 21;
    case C_RAW: return raw_line_ok(l);
    default: return false;
  }
}
