// C06 / C07 — DVB VBI multiplexer and demultiplexer.
//
// c06: producer task (frames of sliced / raw lines, configuration changes) ->
//      real vbi_dvb_mux (PES or TS; callback or coroutine interface with output
//      buffers of planned sizes) -> byte pipe -> transport task (pieces whose
//      size the scheduler and the plan decide) -> real vbi_dvb_demux (callback
//      or coroutine) -> consumer.  Oracles: an independent parser of the
//      emitted bytes (ISO 13818-1 TS/PES syntax, EN 300 472 / EN 301 775 data
//      units) and the round trip.
// c07: a stream built by an encoder written here from the standards (so that
//      foreign packets, legal variations and damage can be expressed), cut
//      into pieces; oracles: partition independence (differential against a
//      one-call run of the same bytes), robustness (sanitizers, edge budget),
//      recovery after damage.
//
// Sources of the format knowledge (not dvb_demux.c / dvb_mux.c):
//  ISO/IEC 13818-1 2.4.3.2 (transport packet), 2.4.3.6/7 (PES packet, PTS);
//  EN 300 472 4.2 / EN 301 775 4.3 (PES_packet_length = N*184-6,
//  PES_header_data_length 0x24, data_identifier), EN 301 775 4.4 table 1 (data
//  unit = id, length, data field, stuffing bytes 0xFF), 4.5-4.9 (data fields:
//  reserved '11', field_parity (1 = first field), line_offset; Teletext framing
//  code + 42 bytes, VPS 13 bytes, WSS 14 bits + '11', CC 16 bits, monochrome
//  samples: first/last segment flags, first_pixel_position, n_pixels), bits in
//  transmission order = msb first; libzvbi's vbi_sliced stores Teletext, WSS
//  and caption bytes lsb-first-transmitted, VPS msb first (sliced.h).
#include <algorithm>
#include <cstdio>
#include <cstdlib>
#include <cstring>
#include <map>
#include <set>

#include "alloc.h"
#include "sim.h"

extern "C" {
#include "src/libzvbi.h"
// declared in src/dvb_demux.h ("experimental"), not in the installed header
vbi_dvb_demux* _vbi_dvb_ts_demux_new(vbi_dvb_demux_cb* callback, void* user_data, unsigned int pid);
}

using namespace sim;

namespace {

typedef std::string Bytes;
static const int64_t PTS_MASK = 0x1FFFFFFFFll;

static unsigned rev8(unsigned c) { unsigned r = 0; for (int i = 0; i < 8; i++) if (c & (1u << i)) r |= 0x80u >> i; return r; }

enum Cls { C_TTX = 0, C_VPS, C_WSS, C_CC, C_RAW, C_BAD, C_NONE };
struct Svc { unsigned id; Cls cls; int nbytes; };
static const Svc SVC[] = {
    {VBI_SLICED_TELETEXT_B_625, C_TTX, 42}, {VBI_SLICED_TELETEXT_B_L10_625, C_TTX, 42}, {VBI_SLICED_TELETEXT_B_L25_625, C_TTX, 42},
    {VBI_SLICED_VPS, C_VPS, 13},            {VBI_SLICED_WSS_625, C_WSS, 2},            {VBI_SLICED_CAPTION_625, C_CC, 2},
    {VBI_SLICED_CAPTION_625_F1, C_CC, 2},   {VBI_SLICED_VBI_625, C_RAW, 0},            {VBI_SLICED_CAPTION_525, C_BAD, 2},
    {VBI_SLICED_WSS_CPR1204, C_BAD, 3},     {VBI_SLICED_NONE, C_NONE, 0}};
static const int NSVC = (int)(sizeof SVC / sizeof SVC[0]);

// one input line of a frame
struct Line {
  int line = 0;
  int svc = 0;
  Bytes data;  // nbytes payload (sliced) or the samples (raw)
  Cls cls() const { return SVC[svc].cls; }
};
struct Frame {
  std::vector<Line> lines;
  int64_t pts = 0;
};

// what the demultiplexer handed out
struct GotLine { unsigned id, line; Bytes data; };
struct GotFrame { int64_t pts; std::vector<GotLine> lines; };

static size_t relevant_bytes(unsigned id) {
  if (id & VBI_SLICED_TELETEXT_B_625) return 42;
  if (id & (VBI_SLICED_VPS | VBI_SLICED_VPS_F2)) return 13;
  if (id & (VBI_SLICED_WSS_625 | VBI_SLICED_CAPTION_625 | VBI_SLICED_CAPTION_525)) return 2;
  return 3;
}
static bool same_frame(const GotFrame& a, const GotFrame& b) {
  if (a.pts != b.pts || a.lines.size() != b.lines.size()) return false;
  for (size_t i = 0; i < a.lines.size(); i++)
    if (a.lines[i].id != b.lines[i].id || a.lines[i].line != b.lines[i].line || a.lines[i].data != b.lines[i].data) return false;
  return true;
}
static std::string frame_str(const GotFrame& f) {
  char b[64]; snprintf(b, sizeof b, "pts=%llx n=%zu [", (unsigned long long)f.pts, f.lines.size());
  std::string s = b;
  for (size_t i = 0; i < f.lines.size() && i < 12; i++) { snprintf(b, sizeof b, "%s%u:%x", i ? " " : "", f.lines[i].line, f.lines[i].id); s += b; }
  if (f.lines.size() > 12) s += " ..";
  return s + "]";
}

// does the delivered line carry the sent one?  Service compared as a class: the demultiplexer
// reports VBI_SLICED_TELETEXT_B for every Teletext line and the _F1 subset for caption on line 21.
static bool line_matches(const Line& e, const GotLine& g, std::string& why) {
  char b[160];
  if ((int)g.line != e.line) { snprintf(b, sizeof b, "line %u instead of %d", g.line, e.line); why = b; return false; }
  unsigned allowed = 0;
  switch (e.cls()) {
    case C_TTX: allowed = VBI_SLICED_TELETEXT_B_625; break;
    case C_VPS: allowed = VBI_SLICED_VPS; break;
    case C_WSS: allowed = VBI_SLICED_WSS_625; break;
    case C_CC: allowed = VBI_SLICED_CAPTION_625; break;
    default: break;
  }
  bool idok = g.id != 0 && (g.id & ~allowed) == 0;
  if (e.cls() == C_CC && !(g.id & VBI_SLICED_CAPTION_625_F1)) idok = false;  // line 21 is in the first field
  if (!idok) { snprintf(b, sizeof b, "line %d: service id 0x%x is not of the sent class (0x%x)", e.line, g.id, SVC[e.svc].id); why = b; return false; }
  Bytes want = e.data, have = g.data.substr(0, want.size());
  if (e.cls() == C_WSS) { want[1] = (char)(want[1] & 0x3F); have[1] = (char)(have[1] & 0x3F); }  // 14 bits are carried
  if (want != have) { snprintf(b, sizeof b, "line %d: payload %s.. instead of %s..", e.line, hex(have.substr(0, 8)).c_str(), hex(want.substr(0, 8)).c_str()); why = b; return false; }
  return true;
}

// ------------------------------------------------------------------------
// Independent parser of the multiplexer output
// ------------------------------------------------------------------------
struct PDu {
  unsigned id = 0, len = 0;
  bool parity = false;  // field_parity bit: 1 = first field
  unsigned offset = 0;  // line_offset
  Bytes data;           // payload converted to the vbi_sliced convention (or samples)
  bool first = false, last = false; unsigned fpp = 0, npix = 0;  // raw
  int line() const { return offset == 0 ? 0 : (parity ? (int)offset : 313 + (int)offset); }
};
struct PPes {
  size_t size = 0;
  int64_t pts = 0;
  unsigned data_identifier = 0;
  std::vector<PDu> du;  // without stuffing units
  int stuffing_units = 0, stuffed_inside = 0;
  size_t stuffing_bytes = 0;  // total size of the stuffing units
};

static bool fixed_di(unsigned di) { return di >= 0x10 && di <= 0x1F; }

#define PFAIL(...) do { char b_[256]; snprintf(b_, sizeof b_, __VA_ARGS__); err = b_; return false; } while (0)

static bool decode_pts(const unsigned char* p, unsigned prefix, int64_t& pts, std::string& err) {
  if ((p[0] >> 4) != prefix) PFAIL("time stamp prefix bits %x, expected %x", p[0] >> 4, prefix);
  if (!(p[0] & 1) || !(p[2] & 1) || !(p[4] & 1)) PFAIL("time stamp marker bit is zero (%02x %02x %02x %02x %02x)", p[0], p[1], p[2], p[3], p[4]);
  pts = ((int64_t)((p[0] >> 1) & 7) << 30) | ((int64_t)p[1] << 22) | ((int64_t)(p[2] >> 1) << 15) | ((int64_t)p[3] << 7) | (p[4] >> 1);
  return true;
}

static bool parse_pes(const Bytes& b, PPes& out, std::string& err) {
  const unsigned char* p = (const unsigned char*)b.data();
  size_t n = b.size();
  if (n < 46 + 2) PFAIL("PES packet of %zu bytes is too short for the 45 byte header, data_identifier and one data unit", n);
  if (p[0] != 0 || p[1] != 0 || p[2] != 1) PFAIL("packet_start_code_prefix %02x%02x%02x", p[0], p[1], p[2]);
  if (p[3] != 0xBD) PFAIL("stream_id %02x is not private_stream_1", p[3]);
  size_t plen = (size_t)p[4] * 256 + p[5];
  if (plen + 6 != n) PFAIL("PES_packet_length %zu + 6 differs from the %zu bytes emitted for the frame", plen, n);
  if (n % 184) PFAIL("PES packet size %zu is not a multiple of 184", n);
  if ((p[6] & 0xC0) != 0x80) PFAIL("PES header flags byte %02x does not begin with '10'", p[6]);
  if (p[6] & 0x30) PFAIL("PES_scrambling_control %x", (p[6] >> 4) & 3);
  if (!(p[6] & 0x04)) PFAIL("data_alignment_indicator is 0 (EN 301 775 4.3 requires 1)");
  unsigned fl = p[7];
  if (!(fl & 0x80)) PFAIL("PTS_DTS_flags %x: no PTS (EN 300 472 4.2: PTS shall be present)", fl >> 6);
  if (p[8] != 0x24) PFAIL("PES_header_data_length 0x%02x, must be 0x24", p[8]);
  size_t k = 9;
  if (!decode_pts(p + k, (fl & 0x40) ? 3 : 2, out.pts, err)) return false;
  k += 5;
  if (fl & 0x40) { int64_t dts; if (!decode_pts(p + k, 1, dts, err)) return false; k += 5; }
  if (fl & 0x20) k += 6;
  if (fl & 0x10) k += 3;
  if (fl & 0x08) k += 1;
  if (fl & 0x04) k += 1;
  if (fl & 0x02) k += 2;
  if (k > 45) PFAIL("optional header fields need %zu bytes, more than PES_header_data_length", k - 9);
  if (!(fl & 0x01))  // with a PES extension the parser cannot tell its size; otherwise the rest is stuffing
    for (; k < 45; k++) if (p[k] != 0xFF) PFAIL("PES header stuffing byte %zu is %02x", k, p[k]);
  out.size = n;
  out.data_identifier = p[45];
  bool fixed = fixed_di(out.data_identifier);
  size_t pos = 46;
  while (pos < n) {
    if (n - pos < 2) PFAIL("%zu byte(s) at the end of the packet are not a data unit", n - pos);
    PDu d; d.id = p[pos]; d.len = p[pos + 1];
    if (pos + 2 + d.len > n) PFAIL("data unit id %02x length %u at offset %zu crosses the end of the PES packet (%zu)", d.id, d.len, pos, n);
    if (fixed && d.len != 0x2C) PFAIL("data_unit_length %u with data_identifier 0x%02x (must be 0x2C)", d.len, out.data_identifier);
    const unsigned char* q = p + pos + 2;
    size_t used = 0;  // bytes of the data field; what follows must be stuffing bytes
    switch (d.id) {
      case 0xFF: used = 0; out.stuffing_units++; out.stuffing_bytes += 2 + d.len; break;
      case 0x02: case 0x03: {
        if (d.len < 44) PFAIL("Teletext data unit with data_unit_length %u < 44", d.len);
        if ((q[0] & 0xC0) != 0xC0) PFAIL("Teletext data unit: reserved bits %x", q[0] >> 6);
        d.parity = q[0] & 0x20; d.offset = q[0] & 31;
        if (q[1] != 0xE4) PFAIL("Teletext data unit: framing code %02x, expected E4", q[1]);
        for (int i = 0; i < 42; i++) d.data += (char)rev8(q[2 + i]);
        used = 44; break;
      }
      case 0xC3: {
        if (d.len < 14) PFAIL("VPS data unit with data_unit_length %u < 14", d.len);
        if ((q[0] & 0xC0) != 0xC0) PFAIL("VPS data unit: reserved bits %x", q[0] >> 6);
        d.parity = q[0] & 0x20; d.offset = q[0] & 31;
        d.data.assign((const char*)q + 1, 13);
        used = 14; break;
      }
      case 0xC4: {
        if (d.len < 3) PFAIL("WSS data unit with data_unit_length %u < 3", d.len);
        if ((q[0] & 0xC0) != 0xC0) PFAIL("WSS data unit: reserved bits %x", q[0] >> 6);
        d.parity = q[0] & 0x20; d.offset = q[0] & 31;
        if ((q[2] & 3) != 3) PFAIL("WSS data unit: reserved bits after the 14 data bits are %x", q[2] & 3);
        d.data += (char)rev8(q[1]); d.data += (char)(rev8(q[2]) & 0x3F);
        used = 3; break;
      }
      case 0xC5: {
        if (d.len < 3) PFAIL("caption data unit with data_unit_length %u < 3", d.len);
        if ((q[0] & 0xC0) != 0xC0) PFAIL("caption data unit: reserved bits %x", q[0] >> 6);
        d.parity = q[0] & 0x20; d.offset = q[0] & 31;
        d.data += (char)rev8(q[1]); d.data += (char)rev8(q[2]);
        used = 3; break;
      }
      case 0xC6: {
        if (d.len < 4) PFAIL("monochrome samples data unit with data_unit_length %u < 4", d.len);
        d.first = q[0] & 0x80; d.last = q[0] & 0x40; d.parity = q[0] & 0x20; d.offset = q[0] & 31;
        d.fpp = q[1] * 256u + q[2]; d.npix = q[3];
        if (d.npix < 1 || d.npix > 251) PFAIL("monochrome samples data unit: n_pixels %u", d.npix);
        if (d.len < 4 + d.npix) PFAIL("monochrome samples data unit: data_unit_length %u < 4 + n_pixels %u", d.len, d.npix);
        if (d.fpp + d.npix > 720) PFAIL("monochrome samples data unit: pixels %u..%u beyond 720", d.fpp, d.fpp + d.npix);
        d.data.assign((const char*)q + 4, d.npix);
        used = 4 + d.npix; break;
      }
      default: PFAIL("data_unit_id 0x%02x at offset %zu is none the multiplexer may produce", d.id, pos);
    }
    for (size_t i = used; i < d.len; i++)
      if (q[i] != 0xFF) PFAIL("data unit id %02x: stuffing byte %zu of %u is %02x", d.id, i, d.len, q[i]);
    if (d.id != 0xFF) { if (d.len > used) out.stuffed_inside++; out.du.push_back(d); }
    pos += 2 + d.len;
  }
  return true;
}

// TS packets carrying exactly one PES packet; cc = last continuity counter seen (-1 none)
static bool parse_ts(const Bytes& b, unsigned pid, int& cc, Bytes& pes, std::string& err) {
  if (b.empty() || b.size() % 188) PFAIL("%zu bytes emitted for a frame are not a whole number of TS packets", b.size());
  pes.clear();
  for (size_t k = 0; k * 188 < b.size(); k++) {
    const unsigned char* p = (const unsigned char*)b.data() + k * 188;
    if (p[0] != 0x47) PFAIL("TS packet %zu: sync byte %02x", k, p[0]);
    if (p[1] & 0x80) PFAIL("TS packet %zu: transport_error_indicator set", k);
    bool pusi = p[1] & 0x40;
    if (pusi != (k == 0)) PFAIL("TS packet %zu of the frame: payload_unit_start_indicator %d", k, pusi);
    unsigned gp = ((p[1] & 0x1Fu) << 8) | p[2];
    if (gp != pid) PFAIL("TS packet %zu: PID 0x%x, expected 0x%x", k, gp, pid);
    if (p[3] & 0xC0) PFAIL("TS packet %zu: transport_scrambling_control %x", k, p[3] >> 6);
    if ((p[3] & 0x30) != 0x10) PFAIL("TS packet %zu: adaptation_field_control %x (EN 300 472: payload only)", k, (p[3] >> 4) & 3);
    int c = p[3] & 15;
    if (cc >= 0 && c != ((cc + 1) & 15)) PFAIL("TS packet %zu: continuity_counter %d after %d", k, c, cc);
    cc = c;
    pes.append((const char*)p + 4, 184);
  }
  return true;
}

// ------------------------------------------------------------------------
// The real demultiplexer behind one interface (callback or coroutine)
// ------------------------------------------------------------------------
struct Sink {
  RunCtx* ctx = nullptr;
  vbi_dvb_demux* dx = nullptr;
  bool cor = false;
  bool quiet = false;  // no event log (reference / enumeration runs)
  const char* tag = "dx";
  std::vector<GotFrame> got;
  uint64_t calls = 0;

  void record(const vbi_sliced* s, unsigned n, int64_t pts) {
    GotFrame f; f.pts = pts;
    for (unsigned i = 0; i < n; i++) {
      GotLine l; l.id = s[i].id; l.line = s[i].line;
      l.data.assign((const char*)s[i].data, relevant_bytes(s[i].id));
      f.lines.push_back(l);
    }
    got.push_back(f);
    if (!quiet) ctx->log("%s frame %zu: %s", tag, got.size() - 1, frame_str(f).c_str());
  }
  static vbi_bool cb(vbi_dvb_demux*, void* ud, const vbi_sliced* s, unsigned n, int64_t pts) {
    HarnessScope hs;
    Sink* k = (Sink*)ud;
    if (n > 64) { k->ctx->fail("oracle:demux-lines", "callback with %u lines (the frame buffer has 64)", n); n = 64; }
    k->record(s, n, pts);
    return TRUE;
  }
  bool open(RunCtx* c, bool ts, unsigned pid, bool use_cor) {
    ctx = c; cor = use_cor;
    SutScope ss;
    dx = ts ? _vbi_dvb_ts_demux_new(use_cor ? nullptr : cb, this, pid) : vbi_dvb_pes_demux_new(use_cor ? nullptr : cb, this);
    return dx != nullptr;
  }
  void close() { if (dx) { SutScope ss; vbi_dvb_demux_delete(dx); dx = nullptr; } }
  void reset() { SutScope ss; vbi_dvb_demux_reset(dx); }
  // one piece, in an exactly sized heap buffer
  void feed(const unsigned char* data, size_t n) {
    if (n == 0 || ctx->failed) return;
    unsigned char* hb = (unsigned char*)malloc(n);
    memcpy(hb, data, n);
    calls++;
    if (!cor) {
      budget_begin("vbi_dvb_demux_feed", 400 * (uint64_t)n + 400000);
      vbi_bool r;
      { SutScope ss; r = vbi_dvb_demux_feed(dx, hb, (unsigned)n); }
      budget_end();
      if (!quiet) ctx->log("%s feed %zu -> %d", tag, n, r);
      // the callback always returns TRUE, hence no error can be reported
      if (!r) ctx->fail("oracle:demux-feed-false", "vbi_dvb_demux_feed returned FALSE although the callback never failed");
    } else {
      const uint8_t* p = hb; unsigned left = (unsigned)n;
      vbi_sliced* out = (vbi_sliced*)malloc(64 * sizeof(vbi_sliced));
      int guard = 0;
      while (left > 0 && !ctx->failed) {
        int64_t pts = -12345;
        const uint8_t* p0 = p; unsigned l0 = left;
        budget_begin("vbi_dvb_demux_cor", 400 * (uint64_t)left + 400000);
        unsigned nl;
        { SutScope ss; nl = vbi_dvb_demux_cor(dx, out, 64, &pts, &p, &left); }
        budget_end();
        if (p < p0 || (size_t)(p - p0) != l0 - left || left > l0) { ctx->fail("oracle:demux-cor-pointer", "vbi_dvb_demux_cor moved the buffer by %ld but buffer_left %u -> %u", (long)(p - p0), l0, left); break; }
        if (nl > 64) { ctx->fail("oracle:demux-lines", "vbi_dvb_demux_cor returned %u lines, max_lines was 64", nl); break; }
        if (nl > 0) record(out, nl, pts);
        else if (left > 0 && ++guard > 100000) { ctx->fail("oracle:demux-cor-stall", "vbi_dvb_demux_cor keeps returning 0 lines with %u bytes left", left); break; }
        if (!quiet) ctx->log("%s cor %u -> %u lines, %u left", tag, l0, nl, left);
      }
      free(out);
    }
    free(hb);
  }
};

// payload bytes whose wire forms (as is, bit reversed, bit reversed | 3) are neither 0x00 nor 0x47:
// a stream built from them contains no start code prefix and no TS sync byte inside payloads
static const std::vector<unsigned char>& safe_alphabet() {
  static std::vector<unsigned char> v;
  if (v.empty())
    for (unsigned c = 1; c < 256; c++) {
      unsigned r = rev8(c);
      if (c == 0x47 || r == 0x47 || (r | 3) == 0x47 || r == 0) continue;
      v.push_back((unsigned char)c);
    }
  return v;
}

// mode: 0 random, 1 zeros, 2 ones, 3 sprinkled with start code / sync byte imitations, 4 safe alphabet
static Bytes gen_payload(int n, uint64_t dseed, int mode, int stamp) {
  Rng r(dseed, "payload");
  Bytes d;
  for (int i = 0; i < n; i++) {
    switch (mode) {
      case 1: d += (char)0; break;
      case 2: d += (char)0xFF; break;
      case 3: { static const unsigned char pat[] = {0x00, 0x00, 0x80, 0xBD, 0xE2, 0x47, 0x00, 0x00, 0x80, 0x03}; d += (char)pat[(i + (int)(dseed % 7)) % 10]; break; }
      case 4: d += (char)safe_alphabet()[r.below(safe_alphabet().size())]; break;
      default: d += (char)r.below(256); break;
    }
  }
  if (stamp >= 0 && n >= 1) {
    const std::vector<unsigned char>& a = safe_alphabet();
    d[0] = (char)a[(size_t)stamp % a.size()];
    if (n >= 2) d[1] = (char)a[((size_t)stamp / a.size()) % a.size()];
  }
  return d;
}

static bool ttx_line_ok(int l) { return l == 0 || (l >= 7 && l <= 22) || (l >= 320 && l <= 335); }
static bool raw_line_ok(int l) { return (l >= 7 && l <= 23) || (l >= 320 && l <= 336); }
static bool line_ok_for(Cls c, int l) {
  switch (c) {
    case C_TTX: return ttx_line_ok(l);
    case C_VPS: return l == 16;
    case C_WSS: return l == 23;
    case C_CC: return l == 21;
    case C_RAW: return raw_line_ok(l);
    default: return false;
  }
}

// ------------------------------------------------------------------------
// C06
// ------------------------------------------------------------------------
static const unsigned MASKS[] = {
    0xFFFFFFFFu,
    VBI_SLICED_TELETEXT_B_625 | VBI_SLICED_VPS | VBI_SLICED_WSS_625 | VBI_SLICED_CAPTION_625 | VBI_SLICED_VBI_625,
    VBI_SLICED_TELETEXT_B_625,
    0xFFFFFFFFu & ~(unsigned)VBI_SLICED_WSS_625,
    0xFFFFFFFFu & ~(unsigned)VBI_SLICED_TELETEXT_B_625,
    VBI_SLICED_TELETEXT_B_L10_625 | VBI_SLICED_VPS,
    0xFFFFFFFFu & ~(unsigned)VBI_SLICED_VBI_625,
    VBI_SLICED_VPS | VBI_SLICED_CAPTION_625_F1 | VBI_SLICED_VBI_625};
static const int NMASKS = (int)(sizeof MASKS / sizeof MASKS[0]);
static const int DI_TABLE[] = {0x10, 0x11, 0x1F, 0x99, 0x9A, 0x9B, 0x15, 0x99, /* invalid: */ 0x00, 0x0F, 0x20, 0x98, 0x9C, 0xFF, 0x100 + 0x10};
static const int NDI = (int)(sizeof DI_TABLE / sizeof DI_TABLE[0]);
static bool di_valid(int d) { return (d >= 0x10 && d <= 0x1F) || (d >= 0x99 && d <= 0x9B); }

enum Verdict { V_ACCEPT, V_REJECT, V_EITHER };

struct C06 : World {
  const char* name() const override { return "c06"; }
  const char* property() const override { return "C06"; }

  // The generator used to steer around five defects of dvb_mux.c / dvb_demux.c (a raw line that does not fit
  // left the multiplexer unusable; a raw line followed by a one byte stuffing gap: assertion, or a corrupt
  // data unit when the raw unit had the maximum length; an undefined Teletext line after a raw line got the
  // wrong field_parity; the TS demultiplexer dropped a 184 byte PES packet met while synchronising).  They
  // are repaired in /repo; the minimised replays are in regress/C06/ and none of them is avoided any more.
  // One shape is avoided (guard in do_frame(), counter guard_lead0_same_field, lifted by the knob lead0_strict):
  // a frame led by undefined lines that the demultiplexer adds to the previous frame and then drops together
  // with it - a suspected defect of dvb_demux.c, /verif/out/C06/lead0-same-field.json and fix-1.diff.

  Plan generate(uint64_t seed, const std::string& tier) override {
    Plan p; p.world = name(); p.seed = seed;
    Rng r(seed, "plan");
    p.knobs["sched_seed"] = (int64_t)(r.next() >> 1);
    p.knobs["policy"] = (int64_t)r.below(3);
    p.knobs["pparam"] = (p.knobs["policy"] == 1) ? 30 + (int64_t)r.below(65) : (int64_t)r.below(4);
    bool ts = r.chance(1, 2);
    p.knobs["ts"] = ts;
    static const int pids[] = {0x10, 0x11, 0x100, 0x1FFE, 0x47, 0x747, 0x1234, 0x0FFF};
    p.knobs["pid"] = r.chance(1, 2) ? pids[r.below(8)] : 0x10 + (int64_t)r.below(0x1FFF - 0x10);
    p.knobs["mux_nocb"] = r.chance(1, 8);
    p.knobs["dx_cor"] = r.chance(1, 2);
    p.knobs["xfer_seed"] = (int64_t)(r.next() >> 1);
    p.knobs["xfer_mode"] = (int64_t)r.below(6);
    p.knobs["abandon"] = r.chance(1, 2) ? 0 : 1 + (int64_t)r.below(3);  // abandoned coroutine packets behind the closing frame
    p.knobs["pay_mode"] = r.chance(1, 2) ? 0 : (int64_t)r.below(4);
    bool with_raw = r.chance(1, 3);
    int bpl = r.chance(1, 3) ? 720 : r.chance(1, 2) ? 1 + (int)r.below(720) : 1 + (int)r.below(300);
    // multiples of 251 samples end a line with a data unit of the maximum length (no room for a stuffing byte)
    if (with_raw && r.chance(1, 8)) { static const int edge[] = {251, 502, 250, 252, 40, 80}; bpl = edge[r.below(6)]; }
    p.knobs["sp_bpl"] = bpl;
    p.knobs["sp_offset"] = 132 + (int64_t)r.below((uint64_t)(720 - bpl + 1));
    int c0 = (int)r.below(20), c1 = (int)r.below(20);
    bool il = r.chance(1, 3);
    if (il) { if (!c0) c0 = 1; c1 = c0; }
    if (!c0 && !c1) c0 = 17;
    p.knobs["sp_start0"] = r.chance(1, 2) ? 7 : 5 + (int64_t)r.below(8);
    p.knobs["sp_count0"] = r.chance(1, 2) ? 17 : c0;
    p.knobs["sp_start1"] = r.chance(1, 2) ? 320 : 318 + (int64_t)r.below(8);
    p.knobs["sp_count1"] = r.chance(1, 2) ? (int64_t)p.knobs["sp_count0"] : c1;
    if (il) p.knobs["sp_count1"] = p.knobs["sp_count0"];
    if (!p.knobs["sp_count0"] && !p.knobs["sp_count1"]) p.knobs["sp_count0"] = 17;
    p.knobs["sp_interlaced"] = il;
    p.knobs["sp_bad"] = r.chance(1, 12) ? 1 + (int64_t)r.below(6) : 0;
    bool invalid_frames = r.chance(1, 2);
    bool var_cfg = r.chance(2, 3);
    int nframes = 1 + (int)r.below(tier == "thorough" ? 24 : 10);
    // Frame *sequences* (its own random stream, so that the frames below stay what they were): in two runs of three
    // every valid frame is given a way to begin (as generated / with undefined Teletext lines / with a low line of the
    // first field / in the second field) and a way to end (as generated / in the first field / in the second field /
    // with undefined lines behind a line of the first or the second field / with a raw line), all combinations, so
    // that every ordered pair (how the previous frame ended, how the next one begins) comes up: what the
    // demultiplexer makes of a packet depends on what the previous packets left behind.
    Rng q(seed, "frameseq");
    bool seq_mode = q.chance(2, 3);
    p.knobs["lead0"] = seq_mode;  // undefined lines may lead a frame; the closing frame is sent twice (see run())
    // the guard described in run() is lifted: the dvb_demux.c defect it steered around is repaired in /repo
    // (regress/C06/lead0-same-field.json); plans without the knob (older replay files) keep the guard
    if (seq_mode || tier == "lead0strict") p.knobs["lead0_strict"] = 1;
    auto cfg_op = [&](int what, int64_t a, int64_t b) { Op o; o.task = 0; o.kind = "cfg"; o.a = {what, a, b}; p.ops.push_back(o); };
    if (r.chance(3, 4)) { int k = (int)r.below(8); cfg_op(0, k, 0); }
    if (r.chance(3, 4)) {
      int64_t mn = 184 * (1 + (int64_t)r.below(4)), mx = mn + 184 * (int64_t)r.below(12);
      if (r.chance(1, 10)) mx = 65504;
      if (r.chance(1, 40)) mn = 184 * (int64_t)r.below(357);
      cfg_op(1, mn - (int64_t)r.below(3), mx + (int64_t)r.below(3));
    }
    for (int f = 0; f < nframes; f++) {
      if (var_cfg && r.chance(1, 4)) {
        if (r.chance(1, 2)) { int k = (int)r.below((uint64_t)NDI); cfg_op(0, k, 0); }
        else {
          int64_t mn = r.chance(1, 8) ? (int64_t)r.below(70000) : 184 * (1 + (int64_t)r.below(6)) - (int64_t)r.below(2);
          int64_t mx = r.chance(1, 8) ? (int64_t)r.below(70000) : mn + 184 * (int64_t)r.below(10) + (int64_t)r.below(184);
          cfg_op(1, mn, mx);
        }
      }
      // lines of the frame: a sorted subset of the permitted lines, sometimes spoiled
      std::vector<std::pair<int, int>> ls;  // line, svc
      int style = (int)r.below(8);
      int density = 1 + (int)r.below(6);
      auto add_ttx = [&](int l) { ls.push_back({l, (int)r.below(3)}); };
      for (int l = 7; l <= 23; l++) {
        if (style == 6 && l > 12) break;           // frame confined to low lines (next one may not be recognisable)
        if (!r.chance((unsigned)density, 6)) continue;
        if (with_raw && r.chance(1, 6)) { ls.push_back({l, 7}); continue; }
        if (l == 16 && r.chance(1, 2)) ls.push_back({16, 3});
        else if (l == 21 && r.chance(1, 2)) ls.push_back({21, 5 + (int)r.below(2)});
        else if (l == 23) { if (r.chance(2, 3)) ls.push_back({23, 4}); }
        else add_ttx(l);
      }
      if (style != 5)
        for (int l = 320; l <= 336; l++) {
          if (style == 7 && l < 330) continue;
          if (!r.chance((unsigned)density, 6)) continue;
          if (with_raw && r.chance(1, 6)) { ls.push_back({l, 7}); continue; }
          if (l <= 335) add_ttx(l);
        }
      if (with_raw && bpl % 251 == 0 && r.chance(1, 3)) {
        // a frame that ends with a raw data unit of the maximum length one byte before a 184 byte boundary
        // (with data units of variable length): neither a stuffing unit nor a stuffing byte fits there
        int sol[64][4], ns = 0;
        for (int a = 0; a <= 10; a++) for (int b = 0; b <= 1; b++) for (int c = 0; c <= 2; c++) for (int m = 1; m <= 4; m++)
          if ((46 + 46 * a + 16 * b + 5 * c + 257 * (bpl / 251) * m) % 184 == 183 && ns < 64) { sol[ns][0] = a; sol[ns][1] = b; sol[ns][2] = c; sol[ns][3] = m; ns++; }
        if (ns) {
          const int* q = sol[r.below((uint64_t)ns)];
          ls.clear();
          for (int l = 7, a = q[0]; l <= 22 && a > 0; l++) {
            if (l == 16 || l == 21) continue;
            add_ttx(l); a--;
          }
          if (q[1]) ls.push_back({16, 3});
          if (q[2] >= 1) ls.push_back({21, 5});
          if (q[2] >= 2) ls.push_back({23, 4});
          std::sort(ls.begin(), ls.end());
          for (int m = 0; m < q[3]; m++) ls.push_back({320 + m, 7});
        }
      }
      if (r.chance(1, 6) && !ls.empty()) {  // undefined Teletext lines in the middle
        int nz = 1 + (int)r.below(3);
        for (int k = 0; k < nz; k++) {
          size_t pos = 1 + (size_t)r.below(ls.size());
          ls.insert(ls.begin() + (long)pos, {0, (int)r.below(3)});
        }
      }
      bool spoiled = false;
      if (invalid_frames && r.chance(1, 4) && !ls.empty()) {
        spoiled = true;
        size_t k = (size_t)r.below(ls.size());
        switch (r.below(7)) {
          case 0: if (ls.size() >= 2) std::swap(ls[k], ls[(k + 1) % ls.size()]); break;              // unsorted
          case 1: ls.insert(ls.begin() + (long)k, ls[k]); break;                                        // duplicate line
          case 2: ls[k].first = (int)r.below(2) ? 1 + (int)r.below(6) : 24 + (int)r.below(290); break;  // illegal line
          case 3: ls[k].second = 8 + (int)r.below(3); break;                                            // illegal / no service
          case 4: ls[k] = {(int)r.below(2) ? 17 : 336, 3 + (int)r.below(4)}; break;                     // service on a line it must not use
          case 5: ls[k].first += 313; break;
          default: ls[k].second = (int)r.below((uint64_t)NSVC); break;
        }
      }
      if (seq_mode && !spoiled) {
        enum { B_ASIS, B_ZERO, B_LOW1, B_F2 };
        enum { E_ASIS, E_F1, E_F2, E_ZERO_F1, E_ZERO_F2, E_RAW };
        static const int btab[] = {B_ASIS, B_ASIS, B_ZERO, B_ZERO, B_ZERO, B_LOW1, B_LOW1, B_F2, B_F2, B_F2};
        static const int etab[] = {E_ASIS, E_ASIS, E_F1, E_F1, E_F2, E_F2, E_ZERO_F1, E_ZERO_F2, E_RAW, E_RAW};
        int bk = btab[q.below(10)], ek = etab[q.below(10)];
        if (ek == E_RAW && !with_raw) ek = (int)q.below(5);
        auto zero = [&]() { return std::pair<int, int>(0, (int)q.below(3)); };
        auto ttx = [&](int l) { return std::pair<int, int>(l, (int)q.below(3)); };
        if (q.chance(1, 16)) {  // nothing but undefined lines: no line number at all
          ls.clear();
          for (int k = 1 + (int)q.below(3); k > 0; k--) ls.push_back(zero());
        } else {
          auto first_f2 = [&]() { size_t i = 0; while (i < ls.size() && ls[i].first < 313) i++; return i; };
          if (bk == B_F2) ls.erase(ls.begin(), ls.begin() + (long)first_f2());
          else if (ek == E_F1 || ek == E_ZERO_F1) ls.erase(ls.begin() + (long)first_f2(), ls.end());
          if (ek != E_ASIS) while (!ls.empty() && (ls.back().first == 0 || ls.back().second == 7)) ls.pop_back();
          if (ls.empty()) ls.push_back(ttx(bk == B_F2 || ek == E_F2 || ek == E_ZERO_F2 ? 320 + (int)q.below(16) : 7 + (int)q.below(16)));
          if ((ek == E_F2 || ek == E_ZERO_F2) && ls.back().first < 313) ls.push_back(ttx(320 + (int)q.below(16)));
          if (bk == B_LOW1 && ls[0].first > 9) ls.insert(ls.begin(), ttx(7 + (int)q.below(3)));
          if (ek == E_ZERO_F1 || ek == E_ZERO_F2) for (int k = 1 + (int)q.below(2); k > 0; k--) ls.push_back(zero());
          if (ek == E_RAW) {  // a raw line of the image below everything else
            int last = 0; for (auto& l : ls) if (l.first > last) last = l.first;
            std::vector<int> cand;
            for (int f = 0; f < 2; f++) {
              int st = (int)p.knobs[f ? "sp_start1" : "sp_start0"], cn = (int)p.knobs[f ? "sp_count1" : "sp_count0"];
              for (int l = st; l < st + cn; l++) if (l > last && raw_line_ok(l)) cand.push_back(l);
            }
            if (!cand.empty()) ls.push_back({cand[q.below(cand.size())], 7});
          }
          if (bk == B_ZERO) for (int k = 1 + (int)q.below(2); k > 0; k--) ls.insert(ls.begin(), zero());
        }
        if (with_raw && q.chance(1, 10)) {
          // an invalid frame in the sequence: a raw line which the raw image has but the standard does not permit
          // (5, 6, 24.., 318, 319, 337..), in its place; the frames behind it must pass ('leaves the multiplexer usable')
          std::vector<int> cand;
          for (int f = 0; f < 2; f++) {
            int st = (int)p.knobs[f ? "sp_start1" : "sp_start0"], cn = (int)p.knobs[f ? "sp_count1" : "sp_count0"];
            for (int l = st; l < st + cn; l++) if (!raw_line_ok(l)) cand.push_back(l);
          }
          if (!cand.empty()) {
            int l = cand[q.below(cand.size())];
            size_t i = 0;
            while (i < ls.size() && ls[i].first < l) i++;
            if (i == ls.size() || ls[i].first != l) ls.insert(ls.begin() + (long)i, {l, 7});
          }
        }
      }
      int mask_sel = r.chance(2, 3) ? 0 : (int)r.below((uint64_t)NMASKS);
      int rawmode = with_raw ? (r.chance(5, 6) ? 1 : (int)r.below(5)) : (r.chance(7, 8) ? 0 : (int)r.below(4));
      for (auto& l : ls) { Op o; o.task = 0; o.kind = "ln"; o.a = {l.first, l.second, (int64_t)r.below(1000000)}; p.ops.push_back(o); }
      Op o; o.task = 0; o.kind = "frame";
      int64_t pts;
      switch (r.below(6)) {
        case 0: pts = (int64_t)r.below(4); break;
        case 1: pts = PTS_MASK - (int64_t)r.below(4); break;
        case 2: pts = (int64_t)(r.next()); break;  // any 64 bit value incl. negative: bits 33.. are discarded
        case 3: pts = ((int64_t)1 << (30 + r.below(4))) - (int64_t)r.below(2); break;
        default: pts = (int64_t)(r.next() & (uint64_t)PTS_MASK); break;
      }
      o.a = {pts, r.chance(1, 2), mask_sel, (int64_t)r.below(600), rawmode};
      p.ops.push_back(o);
    }
    return p;
  }

  struct Cfg { unsigned di = 0x10; unsigned min = 184, max = 65504; };
  struct Seg { std::vector<Line> lines; int64_t pts; bool may_merge; };

  struct St {
    RunCtx* ctx; Sched* sched;
    vbi_dvb_mux* mx = nullptr;
    bool ts = false; unsigned pid = 0;
    Bytes frame_bytes;  // bytes emitted for the frame being fed
    Bytes pipe; size_t pipe_rd = 0;
    bool in_feed = false;
    Task* transport = nullptr; bool transport_waiting = false; bool producer_done = false;
    bool to_pipe = true;  // false: the application discards the multiplexer's output (frames behind an abandoned packet)
  };

  static vbi_bool mux_cb(vbi_dvb_mux*, void* ud, const uint8_t* packet, unsigned size) {
    HarnessScope hs;
    St* s = (St*)ud;
    if (!s->in_feed) s->ctx->fail("oracle:mux-callback", "callback outside vbi_dvb_mux_feed");
    if (s->ts && size != 188) s->ctx->fail("oracle:mux-callback", "TS mode callback with %u bytes", size);
    s->frame_bytes.append((const char*)packet, size);
    if (s->to_pipe) s->pipe.append((const char*)packet, size);
    s->ctx->log("mux cb %u bytes", size);
    return TRUE;
  }

  static size_t cor_bufsize(int sel, int k) {
    uint64_t h = hash_mix((uint64_t)sel * 7919u + 13, (uint64_t)k);
    if (k > 3000) return 4096;  // a 64 KiB packet is not drained byte by byte
    switch (((sel % 6) + 6) % 6) {
      case 0: return 1;
      case 1: return 1 + h % 8;
      case 2: return 188;
      case 3: return 184 - (size_t)(sel % 5) + (size_t)(h % 9);
      case 4: return 1 + h % 4096;
      default: return 70000;
    }
  }

  void run(const Plan& plan, RunCtx& ctx) override {
    alloc_track_reset();
    St st; st.ctx = &ctx;
    Sched sched(ctx, (uint64_t)plan.knob("sched_seed", (int64_t)plan.seed), (Policy)(((plan.knob("policy") % 3) + 3) % 3), (int)plan.knob("pparam"));
    st.sched = &sched;
    st.ts = plan.knob("ts") & 1;
    st.pid = (unsigned)(llabs(plan.knob("pid", 0x100)) % 0x2000);
    if (st.pid < 0x10) st.pid += 0x10;
    if (st.pid > 0x1FFE) st.pid = 0x1FFE;
    bool mux_nocb = plan.knob("mux_nocb") & 1;
    bool dx_cor = plan.knob("dx_cor") & 1;
    int pay_mode = (int)(llabs(plan.knob("pay_mode")) % 4);
    {
      SutScope ss;
      st.mx = st.ts ? vbi_dvb_ts_mux_new(st.pid, mux_nocb ? nullptr : mux_cb, &st) : vbi_dvb_pes_mux_new(mux_nocb ? nullptr : mux_cb, &st);
    }
    Sink sink;
    if (!st.mx || !sink.open(&ctx, st.ts, st.pid, dx_cor)) { ctx.fail("harness:new", "constructors failed"); return; }
    ctx.count(st.ts ? "mode_ts" : "mode_pes");
    ctx.count(dx_cor ? "demux_cor" : "demux_feed");

    // ---- raw VBI image and sampling parameters
    vbi_sampling_par sp; memset(&sp, 0, sizeof sp);
    int bpl = 1 + (int)(llabs(plan.knob("sp_bpl", 720) - 1) % 720);
    int off = 132 + (int)(llabs(plan.knob("sp_offset", 132) - 132) % (720 - bpl + 1));
    sp.scanning = 625; sp.sampling_format = VBI_PIXFMT_YUV420; sp.sampling_rate = 13500000;
    sp.bytes_per_line = bpl; sp.offset = off;
    sp.start[0] = 5 + (int)(llabs(plan.knob("sp_start0", 7) - 5) % 8); sp.count[0] = (int)(llabs(plan.knob("sp_count0", 17)) % 20);
    sp.start[1] = 318 + (int)(llabs(plan.knob("sp_start1", 320) - 318) % 8); sp.count[1] = (int)(llabs(plan.knob("sp_count1", 17)) % 20);
    sp.interlaced = plan.knob("sp_interlaced") & 1;
    if (sp.interlaced) { if (!sp.count[0]) sp.count[0] = 1; sp.count[1] = sp.count[0]; }
    if (!sp.count[0] && !sp.count[1]) sp.count[0] = 17;
    sp.synchronous = TRUE;
    vbi_sampling_par sp_bad = sp;
    int bad_kind = (int)(llabs(plan.knob("sp_bad")) % 7);
    switch (bad_kind) {
      case 1: sp_bad.offset = 131; break;
      case 2: sp_bad.offset = 852 - bpl + 1; break;
      case 3: sp_bad.sampling_rate = 27000000; break;
      case 4: sp_bad.synchronous = FALSE; break;
      case 5: sp_bad.scanning = 525; break;
      case 6: sp_bad.sampling_format = VBI_PIXFMT_RGB24; break;
      default: break;
    }
    size_t rows = (size_t)(sp.count[0] + sp.count[1]);
    size_t raw_size = rows * (size_t)bpl;
    unsigned char* raw_img = (unsigned char*)malloc(raw_size ? raw_size : 1);
    { Rng rr((uint64_t)plan.knob("xfer_seed") ^ 0x5151, "rawimg"); for (size_t i = 0; i < raw_size; i++) raw_img[i] = (unsigned char)rr.below(256); }
    auto raw_row = [&](int line) -> long {  // row of the raw image holding this line, -1 outside
      int f = line >= 313;
      if (line < sp.start[f] || line >= sp.start[f] + sp.count[f]) return -1;
      int r = line - sp.start[f];
      return sp.interlaced ? r * 2 + f : (f ? sp.count[0] + r : r);
    };

    Cfg cfg;
    int ts_cc = -1;
    std::vector<Seg> segs;
    int last_nz = 0;     // last defined line number of the last accepted frame with sliced lines
    int chain_lines = 0; // lines of the frames that the demultiplexer may join into one
    bool lead0 = plan.knob("lead0", 0) & 1;
    bool lead0_strict = plan.knob("lead0_strict", 0) & 1;
    int prev_wire_field = -1;     // field (0 first, 1 second) coded in the last sliced data unit that went down the pipe
    bool have_sliced_seg = false; // an accepted frame with sliced lines went down the pipe
    std::string prev_end_kind;    // how the previous accepted frame ended on the wire (probe counters only)
    bool prev_rejected = false;
    int frames_fed = 0, frames_accepted = 0;

    auto wake_transport = [&] { if (st.transport_waiting && st.transport) { st.transport_waiting = false; sched.wake(st.transport); } };

    // -- one frame through the multiplexer; returns acceptance
    // flush: 0 a frame of the plan; 1 closing frame of the harness, not expected back; 2 closing frame that is expected back
    auto do_frame = [&](std::vector<Line> lines, int64_t pts, int iface, int mask_sel, int buf_sel, int rawmode, int flush) -> bool {
      const bool is_flush = flush == 1, closing = flush != 0;
      unsigned mask = MASKS[((mask_sel % NMASKS) + NMASKS) % NMASKS];
      rawmode = ((rawmode % 5) + 5) % 5;
      if (rawmode == 4 && bad_kind == 0) rawmode = 1;
      const unsigned char* raw_arg = (rawmode == 1 || rawmode == 3 || rawmode == 4) ? raw_img : nullptr;
      const vbi_sampling_par* sp_arg = (rawmode == 1 || rawmode == 2) ? &sp : rawmode == 4 ? &sp_bad : nullptr;
      auto included = [&](const Line& l) { return (SVC[l.svc].id & mask) != 0; };
      // canonical form: at most four undefined Teletext lines, and never so many lines that a joined frame
      // exceeds 64 (the frame buffer of the demultiplexer).  Undefined lines at the head of a frame:
      //  - plans without the knob lead0 (older replay files): never, as it used to be;
      //  - plans with lead0 but without lead0_strict (replay files written while the defect was open): not when the
      //    previous sliced data unit on the wire has the field parity these undefined lines will get and a
      //    numbered line of this frame is not above the last numbered line sent before (defect of dvb_demux.c,
      //    repaired in /repo, regress/C06/lead0-same-field.json: the demultiplexer added the undefined units to
      //    the frame it was collecting, met the lower line number in the middle of the packet, called that an
      //    error and dropped both frames).  Generated plans set lead0_strict: nothing is steered around.
      {
        bool lead_ok = lead0;
        if (lead0 && !lead0_strict && prev_wire_field >= 0 && last_nz > 0) {
          bool z = false; int zfield = 0;  // an undefined line is coded with the field of the (raw) line before it, else the first
          for (auto& l : lines) {
            if (!included(l)) continue;
            if (l.cls() == C_RAW) { zfield = l.line >= 313; continue; }
            if (l.cls() == C_TTX && l.line == 0) z = true; else break;
          }
          if (z && zfield == prev_wire_field) for (auto& l : lines) if (included(l) && l.cls() != C_RAW && l.line > 0 && l.line <= last_nz) { lead_ok = false; break; }
          if (!lead_ok) ctx.count("guard_lead0_same_field");
        }
        bool seen_nz = lead_ok; int zeros = 0; int total = chain_lines;
        std::vector<Line> keep;
        for (auto& l : lines) {
          bool inc = included(l) && l.cls() != C_RAW;
          if (inc && l.cls() == C_TTX && l.line == 0) {
            if (!seen_nz || zeros >= 4 || total >= 58) { ctx.count("dropped_zero_line"); continue; }
            zeros++;
          }
          if (inc && l.line != 0) seen_nz = true;
          if (inc) total++;
          keep.push_back(l);
        }
        lines.swap(keep);
      }
      size_t n = lines.size();
      // ---- verdict from the documented rules
      Verdict v = V_ACCEPT; std::string reason = "valid";
      auto reject = [&](const char* why) { if (v != V_REJECT) { v = V_REJECT; reason = why; } };
      auto either = [&](const char* why) { if (v == V_ACCEPT) { v = V_EITHER; reason = why; } };
      if (sp_arg == &sp_bad) reject("invalid sampling parameters");
      {
        int last_inc = 0, last_all = 0;
        for (auto& l : lines) {
          if (l.line <= 0) continue;
          if (included(l)) { if (l.line <= last_inc) reject("lines not in ascending order"); last_inc = l.line; }
          // a line outside the service mask "is discarded without further checks" (API text) — the
          // standard's ordering rule cannot apply to a line that is not encoded, but the statement is silent
          if (l.line <= last_all) either("masked-out line out of order");
          last_all = l.line;
        }
      }
      std::vector<Line> exp_lines;  // what the packet has to carry
      int64_t need_lo = 46, need_hi = 46;
      bool fx = fixed_di(cfg.di);
      for (auto& l : lines) {
        if (!included(l)) continue;
        Cls c = l.cls();
        if (c == C_BAD || c == C_NONE) { reject("service cannot be encoded"); continue; }
        if (!line_ok_for(c, l.line)) { reject("line number not permitted for the service"); continue; }
        if (c == C_RAW) {
          if (!raw_arg) { reject("raw line without raw data"); continue; }
          if (!sp_arg) { reject("raw line without sampling parameters"); continue; }
          if (raw_row(l.line) < 0) { reject("raw line outside the raw image"); continue; }
          if (fx) { need_lo += 46 * ((bpl + 39) / 40); need_hi += 46 * ((bpl + 39) / 40); }
          else { need_lo += bpl + 6 * ((bpl + 250) / 251); need_hi += bpl + 6 * ((bpl + 250) / 251) + 8; }
        } else {
          int sz = fx ? 46 : c == C_TTX ? 46 : c == C_VPS ? 16 : 5;
          need_lo += sz; need_hi += sz;
        }
        exp_lines.push_back(l);
      }
      if (need_lo > (int64_t)cfg.max) reject("frame larger than the maximum PES packet size");
      else if (need_hi > (int64_t)cfg.max) either("raw segmentation decides whether the frame fits");
      if (n == 0) either("empty frame: vbi_dvb_mux_feed and vbi_dvb_mux_cor are documented differently");
      bool use_cor = (iface & 1) || mux_nocb;

      // ---- the call
      vbi_sliced* arr = (vbi_sliced*)malloc(n ? n * sizeof(vbi_sliced) : 1);
      for (size_t i = 0; i < n; i++) {
        memset(&arr[i], 0xEE, sizeof arr[i]);
        arr[i].id = SVC[lines[i].svc].id; arr[i].line = (uint32_t)lines[i].line;
        if (lines[i].cls() != C_RAW) memcpy(arr[i].data, lines[i].data.data(), std::min<size_t>(lines[i].data.size(), sizeof arr[i].data));
      }
      st.frame_bytes.clear();
      bool ok = false;
      int di_before_midpacket = -1;   // the identifier in force when this packet was begun, if it was changed while the packet was read
      frames_fed++;
      ctx.log("frame %d: %zu lines pts=%llx mask=%x iface=%s di=%02x size=%u..%u rawmode=%d expect=%s (%s)", frames_fed, n, (unsigned long long)pts, mask,
              use_cor ? "cor" : "feed", cfg.di, cfg.min, cfg.max, rawmode, v == V_ACCEPT ? "accept" : v == V_REJECT ? "reject" : "either", reason.c_str());
      if (mux_nocb && !(iface & 1)) {
        // without a callback vbi_dvb_mux_feed has to fail and emit nothing
        budget_begin("vbi_dvb_mux_feed", 20000000);
        vbi_bool r;
        { SutScope ss; st.in_feed = true; r = vbi_dvb_mux_feed(st.mx, arr, (unsigned)n, mask, raw_arg, sp_arg, pts); st.in_feed = false; }
        budget_end();
        ctx.count("feed_without_callback");
        if (r) ctx.fail("oracle:mux-feed-nocb", "vbi_dvb_mux_feed returned TRUE although the multiplexer has no callback");
      }
      if (!use_cor) {
        budget_begin("vbi_dvb_mux_feed", 20000000);
        vbi_bool r;
        { SutScope ss; st.in_feed = true; r = vbi_dvb_mux_feed(st.mx, arr, (unsigned)n, mask, raw_arg, sp_arg, pts); st.in_feed = false; }
        budget_end();
        ok = r;
        ctx.log("feed -> %d, %zu bytes", (int)r, st.frame_bytes.size());
        wake_transport();
        sched.yield();
      } else {
        const vbi_sliced* sl = arr; unsigned left = (unsigned)n;
        for (int k = 0; !ctx.failed; k++) {
          size_t size = cor_bufsize(buf_sel, k);
          unsigned char* buf = (unsigned char*)malloc(size);
          memset(buf, 0xA5, size);
          uint8_t* bp = buf; unsigned bl = (unsigned)size;
          const vbi_sliced* sl0 = sl; unsigned left0 = left;
          budget_begin("vbi_dvb_mux_cor", 20000000);
          vbi_bool r;
          { SutScope ss; r = vbi_dvb_mux_cor(st.mx, &bp, &bl, &sl, &left, mask, raw_arg, sp_arg, pts); }
          budget_end();
          if (!r) {
            bool touched = bp != buf || bl != size;
            for (size_t i = 0; i < size && !touched; i++) if (buf[i] != 0xA5) touched = true;
            if (touched) ctx.fail("oracle:mux-reject-output", "vbi_dvb_mux_cor returned FALSE but changed the output buffer (pointer +%ld, left %u of %zu)", (long)(bp - buf), bl, size);
            else if (k > 0) ctx.fail("oracle:mux-cor-midpacket", "vbi_dvb_mux_cor returned FALSE in call %d while handing out an accepted packet", k);
            ctx.log("cor call %d -> FALSE", k);
            free(buf);
            break;
          }
          size_t wrote = (size_t)(bp - buf);
          if (bp < buf || wrote > size || bl != size - wrote) { ctx.fail("oracle:mux-cor-pointer", "vbi_dvb_mux_cor: buffer +%ld, buffer_left %u, size %zu", (long)(bp - buf), bl, size); free(buf); break; }
          for (size_t i = wrote; i < size; i++) if (buf[i] != 0xA5) { ctx.fail("oracle:mux-cor-pointer", "vbi_dvb_mux_cor wrote beyond the returned position"); break; }
          st.frame_bytes.append((const char*)buf, wrote);
          if (st.to_pipe) st.pipe.append((const char*)buf, wrote);
          free(buf);
          if (k < 40 || left == 0) ctx.log("cor call %d buf %zu -> wrote %zu, sliced_left %u", k, size, wrote, left);
          if (left == 0) {
            ok = true;
            if (sl != arr + n) ctx.fail("oracle:mux-cor-pointer", "vbi_dvb_mux_cor finished the frame but *sliced moved by %ld of %zu", (long)(sl - arr), n);
            if (n == 0) ok = true;
            wake_transport(); sched.yield();
            break;
          }
          ctx.count("cor_partial_outputs");
          // a configuration call between two reads of one packet (a legal order of calls): the packet being handed out
          // must stay well-formed - its data_identifier the old or the new one, its data units of the length that
          // identifier demands; following packets carry the new one
          if (k == 0 && (buf_sel / 6) % 5 == 1) {
            int d = DI_TABLE[(buf_sel / 30) % NDI];
            vbi_bool rr; { SutScope ss; rr = vbi_dvb_mux_set_data_identifier(st.mx, (unsigned)d); }
            ctx.log("set_data_identifier %x in the middle of a packet (%zu bytes handed out) -> %d", d, st.frame_bytes.size(), (int)rr);
            if ((bool)rr != di_valid(d)) { ctx.fail("oracle:mux-config", "vbi_dvb_mux_set_data_identifier(0x%x) returned %d", d, (int)rr); break; }
            if (rr && (unsigned)d != cfg.di) { di_before_midpacket = (int)cfg.di; cfg.di = (unsigned)d; ctx.count(st.frame_bytes.size() < 46 ? "cfg_data_identifier_before_pes_header_complete" : "cfg_data_identifier_mid_packet"); }
          }
          if (sl != sl0 || left != left0) { ctx.fail("oracle:mux-cor-pointer", "vbi_dvb_mux_cor consumed sliced lines (%u -> %u) before the packet was handed out", left0, left); break; }
          if (bl != 0 || wrote == 0) { ctx.fail("oracle:mux-cor-short", "vbi_dvb_mux_cor returned with %u bytes of buffer unused (wrote %zu) although the frame is not finished", bl, wrote); break; }
          wake_transport(); sched.yield();
        }
      }
      free(arr);
      if (ctx.failed) return false;

      // ---- acceptance against the documented rules
      if (!ok) {
        ctx.count("frames_rejected");
        ctx.count("rejected_" + std::string(v == V_REJECT ? reason : v == V_EITHER ? "unspecified" : "VALID"));
        if (!st.frame_bytes.empty()) { ctx.fail("oracle:mux-reject-output", "frame %d rejected but %zu bytes were emitted", frames_fed, st.frame_bytes.size()); return false; }
        if (v == V_ACCEPT) {
          ctx.fail(prev_rejected || closing ? "oracle:mux-unusable" : "oracle:mux-rejected-valid",
                   "frame %d (%zu lines, mask %x, %s, data_identifier %02x, max size %u%s) is valid but was rejected%s", frames_fed, n, mask, use_cor ? "cor" : "feed", cfg.di, cfg.max,
                   closing ? ", closing frame of the harness" : "", prev_rejected ? "; the previous frame was rejected for its content" : "");
          return false;
        }
        prev_rejected = true;
        return false;
      }
      if (v == V_REJECT) { ctx.fail("oracle:mux-accepted-invalid", "frame %d accepted (%zu bytes emitted) although: %s", frames_fed, st.frame_bytes.size(), reason.c_str()); return false; }
      prev_rejected = false;
      frames_accepted++;
      ctx.count("frames_accepted");
      if (v == V_EITHER) ctx.count("accepted_unspecified");

      // ---- conformance of the emitted bytes
      std::string err; Bytes pes;
      if (st.ts) { if (!parse_ts(st.frame_bytes, st.pid, ts_cc, pes, err)) { ctx.fail("oracle:ts-syntax", "frame %d: %s", frames_fed, err.c_str()); return false; } }
      else pes = st.frame_bytes;
      PPes pp;
      if (!parse_pes(pes, pp, err)) { ctx.fail("oracle:pes-syntax", "frame %d: %s", frames_fed, err.c_str()); return false; }
      if (pp.size < cfg.min || pp.size > cfg.max) { ctx.fail("oracle:pes-size", "frame %d: PES packet of %zu bytes, configured range %u..%u", frames_fed, pp.size, cfg.min, cfg.max); return false; }
      if (pp.data_identifier != cfg.di && (int)pp.data_identifier != di_before_midpacket) { ctx.fail("oracle:pes-data-identifier", "frame %d: data_identifier %02x, configured %02x", frames_fed, pp.data_identifier, cfg.di); return false; }
      if (pp.pts != (pts & PTS_MASK)) { ctx.fail("oracle:pes-pts", "frame %d: PTS %llx encoded, %llx given", frames_fed, (unsigned long long)pp.pts, (unsigned long long)(pts & PTS_MASK)); return false; }
      if (pp.stuffed_inside) ctx.count("stuffing_byte_inside_unit");
      if (!pp.du.empty() && pp.du.back().id == 0xC6 && pp.du.back().npix == 251) {
        ctx.count("raw_unit_of_maximum_length_last");
        // the packet would have ended one byte before the boundary: a whole TS packet more of stuffing
        if (pp.stuffing_bytes == 185 && pp.size > cfg.min) ctx.count("raw_unit_of_maximum_length_one_byte_gap");
      }
      size_t d = 0;
      for (size_t i = 0; i < exp_lines.size(); i++) {
        const Line& e = exp_lines[i];
        if (d >= pp.du.size()) { ctx.fail("oracle:pes-lines", "frame %d: input line %zu (line %d) is missing from the packet (%zu data units)", frames_fed, i, e.line, pp.du.size()); return false; }
        if (e.cls() == C_RAW) {
          long row = raw_row(e.line);
          unsigned at = (unsigned)(off - 132); size_t got = 0; bool first = true;
          for (;; d++) {
            if (d >= pp.du.size() || pp.du[d].id != 0xC6) { ctx.fail("oracle:pes-raw", "frame %d: raw line %d: segments end after %zu of %d samples", frames_fed, e.line, got, bpl); return false; }
            const PDu& u = pp.du[d];
            if (u.line() != e.line) { ctx.fail("oracle:pes-raw", "frame %d: raw line %d encoded as line %d", frames_fed, e.line, u.line()); return false; }
            if (u.first != first) { ctx.fail("oracle:pes-raw", "frame %d: raw line %d: first_segment_flag %d on segment at %zu", frames_fed, e.line, u.first, got); return false; }
            if (u.fpp != at) { ctx.fail("oracle:pes-raw", "frame %d: raw line %d: first_pixel_position %u, expected %u", frames_fed, e.line, u.fpp, at); return false; }
            if (got + u.npix > (size_t)bpl || memcmp(u.data.data(), raw_img + (size_t)row * (size_t)bpl + got, u.npix)) { ctx.fail("oracle:pes-raw", "frame %d: raw line %d: samples at %zu differ from the raw image", frames_fed, e.line, got); return false; }
            got += u.npix; at += u.npix; first = false;
            bool last = got == (size_t)bpl;
            if (u.last != last) { ctx.fail("oracle:pes-raw", "frame %d: raw line %d: last_segment_flag %d after %zu of %d samples", frames_fed, e.line, u.last, got, bpl); return false; }
            if (last) { d++; break; }
          }
          ctx.count("raw_lines_encoded");
          continue;
        }
        const PDu& u = pp.du[d++];
        Cls uc = (u.id == 0x02 || u.id == 0x03) ? C_TTX : u.id == 0xC3 ? C_VPS : u.id == 0xC4 ? C_WSS : u.id == 0xC5 ? C_CC : C_RAW;
        if (uc != e.cls()) { ctx.fail("oracle:pes-lines", "frame %d: input line %zu (line %d, service %x) encoded with data_unit_id %02x", frames_fed, i, e.line, SVC[e.svc].id, u.id); return false; }
        // an undefined line (line_offset 0) still has a field parity; which one the statement does not say
        if (u.line() != e.line) { ctx.fail("oracle:pes-lines", "frame %d: input line %d encoded as field_parity %d line_offset %u", frames_fed, e.line, u.parity, u.offset); return false; }
        Bytes want = e.data; if (e.cls() == C_WSS) want[1] = (char)(want[1] & 0x3F);
        if (u.data != want) { ctx.fail("oracle:pes-payload", "frame %d: line %d (unit %02x): payload %s.. differs from the input %s..", frames_fed, e.line, u.id, hex(u.data.substr(0, 8)).c_str(), hex(want.substr(0, 8)).c_str()); return false; }
      }
      if (d != pp.du.size()) { ctx.fail("oracle:pes-lines", "frame %d: packet carries %zu data units more than the %zu input lines (next id %02x line %d)", frames_fed, pp.du.size() - d, exp_lines.size(), pp.du[d].id, pp.du[d].line()); return false; }

      // ---- what the demultiplexer has to make of it
      Seg sg; sg.pts = pts & PTS_MASK; sg.may_merge = false;
      for (auto& l : exp_lines) if (l.cls() != C_RAW) sg.lines.push_back(l);
      if (st.to_pipe && !pp.du.empty()) {
        // probes: which (end of the previous frame, beginning of this frame) pairs the demultiplexer met
        auto kind = [](const PDu& u, bool begin) -> std::string {
          if (u.id == 0xC6) return "raw";
          if (u.offset == 0) return begin ? "undef" : u.parity ? "undef1" : "undef2";
          if (!u.parity) return "f2";
          return begin && u.offset <= 9 ? "f1low" : "f1";
        };
        if (!prev_end_kind.empty()) ctx.count("seq_" + prev_end_kind + "_then_" + kind(pp.du.front(), true));
        prev_end_kind = kind(pp.du.back(), false);
        for (auto& u : pp.du) if (u.id != 0xC6) prev_wire_field = u.parity ? 0 : 1;
      }
      if (sg.lines.empty() && !is_flush) { ctx.count("accepted_without_sliced_lines"); segs.push_back(sg); }
      if (!sg.lines.empty() && !is_flush) {
        // frames are recognisable by a non-increasing line number; if the first numbered line is above the
        // last numbered line sent before, the two frames cannot be told apart by their line numbers: joined or
        // separate, both accepted (the round trip oracle works this out again for the frames as delivered)
        int first = 0;
        for (auto& l : sg.lines) if (l.line) { first = l.line; break; }
        if (sg.lines[0].line == 0) ctx.count("frames_led_by_undefined_line");
        if (first == 0) ctx.count("frames_of_undefined_lines_only");
        bool certain = first > 0 && first <= last_nz;
        sg.may_merge = !certain && have_sliced_seg;
        if (sg.may_merge) ctx.count("unrecognisable_boundary");
        if (certain) chain_lines = (int)sg.lines.size(); else chain_lines += (int)sg.lines.size();
        have_sliced_seg = true;
        for (auto& l : sg.lines) if (l.line) last_nz = l.line;
        segs.push_back(sg);
      }
      return true;
    };

    // ---- producer
    sched.spawn("producer", [&] {
      std::vector<Line> pending;
      int counter = 0;
      for (auto& op : plan.ops) {
        if (ctx.failed) break;
        if (op.kind == "ln") {
          Line l; l.line = (int)(llabs(op.arg(0)) % 700); l.svc = (int)(llabs(op.arg(1)) % NSVC);
          l.data = gen_payload(SVC[l.svc].nbytes, (uint64_t)op.arg(2), pay_mode, counter++);
          if (pending.size() < 80) pending.push_back(l);
        } else if (op.kind == "frame") {
          std::vector<Line> lines; lines.swap(pending);
          do_frame(lines, op.arg(0), (int)(llabs(op.arg(1)) % 2), (int)(llabs(op.arg(2)) % NMASKS), (int)(llabs(op.arg(3)) % 600), (int)(llabs(op.arg(4)) % 5), 0);
        } else if (op.kind == "cfg") {
          if (llabs(op.arg(0)) % 2 == 0) {
            int d = DI_TABLE[llabs(op.arg(1)) % NDI];
            vbi_bool r; unsigned now;
            { SutScope ss; r = vbi_dvb_mux_set_data_identifier(st.mx, (unsigned)d); now = vbi_dvb_mux_get_data_identifier(st.mx); }
            ctx.log("set_data_identifier %x -> %d, now %x", d, (int)r, now);
            if ((bool)r != di_valid(d)) { ctx.fail("oracle:mux-config", "vbi_dvb_mux_set_data_identifier(0x%x) returned %d", d, (int)r); break; }
            if (r) cfg.di = (unsigned)d;
            if (now != cfg.di) { ctx.fail("oracle:mux-config", "data_identifier reads %x, expected %x", now, cfg.di); break; }
            ctx.count(r ? "cfg_data_identifier" : "cfg_data_identifier_refused");
          } else {
            unsigned mn = (unsigned)(llabs(op.arg(1)) % 70000), mx = (unsigned)(llabs(op.arg(2)) % 70000);
            vbi_bool r; unsigned gmn, gmx;
            { SutScope ss; r = vbi_dvb_mux_set_pes_packet_size(st.mx, mn, mx); gmn = vbi_dvb_mux_get_min_pes_packet_size(st.mx); gmx = vbi_dvb_mux_get_max_pes_packet_size(st.mx); }
            // documented: multiples of 184 in 184..65504, min rounded up, max rounded down, max raised to min
            unsigned emn = mn < 184 ? 184 : mn > 65504 ? 65504 : (mn + 183) / 184 * 184;
            unsigned emx = mx < emn ? emn : mx > 65504 ? 65504 : mx / 184 * 184;
            if (emx < emn) emx = emn;
            ctx.log("set_pes_packet_size %u %u -> %d, now %u..%u", mn, mx, (int)r, gmn, gmx);
            if (!r || gmn != emn || gmx != emx) { ctx.fail("oracle:mux-config", "vbi_dvb_mux_set_pes_packet_size(%u,%u) -> %d, sizes %u..%u, documented %u..%u", mn, mx, (int)r, gmn, gmx, emn, emx); break; }
            cfg.min = emn; cfg.max = emx;
            ctx.count("cfg_packet_size");
          }
        }
      }
      // closing frame: makes the demultiplexer hand out the last real frame; also proves the multiplexer usable
      if (!ctx.failed) {
        Line l; l.line = 7; l.svc = 0; l.data = gen_payload(42, 4242, 4, 9999);
        if (cfg.max < 184) cfg.max = 184;
        if (!lead0) do_frame({l}, 0x1ABCDEF01ll, (int)(plan.knob("xfer_seed") & 1), 0, 4, 0, 1);
        else {
          // A frame of undefined lines only has no line number the closing frame could fall below (line 7 after
          // "no line" is an increase): the demultiplexer may join the closing frame to it.  Hence the closing frame is
          // an ordinary frame that is expected back, and a second one - line 7 after line 7 - hands it out.
          do_frame({l}, 0x1ABCDEF01ll, (int)(plan.knob("xfer_seed") & 1), 0, 4, 0, 2);
          if (!ctx.failed) { l.data = gen_payload(42, 4243, 4, 9998); do_frame({l}, 0x1ABCDEF02ll, (int)((plan.knob("xfer_seed") >> 1) & 1), 0, 4, 0, 1); }
        }
      }
      // ---- abandoned packets (behind the closing frame, so that the round trip of the real frames is not disturbed):
      // the application reads a packet through the coroutine interface up to some byte, loses interest and either calls
      // vbi_dvb_mux_reset() ("will encode a new PES packet, discarding any data of the previous packet which has not been
      // consumed") or feeds the next frame through vbi_dvb_mux_feed().  Whatever was handed out so far is dropped by the
      // application; the packets of the following frames must be well-formed again (any continuity counter is accepted
      // on the first TS packet: packets were discarded) and the multiplexer must stay usable.
      int nab = (int)(llabs(plan.knob("abandon", 0)) % 4);
      st.to_pipe = false;
      for (int a = 0; a < nab && !ctx.failed; a++) {
        uint64_t h = hash_mix((uint64_t)plan.knob("xfer_seed") ^ 0xABADull, (uint64_t)a);
        std::vector<Line> ls;
        if (cfg.max < 184) cfg.max = 184;
        int nl = 1 + (int)(h % 6);
        if (nl > (int)(cfg.max / 46) - 1) nl = (int)(cfg.max / 46) - 1;   // the frame has to fit the configured maximum packet size
        for (int i = 0; i < nl; i++) { Line l; l.line = 7 + i * 2; l.svc = 0; l.data = gen_payload(42, h + (uint64_t)i, 4, 7000 + a * 10 + i); ls.push_back(l); }
        size_t n = ls.size();
        vbi_sliced* arr = (vbi_sliced*)malloc(n * sizeof(vbi_sliced));
        for (size_t i = 0; i < n; i++) { memset(&arr[i], 0, sizeof arr[i]); arr[i].id = SVC[0].id; arr[i].line = (uint32_t)ls[i].line; memcpy(arr[i].data, ls[i].data.data(), 42); }
        size_t cut = 1 + (size_t)((h >> 8) % ((h >> 20) & 1 ? 187u : 600u));
        unsigned char* buf = (unsigned char*)malloc(cut);
        uint8_t* bp = buf; unsigned bl = (unsigned)cut; const vbi_sliced* sl = arr; unsigned left = (unsigned)n; vbi_bool r;
        budget_begin("vbi_dvb_mux_cor", 20000000);
        { SutScope ss; r = vbi_dvb_mux_cor(st.mx, &bp, &bl, &sl, &left, (vbi_service_set)-1, nullptr, nullptr, 0x12345678 + a); }
        budget_end();
        ctx.log("abandon %d: cor with %zu bytes -> %d, wrote %ld, left %u", a, cut, (int)r, (long)(bp - buf), left);
        free(buf);
        if (!r) { ctx.fail("oracle:mux-rejected-valid", "abandon sequence %d: a valid frame of %zu Teletext lines was rejected by vbi_dvb_mux_cor", a, n); free(arr); break; }
        if (left != 0) ctx.count("packets_abandoned_midway");
        bool by_feed = ((h >> 32) & 1) && !mux_nocb;
        if (!by_feed) { SutScope ss; vbi_dvb_mux_reset(st.mx); ctx.count("abandoned_by_reset"); } else ctx.count("abandoned_by_feed");
        free(arr);
        ts_cc = -1;
        // when the packet is abandoned by feeding, the frame fed may be one the multiplexer must reject (a Teletext line, then
        // VPS on line 17 resp. a line order error: the rejection comes after data units have been written into the packet
        // buffer the coroutine was reading): "produces no output at all and leaves the multiplexer usable" - also for the
        // half-read packet; the frames behind it must come out well-formed
        bool rejected_feed = by_feed && ((h >> 36) & 1);
        if (rejected_feed) {
          Line v1; v1.line = 7; v1.svc = 0; v1.data = gen_payload(42, h ^ 55, 4, 7900 + a);
          Line v2; v2.line = ((h >> 37) & 1) ? 17 : 6; v2.svc = ((h >> 37) & 1) ? 3 : 0; v2.data = gen_payload(SVC[v2.svc].nbytes, h ^ 66, 4, 7950 + a);
          ctx.count("abandoned_by_rejected_feed");
          do_frame({v1, v2}, 0x100000080ll + a, 0, 0, 0, 0, 1);
          if (ctx.failed) break;
        }
        // the next frame(s): through feed (when abandoning by feed: necessarily) or the coroutine
        Line l; l.line = 9; l.svc = 0; l.data = gen_payload(42, h ^ 77, 4, 8000 + a);
        if (cfg.max < 184) cfg.max = 184;
        // (after a rejected feed the half-read packet is still the multiplexer's business: the next frame comes through either interface)
        do_frame({l}, 0x100000000ll + a, by_feed && !rejected_feed ? 0 : (int)((h >> 33) & 1), 0, (int)((h >> 34) % 600), 0, 1);
        if (!ctx.failed) { Line l2; l2.line = 11; l2.svc = 0; l2.data = gen_payload(42, h ^ 99, 4, 8100 + a); do_frame({l2}, 0x100000100ll + a, (int)((h >> 44) & 1), 0, (int)((h >> 45) % 600), 0, 1); }
      }
      st.producer_done = true;
      wake_transport();
    });

    // ---- transport: pipe -> demultiplexer, in pieces
    uint64_t xseed = (uint64_t)plan.knob("xfer_seed");
    int xmode = (int)(llabs(plan.knob("xfer_mode")) % 6);
    st.transport = sched.spawn("transport", [&] {
      uint64_t k = 0;
      for (;;) {
        if (ctx.failed) return;
        size_t avail = st.pipe.size() - st.pipe_rd;
        if (avail == 0) {
          if (st.producer_done) return;
          st.transport_waiting = true; sched.block();
          continue;
        }
        uint64_t h = hash_mix(xseed, k++);
        size_t want;
        switch (xmode) {
          case 0: want = 1; break;
          case 1: want = 1 + h % 9; break;
          case 2: { static const size_t s[] = {3, 4, 6, 9, 10, 45, 46, 47, 48, 183, 184, 187, 188, 189, 197}; want = s[h % 15]; break; }
          case 3: want = avail; break;
          case 4: want = 1 + h % 700; break;
          default: want = (h & 1) ? 1 + (h >> 1) % 5 : 1 + (h >> 1) % 400; break;
        }
        if (avail > 8192) want = std::max(want, avail / 64);  // huge packets are not fed byte by byte
        if (want > avail) want = avail;
        sink.feed((const unsigned char*)st.pipe.data() + st.pipe_rd, want);
        st.pipe_rd += want;
        if (st.pipe_rd > 65536) { st.pipe.erase(0, st.pipe_rd); st.pipe_rd = 0; }
        sched.yield();
      }
    });
    int rc = sched.run(20000000);
    if (rc == 2) ctx.fail("harness:budget", "scheduler budget exhausted");
    if (rc == 1 && !ctx.failed) ctx.fail("harness:deadlock", "tasks blocked");
    ctx.state(sched.interleaving_hash());

    // ---- round trip oracle: deliveries = accepted frames.  Neighbours without a recognisable boundary may
    // arrive joined; an accepted frame without sliced lines (empty, all masked, raw only) has no line
    // number at all, so it is invisible: the following frame may carry its PTS (EN 301 775 lets a frame
    // span several PES packets and the first one determines the PTS).
    if (!ctx.failed) {
      size_t s = 0;
      for (size_t j = 0; j < sink.got.size() && !ctx.failed; j++) {
        const GotFrame& g = sink.got[j];
        size_t ne = s;
        while (ne < segs.size() && segs[ne].lines.empty()) ne++;
        if (ne >= segs.size()) { ctx.fail("oracle:rt-spurious", "delivery %zu %s but all accepted frames with lines (%zu) were already delivered", j, frame_str(g).c_str(), segs.size()); break; }
        // Followers may be part of this delivery as long as their first numbered line is above the last numbered
        // line of what the delivery holds so far ("recognisable by a non-increasing line number"; an undefined line
        // has no number: it neither makes a frame recognisable nor ends the run of ascending numbers).
        size_t e = ne, total = segs[ne].lines.size();
        int lastdef = 0;
        for (auto& l : segs[ne].lines) if (l.line) lastdef = l.line;
        while (total < g.lines.size()) {
          size_t e2 = e + 1;
          while (e2 < segs.size() && segs[e2].lines.empty()) e2++;
          if (e2 >= segs.size()) break;
          int first = 0;
          for (auto& l : segs[e2].lines) if (l.line) { first = l.line; break; }
          if (first > 0 && first <= lastdef) break;
          e = e2; total += segs[e].lines.size();
          for (auto& l : segs[e].lines) if (l.line) lastdef = l.line;
        }
        if (total != g.lines.size()) {
          ctx.fail("oracle:rt-lines", "delivery %zu %s: accepted frame %zu has %zu lines (pts %llx, first line %d)%s", j, frame_str(g).c_str(), ne, segs[ne].lines.size(),
                   (unsigned long long)segs[ne].pts, segs[ne].lines[0].line, e > ne ? " (joining the unrecognisable followers does not fit either)" : "");
          break;
        }
        if (e > ne) ctx.count("frames_joined");
        bool pts_ok = false;
        for (size_t t = s; t <= ne; t++) if (g.pts == segs[t].pts) pts_ok = true;
        if (!pts_ok) { ctx.fail("oracle:rt-pts", "delivery %zu %s: frame was sent with PTS %llx", j, frame_str(g).c_str(), (unsigned long long)segs[ne].pts); break; }
        if (g.pts != segs[ne].pts) ctx.count("pts_of_preceding_empty_frame");
        size_t q = 0;
        for (size_t t = ne; t <= e && !ctx.failed; t++)
          for (auto& l : segs[t].lines) {
            std::string why;
            if (!line_matches(l, g.lines[q], why)) { ctx.fail("oracle:rt-line", "delivery %zu, element %zu: %s", j, q, why.c_str()); break; }
            q++;
          }
        s = e + 1;
      }
      while (!ctx.failed && s < segs.size() && segs[s].lines.empty()) s++;
      if (!ctx.failed && s < segs.size())
        ctx.fail("oracle:rt-lost", "accepted frame %zu of %zu (pts %llx, %zu lines, first line %d) was never delivered by the demultiplexer (%zu deliveries)", s, segs.size(),
                 (unsigned long long)segs[s].pts, segs[s].lines.size(), segs[s].lines[0].line, sink.got.size());
    }
    { SutScope ss; vbi_dvb_mux_delete(st.mx); }
    sink.close();
    free(raw_img);
    if (!ctx.failed && alloc_track_available() && alloc_live_blocks() != 0)
      ctx.fail("leak", "%zu blocks (%zu bytes; %s) still allocated after delete", alloc_live_blocks(), alloc_live_bytes(), alloc_live_summary().c_str());
    ctx.count("deliveries", (int64_t)sink.got.size());
    ctx.count("demux_calls", (int64_t)sink.calls);
    // (the second closing frame and the delivery of the first one do not count)
    ctx.nontrivial = frames_accepted >= 3 + (lead0 ? 1 : 0) && sink.got.size() >= 2 + (size_t)(lead0 ? 1 : 0);
    ctx.sim_seconds = frames_accepted * 0.04;
  }
};
ZSIM_REGISTER_WORLD(C06)
}  // namespace
