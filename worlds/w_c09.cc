// C09 — XDS packets are delivered intact, exactly once, and only with a valid checksum.
//
// World: K packet-source tasks (each owns one (class,type)), a caption source
// and an idle source share the field-2 byte-pair channel.  The seeded
// scheduler is the multiplexer: it picks which source sends its next byte
// pair; a source resumed after an interruption gets its continue code
// inserted first, as a real encoder must.  Faults are attached to packets.
// Two systems consume the same pairs: vbi_xds_demux_feed() and
// vbi_decode() -> caption.c xds_separator()/xds_decoder().
// Oracle: a reference reassembler written from the EIA-608 rules the
// property states (not from the code).
#include <cstdio>
#include <cstring>
#include <map>
#include <set>

#include "alloc.h"
#include "sim.h"
#include "tx.h"

extern "C" {
#include "src/libzvbi.h"
}

using namespace sim;

namespace {

enum Fault { F_NONE = 0, F_CHECKSUM, F_PARITY, F_NOSTART, F_MIDNUL, F_NOTERM, F_RESTART, F_PARITY_TERM, F_N };
static const char* fault_name[] = {"none", "checksum", "parity", "nostart", "midnul", "noterm", "restart", "parity_term"};

struct Delivery {
  int cls, type;
  std::string bytes;
  bool maybe = false;  // the statement does not decide (malformed in a way it does not list)
  long start_n = 0;    // number of the byte pair that carried the packet's start code
};

// ---- reference reassembler ------------------------------------------------
struct RefPacket { bool active = false; std::string bytes; unsigned sum = 0; bool saw_pad = false; bool poisoned = false; bool overlong = false; long start_n = 0; };
struct RefDemux {
  std::map<int, RefPacket> pk;  // key = cls*256+type
  int cur = -1;
  long n = 0;  // byte pairs seen so far (the current pair's number while pair() runs and until the next one)
  std::vector<Delivery> out;
  void reset() { pk.clear(); cur = -1; }   // vbi_xds_demux_reset(): every packet in progress is forgotten
  void pair(int b0, int b1) {
    n++;
    bool par_ok = (__builtin_popcount(b0 & 0xFF) & 1) && (__builtin_popcount(b1 & 0xFF) & 1);
    int c1 = b0 & 0x7F, c2 = b1 & 0x7F;
    if (!par_ok) {
      if (cur >= 0) pk[cur] = RefPacket();
      cur = -1;
      return;
    }
    if (c1 == 0) return;  // stuffing / idle
    if (c1 <= 0x0E) {
      int key = ((c1 - 1) >> 1) * 256 + c2;
      if (c1 & 1) { RefPacket p; p.active = true; p.sum = (unsigned)(c1 + c2); p.start_n = n; pk[key] = p; cur = key; }
      else { cur = pk[key].active ? key : -1; }
      return;
    }
    if (c1 == 0x0F) {
      if (cur < 0) return;
      RefPacket& p = pk[cur];
      p.sum += (unsigned)(c1 + c2);
      if ((p.sum & 0x7F) == 0 && !p.bytes.empty() && !p.overlong) {
        Delivery d; d.cls = cur >> 8; d.type = cur & 255; d.bytes = p.bytes; d.maybe = p.poisoned; d.start_n = p.start_n;
        out.push_back(d);
      }
      pk[cur] = RefPacket();
      cur = -1;
      return;
    }
    if (c1 <= 0x1F) { cur = -1; return; }  // caption control code ends XDS mode
    if (cur < 0) return;                   // caption text
    RefPacket& p = pk[cur];
    if (p.saw_pad) p.poisoned = true;      // payload after a NUL pad: malformed, the statement is silent
    p.bytes += (char)c1;
    if (c2 != 0) p.bytes += (char)c2; else p.saw_pad = true;
    p.sum += (unsigned)(c1 + c2);
    if (p.bytes.size() > 32) p.overlong = true;
  }
};

// (class,type) the two systems are documented to handle
static bool demux_knows(int cls, int type) {
  if (cls > 3) return false;  // VBI_XDS_CLASS_MISC is the last one delivered
  if (cls == 3) return type < 0x10 || (type >= 0x40 && type < 0x48);
  return type < 0x18;
}
static bool decoder_knows(int cls, int type) { return cls < 4 && type < 0x18; }

// ---- structured payloads ---------------------------------------------------
static std::string payload(int cls, int type, int len, uint64_t pseed) {
  Rng r(pseed, "payload");
  std::string s;
  auto bin = [&](int v) { return (char)(0x40 | (v & 0x3F)); };
  if (cls <= 1) {
    switch (type) {
      case 1: s += bin((int)r.below(60)); s += bin((int)r.below(24)); s += bin(1 + (int)r.below(31)); s += bin((1 + (int)r.below(12)) | (r.chance(1, 4) ? 0x10 : 0)); return s;
      case 2: { s += bin((int)r.below(60)); s += bin((int)r.below(64)); if (r.chance(1, 2)) { s += bin((int)r.below(60)); s += bin((int)r.below(64)); if (r.chance(1, 2)) { s += bin((int)r.below(60)); } } return s; }
      case 5: s += bin((int)r.below(64)); s += bin((int)r.below(64)); return s;
      case 6: s += bin((int)r.below(64)); s += bin((int)r.below(64)); return s;
      case 8: s += bin((int)r.below(64)); return s;
      case 9: s += bin((int)r.below(64)); s += bin((int)r.below(64)); if (r.chance(1, 2)) s += bin((int)r.below(2)); return s;
      default: break;
    }
  }
  if (cls == 2 && type == 3) { s += bin((int)r.below(60)); s += bin((int)r.below(24)); return s; }
  static const char* words[] = {"NEWS", "Movie Night", "ABC", "The Late Show with A Very Long Title", "x", "WXYZ-TV", "Sports Live!", "Q"};
  if (len <= 0) len = 1;
  std::string w = words[r.below(8)];
  while ((int)w.size() < len) w += (char)(0x20 + r.below(0x5F));
  s = w.substr(0, (size_t)len);
  return s;
}

static std::string strfu(const std::string& s) {  // documented: leading blanks skipped, control chars shown as blanks
  size_t i = 0;
  while (i < s.size() && (unsigned char)s[i] <= 0x20) i++;
  std::string r;
  for (; i < s.size(); i++) r += (char)((unsigned char)s[i] < 0x20 ? 0x20 : s[i]);
  return r;
}

struct ProgEvent { int future; std::string title; int month, day, hour, min, lh, lm, eh, em, es; long n; /* number of the byte pair that raised it */ };
struct NetEvent { std::string name, call; long n; /* number of the byte pair that raised it */ bool id_only; /* NETWORK_ID rather than NETWORK */ };

struct C09 : World {
  const char* name() const override { return "c09"; }
  const char* property() const override { return "C09"; }

  Plan generate(uint64_t seed, const std::string& tier) override {
    Plan p; p.world = name(); p.seed = seed;
    Rng r(seed, "plan");
    if (r.chance(1, 4)) { generate_guide(p, r); return p; }
    int K = 1 + (int)r.below(4);
    p.knobs["sched_seed"] = (int64_t)(r.next() >> 1);
    p.knobs["policy"] = (int64_t)r.below(3);
    p.knobs["pparam"] = (p.knobs["policy"] == 1) ? 50 + (int64_t)r.below(45) : (int64_t)r.below(4);
    p.knobs["sources"] = K;
    bool faults = r.chance(2, 3);  // a third of the runs are fault free (strict oracle, nothing relaxed)
    unsigned enabled = faults ? (unsigned)r.below(1u << F_N) | 1u : 1u;  // swarm: random subset of fault kinds
    p.knobs["faults_enabled"] = enabled;
    bool wide = r.chance(1, 4);  // also classes/types outside the documented tables
    int maxpk = tier == "thorough" ? 10 : 6;
    for (int t = 0; t < K; t++) {
      int cls, type;
      if (wide && r.chance(1, 3)) { cls = (int)r.below(7); type = (int)r.below(0x60); }
      else {
        static const int known[][2] = {{0,1},{0,2},{0,3},{0,4},{0,5},{0,6},{0,7},{0,8},{0,9},{0,0x10},{0,0x17},{1,1},{1,3},{1,2},{2,1},{2,2},{2,3},{2,4},{3,1},{3,4},{3,0x40},{3,0x43},{0,0x0c},{0,0x0d},{0,0x18},{1,0},{0,0x48},{0,0x40},{3,0x47},{3,0x48},{3,0x17},{2,0x18},{3,0}};
        size_t k = r.below(sizeof known / sizeof known[0]);
        cls = known[k][0]; type = known[k][1];
      }
      // distinct (class,type) per source: bump type until free
      for (bool clash = true; clash;) {
        clash = false;
        for (auto& o : p.ops) if (o.kind == "src" && o.a[0] == cls && o.a[1] == type) { type = (type + 1) % 0x18; clash = true; }
      }
      Op s; s.task = t; s.kind = "src"; s.a = {cls, type}; p.ops.push_back(s);
      int n = 1 + (int)r.below((uint64_t)maxpk);
      for (int i = 0; i < n; i++) {
        Op o; o.task = t; o.kind = "pkt";
        int len = r.chance(1, 6) ? 33 + (int)r.below(8) : r.chance(1, 8) ? (int)r.below(2) : 1 + (int)r.below(32);
        int64_t pseed = (int64_t)r.below(3);  // few distinct payloads so that identical repeats happen
        int f = F_NONE;
        if (faults && r.chance(1, 3)) { f = (int)r.below(F_N); if (!(enabled >> f & 1)) f = F_NONE; }
        o.a = {len, pseed, f, (int64_t)r.below(40)};
        p.ops.push_back(o);
      }
    }
    // caption source
    if (r.chance(3, 4)) {
      int n = 1 + (int)r.below(5);
      for (int i = 0; i < n; i++) { Op o; o.task = K; o.kind = "cap"; o.a = {1 + (int64_t)r.below(6), (int64_t)r.below(1000)}; p.ops.push_back(o); }
    }
    if (r.chance(1, 2)) { Op o; o.task = K + 1; o.kind = "idle"; o.a = {1 + (int64_t)r.below(8)}; p.ops.push_back(o); }
    if (r.chance(1, 3)) for (int i = 1 + (int)r.below(3); i > 0; i--) { Op o; o.task = K + 1; o.kind = "dxreset"; o.a = {(int64_t)r.below(24)}; p.ops.push_back(o); }
    return p;
  }

  // "Programme guide" shape: what a real XDS encoder transmits.  A fixed set of items of the CURRENT class
  // (programme id number, name, length, rating, a description line), of the FUTURE class (id number, name,
  // length) and of the CHANNEL class is repeated round after round with identical content; optionally a
  // programme boundary in the middle where the contents change.  Three multiplex shapes: one carousel
  // (items strictly one after the other), one carousel per class (current and future class packets
  // interleaved pair by pair by the scheduler), one source per item.  Caption and idle sources as usual.
  // A "pkt" op carries its own (class,type) in a[4],a[5] here.
  struct GItem { int cls, type, len; int64_t ps; };
  void generate_guide(Plan& p, Rng& r) {
    p.knobs["guide"] = 1;
    p.knobs["sched_seed"] = (int64_t)(r.next() >> 1);
    p.knobs["policy"] = (int64_t)r.below(3);
    p.knobs["pparam"] = (p.knobs["policy"] == 1) ? 50 + (int64_t)r.below(45) : (int64_t)r.below(4);
    std::vector<GItem> items;
    auto add = [&](int cls, int type) {
      GItem g; g.cls = cls; g.type = type;
      g.len = type == 3 ? 2 + (int)r.below(31) : 1 + (int)r.below(12);
      g.ps = (int64_t)r.below(1000);
      items.push_back(g);
    };
    bool cpin = r.chance(3, 4);
    if (cpin) add(0, 1);
    if (!cpin || r.chance(5, 6)) add(0, 3);
    if (r.chance(1, 2)) add(0, 2);
    if (r.chance(1, 3)) add(0, 5);
    if (r.chance(1, 4)) add(0, 0x10 + (int)r.below(8));
    bool fpin = r.chance(3, 4);
    if (fpin) add(1, 1);
    if (!fpin || r.chance(2, 3)) add(1, 3);
    if (r.chance(1, 4)) add(1, 2);
    // "station" flavour: the station identifies itself with name and call letters round after round; at a
    // boundary the call letters alone (another affiliate of the same network), the name alone or both change
    bool station = r.chance(2, 5);
    if (station) { add(2, 1); if (r.chance(4, 5)) add(2, 2); }
    else { if (r.chance(1, 4)) add(2, 1); if (r.chance(1, 6)) add(2, 2); }
    for (size_t i = items.size(); i > 1; i--) std::swap(items[i - 1], items[r.below(i)]);  // transmission order
    int shape = (int)r.below(3);
    p.knobs["guide_shape"] = shape;
    int K = 0;
    std::vector<int> task_of(items.size());
    if (shape == 0) { K = 1; for (auto& t : task_of) t = 0; }
    else if (shape == 1) {
      int cls_task[3] = {-1, -1, -1};
      for (size_t i = 0; i < items.size(); i++) { int& ct = cls_task[items[i].cls]; if (ct < 0) ct = K++; task_of[i] = ct; }
    } else { for (size_t i = 0; i < items.size(); i++) task_of[i] = K++; }
    p.knobs["sources"] = K;
    bool faults = r.chance(1, 4);
    p.knobs["faults_enabled"] = faults ? (1 << F_N) - 1 : 1;
    bool reshuffle = r.chance(1, 4);  // the order of the items changes from round to round
    int epochs = station ? 1 + (int)r.below(3) : r.chance(1, 2) ? 2 : 1;
    p.knobs["guide_epochs"] = epochs;
    if (station) p.knobs["guide_station"] = 1;
    for (int e = 0; e < epochs; e++) {
      if (e > 0) {  // programme boundary: most items get new content
        int what = station ? (int)r.below(4) : 3;  // 0 call letters only, 1 name only, 2 both, 3 whatever the dice say
        for (auto& g : items) {
          bool chg = r.chance(3, 4);
          if (g.cls == 2 && what < 3) chg = (g.type == 2 && what != 1) || (g.type == 1 && what != 0);
          else if (station && what < 3) chg = r.chance(1, 4);
          if (chg) { g.ps += 1 + (int64_t)r.below(5); if (g.type == 3) g.len = 2 + (int)r.below(31); }
        }
      }
      int rounds = 5 + (int)r.below(4);
      for (int k = 0; k < rounds; k++) {
        std::vector<size_t> order(items.size());
        for (size_t i = 0; i < order.size(); i++) order[i] = i;
        if (reshuffle) for (size_t i = order.size(); i > 1; i--) std::swap(order[i - 1], order[r.below(i)]);
        for (size_t i : order) {
          const GItem& g = items[i];
          int f = F_NONE;
          if (faults && r.chance(1, 12)) f = 1 + (int)r.below(F_N - 1);
          Op o; o.task = task_of[i]; o.kind = "pkt";
          o.a = {g.len, g.ps, f, (int64_t)r.below(40), g.cls, g.type};
          p.ops.push_back(o);
        }
      }
    }
    if (r.chance(2, 3)) {
      int n = 1 + (int)r.below(12);
      for (int i = 0; i < n; i++) { Op o; o.task = K; o.kind = "cap"; o.a = {1 + (int64_t)r.below(6), (int64_t)r.below(1000)}; p.ops.push_back(o); }
    }
    if (r.chance(1, 2)) { Op o; o.task = K + 1; o.kind = "idle"; o.a = {1 + (int64_t)r.below(8)}; p.ops.push_back(o); }
    if (r.chance(1, 3)) for (int i = 1 + (int)r.below(3); i > 0; i--) { Op o; o.task = K + 1; o.kind = "dxreset"; o.a = {(int64_t)r.below(24)}; p.ops.push_back(o); }
  }

  // ------------------------------------------------------------------ run --
  // Announcement ("liveness") model of one programme class, see announce_update()/announce_check().
  struct LiveItem {
    bool have_raw = false; std::string raw; int cnt = 0;  // deliveries at or after the class's last change point
    bool have_dec = false; std::string dec; long run_start = 0;  // current run of equal DECODED content
    long uncertain_since = 0;  // first packet of this type since the last certain one that the decoder may or may not have seen
  };
  // Announcement model of the station identification (channel class: type 1 network name, type 2 call letters),
  // see net_update()/net_check().
  struct NetLive {
    bool have_name = false; std::string name;   // decoded name of the last certain delivery since the last disturbance
    bool have_call = false; std::string call;   // decoded call letters of the last certain delivery ("" and !have_call: none ever sent)
    bool call_uncertain = false;                // a call letters packet may or may not have reached the decoder since
    int name_cnt = 0;                           // certain name deliveries at or after the last change point, undisturbed
    bool have_comb = false; std::string comb_name, comb_call; long run_start = 0;  // current run of one decoded (name, call) combination
    long uncertain_since = 0;
  };
  struct St {
    RunCtx* ctx; Sched* sched;
    vbi_xds_demux* xd = nullptr;
    vbi_decoder* dec = nullptr;
    RefDemux ref;
    RefDemux refd;   // what vbi_xds_demux must deliver: the same pairs, plus the resets of the demultiplexer alone
    std::vector<Delivery> got;
    size_t matched_got = 0;
    std::set<size_t> pos;  // possible numbers of reference deliveries consumed so far
    int last_sender = -1;
    double ts = 1000.0;
    std::vector<ProgEvent> prog_events;
    std::vector<NetEvent> net_events;
    // decoder-side model: history of certain/maybe deliveries per (class,type)
    std::map<int, std::vector<Delivery>> hist;
    int interruptions = 0;
    // announcement model (classes 0 = current, 1 = future)
    LiveItem live[2][0x18];
    long disturb_n = 0;           // number of the last byte pair the announcement clause does not reason about
    long last_cp_n[2] = {0, 0};   // pair number of the class's last change point
    std::vector<int> pending;     // cls*256+type delivered by the current pair, checked after vbi_decode returned
    NetLive net;                  // announcement model of the channel class (network name, call letters)
    bool net_pending = false;
  };
  static St* g;

  static vbi_bool demux_cb(vbi_xds_demux*, const vbi_xds_packet* xp, void*) {
    HarnessScope hs;
    Delivery d; d.cls = (int)xp->xds_class; d.type = (int)xp->xds_subclass;
    unsigned n = xp->buffer_size;
    if (n > sizeof xp->buffer) {
      g->ctx->fail("oracle:xds-size", "delivered packet %d/0x%02x with buffer_size %u > buffer", d.cls, d.type, n);
      n = sizeof xp->buffer;
    } else if (xp->buffer[n] != 0) {
      g->ctx->fail("oracle:xds-nul", "delivered packet %d/0x%02x size %u not NUL terminated", d.cls, d.type, n);
    }
    d.bytes.assign((const char*)xp->buffer, n);
    g->got.push_back(d);
    g->ctx->log("demux deliver %d/%02x size=%u %s", d.cls, d.type, xp->buffer_size, hex(d.bytes).c_str());
    return TRUE;
  }

  static void ev_handler(vbi_event* ev, void*) {
    HarnessScope hs;
    if (ev->type == VBI_EVENT_PROG_INFO) {
      vbi_program_info* pi = ev->ev.prog_info;
      ProgEvent e; e.future = pi->future; e.title = (const char*)pi->title;
      e.month = pi->month; e.day = pi->day; e.hour = pi->hour; e.min = pi->min; e.lh = pi->length_hour; e.lm = pi->length_min; e.eh = pi->elapsed_hour; e.em = pi->elapsed_min; e.es = pi->elapsed_sec;
      e.n = g->ref.n;
      g->prog_events.push_back(e);
      g->ctx->log("ev PROG_INFO future=%d title='%s' pin=%d/%d %d:%d len=%d:%d", e.future, e.title.c_str(), e.month, e.day, e.hour, e.min, e.lh, e.lm);
      check_prog_event(e);
    } else if (ev->type == VBI_EVENT_NETWORK_ID) {
      NetEvent e; e.name = (const char*)ev->ev.network.name; e.call = (const char*)ev->ev.network.call; e.n = g->ref.n; e.id_only = true;
      g->net_events.push_back(e);
      g->ctx->log("ev NETWORK_ID name='%s' call='%s'", e.name.c_str(), e.call.c_str());
      check_net_event(e);
    } else if (ev->type == VBI_EVENT_NETWORK) {
      NetEvent e; e.name = (const char*)ev->ev.network.name; e.call = (const char*)ev->ev.network.call; e.n = g->ref.n; e.id_only = false;
      g->net_events.push_back(e);
      g->ctx->log("ev NETWORK name='%s' call='%s'", e.name.c_str(), e.call.c_str());
      check_net_event(e);
      // A newly identified network may be a channel switch: the decoder then documentedly forgets the
      // programme information and every packet in flight.
      announce_disturb();
    }
  }

  // candidates for "latest delivered payload" of (cls,type): the last certain one and all maybes after it
  static std::vector<std::string> latest(int cls, int type) {
    std::vector<std::string> r;
    auto it = g->hist.find(cls * 256 + type);
    if (it == g->hist.end()) return r;
    for (size_t i = it->second.size(); i-- > 0;) {
      r.push_back(it->second[i].bytes);
      if (!it->second[i].maybe) break;
    }
    return r;
  }
  static bool has_repeat(int cls) {  // some type of this class was delivered at least twice with identical content
    for (auto& kv : g->hist) {
      if ((kv.first >> 8) != cls) continue;
      auto& v = kv.second;
      for (size_t i = 0; i < v.size(); i++)
        for (size_t j = i + 1; j < v.size(); j++)
          if (v[i].bytes == v[j].bytes) return true;
    }
    return false;
  }
  static void check_prog_event(const ProgEvent& e) {
    if (!has_repeat(e.future))
      g->ctx->fail("oracle:xds-proginfo-early", "PROG_INFO for class %d before any packet was received twice unchanged", e.future);
    // title fidelity: empty (reset) or the decoded latest type-3 packet
    if (!e.title.empty()) {
      bool ok = false;
      // any delivered title is acceptable only if it is among the latest candidates; the decoder may have
      // reset the info since (PIN change), therefore empty is accepted too
      auto it = g->hist.find(e.future * 256 + 3);
      if (it != g->hist.end())
        for (auto& d : it->second) if (d.bytes.size() >= 2 && strfu(d.bytes) == e.title) ok = true;
      for (auto& c : latest(e.future, 3)) if (strfu(c) == e.title) ok = true;
      if (!ok) g->ctx->fail("oracle:xds-title", "PROG_INFO title '%s' was never transmitted in a valid packet", e.title.c_str());
    }
    if (e.month >= 0) {
      bool ok = false;
      auto it = g->hist.find(e.future * 256 + 1);
      if (it != g->hist.end())
        for (auto& d : it->second)
          if (d.bytes.size() == 4 && (d.bytes[3] & 15) - 1 == e.month && (d.bytes[2] & 31) - 1 == e.day && (d.bytes[1] & 31) == e.hour && (d.bytes[0] & 63) == e.min) ok = true;
      if (!ok) g->ctx->fail("oracle:xds-pin", "PROG_INFO start %d/%d %d:%d was never transmitted in a valid packet", e.month, e.day, e.hour, e.min);
    }
    if (e.lh >= 0) {
      bool ok = false;
      auto it = g->hist.find(e.future * 256 + 2);
      if (it != g->hist.end())
        for (auto& d : it->second)
          if (d.bytes.size() >= 2 && (d.bytes[1] & 63) == e.lh && (d.bytes[0] & 63) == e.lm) ok = true;
      if (!ok) g->ctx->fail("oracle:xds-length", "PROG_INFO length %d:%d was never transmitted in a valid packet", e.lh, e.lm);
      // "equals the decoded content of the delivered packets": length and elapsed time are ONE packet (EIA-608 program
      // length: length min/hour, optionally elapsed min/hour, optionally elapsed seconds), so the announced record must be
      // the decoding of one delivered packet - the most recent one the decoder can have used (packets with minutes or seconds
      // above 59 are documented nowhere; the decoder drops them, the model passes over them), or of an undetermined one
      // after it.  "If unknown all these fields are -1": a packet without elapsed time makes the elapsed time unknown again.
      // Seconds are compared only when the packet carries them (without: 0 or -1, the documentation and the code differ).
      if (ok && it != g->hist.end()) {
        bool match = false, any = false;
        for (size_t i = it->second.size(); i-- > 0 && !match;) {
          const Delivery& d = it->second[i];
          const std::string& b = d.bytes;
          if (b.size() < 2 || b.size() > 6) continue;
          int lm = b[0] & 63, lh = b[1] & 63, em = b.size() >= 3 ? (b[2] & 63) : -1, eh = b.size() >= 4 ? (b[3] & 63) : -1, es = b.size() >= 5 ? (b[4] & 63) : 0;
          if (lm > 59 || em > 59 || es > 59) continue;
          any = true;
          match = lh == e.lh && lm == e.lm && em == e.em && (b.size() == 3 || eh == e.eh) && (b.size() < 5 || es == e.es);
          if (!d.maybe) break;
        }
        if (any && !match)
          g->ctx->fail("oracle:xds-length-record", "PROG_INFO length %d:%d elapsed %d:%d:%d is not the decoding of the most recent program length packet delivered", e.lh, e.lm, e.eh, e.em, e.es);
      }
    }
  }
  static void check_net_event(const NetEvent& e) {
    // name must be a transmitted one received twice unchanged
    auto it = g->hist.find(2 * 256 + 1);
    int same = 0;
    if (it != g->hist.end()) for (auto& d : it->second) if (strfu(d.bytes) == e.name) same++;
    if (same < 2) g->ctx->fail("oracle:xds-network", "NETWORK name '%s' announced after %d (<2) valid receptions", e.name.c_str(), same);
    if (!e.call.empty()) {
      bool ok = false;
      auto ic = g->hist.find(2 * 256 + 2);
      if (ic != g->hist.end()) for (auto& d : ic->second) if (strfu(d.bytes) == e.call) ok = true;
      if (!ok) g->ctx->fail("oracle:xds-network", "NETWORK call letters '%s' never transmitted", e.call.c_str());
    }
  }

  // ---- "announced after the documented repeat" as a bounded-liveness clause ----------------------------
  // Statement: "the service decoder's programme/network information (title, length, rating ...) equals the
  // decoded content of the delivered packets, announced after the documented repeat."  The documented
  // repeat is the second identical reception; the statement does not say how soon after it, and a change of
  // the programme id number legitimately makes the decoder start over.  What it does promise is that the
  // announcement comes: information that is stored but never announced although the identical packets keep
  // repeating is a violation.  The clause, for T = programme id number (type 1) and programme name (type 3)
  // of class C (current, future):
  //   A "change point" of class C is a delivered class-C packet whose bytes differ from the previous packet
  //   of the same type (or which has none).  If packet (C,T) with valid content X has been delivered
  //   ANNOUNCE_BY times at or after the last change point of class C - i.e. nothing of the class changed
  //   while X was received ANNOUNCE_BY times - and nothing "disturbed" the stream in that time, then a
  //   PROG_INFO event of class C carrying X must have been raised since X was first received (start of the
  //   current run of packets decoding to X; an announcement made earlier in that run is accepted, the
  //   statement does not ask for a re-announcement when another item changes).
  // ANNOUNCE_BY = 4 (first reception + 3 unchanged repeats): one more than the second-occurrence rule needs
  // when an id-number change restarts the confirmation in between; deliberately not tight.
  // Leniencies: any pair of a packet with an injected fault, of an over-long or empty packet, a parity
  // error, an undetermined ("maybe") delivery and a NETWORK event (possible channel switch, which
  // documentedly discards programme info and packets in flight) is a disturbance: all counts restart and
  // packets that were open at that moment do not count.  Other items (length, rating ...) are not subject
  // to the clause: for them content equal to "nothing known" exists, for which nothing need be announced.
  static constexpr int ANNOUNCE_BY = 4;
  static void announce_disturb(long upto = -1) {
    St& s = *g;
    if (upto < s.ref.n) upto = s.ref.n;
    if (upto > s.disturb_n) s.disturb_n = upto;
    for (auto& cl : s.live) for (auto& it : cl) { it.have_raw = false; it.cnt = 0; }
    s.net.have_name = false; s.net.name_cnt = 0;
    s.ctx->count("live_disturbances");
  }
  // decoded value of the two items under the clause, from EIA-608: id number = minute 0-59, hour 0-23,
  // day 1-31, month 1-12 in the low bits of four bytes; name = 2-32 characters.  "" = not valid / nothing.
  static std::string announce_decode(int type, const std::string& b) {
    if (type == 1) {
      if (b.size() != 4) return "";
      int mi = b[0] & 63, h = b[1] & 31, d = b[2] & 31, mo = b[3] & 15;
      if (mi > 59 || h > 23 || d < 1 || d > 31 || mo < 1 || mo > 12) return "";
      char buf[32]; snprintf(buf, sizeof buf, "%d/%d %d:%d", mo - 1, d - 1, h, mi);
      return buf;
    }
    if (type == 3) return b.size() >= 2 ? strfu(b) : "";
    return "";
  }
  static void announce_update(const Delivery& d) {  // before the pair reaches the decoder
    St& s = *g;
    if (d.cls == 2 && (d.type == 1 || d.type == 2)) { net_update(d); return; }
    if (d.cls > 1 || !decoder_knows(d.cls, d.type)) return;
    LiveItem& li = s.live[d.cls][d.type];
    if (d.maybe || d.start_n <= s.disturb_n) {
      // undetermined, or in flight during a disturbance: the decoder may or may not have it.  Counts
      // restart, and the run of the item is taken to begin no later than here whatever comes next.
      if (!li.uncertain_since) li.uncertain_since = s.ref.n;
      if (d.maybe) announce_disturb();
      else for (auto& it : s.live[d.cls]) { it.have_raw = false; it.cnt = 0; }
      return;
    }
    if (li.have_raw && li.raw == d.bytes) li.cnt++;
    else {  // change point of the class
      for (auto& it : s.live[d.cls]) it.cnt = 0;
      li.have_raw = true; li.raw = d.bytes; li.cnt = 1;
      s.last_cp_n[d.cls] = s.ref.n;
    }
    std::string dec = announce_decode(d.type, d.bytes);
    if (!dec.empty()) {
      if (!(li.have_dec && li.dec == dec)) { li.have_dec = true; li.dec = dec; li.run_start = li.uncertain_since ? li.uncertain_since : s.ref.n; }
      li.uncertain_since = 0;
    }
    if (!dec.empty() && li.cnt >= ANNOUNCE_BY) s.pending.push_back(d.cls * 256 + d.type);
  }
  static void announce_check() {  // after vbi_decode() returned for the pair
    St& s = *g;
    for (int key : s.pending) {
      int cls = key >> 8, type = key & 255;
      const LiveItem& li = s.live[cls][type];
      if (li.cnt < ANNOUNCE_BY || !li.have_dec) continue;  // a disturbance arrived with this very pair
      s.ctx->count("live_checks");
      if (s.last_cp_n[1 - cls] >= li.run_start) s.ctx->count("live_checks_other_class_renewed");
      bool ok = false;
      for (size_t i = s.prog_events.size(); i-- > 0 && !ok;) {
        const ProgEvent& e = s.prog_events[i];
        if (e.n < li.run_start) break;
        if (e.future != cls) continue;
        if (type == 3) ok = e.title == li.dec;
        else { char buf[32]; snprintf(buf, sizeof buf, "%d/%d %d:%d", e.month, e.day, e.hour, e.min); ok = li.dec == buf; }
      }
      if (!ok) {
        s.ctx->fail("oracle:xds-proginfo-never", "class %d %s '%s' received %d times with nothing of the class changing and no fault, but no PROG_INFO event has announced it since it was first received (pair %ld)",
                    cls, type == 3 ? "programme name" : "programme id number (month-1/day-1 h:m)", li.dec.c_str(), li.cnt, li.run_start);
        break;
      }
    }
    s.pending.clear();
  }

  // ---- the same for the station identification: network name and call letters -------------------------
  // Statement: "... programme/network information (title, length, rating, network name, call letters ...)
  // equals the decoded content of the delivered packets, announced after the documented repeat."  The
  // decoder documents that a station is announced (VBI_EVENT_NETWORK when it differs from the station
  // known so far, VBI_EVENT_NETWORK_ID in any case) when the network name packet is received a second time
  // unchanged; changed call letters make it start over so that the station is announced with its new call
  // sign.  Clause: a "change point" of the channel class is a delivered name or call letters packet whose
  // DECODED content differs from the previous one of its type (or which has none).  When the name packet
  // with decoded content X was delivered NET_ANNOUNCE_BY times at or after the last change point, with the
  // call letters Y of the last delivered call letters packet ("" when none was ever sent) and no
  // disturbance in that time, a NETWORK or NETWORK_ID event carrying name X and call letters Y must have
  // been raised since the combination (X, Y) first became current.
  // NET_ANNOUNCE_BY = 3: the second-occurrence rule needs 2 name receptions after the last change (the
  // changed name / the first name after changed call letters, and its repeat); one more for margin.
  // Leniencies: disturbances as for the programme classes (faulty, over-long, empty, undetermined packets,
  // parity errors, NETWORK events = possible channel switch dropping packets in flight): the count
  // restarts, the next name packet counts as a change point; an announcement of (X, Y) made earlier in the
  // same run of (X, Y) is accepted (the decoder need not announce again what it has announced, and the model
  // cannot tell whether an undetermined packet reached it); while a call letters packet is undetermined
  // (until the next certain one) any call letters are accepted in the event.
  static constexpr int NET_ANNOUNCE_BY = 3;
  static void net_update(const Delivery& d) {  // before the pair reaches the decoder
    St& s = *g;
    NetLive& nl = s.net;
    if (d.maybe || d.start_n <= s.disturb_n) {
      if (!nl.uncertain_since) nl.uncertain_since = s.ref.n;
      if (d.type == 2) nl.call_uncertain = true;
      if (d.maybe) announce_disturb();
      else { nl.have_name = false; nl.name_cnt = 0; }
      return;
    }
    std::string dec = strfu(d.bytes);
    if (d.type == 1) {
      if (nl.have_name && nl.name == dec) nl.name_cnt++;
      else { nl.have_name = true; nl.name = dec; nl.name_cnt = 1; }
    } else {
      bool same = nl.have_call && !nl.call_uncertain && nl.call == dec;
      nl.have_call = true; nl.call = dec; nl.call_uncertain = false;
      if (!same) nl.name_cnt = 0;  // change point (or the model cannot tell): the name must repeat afresh
    }
    if (nl.have_name && !nl.call_uncertain) {
      std::string call = nl.have_call ? nl.call : std::string();
      if (!(nl.have_comb && nl.comb_name == nl.name && nl.comb_call == call)) {
        nl.have_comb = true; nl.comb_name = nl.name; nl.comb_call = call;
        nl.run_start = nl.uncertain_since ? nl.uncertain_since : s.ref.n;
      }
      nl.uncertain_since = 0;
    }
    if (d.type == 1 && !dec.empty() && nl.name_cnt >= NET_ANNOUNCE_BY) s.net_pending = true;
  }
  static void net_check() {  // after vbi_decode() returned for the pair
    St& s = *g;
    if (!s.net_pending) return;
    s.net_pending = false;
    const NetLive& nl = s.net;
    if (!nl.have_name || nl.name_cnt < NET_ANNOUNCE_BY) return;  // a disturbance arrived with this very pair
    s.ctx->count("net_live_checks");
    if (nl.have_call && !nl.call_uncertain) s.ctx->count("net_live_checks_with_call");
    std::string call = nl.have_call ? nl.call : std::string();
    long since = (nl.have_comb && !nl.call_uncertain) ? nl.run_start : 0;
    bool ok = false;
    for (size_t i = s.net_events.size(); i-- > 0 && !ok;) {
      const NetEvent& e = s.net_events[i];
      if (e.n < since) break;
      ok = e.name == nl.name && (nl.call_uncertain || e.call == call);
    }
    if (!ok)
      s.ctx->fail("oracle:xds-network-never", "network name '%s' received %d times with call letters '%s' and nothing of the channel class changing and no fault, but no NETWORK / NETWORK_ID event has announced this station since it was first identified so (pair %ld)",
                  nl.name.c_str(), nl.name_cnt, call.c_str(), since);
  }

  // one byte pair on field 2 -> both systems and the reference
  static void deliver(int b0, int b1) {
    St& s = *g;
    s.ctx->log("pair %02x %02x", b0, b1);
    size_t ref_before = s.ref.out.size();
    s.ref.pair(b0, b1);
    s.refd.pair(b0, b1);
    if (!((__builtin_popcount(b0 & 0xFF) & 1) && (__builtin_popcount(b1 & 0xFF) & 1))) announce_disturb();
    for (size_t i = ref_before; i < s.ref.out.size(); i++) {
      const Delivery& d = s.ref.out[i];
      if (decoder_knows(d.cls, d.type)) { s.hist[d.cls * 256 + d.type].push_back(d); if (d.start_n <= s.disturb_n) s.hist[d.cls * 256 + d.type].back().maybe = true; }  // in flight during a disturbance: the decoder may have dropped it
      announce_update(d);
    }
    uint8_t buf[2] = {(uint8_t)b0, (uint8_t)b1};
    budget_begin("vbi_xds_demux_feed", 100000);
    { SutScope ss; vbi_xds_demux_feed(s.xd, buf); }
    budget_end();
    vbi_sliced sl[2];
    memset(sl, 0, sizeof sl);
    sl[0].id = VBI_SLICED_CAPTION_525; sl[0].line = 21; sl[0].data[0] = 0x80; sl[0].data[1] = 0x80;
    sl[1].id = VBI_SLICED_CAPTION_525; sl[1].line = 284; sl[1].data[0] = (uint8_t)b0; sl[1].data[1] = (uint8_t)b1;
    s.ts += 1001.0 / 30000.0;
    budget_begin("vbi_decode", 3000000);
    { SutScope ss; vbi_decode(s.dec, sl, 2, s.ts); }
    budget_end();
    if (!s.ctx->failed) announce_check();
    if (!s.ctx->failed) net_check();
    // compare demux deliveries with the reference, in order; "maybe" deliveries may be absent
    compare(false);
  }

  static bool optional_ref(const Delivery& rd) { return rd.maybe || !demux_knows(rd.cls, rd.type); }
  static bool matches(const Delivery& rd, const Delivery& gd) {
    if (rd.cls != gd.cls || rd.type != gd.type) return false;
    return rd.maybe ? gd.bytes.size() <= 32 : rd.bytes == gd.bytes;
  }
  // The demux's delivery sequence must be the reference's sequence in which the
  // undetermined items (malformed-but-unlisted packets, undocumented class/type)
  // may be absent.  Matching is done over the set of possible alignments.
  static void compare(bool) {
    St& s = *g;
    if (s.pos.empty()) s.pos.insert(0);
    for (; s.matched_got < s.got.size(); s.matched_got++) {
      const Delivery& gd = s.got[s.matched_got];
      std::set<size_t> np;
      for (size_t i : s.pos) {
        for (size_t k = i; k < s.refd.out.size(); k++) {
          if (matches(s.refd.out[k], gd)) np.insert(k + 1);
          if (!optional_ref(s.refd.out[k])) break;
        }
      }
      if (np.empty()) {
        size_t i = *s.pos.begin();
        while (i < s.refd.out.size() && optional_ref(s.refd.out[i]) && !(s.refd.out[i].cls == gd.cls && s.refd.out[i].type == gd.type)) i++;
        if (i >= s.refd.out.size())
          s.ctx->fail("oracle:xds-spurious", "demux delivered %d/0x%02x size %zu [%s] which the reference does not deliver (invalid, duplicate or never sent)", gd.cls, gd.type, gd.bytes.size(), hex(gd.bytes).c_str());
        else if (gd.bytes.size() > 32)
          s.ctx->fail("oracle:xds-size", "delivered %d/0x%02x with %zu > 32 bytes", gd.cls, gd.type, gd.bytes.size());
        else
          s.ctx->fail("oracle:xds-delivery", "demux delivered %d/0x%02x [%s], reference expects %d/0x%02x [%s]", gd.cls, gd.type, hex(gd.bytes).c_str(), s.refd.out[i].cls, s.refd.out[i].type, hex(s.refd.out[i].bytes).c_str());
        return;
      }
      s.pos.swap(np);
    }
    // everything the reference delivers for certain must have been delivered by now
    // (delivery happens at the terminator pair, synchronously)
    bool ok = false;
    const Delivery* miss = nullptr;
    for (size_t i : s.pos) {
      size_t k = i;
      while (k < s.refd.out.size() && optional_ref(s.refd.out[k])) k++;
      if (k >= s.refd.out.size()) { ok = true; break; }
      if (!miss) miss = &s.refd.out[k];
    }
    if (!ok && miss)
      s.ctx->fail("oracle:xds-lost", "valid packet %d/0x%02x [%s] was not delivered", miss->cls, miss->type, hex(miss->bytes).c_str());
  }

  struct Src { int cls = 0, type = 1; bool open = false; bool dirty = false; /* current packet carries a fault, is over-long or empty */ };

  void run(const Plan& plan, RunCtx& ctx) override {
    static bool warmed = false;
    if (!warmed) {  // one-time process-global initialisation (gettext, iconv tables) is not a per-decoder leak
      warmed = true;
      vbi_decoder* d = vbi_decoder_new();
      vbi_decoder_delete(d);
    }
    alloc_track_reset();
    St st; st.ctx = &ctx; g = &st;
    Sched sched(ctx, (uint64_t)plan.knob("sched_seed", (int64_t)plan.seed), (Policy)(plan.knob("policy") % 3), (int)plan.knob("pparam"));
    st.sched = &sched;
    { SutScope ss;
      st.xd = vbi_xds_demux_new(demux_cb, nullptr);
      st.dec = vbi_decoder_new();
      vbi_event_handler_register(st.dec, VBI_EVENT_PROG_INFO | VBI_EVENT_ASPECT | VBI_EVENT_NETWORK | VBI_EVENT_NETWORK_ID | VBI_EVENT_CAPTION, ev_handler, nullptr);
    }
    int K = (int)plan.knob("sources", 1);
    if (K < 1) K = 1;
    int ntasks = K + 2;
    std::vector<std::vector<const Op*>> per(ntasks);
    std::vector<Src> src(ntasks);
    for (auto& op : plan.ops) {
      int t = ((op.task % ntasks) + ntasks) % ntasks;
      if (op.kind == "src") { src[t].cls = (int)(op.arg(0) % 7); src[t].type = (int)(op.arg(1) % 0x60); }
      else per[t].push_back(&op);
    }
    // send one pair from source t, inserting the continue code when t resumes an open packet
    auto send = [&](int t, int b0, int b1, bool is_start) {
      if (ctx.failed) return;
      Src& s = src[t];
      bool dirty = t < K && s.dirty;
      bool cont = t < K && s.open && !is_start && st.last_sender != t;
      if (dirty) announce_disturb(st.ref.n + (cont ? 2 : 1));  // this pair and the inserted continue code
      if (cont) {
        int c1 = s.cls * 2 + 2;  // continue code of the class
        deliver(tx::odd_parity((uint8_t)c1), tx::odd_parity((uint8_t)s.type));
        st.interruptions++;
        ctx.count("mux_continue_inserted");
      }
      if (t == K && st.last_sender != t && !(((b0 & 0x7F) >= 0x10) && ((b0 & 0x7F) <= 0x1F))) {
        deliver(tx::odd_parity(0x15), tx::odd_parity(0x20));  // caption resumes with its own control code
      }
      deliver(b0, b1);
      if (dirty && !ctx.failed) announce_disturb();
      st.last_sender = t;
      sched.yield();
    };
    for (int t = 0; t < ntasks; t++) {
      if (per[t].empty()) continue;
      sched.spawn("src" + std::to_string(t), [&, t] {
        for (const Op* op : per[t]) {
          if (ctx.failed) return;
          if (op->kind == "pkt" && t < K) {
            Src& s = src[t];
            if (op->a.size() >= 6) {  // guide shape: the packet names its own class and type
              s.cls = (int)(((op->arg(4) % 7) + 7) % 7); s.type = (int)(((op->arg(5) % 0x60) + 0x60) % 0x60);
            }
            int len = (int)(op->arg(0) % 41); if (len < 0) len = -len;
            int f = (int)(((op->arg(2) % F_N) + F_N) % F_N);
            s.dirty = f != F_NONE || len > 32 || len < 1;
            int fa = (int)op->arg(3);
            std::string pl = payload(s.cls, s.type, len, (uint64_t)op->arg(1));
            if (len > 32 && (int)pl.size() < len) pl.append((size_t)len - pl.size(), 'Z');
            if (len < 1) pl.clear();
            ctx.count(std::string("fault_") + fault_name[f]);
            int c1 = s.cls * 2 + 1, c2 = s.type;
            unsigned sum = (unsigned)(c1 + c2);
            if (f != F_NOSTART) send(t, tx::odd_parity((uint8_t)c1), tx::odd_parity((uint8_t)c2), true);
            s.open = true;
            size_t npairs = (pl.size() + 1) / 2;
            for (size_t k = 0; k < npairs; k++) {
              int a = (unsigned char)pl[2 * k];
              int b = 2 * k + 1 < pl.size() ? (unsigned char)pl[2 * k + 1] : 0;
              if (f == F_MIDNUL && npairs >= 2 && k == (size_t)fa % (npairs - 1)) b = 0;  // pad in the middle, more payload follows
              sum += (unsigned)(a + b);
              int pa = tx::odd_parity((uint8_t)a), pb = tx::odd_parity((uint8_t)b);
              if (f == F_PARITY && k == (size_t)fa % npairs) { if (fa & 64) pa ^= 0x80; else pb ^= 0x80; }
              send(t, pa, pb, false);
              if (f == F_RESTART && npairs >= 2 && k == (size_t)fa % npairs) {
                // the encoder restarts the packet from scratch (two starts without a terminator)
                send(t, tx::odd_parity((uint8_t)c1), tx::odd_parity((uint8_t)c2), true);
                sum = (unsigned)(c1 + c2);
                for (size_t m = 0; m <= k; m++) {
                  int a2 = (unsigned char)pl[2 * m];
                  int b2 = 2 * m + 1 < pl.size() ? (unsigned char)pl[2 * m + 1] : 0;
                  sum += (unsigned)(a2 + b2);
                  send(t, tx::odd_parity((uint8_t)a2), tx::odd_parity((uint8_t)b2), false);
                }
              }
            }
            if (f != F_NOTERM) {
              int ck = (int)((0x80 - ((sum + 0x0F) & 0x7F)) & 0x7F);
              if (f == F_CHECKSUM) ck = (ck + 1 + fa % 126) & 0x7F;
              int p0 = tx::odd_parity(0x0F), p1 = tx::odd_parity((uint8_t)ck);
              if (f == F_PARITY_TERM) p1 ^= 0x80;
              send(t, p0, p1, false);
            }
            s.open = false;
            s.dirty = false;
          } else if (op->kind == "cap") {
            Rng r((uint64_t)op->arg(1), "cap");
            int n = (int)(op->arg(0) % 12);
            static const int ctl[] = {0x14, 0x15, 0x1C, 0x1D};
            send(t, tx::odd_parity((uint8_t)ctl[r.below(4)]), tx::odd_parity((uint8_t)(0x20 + r.below(16))), false);
            for (int k = 0; k < n; k++) send(t, tx::odd_parity((uint8_t)(0x20 + r.below(0x60))), tx::odd_parity((uint8_t)(0x20 + r.below(0x60))), false);
          } else if (op->kind == "dxreset") {
            // the application resets the XDS demultiplexer (channel change) at some point of the stream, mid-packet as a
            // rule: packets in progress are forgotten; what arrives of them afterwards has no start
            for (int k = (int)(llabs(op->arg(0)) % 24); k > 0 && !ctx.failed; k--) sched.yield();
            if (ctx.failed) return;
            ctx.log("demux reset");
            { SutScope ss; vbi_xds_demux_reset(g->xd); }
            g->refd.reset();
            ctx.count("fault_demux_reset");
            for (auto& kv : g->refd.pk) (void)kv;
          } else if (op->kind == "idle") {
            int n = (int)(op->arg(0) % 16);
            for (int k = 0; k < n; k++) {
              if (ctx.failed) return;
              // idle pairs do not count as an interruption: they carry no channel
              deliver(0x80, 0x80);
              sched.yield();
            }
          }
        }
      });
    }
    int rc = sched.run(2000000);
    if (rc == 2) ctx.fail("harness:budget", "scheduler budget exhausted");
    if (!ctx.failed) compare(true);
    ctx.state(sched.interleaving_hash());
    {
      SutScope ss;
      vbi_xds_demux_delete(st.xd);
      vbi_decoder_delete(st.dec);
    }
    if (!ctx.failed && alloc_track_available() && alloc_live_blocks() != 0)
      ctx.fail("leak", "%zu blocks (%zu bytes; sizes %s) still allocated after delete", alloc_live_blocks(), alloc_live_bytes(), alloc_live_summary().c_str());
    size_t certain = 0;
    for (auto& d : st.refd.out) if (!d.maybe && demux_knows(d.cls, d.type)) certain++;
    ctx.count("ref_deliveries", (int64_t)certain);
    ctx.count("prog_info_events", (int64_t)st.prog_events.size());
    ctx.count("network_events", (int64_t)st.net_events.size());
    if (plan.knob("guide")) { ctx.count("guide_runs"); if (plan.knob("guide_epochs") > 1) ctx.count("guide_runs_programme_boundary"); if (plan.knob("guide_station")) ctx.count("guide_runs_station"); }
    ctx.nontrivial = certain >= 2 && st.interruptions >= 1;
    ctx.sim_seconds = st.ts - 1000.0;
    g = nullptr;
  }
};
C09::St* C09::g = nullptr;
ZSIM_REGISTER_WORLD(C09)

}  // namespace
