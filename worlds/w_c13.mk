# C13 observes which line vbi_decode() is working on (exact attribution of events to receptions)
LDFLAGS_w_c13 := -Wl,--wrap=vbi_decode_vps -Wl,--wrap=vbi_decode_teletext -Wl,--wrap=vbi_decode_caption -Wl,--wrap=vbi_decode_wss_625
