// C02 — a transmitted Teletext page is cached and fetched exactly as sent.
// C03 — transmission errors are corrected or contained (same binary, world "c03").
//
// World: one vbi_decoder with a TTX_PAGE handler; eight magazine transmitter
// tasks with their own page carousels; the seeded scheduler is the multiplexer
// (parallel mode: any magazine at every packet; serial mode: a page holds the
// channel); a packer groups 1-16 packets per vbi_decode() call.
// Reference: page store keyed (page, subpage) + independent Level-1 formatter
// (worlds/ttx.h, written from EN 300 706 12.2 / Table 36).
#include <cstdio>
#include <cstring>
#include <map>
#include <set>

#include "alloc.h"
#include "sim.h"
#include "ttx.h"

extern "C" {
#include "src/libzvbi.h"
}

using namespace sim;

namespace {

// EN 300 706 Table 36, national option sub-sets of the Latin G0 set (positions 23 24 40 5B 5C 5D 5E 5F 60 7B 7C 7D 7E)
static const int nat_pos[13] = {0x23, 0x24, 0x40, 0x5B, 0x5C, 0x5D, 0x5E, 0x5F, 0x60, 0x7B, 0x7C, 0x7D, 0x7E};
static const unsigned nat_tab[8][13] = {
    {0x00A3, 0x0024, 0x0040, 0x2190, 0x00BD, 0x2192, 0x2191, 0x0023, 0x2014, 0x00BC, 0x2016, 0x00BE, 0x00F7},  // English
    {0x0023, 0x0024, 0x00A7, 0x00C4, 0x00D6, 0x00DC, 0x005E, 0x005F, 0x00B0, 0x00E4, 0x00F6, 0x00FC, 0x00DF},  // German
    {0x0023, 0x00A4, 0x00C9, 0x00C4, 0x00D6, 0x00C5, 0x00DC, 0x005F, 0x00E9, 0x00E4, 0x00F6, 0x00E5, 0x00FC},  // Swedish/Finnish/Hungarian
    {0x00A3, 0x0024, 0x00E9, 0x00B0, 0x00E7, 0x2192, 0x2191, 0x0023, 0x00F9, 0x00E0, 0x00F2, 0x00E8, 0x00EC},  // Italian
    {0x00E9, 0x00EF, 0x00E0, 0x00EB, 0x00EA, 0x00F9, 0x00EE, 0x0023, 0x00E8, 0x00E2, 0x00F4, 0x00FB, 0x00E7},  // French
    {0x00E7, 0x0024, 0x00A1, 0x00E1, 0x00E9, 0x00ED, 0x00F3, 0x00FA, 0x00BF, 0x00FC, 0x00F1, 0x00E8, 0x00E0},  // Portuguese/Spanish
    {0xE800, 0x011F, 0x0130, 0x015E, 0x00D6, 0x00C7, 0x00DC, 0x011E, 0x0131, 0x015F, 0x00F6, 0x00E7, 0x00FC},  // Turkish (library's private code for the lira sign)
    {0x0023, 0x00A4, 0x0040, 0x005B, 0x005C, 0x005D, 0x005E, 0x005F, 0x0060, 0x007B, 0x00A6, 0x007D, 0x007E},  // no sub-set
};
static unsigned g0_unicode(int nat, int code) {
  if (code == 0x7F) return 0x25A0;
  for (int i = 0; i < 13; i++) if (nat_pos[i] == code) return nat_tab[nat & 7][i];
  return (unsigned)code;
}

// Level 1.5 (EN 300 706 12.3, Table 37 Latin G2 set): the codes whose Unicode equivalent is beyond doubt; 0 = not compared
static unsigned g2_safe(int code) {
  static const struct { int c; unsigned u; } t[] = {
    {0x21,0x00A1},{0x22,0x00A2},{0x23,0x00A3},{0x25,0x00A5},{0x27,0x00A7},{0x2B,0x00AB},{0x2C,0x2190},{0x2D,0x2191},{0x2E,0x2192},{0x2F,0x2193},
    {0x30,0x00B0},{0x31,0x00B1},{0x32,0x00B2},{0x33,0x00B3},{0x34,0x00D7},{0x35,0x00B5},{0x36,0x00B6},{0x37,0x00B7},{0x38,0x00F7},{0x3B,0x00BB},
    {0x3C,0x00BC},{0x3D,0x00BD},{0x3E,0x00BE},{0x3F,0x00BF},{0x52,0x00AE},{0x53,0x00A9},{0x54,0x2122},{0x57,0x2030},{0x5C,0x215B},{0x5D,0x215C},
    {0x5E,0x215D},{0x5F,0x215E},{0x61,0x00C6},{0x64,0x0126},{0x66,0x0132},{0x67,0x013F},{0x68,0x0141},{0x69,0x00D8},{0x6A,0x0152},{0x6C,0x00DE},
    {0x6D,0x0166},{0x6E,0x014A},{0x6F,0x0149},{0x70,0x0138},{0x71,0x00E6},{0x72,0x0111},{0x73,0x00F0},{0x74,0x0127},{0x75,0x0131},{0x76,0x0133},
    {0x77,0x0140},{0x78,0x0142},{0x79,0x00F8},{0x7A,0x0153},{0x7B,0x00DF},{0x7C,0x00FE},{0x7D,0x0167},{0x7E,0x014B}};
  for (auto& e : t) if (e.c == code) return e.u;
  return 0;
}
// G0 character with diacritical mark (X/26 column triplet modes 0x10 + accent, accent = the G2 column 4 mark): the
// compositions every Latin-1 / Latin Extended-A user knows; 0 = not compared.  Accent 0 = the plain G0 character of
// the Latin set without national option ('*' 0x2A stands for '@' at this mode).
static unsigned compose_safe(int accent, int base) {
  auto in = [&](const char* set) { return base < 0x80 && strchr(set, base) != nullptr; };
  auto lat1 = [&](const char* set, const unsigned* u) { const char* q = strchr(set, base); return u[q - set]; };
  if (accent == 0) {
    if (base == 0x2A) return 0x40;
    if ((base >= '0' && base <= '9') || (base >= 'A' && base <= 'Z') || (base >= 'a' && base <= 'z')) return (unsigned)base;
    return 0;
  }
  static const unsigned grave[] = {0xC0,0xC8,0xCC,0xD2,0xD9,0xE0,0xE8,0xEC,0xF2,0xF9};
  static const unsigned acute[] = {0xC1,0xC9,0xCD,0xD3,0xDA,0xDD,0xE1,0xE9,0xED,0xF3,0xFA,0xFD};
  static const unsigned circ[] = {0xC2,0xCA,0xCE,0xD4,0xDB,0xE2,0xEA,0xEE,0xF4,0xFB};
  static const unsigned tilde[] = {0xC3,0xD1,0xD5,0xE3,0xF1,0xF5};
  static const unsigned diaer[] = {0xC4,0xCB,0xCF,0xD6,0xDC,0xE4,0xEB,0xEF,0xF6,0xFC,0xFF};
  static const unsigned caron[] = {0x010C,0x0160,0x017D,0x010D,0x0161,0x017E};
  switch (accent) {
    case 1: if (in("AEIOUaeiou")) return lat1("AEIOUaeiou", grave); break;
    case 2: if (in("AEIOUYaeiouy")) return lat1("AEIOUYaeiouy", acute); break;
    case 3: if (in("AEIOUaeiou")) return lat1("AEIOUaeiou", circ); break;
    case 4: if (in("ANOano")) return lat1("ANOano", tilde); break;
    case 8: if (in("AEIOUaeiouy")) return lat1("AEIOUaeiouy", diaer); break;
    case 10: if (base == 'A') return 0xC5; if (base == 'a') return 0xE5; break;
    case 11: if (base == 'C') return 0xC7; if (base == 'c') return 0xE7; break;
    case 15: if (in("CSZcsz")) return lat1("CSZcsz", caron); break;
  }
  return 0;
}

static int to_bcd(int v) { return ((v / 10) % 10) * 16 + v % 10; }

// enh: Level 1.5 expectation per position row*40+column addressed by an X/26 column triplet of the last transmission:
//   > 0 the character that must be shown there, 0 = a character replaced by one the model does not predict (not
//   compared), -1 = addressed by a triplet which a Level 1.5 decoder ignores (the Level 1 cell must show)
struct StoredPage { ttx::PageImage img; bool have_flof = false; bool links_valid = false; ttx::Link links[6]; int nat = 0; bool tainted = false; int subno = 0;
                    std::map<int, long> enh; int x26_mask = 0; bool l15_checkable = true; };

struct OpenPage {
  bool open = false; int pgno = 0, subno = 0, nat = 0; bool erase = false; uint8_t text[32];
  std::map<int, std::vector<uint8_t>> rows; bool x27 = false; int lc = 0; ttx::Link links[6]; int events = 0; bool tainted = false;
  std::map<int, long> enh; int x26_mask = 0;
};

struct Emitted { ttx::Packet pk; int src; };

struct TtxWorldBase {
  RunCtx* ctx = nullptr;
  vbi_decoder* dec = nullptr;
  double ts = 5000.0;
  std::vector<vbi_sliced> frame;
  int frame_max = 4;
  std::vector<std::pair<int, int>> events;  // (pgno, subno)
  vbi_network last_net;                     // payload of the last VBI_EVENT_NETWORK
  static TtxWorldBase* g;

  static void handler(vbi_event* ev, void*) {
    HarnessScope hs;
    if (ev->type == VBI_EVENT_TTX_PAGE) {
      g->events.push_back({ev->ev.ttx_page.pgno, ev->ev.ttx_page.subno});
      g->ctx->log("event page %x.%x", ev->ev.ttx_page.pgno, ev->ev.ttx_page.subno);
      g->on_event(ev->ev.ttx_page.pgno, ev->ev.ttx_page.subno);
    } else if (ev->type == VBI_EVENT_NETWORK) {
      g->ctx->log("event network");
      g->last_net = ev->ev.network;
      g->on_network();
    }
  }
  virtual void on_event(int, int) {}
  virtual void on_network() {}
  virtual ~TtxWorldBase() {}

  void open_decoder() {
    SutScope ss;
    dec = vbi_decoder_new();
    vbi_event_handler_register(dec, VBI_EVENT_TTX_PAGE | VBI_EVENT_NETWORK, handler, nullptr);
  }
  void flush() {
    if (frame.empty()) return;
    ts += 0.04;
    budget_begin("vbi_decode", 20000000);
    { SutScope ss; vbi_decode(dec, frame.data(), (int)frame.size(), ts); }
    budget_end();
    frame.clear();
  }
  void push(const uint8_t b[42]) {
    vbi_sliced s; memset(&s, 0, sizeof s);
    s.id = VBI_SLICED_TELETEXT_B; s.line = 7 + (uint32_t)frame.size();
    memcpy(s.data, b, 42);
    frame.push_back(s);
    if ((int)frame.size() >= frame_max) flush();
  }
};
TtxWorldBase* TtxWorldBase::g = nullptr;

// ---- content generation ------------------------------------------------------
static void header_text(int pgno, uint8_t out[32]) {
  char t[40];
  snprintf(t, sizeof t, "ZSIMTEXT%03X Network News AB12:34:56", pgno);
  memcpy(out, t, 32);
}

static void gen_row(Rng& r, int style, uint8_t out[40]) {
  // styles: 0 plain text, 1 attributes mix, 2 mosaics, 3 sizes, 4 boxes, 5 everything,
  // 6 hold mosaics in effect BEFORE the first mosaic character of the row (EN 300 706 12.2: the held mosaic is a
  //   space at the start of every row, whatever earlier rows showed), then mosaics as in style 2
  int c0 = 0;
  if (style == 6) {
    static const int keep[] = {0x10,0x11,0x12,0x13,0x14,0x15,0x16,0x17,0x1D,0x1C,0x18,0x08,0x09,0x19,0x1A,0x1E};  // leave mosaic mode and size alone
    static const int any[] = {0x10,0x13,0x17,0x1D,0x07,0x02,0x0C,0x0D,0x1E,0x1A};                                   // incl. alpha colour / size changes
    int lead = (int)r.below(3);                      // 0-2 characters in front (alpha mode: letters)
    for (int i = 0; i < lead; i++) out[c0++] = (uint8_t)(r.chance(1, 2) ? 0x20 : 0x41 + r.below(26));
    if (r.chance(1, 2)) { out[c0++] = (uint8_t)(0x10 + r.below(8)); out[c0++] = 0x1E; }   // mosaic colour, hold
    else { out[c0++] = 0x1E; out[c0++] = (uint8_t)(0x10 + r.below(8)); }                   // hold, mosaic colour
    int n = 1 + (int)r.below(5);
    bool wild = r.chance(1, 4);
    for (int i = 0; i < n; i++) out[c0++] = (uint8_t)(wild ? any[r.below(sizeof any / sizeof any[0])] : keep[r.below(sizeof keep / sizeof keep[0])]);
    out[c0++] = (uint8_t)((0x20 + r.below(0x20)) | (r.chance(1, 2) ? 0x40 : 0) | (r.chance(7, 8) ? 1 : 0));  // a mosaic, mostly non-blank
    style = 2;
  }
  for (int c = c0; c < 40; c++) {
    int ch;
    bool ctl = false;
    switch (style) {
      case 0: ctl = r.chance(1, 20); break;
      case 1: ctl = r.chance(1, 4); break;
      default: ctl = r.chance(1, 3); break;
    }
    if (!ctl) { out[c] = (uint8_t)(0x20 + r.below(0x60)); continue; }
    switch (style) {
      case 0: ch = (int)r.below(8); break;                                           // alpha colours
      case 1: { static const int s[] = {0,1,2,3,4,5,6,7,8,9,0x18,0x1C,0x1D}; ch = s[r.below(sizeof s / sizeof s[0])]; break; }
      case 2: { static const int s[] = {0x10,0x11,0x12,0x13,0x14,0x15,0x16,0x17,0x19,0x1A,0x1E,0x1F,1,7,0x1D,0x1C}; ch = s[r.below(sizeof s / sizeof s[0])]; break; }
      case 3: { static const int s[] = {0x0C,0x0D,0x0E,0x0F,0x0D,0x0C,2,0x12,0x1E}; ch = s[r.below(sizeof s / sizeof s[0])]; break; }
      case 4: { static const int s[] = {0x0A,0x0B}; ch = s[r.below(2)]; out[c] = (uint8_t)ch; if (c < 39 && r.chance(2, 3)) out[++c] = (uint8_t)ch; continue; }
      default: ch = (int)r.below(0x20); break;
    }
    if (ch == 0x1B) ch = 0x09;  // ESC selects the second G0 set, which the statement does not cover (Level 1/1.5 designates one set)
    out[c] = (uint8_t)ch;
  }
}

// probe: the row displays a spacing attribute with hold mosaics in effect in mosaic mode before its first mosaic character
static bool row_holds_before_first_mosaic(const uint8_t ch[40]) {
  bool hold = false, mosaic = false;
  for (int c = 0; c < 40; c++) {
    int raw = ch[c] & 0x7F;
    if (raw == 0x1E) hold = true;
    if (raw < 0x20) { if (hold && mosaic) return true; }
    else if (mosaic && (raw & 0x20)) return false;
    if (raw <= 0x07) mosaic = false; else if (raw >= 0x10 && raw <= 0x17) mosaic = true; else if (raw == 0x1F) hold = false;
  }
  return false;
}
static bool row_has_mosaic_pattern(const uint8_t ch[40]) {
  bool mosaic = false;
  for (int c = 0; c < 40; c++) {
    int raw = ch[c] & 0x7F;
    if (raw >= 0x20) { if (mosaic && (raw & 0x20) && raw != 0x20) return true; }
    else if (raw <= 0x07) mosaic = false; else if (raw >= 0x10 && raw <= 0x17) mosaic = true;
  }
  return false;
}

// =============================================================== C02 ==========
struct C02 : World, TtxWorldBase {
  const char* name() const override { return "c02"; }
  const char* property() const override { return "C02"; }

  Plan generate(uint64_t seed, const std::string& tier) override {
    Plan p; p.world = name(); p.seed = seed;
    Rng r(seed, "plan");
    p.knobs["sched_seed"] = (int64_t)(r.next() >> 1);
    p.knobs["policy"] = (int64_t)r.below(3);
    p.knobs["pparam"] = (p.knobs["policy"] == 1) ? 30 + (int64_t)r.below(65) : (int64_t)r.below(4);
    p.knobs["serial"] = (int64_t)r.below(2);
    p.knobs["frame_max"] = 1 + (int64_t)r.below(16);
    int nmag = 1 + (int)r.below(8);
    int total = tier == "thorough" ? 10 + (int)r.below(60) : 5 + (int)r.below(30);
    // per magazine a small carousel so that pages are retransmitted (update histories)
    int car[8][4];
    for (int m = 0; m < 8; m++) for (int k = 0; k < 4; k++) car[m][k] = (int)r.below(99);
    // time filling headers (page number xFF, EN 300 706 9.3.1.3): legal headers which terminate the page in progress
    // like any other header and never are a page themselves.  Swarm: none / few / many; in the magazines that carry
    // pages, in otherwise unused magazines, or both.
    int fill_pct = (int)r.below(3) == 0 ? 0 : (r.chance(1, 2) ? 8 : 30);
    int fill_where = (int)r.below(3);  // 0 any of the eight magazines, 1 only magazines without pages (if any), 2 only magazines with pages
    for (int i = 0; i < total; i++) {
      if (fill_pct && (int)r.below(100) < fill_pct) {
        Op f; f.kind = "filler";
        f.task = fill_where == 2 ? (int)r.below((uint64_t)nmag) : fill_where == 1 && nmag < 8 ? nmag + (int)r.below((uint64_t)(8 - nmag)) : (int)r.below(8);
        f.a = {(int64_t)r.below(4), (int64_t)r.below(2), (int64_t)r.below(8)};  // subcode variant, erase flag, national option
        p.ops.push_back(f);
      }
      Op o; o.task = (int)r.below((uint64_t)nmag); o.kind = "page";
      int pg = car[o.task][r.below(1 + r.below(4))];
      int sub = r.chance(1, 2) ? 0 : 1 + (int)r.below(r.chance(1, 4) ? 79 : 3);
      // bit0 X/27/0, bit1 link control "row 24", bit2 send row 24, bit3 rows in random order, bit4 X/26 enhancement packets (Level 1.5),
      // bit5 the page may directly follow another subpage of the same page number (rolling subpages back to back)
      int flags = (int)r.below(64);
      o.a = {pg, sub, (int64_t)r.below(8), r.chance(1, 3) ? 1 : 0, (int64_t)r.below(1u << 30), flags, (int64_t)r.below(7)};
      p.ops.push_back(o);
    }
    // half of the stations identify themselves: 2-6 packets 8/30 format 1 with one CNI of the network table, sent by
    // a ninth source (task 8) at scheduler-chosen points between the packets of the magazines
    Rng rb(seed, "bsd");
    if (rb.chance(1, 2)) {
      p.knobs["station"] = 1 + (int64_t)rb.below(3);
      for (int i = 2 + (int)rb.below(5); i > 0; i--) { Op b; b.task = 8; b.kind = "bsd"; b.a = {(int64_t)rb.below(40)}; p.ops.push_back(b); }
    }
    return p;
  }

  // model
  std::map<int, StoredPage> store;  // key pgno<<8 | subkey
  OpenPage open_[8];
  int checked_pages = 0, interleaved = 0, updates = 0, fillers = 0, fillers_unused = 0, fillers_closing = 0, fillers_serial_foreign = 0, hold_rows = 0, hold_rows_after_mosaic = 0;
  int x26_sent = 0, l15_pages = 0, l15_pages_enh = 0, l15_pages_uncheckable = 0, l15_cells_checked = 0, l15_cells_unpredicted = 0, l15_cells_ignored_triplet = 0, l15_rows_skipped = 0;
  int last_mag = -1;

  void on_event(int pgno, int subno) override {
    int m = (pgno >> 8) & 7;
    OpenPage& o = open_[m];
    if (o.open && o.pgno == pgno && o.subno == subno) o.events++;
    else if (!(o.open && o.tainted)) {
      // an event for a page that is not the one in transmission in its magazine
      bool any_tainted = false; for (auto& x : open_) if (x.tainted) any_tainted = true;
      if (!any_tainted) ctx->fail("oracle:ttx-event-spurious", "page event %x.%x but magazine %d transmits %x.%x", pgno, subno, m ? m : 8, o.pgno, o.subno);
    }
  }
  // The station may identify itself (packet 8/30 format 1 with a CNI of the network table, op "bsd"): the decoder then
  // announces the network ONCE - the first identification of the station that has been transmitting all the time is no
  // network change, every page received before it stays what it was.  Any other NETWORK event is a change nobody made.
  int station_cni = 0, net_events = 0;
  void on_network() override {
    net_events++;
    if (station_cni && net_events == 1 && last_net.cni_8301 == station_cni && last_net.nuid != 0) { ctx->count("station_identified"); return; }
    ctx->fail("oracle:ttx-network-change", "VBI_EVENT_NETWORK (nuid %u, 8/30-1 CNI %x, #%d) raised although one network with a consistent header is transmitting", last_net.nuid, last_net.cni_8301, net_events);
  }

  static int subkey(int subno) { return subno & 0xFF; }

  void terminate(int m) {
    OpenPage& o = open_[m];
    if (!o.open) return;
    o.open = false;
    int key = (o.pgno << 8) | subkey(o.subno);
    StoredPage sp;
    bool had = store.count(key) && !o.erase;
    if (had) { sp = store[key]; updates++; }
    sp.subno = o.subno;
    memcpy(sp.img.rows[0] + 8, o.text, 32);
    for (auto& kv : o.rows) { memcpy(sp.img.rows[kv.first], kv.second.data(), 40); sp.img.have_row[kv.first] = true; }
    if (o.x27) { sp.have_flof = (o.lc >> 3) & 1; sp.links_valid = true; for (int i = 0; i < 6; i++) sp.links[i] = o.links[i]; }
    sp.nat = o.nat;
    // Level 1.5: what becomes of X/26 enhancement data when a later transmission of the page carries none, or fewer
    // packets, the statement does not say; the Level 1.5 view is compared only when the designation codes of this
    // transmission cover every one ever sent for this page
    { int ever = store.count(key) ? store[key].x26_mask : 0;
      sp.l15_checkable = (ever & ~o.x26_mask) == 0;
      sp.x26_mask = ever | o.x26_mask;
      sp.enh = o.enh; }
    sp.tainted = o.tainted || (had && store[key].tainted);
    store[key] = sp;
    if (ctx->failed || sp.tainted) return;
    check_page(o, sp);
  }

  void check_page(const OpenPage& o, const StoredPage& sp) {
    checked_pages++;
    if (o.events != 1) { ctx->fail("oracle:ttx-event-count", "page %x.%x terminated: %d page events delivered for this transmission (expected exactly 1)", o.pgno, o.subno, o.events); return; }
    vbi_page pg;
    vbi_bool ok;
    budget_begin("vbi_fetch_vt_page", 20000000);
    { SutScope ss; ok = vbi_fetch_vt_page(dec, &pg, o.pgno, o.subno, VBI_WST_LEVEL_1, 25, TRUE); }
    budget_end();
    if (!ok) { ctx->fail("oracle:ttx-not-cached", "page %x.%x was transmitted and terminated but cannot be fetched", o.pgno, o.subno); return; }
    if (pg.pgno != o.pgno || pg.subno != o.subno) { ctx->fail("oracle:ttx-number", "fetched %x.%x for transmitted %x.%x", pg.pgno, pg.subno, o.pgno, o.subno); return; }
    ttx::Cell grid[25][40];
    ttx::format_level1(sp.img, grid);
    bool navbar = sp.have_flof && !sp.img.have_row[24];
    if (ctx->verbose)
      for (int row = 0; row < 25; row++) {
        std::string a, b;
        for (int col = 0; col < 40; col++) { char t[8]; snprintf(t, sizeof t, "%02x ", sp.img.rows[row][col]); a += t; snprintf(t, sizeof t, "%x", pg.text[row * 41 + col].opacity); b += t; }
        fprintf(stderr, "    row %2d: %s | opacity %s\n", row, a.c_str(), b.c_str());
      }
    // lvl15: compare a Level 1.5 fetch; the cells X/26 column triplets address show the enhancement character, every
    // other cell and every attribute is the Level 1 one.  Rows with double height / width / size in them or in the
    // row above are left out at Level 1.5 when they are addressed (an enhancement character inside or below enlarged
    // characters is beyond the statement).
    auto compare = [&](const vbi_page& pg, bool lvl15) -> bool {
     const char* lv = lvl15 ? "level 1.5 " : "";
     for (int row = 0; row < 25; row++) {
      if (row == 24 && navbar) continue;  // replaced by the FLOF navigation bar
      if (lvl15) {
        bool addressed = false, sized = false;
        for (auto& kv : sp.enh) if (kv.first / 40 == row) addressed = true;
        for (int col = 0; col < 40; col++) { int a = sp.img.rows[row][col] & 0x7F; if (a >= 0x0D && a <= 0x0F) sized = true; if (row > 1) { int b = sp.img.rows[row - 1][col] & 0x7F; if (b == 0x0D || b == 0x0F) sized = true; } }
        if (addressed && sized) { l15_rows_skipped++; continue; }
      }
      for (int col = (row == 0 ? 8 : 0); col < 40; col++) {
        const ttx::Cell& e = grid[row][col];
        const vbi_char& a = pg.text[row * 41 + col];
        unsigned eu = e.mosaic >= 0 ? (unsigned)(0xEE00 + e.mosaic - (e.separated ? 0x20 : 0)) : g0_unicode(sp.nat, e.code);
        bool uni_ok = a.unicode == eu;
        if (!uni_ok && e.held_uncertain && (a.unicode == 0xEE20 || a.unicode == 0xEE00 || a.unicode == 0x20 || (a.unicode >= 0xEE00 && a.unicode < 0xEE80))) uni_ok = true;
        if (lvl15) {
          auto it = sp.enh.find(row * 40 + col);
          if (it != sp.enh.end() && it->second >= 0) {
            if (it->second == 0) { uni_ok = true; l15_cells_unpredicted++; }
            else {
              l15_cells_checked++;
              if (a.unicode != (unsigned)it->second) { ctx->fail("oracle:ttx-l15-char", "page %x.%x row %d col %d at Level 1.5: fetched U+%04X, the X/26 packet puts U+%04lX there", o.pgno, o.subno, row, col, a.unicode, it->second); return false; }
              uni_ok = true;
            }
          } else if (it != sp.enh.end()) l15_cells_ignored_triplet++;
        }
        if (!uni_ok) { ctx->fail(lvl15 ? "oracle:ttx-l15-other" : "oracle:ttx-char", "page %x.%x row %d col %d: %sfetched U+%04X, transmitted code 0x%02x -> expected U+%04X (national option %d)", o.pgno, o.subno, row, col, lv, a.unicode, e.mosaic >= 0 ? e.mosaic : e.code, eu, sp.nat); return false; }
        if ((int)a.foreground != e.fg || (int)a.background != e.bg) { ctx->fail(lvl15 ? "oracle:ttx-l15-other" : "oracle:ttx-colour", "page %x.%x row %d col %d: %scolours fg %d bg %d, expected fg %d bg %d", o.pgno, o.subno, row, col, lv, a.foreground, a.background, e.fg, e.bg); return false; }
        if ((bool)a.flash != e.flash) { ctx->fail(lvl15 ? "oracle:ttx-l15-other" : "oracle:ttx-flash", "page %x.%x row %d col %d: %sflash %d expected %d", o.pgno, o.subno, row, col, lv, a.flash, e.flash); return false; }
        if ((bool)a.conceal != e.conceal) { ctx->fail(lvl15 ? "oracle:ttx-l15-other" : "oracle:ttx-conceal", "page %x.%x row %d col %d: %sconceal %d expected %d", o.pgno, o.subno, row, col, lv, a.conceal, e.conceal); return false; }
        if ((int)a.size != e.size) { ctx->fail(lvl15 ? "oracle:ttx-l15-other" : "oracle:ttx-size", "page %x.%x row %d col %d: %ssize %d expected %d", o.pgno, o.subno, row, col, lv, a.size, e.size); return false; }
        if ((a.opacity != VBI_OPAQUE) != e.boxed) { ctx->fail(lvl15 ? "oracle:ttx-l15-other" : "oracle:ttx-box", "page %x.%x row %d col %d: %sopacity %d, expected boxed=%d", o.pgno, o.subno, row, col, lv, a.opacity, e.boxed); return false; }
      }
     }
     return true;
    };
    if (!compare(pg, false)) return;
    if (sp.l15_checkable) {
      vbi_page p15;
      budget_begin("vbi_fetch_vt_page", 20000000);
      { SutScope ss; ok = vbi_fetch_vt_page(dec, &p15, o.pgno, o.subno, VBI_WST_LEVEL_1p5, 25, TRUE); }
      budget_end();
      if (!ok) { ctx->fail("oracle:ttx-not-cached", "page %x.%x cannot be fetched at Level 1.5", o.pgno, o.subno); return; }
      l15_pages++; if (!sp.enh.empty()) l15_pages_enh++;
      if (!compare(p15, true)) return;
    } else l15_pages_uncheckable++;
    if (navbar && sp.links_valid) {
      for (int i = 0; i < 4; i++) {
        if (pg.nav_link[i].pgno != sp.links[i].pgno || pg.nav_link[i].subno != (sp.links[i].subno & 0x3F7F)) {
          ctx->fail("oracle:ttx-flof", "page %x.%x FLOF link %d: %x.%x, transmitted %x.%x", o.pgno, o.subno, i, pg.nav_link[i].pgno, pg.nav_link[i].subno, sp.links[i].pgno, sp.links[i].subno & 0x3F7F);
          return;
        }
      }
      int ip = sp.links[5].pgno;
      if (ip >= 0x100 && ip <= 0x899 && (ip & 0xFF) != 0xFF && (pg.nav_link[5].pgno != ip || pg.nav_link[5].subno != (sp.links[5].subno & 0x3F7F))) {
        ctx->fail("oracle:ttx-flof", "page %x.%x index link: %x.%x, transmitted %x.%x", o.pgno, o.subno, pg.nav_link[5].pgno, pg.nav_link[5].subno, ip, sp.links[5].subno & 0x3F7F);
        return;
      }
    }
    // wildcard fetch right after the reception returns the subpage just received
    vbi_page pw;
    { SutScope ss; ok = vbi_fetch_vt_page(dec, &pw, o.pgno, VBI_ANY_SUBNO, VBI_WST_LEVEL_1, 25, FALSE); }
    if (!ok || pw.subno != o.subno) { ctx->fail("oracle:ttx-wildcard", "wildcard fetch of %x after reception of subpage %x returned %s %x", o.pgno, o.subno, ok ? "subpage" : "nothing", ok ? pw.subno : 0); return; }
    int cached; { SutScope ss; cached = vbi_is_cached(dec, o.pgno, o.subno); }
    if (!cached) { ctx->fail("oracle:ttx-is-cached", "vbi_is_cached(%x,%x) false after reception", o.pgno, o.subno); return; }
    int hi; { SutScope ss; hi = vbi_cache_hi_subno(dec, o.pgno); }
    int want_hi = 0; bool hi_uncertain = false;  // a subpage abandoned by a header of the same page number may or may not have been stored
    for (auto& kv : store) if ((kv.first >> 8) == o.pgno) { if (kv.second.tainted) hi_uncertain = true; if (kv.second.subno > want_hi) want_hi = kv.second.subno; }
    if (hi != want_hi && !hi_uncertain) { ctx->fail("oracle:ttx-hi-subno", "vbi_cache_hi_subno(%x) = %x, highest subpage received %x", o.pgno, hi, want_hi); return; }
    ctx->log("checked %x.%x ok", o.pgno, o.subno);
  }

  void run(const Plan& plan, RunCtx& c) override {
    static bool warmed = false;
    if (!warmed) { warmed = true; vbi_decoder* d = vbi_decoder_new(); vbi_decoder_delete(d); }
    alloc_track_reset();
    ctx = &c; g = this;
    store.clear(); events.clear(); frame.clear(); ts = 5000.0;
    for (auto& o : open_) o = OpenPage();
    checked_pages = interleaved = updates = fillers = fillers_unused = fillers_closing = fillers_serial_foreign = hold_rows = hold_rows_after_mosaic = 0; last_mag = -1;
    x26_sent = l15_pages = l15_pages_enh = l15_pages_uncheckable = l15_cells_checked = l15_cells_unpredicted = l15_cells_ignored_triplet = l15_rows_skipped = 0;
    frame_max = (int)(plan.knob("frame_max", 4) % 17); if (frame_max < 1) frame_max = 1;
    bool serial = plan.knob("serial") & 1;
    static const int kCni8301[4] = {0, 0x4301, 0x4302, 0x430C};   // ORF eins, ORF 2, ATV (network-table.h)
    station_cni = kCni8301[llabs(plan.knob("station", 0)) % 4]; net_events = 0;
    Sched sched(c, (uint64_t)plan.knob("sched_seed", (int64_t)plan.seed), (Policy)(plan.knob("policy") % 3), (int)plan.knob("pparam"));
    open_decoder();
    std::vector<std::vector<const Op*>> per(8);
    bool has_pages[8] = {false, false, false, false, false, false, false, false};
    for (auto& op : plan.ops) if (op.kind == "page" || op.kind == "filler") { size_t t = (size_t)(((op.task % 8) + 8) % 8); per[t].push_back(&op); if (op.kind == "page") has_pages[t] = true; }
    int owner = -1; std::vector<Task*> waiters;
    auto page_begin = [&](int me) { while (serial && owner != -1 && owner != me && !c.failed) { waiters.push_back(sched.current()); sched.block(); } owner = me; };
    auto page_end = [&] { owner = -1; for (Task* t : waiters) sched.wake(t); waiters.clear(); };
    // emission of one packet: model first sees what was sent, then the decoder
    auto emit = [&](int m, const ttx::Packet& pk) {
      if (last_mag >= 0 && last_mag != m) interleaved++;
      last_mag = m;
      c.log("tx mag %d Y %d", m ? m : 8, pk.y);
      push(pk.b);
    };
    {
      std::vector<const Op*> bsd;
      for (auto& op : plan.ops) if (op.kind == "bsd") bsd.push_back(&op);
      if (station_cni && !bsd.empty()) sched.spawn("bsd", [&, bsd] {
        for (const Op* op : bsd) {
          for (int y = (int)(llabs(op->arg(0)) % 40); y > 0 && !c.failed; y--) sched.yield();
          if (c.failed) return;
          // packet 8/30 format 1 (EN 300 706 9.8.1): designation 0, initial page 100/3F7F, NI msb first, time offset 0,
          // MJD 50000 and UTC 00:00:00 (every digit + 1), status display
          ttx::Packet pk; memset(&pk, 0, sizeof pk); ttx::mrag(pk, 8, 30);
          static const unsigned ip[7] = {0, 0, 0, 0xF, 7 | 8, 0xF, 3};
          for (int i = 0; i < 7; i++) pk.b[2 + i] = tx::ham84(ip[i]);
          pk.b[9] = tx::rev8((uint8_t)(station_cni >> 8)); pk.b[10] = tx::rev8((uint8_t)station_cni);
          pk.b[11] = 0x81; pk.b[12] = 6; pk.b[13] = 0x11; pk.b[14] = 0x11; pk.b[15] = pk.b[16] = pk.b[17] = 0x11;
          pk.b[18] = pk.b[19] = pk.b[20] = pk.b[21] = 0x15;
          static const char status[21] = "ZSIM TEXT   STATION ";
          for (int i = 0; i < 20; i++) pk.b[22 + i] = tx::odd_parity((uint8_t)status[i]);
          c.log("tx 8/30 format 1 CNI %x", station_cni);
          c.count("bsd_packets");
          push(pk.b);
          sched.yield();
        }
      });
    }
    for (int m = 0; m < 8; m++) {
      if (per[(size_t)m].empty()) continue;
      sched.spawn("mag" + std::to_string(m), [&, m] {
        int mag = m ? m : 8;
        int prev_page = -1, prev_sub = -1;
        auto send_header = [&](int page, int subno, int nat, bool erase) {
          int pgno = mag * 256 + page;
          uint8_t text[32]; header_text(pgno, text);
          unsigned ctrl = ttx::ctrl_national(nat) | (erase ? ttx::C4_ERASE : 0) | (serial ? ttx::C11_SERIAL : 0);
          ttx::Packet h = ttx::header(mag, page, subno, ctrl, text);
          emit(m, h);
          // the header is in the decoder once its frame was decoded
          flush();
          OpenPage& o = open_[m];
          bool taint = false;
          if (o.open && o.pgno != pgno) terminate(m);
          else if (o.open && o.subno != subno) {
            // Another subpage of the same page number follows directly.  The page in progress was not "terminated by a
            // header carrying a different page number": whether it is stored the statement does not say (the decoder
            // stores it when it was sent with the erase flag or for the first time and abandons it otherwise) - its
            // store entry is uncertain from now on.  The page this header opens is an ordinary transmission: it will be
            // terminated by a header with another number and must then show its own rows, and where it is continued
            // from the cache, the previous content of ITS OWN subpage - nothing of the abandoned one.
            int key = (o.pgno << 8) | subkey(o.subno);
            store[key].tainted = true; store[key].subno = o.subno;
            c.count("same_pgno_other_subpage_follows");
          } else if (o.open) {  // same page and subpage again: the statement leaves this undefined; not checked
            o.tainted = true;
            int key = (o.pgno << 8) | subkey(o.subno);
            store[key].tainted = true; store[(pgno << 8) | subkey(subno)].tainted = true;
            c.count("same_pgno_consecutive_unchecked");
            taint = true;
          }
          o = OpenPage(); o.open = true; o.pgno = pgno; o.subno = subno; o.nat = nat; o.erase = erase; o.tainted = taint; memcpy(o.text, text, 32);
        };
        // time filling header mFF: a header like any other (it terminates the page in progress of its magazine; in
        // serial mode the decoder may complete pages of other magazines earlier), but it opens no page
        auto send_filler = [&](int variant, bool erase, int nat) {
          uint8_t text[32]; header_text(mag * 256 + 0xFF, text);
          static const int subs[4] = {0x3F7F, 0, 0x0001, 0x2359};
          unsigned ctrl = ttx::ctrl_national(nat) | (erase ? ttx::C4_ERASE : 0) | (serial ? ttx::C11_SERIAL : 0);
          ttx::Packet h = ttx::header(mag, 0xFF, subs[variant & 3], ctrl, text);
          fillers++;
          if (!has_pages[m]) fillers_unused++;
          if (serial && !has_pages[m]) for (int x = 0; x < 8; x++) if (x != m && open_[x].open && open_[x].events == 0) { fillers_serial_foreign++; break; }
          c.log("tx mag %d filler header", mag);
          emit(m, h);
          flush();
          OpenPage& o = open_[m];
          if (o.open) { fillers_closing++; terminate(m); }
          o = OpenPage();
        };
        for (const Op* op : per[(size_t)m]) {
          if (c.failed) return;
          if (op->kind == "filler") {
            page_begin(m);
            send_filler((int)(llabs(op->arg(0)) % 4), op->arg(1) & 1, (int)(llabs(op->arg(2)) % 8));
            page_end();
            prev_page = -1;  // P, filler, P again are two transmissions of P, each terminated by a header with another number
            sched.yield();
            continue;
          }
          int flags = (int)op->arg(5);
          int page = to_bcd((int)(llabs(op->arg(0)) % 99));
          // a page number either has subpages 01-79 or is always sent with subcode 0000 (EN 300 706 A.1); mixing
          // both for one page number is outside the statement (the single version replaces a subpage)
          auto sub_for = [&](int pg) { int s = to_bcd((int)(llabs(op->arg(1)) % 80)); if (pg & 1) s = 0; else if (s == 0) s = 1; return s; };
          bool back_to_back = (flags & 32) && page == prev_page && sub_for(page) != prev_sub;
          if (page == prev_page && !back_to_back) page = to_bcd((int)((llabs(op->arg(0)) + 1) % 99));
          prev_page = page;
          int sub = sub_for(page);
          prev_sub = sub;
          if (back_to_back) c.count("subpages_back_to_back");
          int nat = (int)(llabs(op->arg(2)) % 8);
          bool erase = op->arg(3) & 1;
          Rng r((uint64_t)op->arg(4), "content");
          page_begin(m);
          send_header(page, sub, nat, erase);
          sched.yield();
          // rows: which, in which order
          std::vector<int> ys;
          int density = (int)r.below(4);  // 0: few rows ... 3: all rows
          for (int y = 1; y <= 23; y++) if (density == 3 || r.below(4) <= (uint64_t)density) ys.push_back(y);
          if (flags & 4) ys.push_back(24);
          if (flags & 8) for (size_t i = ys.size(); i > 1; i--) std::swap(ys[i - 1], ys[r.below(i)]);
          int style = (int)(llabs(op->arg(6)) % 7);
          bool mosaic_above = false;
          size_t x27_at = (flags & 1) ? r.below(ys.size() + 1) : (size_t)-1;
          OpenPage& o = open_[m];
          // X/26 packets (Level 1.5 and some Level 2.5 triplets a Level 1.5 decoder must pass over): a legal stream -
          // rows ascending (row 0 first), columns ascending within a row, each position addressed once, termination
          // markers behind the last triplet, designation codes 0, 1 in order
          std::vector<ttx::Triplet> trip; std::map<int, long> enh; size_t x26_at[2] = {(size_t)-1, (size_t)-1}; int x26_packets = 0;
          if (flags & 16) {
            Rng rx((uint64_t)op->arg(4), "x26");
            size_t maxt = rx.chance(1, 3) ? 26 : 13;
            std::set<int> rs;
            int nr = 1 + (int)rx.below(4);
            for (int k = 0; k < nr; k++) rs.insert(ys.empty() || rx.chance(1, 5) ? 1 + (int)rx.below(24) : ys[rx.below(ys.size())]);
            if (rx.chance(1, 6)) rs.insert(0);
            for (int row : rs) {
              if (trip.size() + 2 > maxt) break;
              if (row == 0) trip.push_back({63, 0x07, 0});                       // address display row 0
              else trip.push_back({row == 24 ? 40 : 40 + row, 0x04, 0});        // set active position
              int col = row == 0 ? 8 + (int)rx.below(8) : (int)rx.below(12);
              int nc = 1 + (int)rx.below(4);
              for (int k = 0; k < nc && col < 40 && trip.size() < maxt; k++) {
                long expect;
                uint64_t kind = rx.below(20);
                if (kind < 8) { int d = 0x20 + (int)rx.below(0x60); trip.push_back({col, 0x0F, d}); expect = (long)g2_safe(d); }
                else if (kind < 15) {
                  static const char letters[] = "AEIOUYaeiouyCSZcszNnRrGgKkLlTtDdWwXxQq019*";
                  int acc = rx.chance(1, 6) ? 0 : (int)rx.below(16);
                  int d = rx.chance(5, 6) ? letters[rx.below(sizeof letters - 1)] : 0x20 + (int)rx.below(0x60);
                  trip.push_back({col, 0x10 + acc, d}); expect = (long)compose_safe(acc, d);
                } else if (kind < 16) { trip.push_back({col, 0x02, 0x20 + (int)rx.below(0x60)}); expect = 0; }   // G3 character: library-private code point
                else {
                  static const int l25[] = {0x00, 0x03, 0x07, 0x09, 0x01, 0x0B, 0x0C, 0x0D, 0x08, 0x0E};
                  int mode = l25[rx.below(sizeof l25 / sizeof l25[0])];
                  int d = mode == 0x00 || mode == 0x03 || mode == 0x07 ? (int)rx.below(32) : mode == 0x0D ? (int)rx.below(48) : 0x20 + (int)rx.below(0x60);
                  trip.push_back({col, mode, d}); expect = -1;
                }
                enh[row * 40 + col] = expect;
                col += 1 + (int)rx.below(10);
              }
            }
            while (trip.size() % 13 != 0 || trip.empty()) trip.push_back({0x3F, 0x1F, 0x7F});   // termination marker
            x26_packets = (int)(trip.size() / 13);
            if (c.verbose) for (auto& t : trip) fprintf(stderr, "    x26 triplet addr %2d mode %02x data %02x\n", t.address, t.mode, t.data);
            x26_at[0] = rx.below(ys.size() + 1);
            x26_at[1] = x26_at[0] + rx.below(ys.size() + 1 - x26_at[0]);
          }
          for (size_t i = 0; i <= ys.size(); i++) {
            if (c.failed) return;
            for (int k = 0; k < x26_packets; k++) if (i == x26_at[k]) {
              emit(m, ttx::x26(mag, k, trip.data() + 13 * k));
              o.x26_mask |= 1 << k; o.enh = enh; x26_sent++;
              sched.yield();
            }
            if (i == x27_at) {
              ttx::Link L[6];
              for (int k = 0; k < 6; k++) { L[k].pgno = (1 + (int)r.below(8)) * 256 + to_bcd((int)r.below(100)); L[k].subno = r.chance(1, 2) ? 0x3F7F : to_bcd((int)r.below(80)); }
              if (r.chance(1, 4)) L[5].pgno = (L[5].pgno & 0xF00) | 0xFF;
              int lc = ((flags & 2) ? 8 : 0) | (int)r.below(8);
              emit(m, ttx::x27_0(mag, L, lc));
              o.x27 = true; o.lc = lc; for (int k = 0; k < 6; k++) o.links[k] = L[k];
              sched.yield();
            }
            if (i == ys.size()) break;
            uint8_t chars[40];
            gen_row(r, r.chance(1, 3) ? (int)r.below(6) : style, chars);
            if (row_holds_before_first_mosaic(chars)) { hold_rows++; if (mosaic_above) hold_rows_after_mosaic++; }
            if (row_has_mosaic_pattern(chars)) mosaic_above = true;
            emit(m, ttx::row(mag, ys[i], chars));
            o.rows[ys[i]] = std::vector<uint8_t>(chars, chars + 40);
            sched.yield();
          }
          page_end();
          sched.yield();
        }
        // trailing header so that the last page of this magazine is terminated too
        if (!open_[m].open) return;
        page_begin(m);
        send_header(prev_page == 0x98 ? 0x97 : 0x98, 0, 0, true);
        page_end();
      });
    }
    int rc = sched.run(20000000);
    if (rc == 2) c.fail("harness:budget", "scheduler budget exhausted");
    flush();
    c.state(sched.interleaving_hash());
    { SutScope ss; vbi_decoder_delete(dec); dec = nullptr; }
    if (!c.failed && alloc_track_available() && alloc_live_blocks() != 0)
      c.fail("leak", "%zu blocks (%zu bytes; sizes %s) still allocated after vbi_decoder_delete", alloc_live_blocks(), alloc_live_bytes(), alloc_live_summary().c_str());
    c.count("pages_checked", checked_pages);
    c.count("page_updates_no_erase", updates);
    c.count("magazine_switches", interleaved);
    c.count("filler_headers", fillers);
    c.count("filler_headers_in_unused_magazine", fillers_unused);
    c.count("filler_headers_terminating_a_page", fillers_closing);
    c.count("filler_headers_unused_magazine_serial_other_page_pending", fillers_serial_foreign);
    c.count("x26_packets_sent", x26_sent);
    c.count("l15_pages_checked", l15_pages);
    c.count("l15_pages_with_x26", l15_pages_enh);
    c.count("l15_pages_uncheckable", l15_pages_uncheckable);
    c.count("l15_cells_checked", l15_cells_checked);
    c.count("l15_cells_unpredicted", l15_cells_unpredicted);
    c.count("l15_cells_level25_triplet_ignored", l15_cells_ignored_triplet);
    c.count("l15_rows_skipped_enlarged", l15_rows_skipped);
    c.count("rows_hold_before_first_mosaic", hold_rows);
    c.count("rows_hold_before_first_mosaic_below_mosaic_row", hold_rows_after_mosaic);
    c.nontrivial = checked_pages >= 3 && interleaved >= 2;
    c.sim_seconds = ts - 5000.0;
    g = nullptr;
  }
};
ZSIM_REGISTER_WORLD(C02)


// =============================================================== C03 ==========
// Fault enumeration over a recorded transmission.  Phase 1 records the packet
// sequence the multiplexer produces (no decoder involved).  Phase 2 decodes it
// fault-free (the twin) and once per fault; the oracle compares observables
// using the protection tag of the hit byte.
struct Obs {
  std::vector<std::pair<int, int>> events;
  std::map<int, uint64_t> page_hash;                       // key pgno<<16|subno (the FULL subpage number) -> hash of level 1 + 2.5 rendering
  std::map<int, std::vector<uint16_t>> row0;               // level-1 unicode of row 0
  std::map<int, std::vector<uint64_t>> row_hash;           // per row hash (both levels)
  std::map<int, uint64_t> nav_hash;                        // FLOF links + navigation row with navigation enabled
  bool operator==(const Obs& o) const { return events == o.events && page_hash == o.page_hash; }
};

struct C03 : World, TtxWorldBase {
  const char* name() const override { return "c03"; }
  const char* property() const override { return "C03"; }

  Plan generate(uint64_t seed, const std::string& tier) override {
    Plan p; p.world = name(); p.seed = seed;
    Rng r(seed, "plan");
    p.knobs["sched_seed"] = (int64_t)(r.next() >> 1);
    p.knobs["policy"] = (int64_t)r.below(3);
    p.knobs["pparam"] = (p.knobs["policy"] == 1) ? 30 + (int64_t)r.below(65) : (int64_t)r.below(4);
    p.knobs["serial"] = (int64_t)r.below(2);
    p.knobs["frame_max"] = 1 + (int64_t)r.below(8);
    bool enumerate = r.chance(1, tier == "thorough" ? 40 : 150);
    p.knobs["enumerate"] = enumerate;
    // transmission cycles: every magazine sends its carousel 1-3 times, so that the decoder receives pages it has
    // already cached - mostly without erase flag (the page is continued from the cached copy), with new or with
    // unchanged content - and a fault can hit the retransmission ("keeps its earlier content", "never replaces a
    // previously received good row", "abandons the pages in progress" all speak about such histories)
    int cycles = enumerate ? 1 + (int)r.below(2) : r.chance(1, 3) ? 1 : r.chance(3, 4) ? 2 : 3;
    p.knobs["cycles"] = cycles;
    p.knobs["one_network"] = 1; p.knobs["net_seed"] = (int64_t)(r.next() >> 1);
    int nmag = 1 + (int)r.below(enumerate ? 2 : 4);
    int total = enumerate ? (cycles == 1 ? 3 + (int)r.below(3) : 2 + (int)r.below(2)) : cycles == 1 ? 4 + (int)r.below(12) : cycles == 2 ? 3 + (int)r.below(7) : 2 + (int)r.below(5);
    // subpage runs: an op may continue with the next subpage of the page of the op before it (same magazine), i.e. two
    // headers with the same page number follow each other directly in their magazine.  Swarm: never / sometimes / often
    int run_pct = r.chance(2, 5) ? 0 : r.chance(1, 2) ? 25 : 60;
    int car[8][3];
    for (int m = 0; m < 8; m++) for (int k = 0; k < 3; k++) car[m][k] = (int)r.below(99);
    for (int i = 0; i < total; i++) {
      Op o; o.task = (int)r.below((uint64_t)nmag); o.kind = "page";
      int pg = car[o.task][r.below(1 + r.below(3))];
      // flags: bit0 X/27/0, bit1 lc, bit2 row 24, bit3 random order, bit4 X/26 enhancement, bit5 X/28/0, bit6 followed by an 8/30 packet
      // bit7 X/26 with the full mix of column triplet modes (character replacing and not) addressing transmitted rows
      int flags = (int)r.below(256);
      if ((flags & 1) && r.chance(1, 2)) flags |= 6;   // half of the pages with X/27/0 are complete FLOF pages: link control "row 24 displayed" and a row 24
      // a[8]: 0 = subcodes as in C02 (0000 or 01-79); else page numbers ending in 3, 7, 9 are clock pages with the
      // four digit subcode hh:mm (S3/S4 non-zero), hours 01-22
      int64_t clock = r.chance(1, 4) ? 0 : 1 + (int64_t)r.below(22 * 60);
      int64_t sub = 1 + (int64_t)r.below(3);
      // a[3]: erase flag C4, bit c = in cycle c (retransmissions mostly come without)
      int64_t erase = (r.chance(1, 3) ? 1 : 0) | (r.chance(1, 4) ? 2 : 0) | (r.chance(1, 4) ? 4 : 0);
      // a[9]: bit0 the page may directly follow another subpage of the same page number (subpages 01-79 back to back),
      //       bit1 the retransmissions in later cycles repeat the content of the first cycle unchanged
      int64_t more = (r.chance(1, 4) ? 1 : 0) | (r.chance(1, 4) ? 2 : 0);
      if (i > 0 && (int)r.below(100) < run_pct) {
        Op& prev = p.ops.back();
        prev.a[0] &= ~(int64_t)1;   // page numbers with an even last digit have subpages 01-79
        o.task = prev.task; pg = (int)prev.a[0]; sub = prev.a[1] % 3 + 1; more |= 1;
      }
      o.a = {pg, sub, (int64_t)r.below(8), erase, (int64_t)r.below(1u << 30), flags, (int64_t)r.below(6), enumerate ? 1 + (int64_t)r.below(5) : (int64_t)r.below(24), clock, more};
      // a[10]: the other control bits of the header, the same in every cycle (C5 newsflash, C6 subtitle, C7 suppress header, C8 update
      // indicator, C9 interrupted sequence, C10 inhibit display; absent in older replay files: none): they change how the page is
      // presented, never whether or under which number it is stored or how errors are treated
      { Rng rc((uint64_t)o.a[4], "ctrl"); if (rc.chance(1, 3)) o.a.push_back((int64_t)(rc.below(64) << 5)); }
      p.ops.push_back(o);
    }
    if (!enumerate) {
      // faulted decodes are cheap next to the enumerating runs: several independent faults per transmission
      int nf = cycles == 1 ? 1 + (int)r.below(3) : 3 + (int)r.below(6);
      for (int i = 0; i < nf; i++) {
        Op f; f.task = 8; f.kind = "fault";
        // kind: 0 single bit, 1 two bits in one byte, 2 two bits in different bytes, 3 burst, 4 drop packet,
        //       5 two bits in one of the page number / subcode / control bytes of a header,
        //       6 one bit in a text row character at a position addressed by an X/26 column triplet
        //       7 two bits in the designation code of an X/26-29 packet or the link control byte of an X/27 packet
        //       8 one bit in a protected byte of a packet drawn by PACKET TYPE (a[6]: header, row 1-23, row 24, X/26,
        //         X/27, X/28, 8/30 - each type as often as any other, however few packets of it there are)
        //       9 two bits in a page number / subcode / control byte of a header drawn by the HISTORY of its page (a[6]:
        //         first transmission, retransmission without / with erase flag, directly behind / in front of a
        //         header with the same page number)
        // a[5] bit0: the fault hits a packet of a later cycle (a retransmission) if there is one
        // a[7] bit0: kinds 0-4 draw their packet by packet type as well (a[6]) instead of uniformly over the transmission
        f.a = {(int64_t)r.below(10), (int64_t)r.below(1000), (int64_t)r.below(336), (int64_t)r.below(336), 2 + (int64_t)r.below(15), (int64_t)r.below(2), (int64_t)r.below(35), (int64_t)r.below(2)};
        p.ops.push_back(f);
      }
    }
    return p;
  }

  // sub, erase, cycle: subcode and erase flag of the transmission the packet belongs to, carousel cycle it was sent in
  struct Rec { ttx::Packet pk; int mag; int page_seq; bool page_has_x26; int pgno; int sub = 0; bool erase = false; int cycle = 0; };
  // A second VBI_EVENT_NETWORK within one decode of this run (the first one identifies the network, nothing is dropped
  // then): the decoder took an 8/30 packet for ANOTHER network and has dropped its cache - a channel switch, outside
  // the statement.  The two clauses which reason about what the cache holds from earlier transmissions are not applied
  // to such a run.  (Cannot happen with knob one_network; practically never without.)
  int network_events = 0, net_in_decode = 0;
  void on_network() override { if (++net_in_decode >= 2) network_events++; }
  // one transmission of a page = header + the packets up to the next header (page_seq is the index into txs)
  struct Tx { int hdr = -1, pgno = 0, sub = 0, mag = 0, cycle = 0; bool erase = false; int term_hdr = -1; int term_pgno = -1; int prev_pgno = -1; std::map<int, int> rows; };
  std::vector<Tx> txs;
  std::set<int> transmitted;  // pgno<<16|subno, the full subpage number S1..S4 as transmitted
  // per page number: positions (row*40+column) of Level 1 characters which X/26 enhancement data of any transmission
  // of that page overrides ("positions overridden by X/26 enhancement data excepted")
  std::map<int, std::set<int>> x26_override;
  // (packet index, byte index) of text row characters addressed by an X/26 column triplet of whatever mode, same transmission
  std::vector<std::pair<int, int>> x26_addressed;
  static int pkey(int pgno, int subno) { return (pgno << 16) | (subno & 0xFFFF); }
  static int pgno_of(int mag, int page) { return mag * 256 + page; }

  // Follows the active position through the triplets of one X/26 packet as EN 300 706 12.3 describes it: row address
  // triplets (address 40-63) of mode 0x04 (set active position) and 0x01 (full row colour) select the row (address 40 =
  // row 24), mode 0x07 selects row 0; column triplets (address 0-39) act on that row.  A row address lower than the
  // current row is read both ways (moves the position / is ignored: the standard wants ascending order), both rows count.
  // replacing = modes which put another character at the position: 0x01 0x02 0x0B mosaics, 0x09 G0, 0x0D DRCS,
  // 0x0F G2, 0x10-0x1F composed characters; 0x08 (character set designation) is counted too: the glyph shown at
  // that position no longer is the one the Level 1 code alone selects.
  static void x26_positions(const ttx::Triplet t[13], std::set<int>* replacing, std::set<int>* addressed) {
    int row_a = 0, row_b = 0;  // a: every row address taken, b: ascending only
    for (int k = 0; k < 13; k++) {
      int ad = t[k].address & 0x3F, mode = t[k].mode & 0x1F;
      if (ad >= 40) {
        if (mode == 0x1F) break;  // termination marker
        int row = -1;
        if (mode == 0x04 || mode == 0x01) row = ad == 40 ? 24 : ad - 40;
        else if (mode == 0x07) row = 0;
        if (row >= 0) { row_a = row; if (row >= row_b || row == 0) row_b = row; }
        continue;
      }
      bool repl = mode == 0x01 || mode == 0x02 || mode == 0x08 || mode == 0x09 || mode == 0x0B || mode == 0x0D || mode == 0x0F || mode >= 0x10;
      for (int row : {row_a, row_b}) {
        if (addressed) addressed->insert(row * 40 + ad);
        if (repl && replacing) replacing->insert(row * 40 + ad);
      }
    }
  }

  // ---- phase 1: record the transmission
  void record(const Plan& plan, RunCtx& c, std::vector<Rec>& out) {
    bool serial = plan.knob("serial") & 1;
    int cycles = (int)(llabs(plan.knob("cycles", 1)) % 4); if (cycles < 1) cycles = 1;   // absent (older replay files): one cycle
    Sched sched(c, (uint64_t)plan.knob("sched_seed", (int64_t)plan.seed), (Policy)(plan.knob("policy") % 3), (int)plan.knob("pparam"));
    std::vector<std::vector<const Op*>> per(8);
    for (auto& op : plan.ops) if (op.kind == "page") per[(size_t)(((op.task % 8) + 8) % 8)].push_back(&op);
    int owner = -1; std::vector<Task*> waiters; int page_seq = 0;
    auto page_begin = [&](int me) { while (serial && owner != -1 && owner != me) { waiters.push_back(sched.current()); sched.block(); } owner = me; };
    auto page_end = [&] { owner = -1; for (Task* t : waiters) sched.wake(t); waiters.clear(); };
    for (int m = 0; m < 8; m++) {
      if (per[(size_t)m].empty()) continue;
      sched.spawn("mag" + std::to_string(m), [&, m] {
        int mag = m ? m : 8; int prev_page = -1, prev_sub = -1;
        // the transmission in progress in this magazine (every packet record carries its subcode, erase flag, cycle)
        int cur_seq = -1, cur_pgno = 0, cur_sub = 0, cur_cycle = 0; bool cur_erase = false, cur_x26 = false;
        auto add = [&](const ttx::Packet& pk) { Rec rc{pk, m, cur_seq, cur_x26, cur_pgno}; rc.sub = cur_sub; rc.erase = cur_erase; rc.cycle = cur_cycle; out.push_back(rc); };
        auto hdr = [&](int page, int sub, int nat, bool erase, int seq, bool x26, int cycle, unsigned more_ctrl = 0) {
          int pgno = mag * 256 + page; uint8_t text[32]; header_text(pgno, text);
          unsigned ctrl = ttx::ctrl_national(nat) | (erase ? ttx::C4_ERASE : 0) | (serial ? ttx::C11_SERIAL : 0) | more_ctrl;
          cur_seq = seq; cur_pgno = pgno; cur_sub = sub; cur_cycle = cycle; cur_erase = erase; cur_x26 = x26;
          add(ttx::header(mag, page, sub, ctrl, text));
          transmitted.insert(pkey(pgno, sub));
        };
        for (int cyc = 0; cyc < cycles; cyc++)
        for (const Op* op : per[(size_t)m]) {
          int more = (int)op->arg(9);
          // clock pages: subcode hh:mm in S4 S3 : S2 S1 (EN 300 706 A.1), valid BCD digits, hours 01-22 (the cache
          // files 23:01-23:59 under subpage 0, a documented oddity the statement does not cover)
          auto sub_for = [&](int page) {
            int sub = to_bcd((int)(llabs(op->arg(1)) % 80));
            if (page & 1) sub = 0; else if (sub == 0) sub = 1;
            int64_t clk = llabs(op->arg(8));
            if (clk != 0 && ((page & 15) == 3 || (page & 15) == 7 || (page & 15) == 9)) {
              int hh = 1 + (int)((clk - 1) % 22), mm = (int)(((clk - 1) / 22) % 60);
              sub = (to_bcd(hh) << 8) | to_bcd(mm);
            }
            return sub;
          };
          int page = to_bcd((int)(llabs(op->arg(0)) % 99));
          // subpages back to back: another subpage (01-79) of the page number just sent follows directly.  What becomes of
          // the subpage in progress the statement leaves open (see C02); the differential oracle does not care, the
          // twin is the same decoder.  Same page number and same subcode twice in a row is never sent.
          bool back_to_back = (more & 1) && page == prev_page && sub_for(page) != prev_sub && sub_for(page) < 0x100 && prev_sub > 0 && prev_sub < 0x100;
          if (page == prev_page && !back_to_back) page = to_bcd((int)((llabs(op->arg(0)) + 1) % 99));
          prev_page = page;
          int sub = sub_for(page);
          prev_sub = sub;
          if (back_to_back) c.count("subpages_back_to_back");
          int nat = (int)(llabs(op->arg(2)) % 8); bool erase = (op->arg(3) >> cyc) & 1;
          // later cycles: new content (same structure: the flags are those of the op) unless the op says "unchanged"
          Rng r((uint64_t)op->arg(4) + ((more & 2) ? 0 : (uint64_t)cyc * 1000003u), "content"); int flags = (int)op->arg(5);
          int seq = page_seq++; bool x26 = flags & 16;
          page_begin(m);
          hdr(page, sub, nat, erase, seq, x26, cyc, (unsigned)(llabs(op->arg(10)) & (ttx::C5_NEWSFLASH | ttx::C6_SUBTITLE | ttx::C7_SUPPRESS | ttx::C8_UPDATE | ttx::C9_INTERRUPTED | ttx::C10_INHIBIT)));
          sched.yield();
          int nrows = (int)(llabs(op->arg(7)) % 24);
          std::vector<int> ys;
          for (int y = 1; y <= 23 && (int)ys.size() < nrows; y++) if (r.chance(2, 3)) ys.push_back(y);
          if (flags & 4) ys.push_back(24);
          if (flags & 8) for (size_t i = ys.size(); i > 1; i--) std::swap(ys[i - 1], ys[r.below(i)]);
          int style = (int)(llabs(op->arg(6)) % 6);
          std::map<int, int> row_packet;  // row -> index of its packet in this transmission
          for (int y : ys) { uint8_t ch[40]; gen_row(r, style, ch); row_packet[y] = (int)out.size(); add(ttx::row(mag, y, ch)); sched.yield(); }
          if (x26) {
            ttx::Triplet t[13];
            bool full = flags & 128;
            // full mix: the active position is put on rows which are transmitted, so that a parity error can hit an addressed character
            auto pick_row = [&]() { return full && !ys.empty() && r.chance(7, 8) ? ys[r.below(ys.size())] : 1 + (int)r.below(23); };
            auto row_addr = [](int row) { return row == 24 ? 40 : 40 + row; };
            int row = pick_row();
            t[0] = {row_addr(row), 0x04, 0};  // set active position
            for (int k = 1; k < 13; k++) {
              if (!full) {
                switch (r.below(4)) {
                  case 0: t[k] = {(int)r.below(40), 0x0F, 0x20 + (int)r.below(0x60)}; break;       // G2 character
                  case 1: t[k] = {(int)r.below(40), 0x10 + (int)r.below(16), 0x41 + (int)r.below(26)}; break;  // diacritical
                  case 2: t[k] = {(int)r.below(40), 0x00, (int)r.below(32)}; break;               // foreground colour
                  default: t[k] = {40 + 1 + (int)r.below(23), 0x04, (int)r.below(40)}; break;       // set active position
                }
                continue;
              }
              switch (r.below(8)) {
                case 0: case 1: case 2: case 3: {
                  // column triplets which address a position but leave the Level 1 character in place: foreground colour,
                  // background colour, additional flash functions, reserved/PDC 0x0A, display attributes, font style
                  static const int nonchar[] = {0x00, 0x03, 0x07, 0x0A, 0x0C, 0x0E, 0x0C, 0x0E};
                  int mode = nonchar[r.below(sizeof nonchar / sizeof nonchar[0])];
                  int data = mode == 0x00 || mode == 0x03 || mode == 0x07 ? (int)r.below(32) : (int)r.below(128);
                  t[k] = {(int)r.below(40), mode, data}; break;
                }
                case 4: {
                  // character replacing column triplets
                  static const int chr[] = {0x01, 0x02, 0x09, 0x0B, 0x0F, 0x0F, 0x08, 0x10, 0x11, 0x12, 0x14, 0x18, 0x1F};
                  int mode = chr[r.below(sizeof chr / sizeof chr[0])];
                  int data = mode == 0x08 ? (int)r.below(128) : mode >= 0x10 ? 0x41 + (int)r.below(26) : 0x20 + (int)r.below(0x60);
                  t[k] = {(int)r.below(40), mode, data}; break;
                }
                case 5: row = pick_row(); t[k] = {row_addr(row), 0x04, (int)r.below(40)}; break;   // set active position
                case 6: row = pick_row(); t[k] = {row_addr(row), 0x01, (int)r.below(128)}; break;  // full row colour (moves the active position too)
                default:
                  if (r.chance(1, 4)) t[k] = {63, 0x07, (int)r.below(32)};                         // address display row 0
                  else t[k] = {40, 0x00, (int)r.below(32)};                                       // full screen colour (no position change)
                  break;
              }
            }
            t[12] = {0x3F, 0x1F, 0x7F};  // termination marker
            x26_positions(t, &x26_override[pgno_of(mag, page)], nullptr);
            std::set<int> addressed; x26_positions(t, nullptr, &addressed);
            for (int pos : addressed) { auto it = row_packet.find(pos / 40); if (it != row_packet.end()) x26_addressed.push_back({it->second, 2 + pos % 40}); }
            add(ttx::x26(mag, 0, t)); sched.yield();
          }
          if (flags & 1) {
            ttx::Link L[6];
            for (int k = 0; k < 6; k++) { L[k].pgno = (1 + (int)r.below(8)) * 256 + to_bcd((int)r.below(100)); L[k].subno = r.chance(1, 2) ? 0x3F7F : to_bcd((int)r.below(80)); }
            add(ttx::x27_0(mag, L, ((flags & 2) ? 8 : 0) | (int)r.below(8))); sched.yield();
          }
          if (flags & 32) {
            uint32_t tr[13];
            tr[0] = 0;  // page function LOP, coding 0
            for (int k = 1; k < 13; k++) tr[k] = (uint32_t)r.below(1u << 18);
            add(ttx::x28(mag, 0, tr)); sched.yield();
          }
          page_end();
          if (flags & 64) {
            // 8/30 format 2: all Hamming 8/4 protected, status display with parity
            // One network transmits: with knob one_network every 8/30 packet of the run carries the same identification
            // (initial page, CNI, PDC fields); only the status display text varies.  Without the knob (older replay files,
            // one cycle only) the identification is drawn per packet; two equal ones in a row, which the decoder would take
            // for a new network (it then drops its cache: a channel switch, outside the statement), practically never occur.
            ttx::Packet p; memset(&p, 0, sizeof p); ttx::mrag(p, 8, 30);
            p.b[2] = tx::ham84(2); p.tag[2] = ttx::H84;
            Rng rn((uint64_t)plan.knob("net_seed"), "network");
            for (int k = 3; k < 22; k++) { unsigned v = (unsigned)r.below(16), n = (unsigned)rn.below(16); p.b[k] = tx::ham84(plan.knob("one_network") ? n : v); p.tag[k] = ttx::H84; }
            for (int k = 22; k < 42; k++) { p.b[k] = tx::odd_parity((uint8_t)(0x20 + r.below(0x5F))); p.tag[k] = ttx::PAR; }
            Rec rc{p, 0, -1, false, 0}; rc.cycle = cyc; out.push_back(rc);
          }
          sched.yield();
        }
        page_begin(m);
        hdr(prev_page == 0x98 ? 0x97 : 0x98, 0, 0, true, page_seq++, false, cycles - 1);
        page_end();
      });
    }
    sched.run(20000000);
    c.state(sched.interleaving_hash());
    // index of the transmissions (transmitter side knowledge: what was sent when, nothing of the decoder)
    txs.assign((size_t)page_seq, Tx());
    for (size_t i = 0; i < out.size(); i++) {
      const Rec& rc = out[i];
      if (rc.page_seq < 0 || rc.page_seq >= page_seq) continue;
      Tx& t = txs[(size_t)rc.page_seq];
      if (rc.pk.y == 0) { t.hdr = (int)i; t.pgno = rc.pgno; t.sub = rc.sub; t.mag = rc.mag; t.cycle = rc.cycle; t.erase = rc.erase; }
      else if (rc.pk.y >= 1 && rc.pk.y <= 25) t.rows[rc.pk.y] = (int)i;
    }
    // the header which ends a transmission: the next header of its magazine, in serial mode the next header of any
    // magazine (EN 300 706 9.3.1.3 / B.6)
    for (auto& t : txs) {
      if (t.hdr < 0) continue;
      for (size_t i = (size_t)t.hdr + 1; i < out.size(); i++)
        if (out[i].pk.y == 0 && out[i].page_seq >= 0 && (serial || out[i].mag == t.mag)) { t.term_hdr = (int)i; t.term_pgno = out[i].pgno; txs[(size_t)out[i].page_seq].prev_pgno = t.pgno; break; }
    }
  }

  // ---- phase 2: decode a packet list and observe
  uint64_t decodes = 0;
  // skip: index of a packet that is not sent (-1 none); skipset: further packets not sent; repl_k / repl: packet repl_k
  // is sent with these 42 bytes instead of its own
  Obs decode(const std::vector<Rec>& L, int skip, const std::vector<std::pair<int, int>>& flips, const std::set<int>* skipset = nullptr, int repl_k = -1, const uint8_t* repl = nullptr) {
    events.clear(); frame.clear(); ts = 5000.0; net_in_decode = 0;
    open_decoder();
    for (size_t k = 0; k < L.size(); k++) {
      if ((int)k == skip) continue;
      if (skipset && skipset->count((int)k)) continue;
      uint8_t b[42]; memcpy(b, (int)k == repl_k && repl ? repl : L[k].pk.b, 42);
      for (auto& f : flips) if (f.first == (int)k) b[(f.second / 8) % 42] ^= (uint8_t)(1 << (f.second % 8));
      push(b);
      if (L[k].pk.y == 0) flush();
    }
    flush();
    decodes++;
    Obs o; o.events = events;
    for (int pgno = 0x100; pgno <= 0x8FF; pgno++) {
      int any; { SutScope ss; any = vbi_is_cached(dec, pgno, VBI_ANY_SUBNO); }
      if (!any) continue;
      int hi; { SutScope ss; hi = vbi_cache_hi_subno(dec, pgno); }
      // candidate subpage numbers (the full 14 bit number): 0-79 up to the highest the cache reports, that highest
      // number itself, every number a page event of this page carried, every number transmitted for this page, and
      // the version a wildcard lookup finds
      std::set<int> cand;
      for (int s = 0; s <= hi && s <= 0x79; s++) cand.insert(s);
      if (hi >= 0 && hi <= 0x3F7F) cand.insert(hi);
      for (auto& e : events) if (e.first == pgno) cand.insert(e.second & 0x3F7F);
      for (auto it = transmitted.lower_bound(pkey(pgno, 0)); it != transmitted.end() && (*it >> 16) == pgno; ++it) cand.insert(*it & 0xFFFF);
      { vbi_page pw; vbi_bool ok; { SutScope ss; ok = vbi_fetch_vt_page(dec, &pw, pgno, VBI_ANY_SUBNO, VBI_WST_LEVEL_1, 25, FALSE); } if (ok) cand.insert(pw.subno & 0x3F7F); }
      for (int s : cand) {
        int cached; { SutScope ss; cached = vbi_is_cached(dec, pgno, s); }
        if (!cached) continue;
        vbi_page pg; Fnv h; std::vector<uint64_t> rows;
        for (int lvl = 0; lvl < 2; lvl++) {
          vbi_bool ok;
          budget_begin("vbi_fetch_vt_page", 30000000);
          { SutScope ss; ok = vbi_fetch_vt_page(dec, &pg, pgno, s, lvl ? VBI_WST_LEVEL_2p5 : VBI_WST_LEVEL_1, 25, FALSE); }
          budget_end();
          h.u64((uint64_t)ok);
          if (!ok) continue;
          if (pg.subno != s && s != 0) continue;  // lookup by key returned another version
          for (int row = 0; row < 25; row++) {
            Fnv rh;
            for (int col = 0; col < 40; col++) {
              const vbi_char& a = pg.text[row * 41 + col];
              uint64_t v = (uint64_t)a.unicode | ((uint64_t)a.foreground << 16) | ((uint64_t)a.background << 24) | ((uint64_t)a.size << 32) | ((uint64_t)a.opacity << 40) |
                           ((uint64_t)a.flash << 48) | ((uint64_t)a.conceal << 49) | ((uint64_t)a.underline << 50) | ((uint64_t)a.bold << 51) | ((uint64_t)a.italic << 52);
              rh.u64(v);
              if (lvl == 0 && row == 0) o.row0[pkey(pgno, s)].push_back(a.unicode);
            }
            h.u64(rh.h); rows.push_back(rh.h);
          }
        }
        // the FLOF links as the navigation shows them (they are part of "the decoder state and fetched pages")
        { vbi_bool ok;
          budget_begin("vbi_fetch_vt_page", 30000000);
          memset(&pg, 0, sizeof pg);   // vbi_fetch_vt_page leaves nav_link[] entries it has no link for untouched
          { SutScope ss; ok = vbi_fetch_vt_page(dec, &pg, pgno, s, VBI_WST_LEVEL_1, 25, TRUE); }
          budget_end();
          if (ok && (pg.subno == s || s == 0)) {
            Fnv nh;
            for (int i = 0; i < 6; i++) { if (i == 4) continue; nh.u64((uint64_t)pg.nav_link[i].pgno); nh.u64((uint64_t)pg.nav_link[i].subno); }
            for (int col = 0; col < 40; col++) nh.u64((uint64_t)pg.text[24 * 41 + col].unicode | ((uint64_t)pg.text[24 * 41 + col].foreground << 16));
            o.nav_hash[pkey(pgno, s)] = nh.h;
            if (ctx->verbose) { fprintf(stderr, "    nav %x.%x:", pgno, s); for (int i = 0; i < 6; i++) fprintf(stderr, " %x.%x", pg.nav_link[i].pgno, pg.nav_link[i].subno); fprintf(stderr, " |"); for (int col = 0; col < 40; col++) fprintf(stderr, "%c", pg.text[24 * 41 + col].unicode < 127 && pg.text[24 * 41 + col].unicode >= 32 ? (char)pg.text[24 * 41 + col].unicode : '?'); fprintf(stderr, "|\n"); }
          } }
        o.page_hash[pkey(pgno, s)] = h.h;
        o.row_hash[pkey(pgno, s)] = rows;
      }
    }
    { SutScope ss; vbi_decoder_delete(dec); dec = nullptr; }
    return o;
  }

  // with_nav: also the FLOF links and the navigation row (not for the parity-row rule: a rejected row 24 may or may not
  // make room for the generated navigation bar, the statement only says the row keeps its content or stays blank)
  std::string diff(const Obs& a, const Obs& b, bool with_nav = true) {
    char t[256];
    if (a.events != b.events) { snprintf(t, sizeof t, "page events differ (%zu vs %zu)", a.events.size(), b.events.size()); return t; }
    for (auto& kv : a.page_hash) { auto it = b.page_hash.find(kv.first); if (it == b.page_hash.end()) { snprintf(t, sizeof t, "page %x.%x cached only with the fault", kv.first >> 16, kv.first & 0xFFFF); return t; } if (it->second != kv.second) { snprintf(t, sizeof t, "page %x.%x renders differently", kv.first >> 16, kv.first & 0xFFFF); return t; } }
    for (auto& kv : b.page_hash) if (!a.page_hash.count(kv.first)) { snprintf(t, sizeof t, "page %x.%x missing with the fault", kv.first >> 16, kv.first & 0xFFFF); return t; }
    if (with_nav) for (auto& kv : a.nav_hash) { auto it = b.nav_hash.find(kv.first); if (it == b.nav_hash.end() || it->second != kv.second) { snprintf(t, sizeof t, "page %x.%x has other FLOF links / navigation row", kv.first >> 16, kv.first & 0xFFFF); return t; } }
    return "";
  }

  bool only_transmitted(const Obs& o, RunCtx& c, const char* what) {
    // "no page is ever stored under a page or subpage number other than one that was transmitted": the full subpage number counts
    for (auto& kv : o.page_hash) if (!transmitted.count(kv.first)) { c.fail("oracle:c03-wrong-number", "%s: page %x.%04x is cached but was never transmitted", what, kv.first >> 16, kv.first & 0xFFFF); return false; }
    for (auto& e : o.events) if (!transmitted.count(pkey(e.first, e.second))) { c.fail("oracle:c03-wrong-number", "%s: page event %x.%04x for a page never transmitted", what, e.first, e.second); return false; }
    return true;
  }

  // The content the cache holds for the text row of packet k before the transmission this packet belongs to, as the
  // TRANSMITTER knows it: index of the packet which carried it, -1 when there is none or it is not certain.
  // Certain = the row was sent in an earlier transmission of the same page and subpage which was terminated by a header
  // with another page number (an ordinary, completed transmission; what becomes of a subpage which another subpage of
  // the same number follows directly is open, see C02), no completed transmission with the erase flag came in between,
  // and this transmission itself has no erase flag (with C4 the row "stays blank", the older comparison covers that).
  // Page numbers kept in one version (subcode 0000 or a clock hh:mm): any other subcode in between makes it uncertain.
  std::map<int, Obs> repeated;   // packet index -> decode with that packet replaced by the earlier row
  int earlier_row(const std::vector<Rec>& L, int k) const {
    const Rec& rc = L[(size_t)k];
    if (rc.page_seq < 0 || (size_t)rc.page_seq >= txs.size()) return -1;
    const Tx& t = txs[(size_t)rc.page_seq];
    int y = rc.pk.y;
    if (t.hdr < 0 || t.erase) return -1;
    auto one_version = [](int sub) { return sub == 0 || sub >= 0x100; };
    int state = -1;  // -1 none, -2 unknown, >= 0 packet index
    for (const Tx& u : txs) {
      if (u.hdr < 0 || u.hdr >= t.hdr || u.pgno != t.pgno) continue;
      if (u.sub != t.sub) { if (one_version(u.sub) || one_version(t.sub)) state = -2; continue; }
      bool certain = u.term_pgno >= 0 && u.term_pgno != u.pgno && u.term_hdr < t.hdr + 1;
      auto it = u.rows.find(y);
      if (certain) { if (u.erase) state = -1; if (it != u.rows.end()) state = it->second; }
      else if (u.erase || it != u.rows.end()) state = -2;
    }
    return state >= 0 ? state : -1;
  }

  // "A packet whose address or control bytes are uncorrectable changes nothing - an uncorrectable header only abandons
  // the pages in progress."  Header k has an uncorrectable page number, subcode or control byte.  The decoder cannot
  // know which page the packets behind it belong to: that transmission (header and its packets) must leave no trace,
  // and of the pages in progress when the header arrived each is either completed as in the fault-free run or
  // abandoned (the statement allows to abandon them, it does not demand it; which of them - the page of the header's
  // magazine only, or of every magazine - it does not say either).  References, all decoded by the same decoder:
  //   w[0] the transmission of header k is not sent at all
  //   w[1] ... and neither is the transmission in progress in the header's magazine
  //   w[2] ... and neither are the transmissions in progress in all magazines
  // Every cached (page, subpage) must look - both levels, links and navigation row - as in one of the references, or
  // as in the fault-free twin if it is not the (page, subpage) number of header k itself.  The choice is per page:
  // leaving out a transmission also changes which header terminates the page before it, a side effect of the reference
  // which the twin covers.  Page events are not compared (clause 4 has checked their numbers).
  struct HdrAlt { Obs w[3]; };
  std::map<int, HdrAlt> hdr_alt;
  bool check_uncorrectable_header(const std::vector<Rec>& L, const Obs& twin, const Obs& o, int k, const char* what, RunCtx& c) {
    const Rec& rc = L[(size_t)k];
    if (rc.page_seq < 0 || rc.pk.y != 0) return true;
    if (network_events) { c.count("network_event_seen_cache_history_clauses_skipped"); return true; }
    auto it = hdr_alt.find(k);
    if (it == hdr_alt.end()) {
      int inprog[8]; for (int& x : inprog) x = -1;
      for (int i = 0; i < k; i++) if (L[(size_t)i].pk.y == 0 && L[(size_t)i].page_seq >= 0) inprog[L[(size_t)i].mag & 7] = L[(size_t)i].page_seq;
      std::set<int> s[3];
      for (size_t i = 0; i < L.size(); i++) {
        int q = L[i].page_seq;
        if (q < 0) continue;
        bool mine = q == rc.page_seq, same_mag = q == inprog[rc.mag & 7], any_mag = false;
        for (int x : inprog) if (q == x) any_mag = true;
        if (mine) s[0].insert((int)i);
        if (mine || same_mag) s[1].insert((int)i);
        if (mine || any_mag) s[2].insert((int)i);
      }
      HdrAlt a;
      for (int v = 0; v < 3; v++) a.w[v] = decode(L, -1, {}, &s[v]);
      it = hdr_alt.emplace(k, std::move(a)).first;
    }
    const HdrAlt& a = it->second;
    if (rc.pgno == (txs.empty() || rc.page_seq >= (int)txs.size() ? -1 : txs[(size_t)rc.page_seq].prev_pgno)) c.count("fault_double_header_behind_same_page_number");
    auto view = [](const Obs& x, int key, uint64_t out[2]) -> bool {
      auto p = x.page_hash.find(key); if (p == x.page_hash.end()) return false;
      out[0] = p->second; auto n = x.nav_hash.find(key); out[1] = n == x.nav_hash.end() ? 0 : n->second; return true;
    };
    auto same = [&](const Obs& x, int key) { uint64_t a1[2] = {0, 0}, a2[2] = {0, 0}; bool h1 = view(o, key, a1), h2 = view(x, key, a2); return h1 == h2 && (!h1 || (a1[0] == a2[0] && a1[1] == a2[1])); };
    std::set<int> keys;
    for (const Obs* x : {&o, &twin, &a.w[0], &a.w[1], &a.w[2]}) for (auto& kv : x->page_hash) keys.insert(kv.first);
    int own = pkey(rc.pgno, rc.sub);
    for (int key : keys) {
      bool ok = same(a.w[0], key) || same(a.w[1], key) || same(a.w[2], key) || (key != own && same(twin, key));
      if (ok) continue;
      c.fail("oracle:c03-double-header", "%s: header of %x.%x with an uncorrectable page number / subcode / control byte: page %x.%x is %s but looks neither as without that transmission nor as with the pages in progress abandoned%s",
             what, rc.pgno, rc.sub, key >> 16, key & 0xFFFF, o.page_hash.count(key) ? "cached" : "not cached", key == own ? "" : " nor as in the fault-free transmission");
      return false;
    }
    return true;
  }

  // checks one fault (list of flips in packet k, or drop) against the twins
  bool check_fault(const std::vector<Rec>& L, const Obs& twin, std::map<int, Obs>& without, int k, const std::vector<int>& bits, bool drop, RunCtx& c) {
    std::vector<std::pair<int, int>> flips;
    for (int b : bits) flips.push_back({k, b});
    char what[160];
    snprintf(what, sizeof what, "packet %d (mag %d Y %d%s) bits %d%s%s", k, L[(size_t)k].pk.mag, L[(size_t)k].pk.y, L[(size_t)k].pk.designation >= 0 ? " X/dc" : "", bits.empty() ? -1 : bits[0],
             bits.size() > 1 ? (",.. x" + std::to_string(bits.size())).c_str() : "", drop ? " dropped" : "");
    Obs o = decode(L, drop ? k : -1, flips);
    std::map<int, int> per_byte; for (int b : bits) per_byte[(b / 8) % 42]++;
    int worst = 0; for (auto& kv : per_byte) worst = std::max(worst, kv.second);
    // clause 4 holds "with up to two bit errors per protected byte"; longer bursts are checked for memory safety only
    if (worst > 2) { c.count("fault_more_than_two_bits_per_byte_safety_only"); return true; }
    if (!only_transmitted(o, c, what)) return false;
    if (drop) return true;
    // classify
    bool all_single_protected = true, any_double_addr = false, par_hit = false, other = false;
    const ttx::Packet& pk = L[(size_t)k].pk;
    bool addr_byte_hit_double = false;
    for (auto& kv : per_byte) {
      int tag = pk.tag[kv.first];
      bool prot = tag == ttx::H84 || tag == ttx::H2418_0 || tag == ttx::H2418_1 || tag == ttx::H2418_2;
      if (prot && kv.second == 1) continue;
      all_single_protected = false;
      bool addr = kv.first < 2 || (pk.y == 0 && kv.first < 10) || (pk.y >= 26 && pk.y <= 29 && kv.first == 2) || (pk.y == 27 && kv.first == 39 /* link control byte */);
      if (prot && kv.second == 2 && addr) { any_double_addr = true; if (kv.first < 2 || pk.y != 0) addr_byte_hit_double = true; }
      else if (tag == ttx::PAR && kv.second % 2 == 1) par_hit = true;
      else other = true;
    }
    // several single errors are all corrected only if they hit different protected units (bytes / triplets)
    if (all_single_protected && bits.size() > 1) {
      std::set<int> units;
      for (auto& kv : per_byte) { int tag = pk.tag[kv.first]; int unit = tag == ttx::H84 ? kv.first : kv.first - (tag - ttx::H2418_0); if (!units.insert(unit).second) all_single_protected = false; }
      if (!all_single_protected) other = true;
    }
    if (all_single_protected) {
      c.count("fault_single_bit_protected");
      std::string d = diff(o, twin);
      if (!d.empty()) { c.fail("oracle:c03-single-bit", "%s: one bit error in a Hamming protected byte/triplet changed the result: %s", what, d.c_str()); return false; }
      return true;
    }
    if (other) { c.count("fault_other_unclassified"); return true; }  // mixtures: clause 4 only
    if (any_double_addr && !par_hit) {
      // header page number / subcode / control byte: "an uncorrectable header only abandons the pages in progress"
      if (!addr_byte_hit_double) { c.count("fault_double_header_ctrl"); return check_uncorrectable_header(L, twin, o, k, what, c); }
      c.count("fault_double_address");
      if (!without.count(k)) without[k] = decode(L, k, {});
      std::string d = diff(o, without[k]);
      if (!d.empty()) { c.fail("oracle:c03-double-address", "%s: packet with an uncorrectable address/designation byte is not ignored: %s", what, d.c_str()); return false; }
      return true;
    }
    if (par_hit && !any_double_addr) {
      if (pk.y >= 1 && pk.y <= 25) {
        // "positions overridden by X/26 enhancement data excepted": when every damaged character sits at a position where
        // X/26 data of this page puts another character, the rule does not apply; an error anywhere else (also at a
        // position which X/26 triplets merely address: colours, flash, display attributes, font style) is under the rule
        {
          bool all_overridden = true;
          auto ov = x26_override.find(L[(size_t)k].pgno);
          for (auto& kv : per_byte) {
            if (pk.tag[kv.first] != ttx::PAR || kv.second % 2 == 0) continue;
            if (ov == x26_override.end() || !ov->second.count(pk.y * 40 + kv.first - 2)) all_overridden = false;
          }
          if (all_overridden) { c.count("fault_parity_row_x26_overridden_position"); return true; }
          if (L[(size_t)k].page_has_x26) c.count("fault_parity_row_on_x26_page");
          for (auto& a : x26_addressed) if (a.first == k && per_byte.count(a.second)) { c.count("fault_parity_row_at_x26_addressed_position"); break; }
        }
        c.count("fault_parity_row");
        if (!without.count(k)) without[k] = decode(L, k, {});
        std::string d = diff(o, without[k], false);
        if (!d.empty()) { c.fail("oracle:c03-parity-row", "%s: a row received with a parity error is not ignored as a whole (must keep earlier content or stay blank): %s", what, d.c_str()); return false; }
        // "never replaces a previously received good row ...: the row keeps its earlier content".  The comparison above
        // trusts the decoder to keep a row which is not retransmitted; this one does not: when the transmitter knows what
        // the cache holds for this row (earlier_row()), the result must be the one of the transmission in which the
        // transmitter itself repeats that earlier row in place of the damaged one - every page at both levels, and the
        // navigation row / links with navigation enabled (a row 24 which keeps its content is not replaced by a
        // generated navigation bar either).
        int e = network_events ? -1 : earlier_row(L, k);
        if (e >= 0) {
          c.count("fault_parity_row_earlier_content_known");
          if (pk.y == 24) c.count("fault_parity_row24_earlier_content_known");
          if (!repeated.count(k)) repeated[k] = decode(L, -1, {}, nullptr, k, L[(size_t)e].pk.b);
          std::string d2 = diff(o, repeated[k], true);
          if (!d2.empty()) { c.fail("oracle:c03-parity-row-earlier", "%s: a row received with a parity error does not keep the content received before (packet %d, an undisturbed earlier transmission of page %x.%x): %s", what, e, L[(size_t)k].pgno, L[(size_t)k].sub, d2.c_str()); return false; }
        }
        return true;
      }
      if (pk.y == 0) {
        c.count("fault_parity_header_text");
        // same as the twin except row 0 of pages, where a cell may be blank instead
        if (o.events != twin.events) { c.fail("oracle:c03-parity-header", "%s: parity error in header text changed the page events", what); return false; }
        for (auto& kv : twin.row_hash) {
          auto it = o.row_hash.find(kv.first);
          if (it == o.row_hash.end()) { c.fail("oracle:c03-parity-header", "%s: page %x.%x missing", what, kv.first >> 16, kv.first & 0xFFFF); return false; }
          for (size_t r = 0; r < kv.second.size(); r++) {
            if ((r % 25) == 0) continue;
            if (kv.second[r] != it->second[r]) { c.fail("oracle:c03-parity-header", "%s: page %x.%x row %zu changed by a parity error in a header", what, kv.first >> 16, kv.first & 0xFFFF, r % 25); return false; }
          }
          auto& a = twin.row0.at(kv.first); auto& b = o.row0.at(kv.first);
          for (size_t col = 8; col < a.size() && col < b.size(); col++)
            if (a[col] != b[col] && b[col] != 0x20) { c.fail("oracle:c03-parity-header", "%s: page %x.%x header column %zu shows U+%04X instead of U+%04X or blank", what, kv.first >> 16, kv.first & 0xFFFF, col, b[col], a[col]); return false; }
        }
        return true;
      }
      c.count("fault_parity_other");
      return true;
    }
    c.count("fault_other_unclassified");
    return true;
  }

  void run(const Plan& plan, RunCtx& c) override {
    static bool warmed = false;
    if (!warmed) { warmed = true; vbi_decoder* d = vbi_decoder_new(); vbi_decoder_delete(d); }
    alloc_track_reset();
    ctx = &c; g = this; transmitted.clear(); x26_override.clear(); x26_addressed.clear(); decodes = 0; txs.clear(); repeated.clear(); hdr_alt.clear(); network_events = 0;
    frame_max = (int)(plan.knob("frame_max", 4) % 17); if (frame_max < 1) frame_max = 1;
    std::vector<Rec> L;
    record(plan, c, L);
    for (size_t k = 0; k < L.size(); k++) c.log("tx %zu mag %d Y %d", k, L[k].pk.mag, L[k].pk.y);
    { int re = 0, b2b = 0;
      for (const Tx& t : txs) {
        if (t.hdr < 0) continue;
        bool before = false;
        for (const Tx& u : txs) if (u.hdr >= 0 && u.hdr < t.hdr && u.pgno == t.pgno && u.sub == t.sub) before = true;
        if (before && !t.erase) re++;
        if (t.prev_pgno == t.pgno) b2b++;
      }
      c.count("tx_retransmissions_without_erase", re); c.count("tx_headers_behind_same_page_number", b2b);
      if (plan.knob("cycles", 1) > 1) c.count("tx_multi_cycle"); }
    Obs twin = decode(L, -1, {});
    for (auto& e : twin.events) c.log("twin event %x.%x", e.first, e.second);
    std::map<int, Obs> without;
    if (!only_transmitted(twin, c, "fault-free")) { g = nullptr; return; }
    bool did_enum = false;
    std::vector<const Op*> faults;
    for (auto& op : plan.ops) if (op.kind == "fault") faults.push_back(&op);
    if (!L.empty()) {
      if (faults.empty() && plan.knob("enumerate")) {
        did_enum = true;
        for (size_t k = 0; k < L.size() && !c.failed; k++)
          for (int b = 0; b < 336 && !c.failed; b++) {
            if (L[k].pk.tag[b / 8] == ttx::RAW) { c.count("bits_skipped_unprotected"); continue; }
            check_fault(L, twin, without, (int)k, {b}, false, c);
          }
        // and every pair of bits in each packet address byte and in each page number / subcode / control byte of every
        // header (uncorrectable bytes): the packet is ignored resp. nothing is stored under a number never transmitted
        for (size_t k = 0; k < L.size() && !c.failed; k++)
          for (int byte = 0; byte < (L[k].pk.y == 0 ? 10 : 2) && !c.failed; byte++)
            for (int b1 = 0; b1 < 8 && !c.failed; b1++)
              for (int b2 = b1 + 1; b2 < 8 && !c.failed; b2++) {
                c.count("enumerated_double_bit_address_control");
                check_fault(L, twin, without, (int)k, {byte * 8 + b1, byte * 8 + b2}, false, c);
              }
        // ... and in the designation code of every X/26-29 packet and the link control byte of X/27 (control bytes too)
        for (size_t k = 0; k < L.size() && !c.failed; k++) {
          if (L[k].pk.y < 26 || L[k].pk.y > 29) continue;
          for (int byte : {2, 39}) {
            if (byte == 39 && L[k].pk.y != 27) continue;
            for (int b1 = 0; b1 < 8 && !c.failed; b1++)
              for (int b2 = b1 + 1; b2 < 8 && !c.failed; b2++) {
                c.count("enumerated_double_bit_designation_linkcontrol");
                check_fault(L, twin, without, (int)k, {byte * 8 + b1, byte * 8 + b2}, false, c);
              }
          }
        }
        c.count("enumerated_transmissions");
      }
      for (const Op* f : faults) {
        if (c.failed) break;
        int kind = (int)(llabs(f->arg(0)) % 10);
        // a[5] bit0: draw the packet from the later cycles (retransmissions) when there are any; absent = any packet
        bool later = f->arg(5) & 1;
        auto eligible = [&](int i) { return !later || L[(size_t)i].cycle > 0; };
        auto pick = [&](std::vector<int>& cand, const std::vector<int>& all) -> int {   // cand: eligible ones; all: fallback
          const std::vector<int>& v = cand.empty() ? all : cand;
          return v.empty() ? -1 : v[(size_t)(llabs(f->arg(1)) % (int64_t)v.size())];
        };
        // stratified by packet type: a[6] selects the type, then a packet of it (the next type present if there is none)
        auto by_type = [&]() -> int {
          auto ptype = [&](const Rec& rc) { int y = rc.pk.y; return rc.page_seq < 0 ? 6 : y == 0 ? 0 : y <= 23 ? 1 : y == 24 ? 2 : y == 26 ? 3 : y == 27 ? 4 : y == 28 ? 5 : 6; };
          std::vector<int> cand[7], all[7];
          for (int i = 0; i < (int)L.size(); i++) { int t = ptype(L[(size_t)i]); all[t].push_back(i); if (eligible(i)) cand[t].push_back(i); }
          int s0 = (int)(llabs(f->arg(6)) % 7), kk = -1;
          for (int t = 0; t < 7 && kk < 0; t++) kk = pick(cand[(s0 + t) % 7], all[(s0 + t) % 7]);
          return kk;
        };
        int k;
        { std::vector<int> cand, all; for (int i = 0; i < (int)L.size(); i++) { all.push_back(i); if (eligible(i)) cand.push_back(i); }
          if (!later) k = (int)(llabs(f->arg(1)) % (int64_t)L.size()); else k = pick(cand, all); }
        if (kind <= 4 && (f->arg(7) & 1)) { int kk = by_type(); if (kk >= 0) { k = kk; c.count("fault_packet_drawn_by_type"); } }
        int b1 = (int)(llabs(f->arg(2)) % 336), b2 = (int)(llabs(f->arg(3)) % 336);
        std::vector<int> bits;
        if (kind == 8) {
          int kk = by_type();
          if (kk >= 0) {
            k = kk;
            int byte = (b1 / 8) % 42;
            for (int n = 0; n < 42 && L[(size_t)k].pk.tag[byte] == ttx::RAW; n++) byte = (byte + 1) % 42;
            b1 = byte * 8 + b1 % 8;
            c.count("fault_one_bit_packet_drawn_by_type");
          }
          kind = 0;
        } else if (kind == 9) {
          // stratified by the history of the header's page (transmitter side knowledge): 0 first transmission of this page and
          // subpage, 1 sent before and now without erase flag, 2 sent before and now with it, 3 the header directly follows a
          // transmission with the same page number, 4 the next header in its magazine has the same page number
          std::vector<int> cand[5], all[5];
          for (const Tx& t : txs) {
            if (t.hdr < 0) continue;
            bool before = false;
            for (const Tx& u : txs) if (u.hdr >= 0 && u.hdr < t.hdr && u.pgno == t.pgno && u.sub == t.sub) before = true;
            bool in[5] = {!before, before && !t.erase, before && t.erase, t.prev_pgno == t.pgno, t.term_pgno == t.pgno};
            for (int x = 0; x < 5; x++) if (in[x]) { all[x].push_back(t.hdr); if (eligible(t.hdr)) cand[x].push_back(t.hdr); }
          }
          int s0 = (int)(llabs(f->arg(6)) % 5), kk = -1;
          for (int t = 0; t < 5 && kk < 0; t++) kk = pick(cand[(s0 + t) % 5], all[(s0 + t) % 5]);
          if (kk >= 0) { k = kk; b1 = (2 + b1 / 8 % 8) * 8 + b1 % 8; c.count("fault_double_bit_header_drawn_by_history"); }
          kind = 1;
        }
        if (kind == 5) {
          // directed: an uncorrectable page number / subcode / control byte of a header (bytes 2-9)
          std::vector<int> hdrs, cand; for (size_t i = 0; i < L.size(); i++) if (L[i].pk.y == 0) { hdrs.push_back((int)i); if (eligible((int)i)) cand.push_back((int)i); }
          if (hdrs.empty()) kind = 1;
          else { k = pick(cand, hdrs); b1 = (2 + b1 / 8 % 8) * 8 + b1 % 8; c.count("fault_double_bit_header_number_control"); kind = 1; }
        } else if (kind == 6) {
          // directed: a parity error exactly where an X/26 column triplet points
          std::vector<int> all, cand; for (int i = 0; i < (int)x26_addressed.size(); i++) { all.push_back(i); if (eligible(x26_addressed[(size_t)i].first)) cand.push_back(i); }
          if (all.empty()) kind = 0;
          else { auto& a = x26_addressed[(size_t)pick(cand, all)]; k = a.first; b1 = a.second * 8 + b1 % 8; c.count("fault_one_bit_at_x26_addressed_position"); kind = 0; }
        }
        if (kind == 7) {
          // directed: an uncorrectable designation code of an X/26-29 packet or link control byte of an X/27 packet
          std::vector<std::pair<int, int>> ctl;
          for (size_t i = 0; i < L.size(); i++) if (L[i].pk.y >= 26 && L[i].pk.y <= 29) { ctl.push_back({(int)i, 2}); if (L[i].pk.y == 27) { ctl.push_back({(int)i, 39}); ctl.push_back({(int)i, 39}); } }
          std::vector<int> all, cand; for (int i = 0; i < (int)ctl.size(); i++) { all.push_back(i); if (eligible(ctl[(size_t)i].first)) cand.push_back(i); }
          if (ctl.empty()) kind = 1;
          else { auto& a = ctl[(size_t)pick(cand, all)]; k = a.first; b1 = a.second * 8 + b1 % 8; c.count("fault_double_bit_designation_linkcontrol"); kind = 1; }
        }
        switch (kind) {
          case 0: bits = {b1}; break;
          case 1: bits = {b1, (b1 & ~7) | ((b1 + 1 + b2 % 7) & 7)}; break;
          case 2: bits = {b1, b2}; if (b1 == b2) bits = {b1}; break;
          case 3: { int n = (int)(llabs(f->arg(4)) % 17); if (n < 2) n = 2; for (int i = 0; i < n && b1 + i < 336; i++) bits.push_back(b1 + i); break; }
          default: break;
        }
        c.count(kind == 4 ? "fault_drop" : kind == 3 ? "fault_burst" : kind == 2 ? "fault_two_bytes" : kind == 1 ? "fault_two_bits_one_byte" : "fault_one_bit");
        check_fault(L, twin, without, k, bits, kind == 4, c);
      }
    }
    if (!c.failed && alloc_track_available() && alloc_live_blocks() != 0)
      c.fail("leak", "%zu blocks still allocated after vbi_decoder_delete", alloc_live_blocks());
    c.count("decodes", (int64_t)decodes);
    c.count("packets", (int64_t)L.size());
    c.log("decodes %llu pages %zu", (unsigned long long)decodes, twin.page_hash.size());
    c.nontrivial = twin.page_hash.size() >= 2 && (did_enum || !faults.empty());
    g = nullptr;
  }
};
ZSIM_REGISTER_WORLD(C03)

}  // namespace
