// C02 — a transmitted Teletext page is cached and fetched exactly as sent.
// C03 — transmission errors are corrected or contained (same binary, world "c03").
//
// World: one vbi_decoder with a TTX_PAGE handler; eight magazine transmitter
// tasks with their own page carousels; the seeded scheduler is the multiplexer
// (parallel mode: any magazine at every packet; serial mode: a page holds the
// channel); a packer groups 1-16 packets per vbi_decode() call.
// Reference: page store keyed (page, subpage) + independent Level-1 formatter
// (worlds/ttx.h, written from EN 300 706 12.2 / Table 36).
#include <cstdio>
#include <cstring>
#include <map>
#include <set>

#include "alloc.h"
#include "sim.h"
#include "ttx.h"

extern "C" {
#include "src/libzvbi.h"
}

using namespace sim;

namespace {

// EN 300 706 Table 36, national option sub-sets of the Latin G0 set (positions 23 24 40 5B 5C 5D 5E 5F 60 7B 7C 7D 7E)
static const int nat_pos[13] = {0x23, 0x24, 0x40, 0x5B, 0x5C, 0x5D, 0x5E, 0x5F, 0x60, 0x7B, 0x7C, 0x7D, 0x7E};
static const unsigned nat_tab[8][13] = {
    {0x00A3, 0x0024, 0x0040, 0x2190, 0x00BD, 0x2192, 0x2191, 0x0023, 0x2014, 0x00BC, 0x2016, 0x00BE, 0x00F7},  // English
    {0x0023, 0x0024, 0x00A7, 0x00C4, 0x00D6, 0x00DC, 0x005E, 0x005F, 0x00B0, 0x00E4, 0x00F6, 0x00FC, 0x00DF},  // German
    {0x0023, 0x00A4, 0x00C9, 0x00C4, 0x00D6, 0x00C5, 0x00DC, 0x005F, 0x00E9, 0x00E4, 0x00F6, 0x00E5, 0x00FC},  // Swedish/Finnish/Hungarian
    {0x00A3, 0x0024, 0x00E9, 0x00B0, 0x00E7, 0x2192, 0x2191, 0x0023, 0x00F9, 0x00E0, 0x00F2, 0x00E8, 0x00EC},  // Italian
    {0x00E9, 0x00EF, 0x00E0, 0x00EB, 0x00EA, 0x00F9, 0x00EE, 0x0023, 0x00E8, 0x00E2, 0x00F4, 0x00FB, 0x00E7},  // French
    {0x00E7, 0x0024, 0x00A1, 0x00E1, 0x00E9, 0x00ED, 0x00F3, 0x00FA, 0x00BF, 0x00FC, 0x00F1, 0x00E8, 0x00E0},  // Portuguese/Spanish
    {0xE800, 0x011F, 0x0130, 0x015E, 0x00D6, 0x00C7, 0x00DC, 0x011E, 0x0131, 0x015F, 0x00F6, 0x00E7, 0x00FC},  // Turkish (library's private code for the lira sign)
    {0x0023, 0x00A4, 0x0040, 0x005B, 0x005C, 0x005D, 0x005E, 0x005F, 0x0060, 0x007B, 0x00A6, 0x007D, 0x007E},  // no sub-set
};
static unsigned g0_unicode(int nat, int code) {
  if (code == 0x7F) return 0x25A0;
  for (int i = 0; i < 13; i++) if (nat_pos[i] == code) return nat_tab[nat & 7][i];
  return (unsigned)code;
}

static int to_bcd(int v) { return ((v / 10) % 10) * 16 + v % 10; }

struct StoredPage { ttx::PageImage img; bool have_flof = false; bool links_valid = false; ttx::Link links[6]; int nat = 0; bool tainted = false; int subno = 0; };

struct OpenPage {
  bool open = false; int pgno = 0, subno = 0, nat = 0; bool erase = false; uint8_t text[32];
  std::map<int, std::vector<uint8_t>> rows; bool x27 = false; int lc = 0; ttx::Link links[6]; int events = 0; bool tainted = false;
};

struct Emitted { ttx::Packet pk; int src; };

struct TtxWorldBase {
  RunCtx* ctx = nullptr;
  vbi_decoder* dec = nullptr;
  double ts = 5000.0;
  std::vector<vbi_sliced> frame;
  int frame_max = 4;
  std::vector<std::pair<int, int>> events;  // (pgno, subno)
  static TtxWorldBase* g;

  static void handler(vbi_event* ev, void*) {
    HarnessScope hs;
    if (ev->type == VBI_EVENT_TTX_PAGE) {
      g->events.push_back({ev->ev.ttx_page.pgno, ev->ev.ttx_page.subno});
      g->ctx->log("event page %x.%x", ev->ev.ttx_page.pgno, ev->ev.ttx_page.subno);
      g->on_event(ev->ev.ttx_page.pgno, ev->ev.ttx_page.subno);
    } else if (ev->type == VBI_EVENT_NETWORK) {
      g->ctx->log("event network");
      g->on_network();
    }
  }
  virtual void on_event(int, int) {}
  virtual void on_network() {}
  virtual ~TtxWorldBase() {}

  void open_decoder() {
    SutScope ss;
    dec = vbi_decoder_new();
    vbi_event_handler_register(dec, VBI_EVENT_TTX_PAGE | VBI_EVENT_NETWORK, handler, nullptr);
  }
  void flush() {
    if (frame.empty()) return;
    ts += 0.04;
    budget_begin("vbi_decode", 20000000);
    { SutScope ss; vbi_decode(dec, frame.data(), (int)frame.size(), ts); }
    budget_end();
    frame.clear();
  }
  void push(const uint8_t b[42]) {
    vbi_sliced s; memset(&s, 0, sizeof s);
    s.id = VBI_SLICED_TELETEXT_B; s.line = 7 + (uint32_t)frame.size();
    memcpy(s.data, b, 42);
    frame.push_back(s);
    if ((int)frame.size() >= frame_max) flush();
  }
};
TtxWorldBase* TtxWorldBase::g = nullptr;

// ---- content generation ------------------------------------------------------
static void header_text(int pgno, uint8_t out[32]) {
  char t[40];
  snprintf(t, sizeof t, "ZSIMTEXT%03X Network News AB12:34:56", pgno);
  memcpy(out, t, 32);
}

static void gen_row(Rng& r, int style, uint8_t out[40]) {
  // styles: 0 plain text, 1 attributes mix, 2 mosaics, 3 sizes, 4 boxes, 5 everything
  for (int c = 0; c < 40; c++) {
    int ch;
    bool ctl = false;
    switch (style) {
      case 0: ctl = r.chance(1, 20); break;
      case 1: ctl = r.chance(1, 4); break;
      default: ctl = r.chance(1, 3); break;
    }
    if (!ctl) { out[c] = (uint8_t)(0x20 + r.below(0x60)); continue; }
    switch (style) {
      case 0: ch = (int)r.below(8); break;                                           // alpha colours
      case 1: { static const int s[] = {0,1,2,3,4,5,6,7,8,9,0x18,0x1C,0x1D}; ch = s[r.below(sizeof s / sizeof s[0])]; break; }
      case 2: { static const int s[] = {0x10,0x11,0x12,0x13,0x14,0x15,0x16,0x17,0x19,0x1A,0x1E,0x1F,1,7,0x1D,0x1C}; ch = s[r.below(sizeof s / sizeof s[0])]; break; }
      case 3: { static const int s[] = {0x0C,0x0D,0x0E,0x0F,0x0D,0x0C,2,0x12,0x1E}; ch = s[r.below(sizeof s / sizeof s[0])]; break; }
      case 4: { static const int s[] = {0x0A,0x0B}; ch = s[r.below(2)]; out[c] = (uint8_t)ch; if (c < 39 && r.chance(2, 3)) out[++c] = (uint8_t)ch; continue; }
      default: ch = (int)r.below(0x20); break;
    }
    if (ch == 0x1B) ch = 0x09;  // ESC selects the second G0 set, which the statement does not cover (Level 1/1.5 designates one set)
    out[c] = (uint8_t)ch;
  }
}

// =============================================================== C02 ==========
struct C02 : World, TtxWorldBase {
  const char* name() const override { return "c02"; }
  const char* property() const override { return "C02"; }

  Plan generate(uint64_t seed, const std::string& tier) override {
    Plan p; p.world = name(); p.seed = seed;
    Rng r(seed, "plan");
    p.knobs["sched_seed"] = (int64_t)(r.next() >> 1);
    p.knobs["policy"] = (int64_t)r.below(3);
    p.knobs["pparam"] = (p.knobs["policy"] == 1) ? 30 + (int64_t)r.below(65) : (int64_t)r.below(4);
    p.knobs["serial"] = (int64_t)r.below(2);
    p.knobs["frame_max"] = 1 + (int64_t)r.below(16);
    int nmag = 1 + (int)r.below(8);
    int total = tier == "thorough" ? 10 + (int)r.below(60) : 5 + (int)r.below(30);
    // per magazine a small carousel so that pages are retransmitted (update histories)
    int car[8][4];
    for (int m = 0; m < 8; m++) for (int k = 0; k < 4; k++) car[m][k] = (int)r.below(99);
    for (int i = 0; i < total; i++) {
      Op o; o.task = (int)r.below((uint64_t)nmag); o.kind = "page";
      int pg = car[o.task][r.below(1 + r.below(4))];
      int sub = r.chance(1, 2) ? 0 : 1 + (int)r.below(r.chance(1, 4) ? 79 : 3);
      int flags = (int)r.below(16);  // bit0 X/27/0, bit1 link control "row 24", bit2 send row 24, bit3 rows in random order
      o.a = {pg, sub, (int64_t)r.below(8), r.chance(1, 3) ? 1 : 0, (int64_t)r.below(1u << 30), flags, (int64_t)r.below(6)};
      p.ops.push_back(o);
    }
    return p;
  }

  // model
  std::map<int, StoredPage> store;  // key pgno<<8 | subkey
  OpenPage open_[8];
  int checked_pages = 0, interleaved = 0, updates = 0;
  int last_mag = -1;

  void on_event(int pgno, int subno) override {
    int m = (pgno >> 8) & 7;
    OpenPage& o = open_[m];
    if (o.open && o.pgno == pgno && o.subno == subno) o.events++;
    else if (!(o.open && o.tainted)) {
      // an event for a page that is not the one in transmission in its magazine
      bool any_tainted = false; for (auto& x : open_) if (x.tainted) any_tainted = true;
      if (!any_tainted) ctx->fail("oracle:ttx-event-spurious", "page event %x.%x but magazine %d transmits %x.%x", pgno, subno, m ? m : 8, o.pgno, o.subno);
    }
  }
  void on_network() override { ctx->fail("oracle:ttx-network-change", "VBI_EVENT_NETWORK raised although one network with a consistent header is transmitting"); }

  static int subkey(int subno) { return subno & 0xFF; }

  void terminate(int m) {
    OpenPage& o = open_[m];
    if (!o.open) return;
    o.open = false;
    int key = (o.pgno << 8) | subkey(o.subno);
    StoredPage sp;
    bool had = store.count(key) && !o.erase;
    if (had) { sp = store[key]; updates++; }
    sp.subno = o.subno;
    memcpy(sp.img.rows[0] + 8, o.text, 32);
    for (auto& kv : o.rows) { memcpy(sp.img.rows[kv.first], kv.second.data(), 40); sp.img.have_row[kv.first] = true; }
    if (o.x27) { sp.have_flof = (o.lc >> 3) & 1; sp.links_valid = true; for (int i = 0; i < 6; i++) sp.links[i] = o.links[i]; }
    sp.nat = o.nat;
    sp.tainted = o.tainted || (had && store[key].tainted);
    store[key] = sp;
    if (ctx->failed || sp.tainted) return;
    check_page(o, sp);
  }

  void check_page(const OpenPage& o, const StoredPage& sp) {
    checked_pages++;
    if (o.events != 1) { ctx->fail("oracle:ttx-event-count", "page %x.%x terminated: %d page events delivered for this transmission (expected exactly 1)", o.pgno, o.subno, o.events); return; }
    vbi_page pg;
    vbi_bool ok;
    budget_begin("vbi_fetch_vt_page", 20000000);
    { SutScope ss; ok = vbi_fetch_vt_page(dec, &pg, o.pgno, o.subno, VBI_WST_LEVEL_1, 25, TRUE); }
    budget_end();
    if (!ok) { ctx->fail("oracle:ttx-not-cached", "page %x.%x was transmitted and terminated but cannot be fetched", o.pgno, o.subno); return; }
    if (pg.pgno != o.pgno || pg.subno != o.subno) { ctx->fail("oracle:ttx-number", "fetched %x.%x for transmitted %x.%x", pg.pgno, pg.subno, o.pgno, o.subno); return; }
    ttx::Cell grid[25][40];
    ttx::format_level1(sp.img, grid);
    bool navbar = sp.have_flof && !sp.img.have_row[24];
    if (ctx->verbose)
      for (int row = 0; row < 25; row++) {
        std::string a, b;
        for (int col = 0; col < 40; col++) { char t[8]; snprintf(t, sizeof t, "%02x ", sp.img.rows[row][col]); a += t; snprintf(t, sizeof t, "%x", pg.text[row * 41 + col].opacity); b += t; }
        fprintf(stderr, "    row %2d: %s | opacity %s\n", row, a.c_str(), b.c_str());
      }
    for (int row = 0; row < 25; row++) {
      if (row == 24 && navbar) continue;  // replaced by the FLOF navigation bar
      for (int col = (row == 0 ? 8 : 0); col < 40; col++) {
        const ttx::Cell& e = grid[row][col];
        const vbi_char& a = pg.text[row * 41 + col];
        unsigned eu = e.mosaic >= 0 ? (unsigned)(0xEE00 + e.mosaic - (e.separated ? 0x20 : 0)) : g0_unicode(sp.nat, e.code);
        bool uni_ok = a.unicode == eu;
        if (!uni_ok && e.held_uncertain && (a.unicode == 0xEE20 || a.unicode == 0xEE00 || a.unicode == 0x20 || (a.unicode >= 0xEE00 && a.unicode < 0xEE80))) uni_ok = true;
        if (!uni_ok) { ctx->fail("oracle:ttx-char", "page %x.%x row %d col %d: fetched U+%04X, transmitted code 0x%02x -> expected U+%04X (national option %d)", o.pgno, o.subno, row, col, a.unicode, e.mosaic >= 0 ? e.mosaic : e.code, eu, sp.nat); return; }
        if ((int)a.foreground != e.fg || (int)a.background != e.bg) { ctx->fail("oracle:ttx-colour", "page %x.%x row %d col %d: colours fg %d bg %d, expected fg %d bg %d", o.pgno, o.subno, row, col, a.foreground, a.background, e.fg, e.bg); return; }
        if ((bool)a.flash != e.flash) { ctx->fail("oracle:ttx-flash", "page %x.%x row %d col %d: flash %d expected %d", o.pgno, o.subno, row, col, a.flash, e.flash); return; }
        if ((bool)a.conceal != e.conceal) { ctx->fail("oracle:ttx-conceal", "page %x.%x row %d col %d: conceal %d expected %d", o.pgno, o.subno, row, col, a.conceal, e.conceal); return; }
        if ((int)a.size != e.size) { ctx->fail("oracle:ttx-size", "page %x.%x row %d col %d: size %d expected %d", o.pgno, o.subno, row, col, a.size, e.size); return; }
        if ((a.opacity != VBI_OPAQUE) != e.boxed) { ctx->fail("oracle:ttx-box", "page %x.%x row %d col %d: opacity %d, expected boxed=%d", o.pgno, o.subno, row, col, a.opacity, e.boxed); return; }
      }
    }
    if (navbar && sp.links_valid) {
      for (int i = 0; i < 4; i++) {
        if (pg.nav_link[i].pgno != sp.links[i].pgno || pg.nav_link[i].subno != (sp.links[i].subno & 0x3F7F)) {
          ctx->fail("oracle:ttx-flof", "page %x.%x FLOF link %d: %x.%x, transmitted %x.%x", o.pgno, o.subno, i, pg.nav_link[i].pgno, pg.nav_link[i].subno, sp.links[i].pgno, sp.links[i].subno & 0x3F7F);
          return;
        }
      }
      int ip = sp.links[5].pgno;
      if (ip >= 0x100 && ip <= 0x899 && (ip & 0xFF) != 0xFF && (pg.nav_link[5].pgno != ip || pg.nav_link[5].subno != (sp.links[5].subno & 0x3F7F))) {
        ctx->fail("oracle:ttx-flof", "page %x.%x index link: %x.%x, transmitted %x.%x", o.pgno, o.subno, pg.nav_link[5].pgno, pg.nav_link[5].subno, ip, sp.links[5].subno & 0x3F7F);
        return;
      }
    }
    // wildcard fetch right after the reception returns the subpage just received
    vbi_page pw;
    { SutScope ss; ok = vbi_fetch_vt_page(dec, &pw, o.pgno, VBI_ANY_SUBNO, VBI_WST_LEVEL_1, 25, FALSE); }
    if (!ok || pw.subno != o.subno) { ctx->fail("oracle:ttx-wildcard", "wildcard fetch of %x after reception of subpage %x returned %s %x", o.pgno, o.subno, ok ? "subpage" : "nothing", ok ? pw.subno : 0); return; }
    int cached; { SutScope ss; cached = vbi_is_cached(dec, o.pgno, o.subno); }
    if (!cached) { ctx->fail("oracle:ttx-is-cached", "vbi_is_cached(%x,%x) false after reception", o.pgno, o.subno); return; }
    int hi; { SutScope ss; hi = vbi_cache_hi_subno(dec, o.pgno); }
    int want_hi = 0;
    for (auto& kv : store) if ((kv.first >> 8) == o.pgno && kv.second.subno > want_hi) want_hi = kv.second.subno;
    if (hi != want_hi) { ctx->fail("oracle:ttx-hi-subno", "vbi_cache_hi_subno(%x) = %x, highest subpage received %x", o.pgno, hi, want_hi); return; }
    ctx->log("checked %x.%x ok", o.pgno, o.subno);
  }

  void run(const Plan& plan, RunCtx& c) override {
    static bool warmed = false;
    if (!warmed) { warmed = true; vbi_decoder* d = vbi_decoder_new(); vbi_decoder_delete(d); }
    alloc_track_reset();
    ctx = &c; g = this;
    store.clear(); events.clear(); frame.clear(); ts = 5000.0;
    for (auto& o : open_) o = OpenPage();
    checked_pages = interleaved = updates = 0; last_mag = -1;
    frame_max = (int)(plan.knob("frame_max", 4) % 17); if (frame_max < 1) frame_max = 1;
    bool serial = plan.knob("serial") & 1;
    Sched sched(c, (uint64_t)plan.knob("sched_seed", (int64_t)plan.seed), (Policy)(plan.knob("policy") % 3), (int)plan.knob("pparam"));
    open_decoder();
    std::vector<std::vector<const Op*>> per(8);
    for (auto& op : plan.ops) if (op.kind == "page") per[(size_t)(((op.task % 8) + 8) % 8)].push_back(&op);
    int owner = -1; std::vector<Task*> waiters;
    auto page_begin = [&](int me) { while (serial && owner != -1 && owner != me && !c.failed) { waiters.push_back(sched.current()); sched.block(); } owner = me; };
    auto page_end = [&] { owner = -1; for (Task* t : waiters) sched.wake(t); waiters.clear(); };
    // emission of one packet: model first sees what was sent, then the decoder
    auto emit = [&](int m, const ttx::Packet& pk) {
      if (last_mag >= 0 && last_mag != m) interleaved++;
      last_mag = m;
      c.log("tx mag %d Y %d", m ? m : 8, pk.y);
      push(pk.b);
    };
    for (int m = 0; m < 8; m++) {
      if (per[(size_t)m].empty()) continue;
      sched.spawn("mag" + std::to_string(m), [&, m] {
        int mag = m ? m : 8;
        int prev_page = -1;
        auto send_header = [&](int page, int subno, int nat, bool erase) {
          int pgno = mag * 256 + page;
          uint8_t text[32]; header_text(pgno, text);
          unsigned ctrl = ttx::ctrl_national(nat) | (erase ? ttx::C4_ERASE : 0) | (serial ? ttx::C11_SERIAL : 0);
          ttx::Packet h = ttx::header(mag, page, subno, ctrl, text);
          emit(m, h);
          // the header is in the decoder once its frame was decoded
          flush();
          OpenPage& o = open_[m];
          if (o.open && o.pgno != pgno) terminate(m);
          else if (o.open) {  // same page number again: the statement leaves this undefined; not checked
            o.tainted = true;
            int key = (o.pgno << 8) | subkey(o.subno);
            store[key].tainted = true; store[(pgno << 8) | subkey(subno)].tainted = true;
            c.count("same_pgno_consecutive_unchecked");
          }
          bool taint = o.open && o.tainted;
          o = OpenPage(); o.open = true; o.pgno = pgno; o.subno = subno; o.nat = nat; o.erase = erase; o.tainted = taint; memcpy(o.text, text, 32);
        };
        for (const Op* op : per[(size_t)m]) {
          if (c.failed) return;
          int page = to_bcd((int)(llabs(op->arg(0)) % 99));
          if (page == prev_page) page = to_bcd((int)((llabs(op->arg(0)) + 1) % 99));
          prev_page = page;
          int sub = to_bcd((int)(llabs(op->arg(1)) % 80));
          // a page number either has subpages 01-79 or is always sent with subcode 0000 (EN 300 706 A.1); mixing
          // both for one page number is outside the statement (the single version replaces a subpage)
          if (page & 1) sub = 0; else if (sub == 0) sub = 1;
          int nat = (int)(llabs(op->arg(2)) % 8);
          bool erase = op->arg(3) & 1;
          Rng r((uint64_t)op->arg(4), "content");
          int flags = (int)op->arg(5);
          page_begin(m);
          send_header(page, sub, nat, erase);
          sched.yield();
          // rows: which, in which order
          std::vector<int> ys;
          int density = (int)r.below(4);  // 0: few rows ... 3: all rows
          for (int y = 1; y <= 23; y++) if (density == 3 || r.below(4) <= (uint64_t)density) ys.push_back(y);
          if (flags & 4) ys.push_back(24);
          if (flags & 8) for (size_t i = ys.size(); i > 1; i--) std::swap(ys[i - 1], ys[r.below(i)]);
          int style = (int)(llabs(op->arg(6)) % 6);
          size_t x27_at = (flags & 1) ? r.below(ys.size() + 1) : (size_t)-1;
          OpenPage& o = open_[m];
          for (size_t i = 0; i <= ys.size(); i++) {
            if (c.failed) return;
            if (i == x27_at) {
              ttx::Link L[6];
              for (int k = 0; k < 6; k++) { L[k].pgno = (1 + (int)r.below(8)) * 256 + to_bcd((int)r.below(100)); L[k].subno = r.chance(1, 2) ? 0x3F7F : to_bcd((int)r.below(80)); }
              if (r.chance(1, 4)) L[5].pgno = (L[5].pgno & 0xF00) | 0xFF;
              int lc = ((flags & 2) ? 8 : 0) | (int)r.below(8);
              emit(m, ttx::x27_0(mag, L, lc));
              o.x27 = true; o.lc = lc; for (int k = 0; k < 6; k++) o.links[k] = L[k];
              sched.yield();
            }
            if (i == ys.size()) break;
            uint8_t chars[40];
            gen_row(r, r.chance(1, 3) ? (int)r.below(6) : style, chars);
            emit(m, ttx::row(mag, ys[i], chars));
            o.rows[ys[i]] = std::vector<uint8_t>(chars, chars + 40);
            sched.yield();
          }
          page_end();
          sched.yield();
        }
        // trailing header so that the last page of this magazine is terminated too
        page_begin(m);
        send_header(prev_page == 0x98 ? 0x97 : 0x98, 0, 0, true);
        page_end();
      });
    }
    int rc = sched.run(20000000);
    if (rc == 2) c.fail("harness:budget", "scheduler budget exhausted");
    flush();
    c.state(sched.interleaving_hash());
    { SutScope ss; vbi_decoder_delete(dec); dec = nullptr; }
    if (!c.failed && alloc_track_available() && alloc_live_blocks() != 0)
      c.fail("leak", "%zu blocks (%zu bytes; sizes %s) still allocated after vbi_decoder_delete", alloc_live_blocks(), alloc_live_bytes(), alloc_live_summary().c_str());
    c.count("pages_checked", checked_pages);
    c.count("page_updates_no_erase", updates);
    c.count("magazine_switches", interleaved);
    c.nontrivial = checked_pages >= 3 && interleaved >= 2;
    c.sim_seconds = ts - 5000.0;
    g = nullptr;
  }
};
ZSIM_REGISTER_WORLD(C02)

}  // namespace
