// Teletext transmitter library and Level-1 reference model, written from
// EN 300 706 (not from packet.c / teletext.c).  Used by C02, C03 and others.
#pragma once
#include <cstdint>
#include <cstring>
#include <map>
#include <string>
#include <vector>

#include "tx.h"

namespace ttx {

enum Tag : uint8_t { RAW = 0, H84 = 1, PAR = 2, H2418_0 = 3, H2418_1 = 4, H2418_2 = 5 };

struct Packet {
  uint8_t b[42];
  uint8_t tag[42];
  int mag = 1;  // 1..8
  int y = 0;    // packet number 0..31
  int designation = -1;
};

static inline void mrag(Packet& p, int mag, int y) {
  p.mag = mag; p.y = y;
  p.b[0] = tx::ham84((unsigned)((mag & 7) | ((y & 1) << 3))); p.tag[0] = H84;
  p.b[1] = tx::ham84((unsigned)(y >> 1)); p.tag[1] = H84;
}

// control bits: bit n = Cn (n = 4..14).  National option value N = C12<<2 | C13<<1 | C14.
static inline unsigned ctrl_national(int n) { return (unsigned)(((n >> 2) & 1) << 12 | ((n >> 1) & 1) << 13 | (n & 1) << 14); }
enum { C4_ERASE = 1 << 4, C5_NEWSFLASH = 1 << 5, C6_SUBTITLE = 1 << 6, C7_SUPPRESS = 1 << 7, C8_UPDATE = 1 << 8, C9_INTERRUPTED = 1 << 9, C10_INHIBIT = 1 << 10, C11_SERIAL = 1 << 11 };

// page: two hex digits; subcode: S1 | S2<<4 | S3<<8 | S4<<12 (S2 3 bits, S4 2 bits)
static inline Packet header(int mag, int page, int subcode, unsigned ctrl, const uint8_t text[32]) {
  Packet p; memset(&p, 0, sizeof p); mrag(p, mag, 0);
  auto h = [&](int i, unsigned v) { p.b[i] = tx::ham84(v & 15); p.tag[i] = H84; };
  h(2, (unsigned)page & 15); h(3, (unsigned)page >> 4);
  h(4, (unsigned)subcode & 15);
  h(5, (((unsigned)subcode >> 4) & 7) | ((ctrl >> 4 & 1) << 3));
  h(6, ((unsigned)subcode >> 8) & 15);
  h(7, (((unsigned)subcode >> 12) & 3) | ((ctrl >> 5 & 1) << 2) | ((ctrl >> 6 & 1) << 3));
  h(8, (ctrl >> 7) & 15);
  h(9, (ctrl >> 11) & 15);
  for (int i = 0; i < 32; i++) { p.b[10 + i] = tx::odd_parity(text[i]); p.tag[10 + i] = PAR; }
  return p;
}

static inline Packet row(int mag, int y, const uint8_t chars[40]) {
  Packet p; memset(&p, 0, sizeof p); mrag(p, mag, y);
  for (int i = 0; i < 40; i++) { p.b[2 + i] = tx::odd_parity(chars[i]); p.tag[2 + i] = PAR; }
  return p;
}

struct Link { int pgno = 0x8FF; int subno = 0x3F7F; };  // pgno 0x100..0x8FF (absolute), 0x?FF = no page

// X/27/0: six links (red, green, yellow, cyan, next, index) relative to the page's magazine; link control bit 3 = display row 24
static inline Packet x27_0(int mag, const Link links[6], int link_control) {
  Packet p; memset(&p, 0, sizeof p); mrag(p, mag, 27); p.designation = 0;
  p.b[2] = tx::ham84(0); p.tag[2] = H84;
  for (int i = 0; i < 6; i++) {
    int lm = (links[i].pgno >> 8) & 7, m = (mag & 7) ^ lm;  // relative magazine
    int pg = links[i].pgno & 0xFF, s = links[i].subno;
    unsigned v[6] = {(unsigned)pg & 15, (unsigned)pg >> 4, (unsigned)s & 15, (((unsigned)s >> 4) & 7) | ((unsigned)(m & 1) << 3),
                     ((unsigned)s >> 8) & 15, (((unsigned)s >> 12) & 3) | ((unsigned)((m >> 1) & 1) << 2) | ((unsigned)((m >> 2) & 1) << 3)};
    for (int k = 0; k < 6; k++) { p.b[3 + i * 6 + k] = tx::ham84(v[k]); p.tag[3 + i * 6 + k] = H84; }
  }
  p.b[39] = tx::ham84((unsigned)link_control & 15); p.tag[39] = H84;
  p.b[40] = 0; p.b[41] = 0; p.tag[40] = p.tag[41] = RAW;  // page CRC, not checked by receivers in practice
  return p;
}

// X/26: 13 triplets of (address 6 bits, mode 5 bits, data 7 bits)
struct Triplet { int address, mode, data; };
static inline Packet x26(int mag, int designation, const Triplet t[13]) {
  Packet p; memset(&p, 0, sizeof p); mrag(p, mag, 26); p.designation = designation;
  p.b[2] = tx::ham84((unsigned)designation & 15); p.tag[2] = H84;
  for (int i = 0; i < 13; i++) {
    uint32_t v = (uint32_t)(t[i].address & 0x3F) | ((uint32_t)(t[i].mode & 0x1F) << 6) | ((uint32_t)(t[i].data & 0x7F) << 11);
    tx::ham2418(v, p.b + 3 + i * 3);
    p.tag[3 + i * 3] = H2418_0; p.tag[4 + i * 3] = H2418_1; p.tag[5 + i * 3] = H2418_2;
  }
  return p;
}

// X/28/0 format 1 with the given 13 triplets worth of bits (content chosen by the caller)
static inline Packet x28(int mag, int designation, const uint32_t trip[13]) {
  Packet p; memset(&p, 0, sizeof p); mrag(p, mag, 28); p.designation = designation;
  p.b[2] = tx::ham84((unsigned)designation & 15); p.tag[2] = H84;
  for (int i = 0; i < 13; i++) {
    tx::ham2418(trip[i] & 0x3FFFF, p.b + 3 + i * 3);
    p.tag[3 + i * 3] = H2418_0; p.tag[4 + i * 3] = H2418_1; p.tag[5 + i * 3] = H2418_2;
  }
  return p;
}

// ------------------------------------------------------------------ model ---
// One formatted cell, in the vocabulary of the property statement.
enum Size { NORMAL = 0, DW, DH, DS, OVER_TOP, OVER_BOTTOM, DH2, DS2 };
struct Cell {
  int code = 0x20;        // 7-bit character code to map through the designated G0 set, or
  int mosaic = -1;        // >= 0: G1 block mosaic pattern code (0x20..0x3F,0x60..0x7F)
  bool separated = false; // for mosaics
  int fg = 7, bg = 0;
  bool flash = false, conceal = false, boxed = false;
  int size = NORMAL;
  bool held_uncertain = false;  // cell shows a held mosaic whose value EN 300 706 and common practice define differently
};

struct PageImage {
  // raw rows as the receiver must hold them: row 0 = 32 header text bytes at columns 8..39
  uint8_t rows[25][40];
  bool have_row[25];
  PageImage() { memset(rows, 0x20, sizeof rows); memset(have_row, 0, sizeof have_row); }
};

// EN 300 706 12.2: Level 1 spacing attributes.  Fills grid[25][40].
static inline void format_level1(const PageImage& img, Cell grid[25][40]) {
  for (int r = 0; r < 25; r++) for (int c = 0; c < 40; c++) grid[r][c] = Cell();
  for (int row = 0; row < 25; row++) {
    int fg = 7, bg = 0; bool flash = false, conceal = false, boxed = false, sep = false, hold = false, mosaic = false;
    int size = NORMAL;
    // EN 300 706 12.2 (Hold Mosaics): at the start of each row the held mosaic character is a space.
    // held_unc marks the cases where the standard (reset to space on a size or alpha/mosaic change) and common
    // practice (no reset) differ; they can only differ once a mosaic character of THIS row has been captured
    // (held_set) - before that both readings show the start-of-row blank, so there is no leniency then.
    int held = 0x20; bool held_sep = false; bool held_unc = false; bool held_set = false;
    bool dh_row = false; bool wide_skip = false;
    for (int col = 0; col < 40; col++) {
      int raw = (row == 0 && col < 8) ? 0x20 : (img.rows[row][col] & 0x7F);
      // set-at
      switch (raw) {
        case 0x09: flash = false; break;
        case 0x0C: if (size != NORMAL) { held_unc = true; } size = NORMAL; break;
        case 0x18: conceal = true; break;
        case 0x19: sep = false; break;
        case 0x1A: sep = true; break;
        case 0x1C: bg = 0; break;
        case 0x1D: bg = fg; break;
        case 0x1E: hold = true; break;
        default: break;
      }
      Cell c;
      c.fg = fg; c.bg = bg; c.flash = flash; c.conceal = conceal; c.boxed = boxed; c.size = size;
      if (raw < 0x20) {
        if (hold && mosaic) { c.mosaic = held; c.separated = held_sep; c.held_uncertain = held_unc && held_set; }
        else c.code = 0x20;
      } else if (mosaic && (raw & 0x20)) {
        c.mosaic = raw; c.separated = sep; held = raw; held_sep = sep; held_unc = false; held_set = true;
      } else {
        c.code = raw;
      }
      if (wide_skip) {
        wide_skip = false;  // covered by the double width character to the left
      } else {
        grid[row][col] = c;
        if (size == DW || size == DS) {
          if (col < 39) { grid[row][col + 1] = c; grid[row][col + 1].size = OVER_TOP; wide_skip = true; }
          else grid[row][col].size = NORMAL;
        }
      }
      // set-after
      switch (raw) {
        case 0x00 ... 0x07: fg = raw & 7; conceal = false; if (mosaic) held_unc = true; mosaic = false; break;
        case 0x08: flash = true; break;
        case 0x0A: if (col < 39 && (img.rows[row][col + 1] & 0x7F) == 0x0A) boxed = false; break;
        case 0x0B: if (col < 39 && (img.rows[row][col + 1] & 0x7F) == 0x0B) boxed = true; break;
        case 0x0D: if (row >= 1 && row <= 22) { if (size != DH) held_unc = true; size = DH; dh_row = true; } break;
        case 0x0E: if (col < 39) { if (size != DW) held_unc = true; size = DW; } break;
        case 0x0F: if (col < 39 && row >= 1 && row <= 22) { if (size != DS) held_unc = true; size = DS; dh_row = true; } break;
        case 0x10 ... 0x17: fg = raw & 7; conceal = false; if (!mosaic) held_unc = true; mosaic = true; break;
        case 0x1F: hold = false; break;
        default: break;
      }
    }
    if (dh_row && row < 24) {
      for (int col = 0; col < 40; col++) {
        Cell c = grid[row][col];
        switch (c.size) {
          case DH: c.size = DH2; grid[row + 1][col] = c; break;
          case DS: c.size = DS2; grid[row + 1][col] = c; if (col < 39) { c.size = OVER_BOTTOM; grid[row + 1][++col] = c; } break;
          default: c.size = NORMAL; c.code = 0x20; c.mosaic = -1; grid[row + 1][col] = c; break;
        }
      }
      row++;  // the row below is not displayed on its own
    }
  }
}

}  // namespace ttx
