/* The real proxy daemon (daemon/proxyd.c), embedded: its main() becomes
 * zvbid_main(), the V4L capture constructors are redirected to the simulated
 * capture device of the harness, exit() to the simulator.  Being in the same
 * translation unit, the white-box audit below can read the daemon's statics.
 * No repository source is modified.  */
#include <stdlib.h>
#include <stdio.h>
#include <unistd.h>
void zsim_exit(int status) __attribute__((noreturn));
int zsim_pipe(int fds[2]);
#define pipe zsim_pipe   /* not a link-time wrap: the sanitizer runtime creates pipes of its own */
#define main zvbid_main
#define exit zsim_exit
#define vbi_capture_v4l2_new zsim_capture_v4l2_new
#define vbi_capture_v4l_new zsim_capture_v4l_new
#define perror(s) ((void)0)
#include "daemon/proxyd.c"
#undef main
#undef exit

/* ---- white-box view for the harness (read only) ---- */
struct zvbid_client_view {
	int state, sock_fd, token_state, chn_prio, profile_valid;
	unsigned int all_services;
	unsigned int services[4];
	int queued;		/* frames between the client's cursor and the queue tail */
	int buffer_count;
};
struct zvbid_dev_view {
	int open, use_thread, thread_active, vbi_fd;
	unsigned int all_services;
	int max_lines, n_sliced, n_free, chn_prio, scanning;
};

int zvbid_n_clients(void)
{
	int n = 0;
	PROXY_CLNT *c;
	for (c = proxy.p_clnts; c; c = c->p_next) n++;
	return n;
}

int zvbid_client(int idx, struct zvbid_client_view *v)
{
	PROXY_CLNT *c;
	PROXY_QUEUE *q;
	int i;
	for (c = proxy.p_clnts; c && idx > 0; c = c->p_next) idx--;
	if (!c) return 0;
	v->state = c->state; v->sock_fd = c->io.sock_fd; v->token_state = c->chn_state.token_state;
	v->chn_prio = c->chn_prio; v->profile_valid = c->chn_profile.is_valid;
	v->all_services = c->all_services;
	for (i = 0; i < 4; i++) v->services[i] = c->services[i];
	v->queued = 0;
	for (q = c->p_sliced; q; q = q->p_next) v->queued++;
	v->buffer_count = c->buffer_count;
	return 1;
}

void zvbid_dev(struct zvbid_dev_view *v)
{
	PROXY_DEV *d = &proxy.dev[0];
	PROXY_QUEUE *q;
	v->open = d->p_capture != NULL; v->use_thread = d->use_thread; v->thread_active = d->thread_active;
	v->vbi_fd = d->vbi_fd; v->all_services = d->all_services; v->max_lines = d->max_lines;
	v->chn_prio = d->chn_prio; v->scanning = d->scanning;
	v->n_sliced = 0; for (q = d->p_sliced; q; q = q->p_next) v->n_sliced++;
	v->n_free = 0; for (q = d->p_free; q; q = q->p_next) v->n_free++;
}

/* Structural audit of the frame queue at a quiescent point (daemon blocked in
 * select, acquisition thread not inside forward_data).  Returns NULL when
 * consistent, else a description.  */
const char *zvbid_audit(void)
{
	static char msg[256];
	PROXY_DEV *d = &proxy.dev[0];
	PROXY_QUEUE *q, *f;
	PROXY_CLNT *c;
	int pos, n;

	for (q = d->p_sliced, n = 0; q; q = q->p_next, n++) {
		unsigned int refs = 0;
		if (n > 4096) return "sliced queue is cyclic";
		for (f = d->p_free; f; f = f->p_next)
			if (f == q) return "a buffer is on both the sliced and the free queue";
		/* ref_count = number of clients whose cursor is at or before this buffer */
		for (c = proxy.p_clnts; c; c = c->p_next) {
			PROXY_QUEUE *w;
			if (c->dev_idx != 0 || !c->p_sliced) continue;
			for (w = c->p_sliced; w; w = w->p_next)
				if (w == q) { refs++; break; }
		}
		if (refs != q->ref_count) {
			snprintf(msg, sizeof msg, "queue buffer %d has ref_count %u but %u client cursors are at or before it", n, q->ref_count, refs);
			return msg;
		}
		if (q->ref_count == 0) return "a buffer with ref_count 0 is on the sliced queue";
		if (q->line_count > q->max_lines) return "line_count exceeds max_lines";
	}
	for (f = d->p_free, n = 0; f; f = f->p_next, n++)
		if (n > 4096) return "free queue is cyclic";
	for (c = proxy.p_clnts, pos = 0; c; c = c->p_next, pos++) {
		int found = 0;
		if (!c->p_sliced) continue;
		for (q = d->p_sliced; q; q = q->p_next) if (q == c->p_sliced) found = 1;
		if (!found) { snprintf(msg, sizeof msg, "cursor of client %d points to a buffer that is not on the sliced queue", pos); return msg; }
		if (c->state != REQ_STATE_FORWARD) { snprintf(msg, sizeof msg, "client %d in state %d still has queued frames", pos, c->state); return msg; }
	}
	return NULL;
}

int zvbid_should_exit(void) { return proxy.should_exit; }
