/* White-box tripwires for the C01 world (needs the internal layout of vbi_decoder, which the world's C++ translation
 * unit cannot include next to libzvbi.h).  The decoder object is one heap block: an overrun of one member into the next is
 * invisible to AddressSanitizer.  Cheap tests at member boundaries, valid between two vbi_decode() calls:
 *  - the three mutexes are not held then, their memory is what pthread_mutex_init left (all zero with glibc);
 *  - vt.current (right behind vt.raw_page[7], in front of the caption mutex) points to one of the eight raw pages.
 * Returns NULL or the name of the member that holds bytes nothing may have written there. */
#include <string.h>
#include "src/vbi.h"

static int all_zero(const void *p, size_t n)
{
	const unsigned char *b = (const unsigned char *) p;
	size_t i;

	for (i = 0; i < n; i++)
		if (b[i])
			return 0;
	return 1;
}

const char *
zsim_c01_tripwire(const vbi_decoder *vbi)
{
	if (!all_zero(&vbi->cc.mutex, sizeof(vbi->cc.mutex)))
		return "cc.mutex (behind vt.raw_page[7] and vt.current)";
	if (!all_zero(&vbi->chswcd_mutex, sizeof(vbi->chswcd_mutex)))
		return "chswcd_mutex";
	if (!all_zero(&vbi->event_mutex, sizeof(vbi->event_mutex)))
		return "event_mutex";
	if (vbi->vt.current != NULL) {
		const char *c = (const char *) vbi->vt.current;
		const char *b = (const char *) vbi->vt.raw_page;

		if (c < b || c > (const char *)(vbi->vt.raw_page + 7)
		    || (c - b) % (long) sizeof(vbi->vt.raw_page[0]))
			return "vt.current";
	}
	{
		/* the bookkeeping integers at the end of every raw page (behind the page under construction, its
		   raw rows and the DRCS modes): X/26 triplets received -1 ... 16 * 13, AIT entries 0 ... 46 */
		int m;

		for (m = 0; m < 8; m++) {
			if (vbi->vt.raw_page[m].num_triplets < -1 || vbi->vt.raw_page[m].num_triplets > 16 * 13)
				return "vt.raw_page[].num_triplets";
			if (vbi->vt.raw_page[m].ait_page < 0 || vbi->vt.raw_page[m].ait_page > 46)
				return "vt.raw_page[].ait_page";
		}
	}
	return NULL;
}
