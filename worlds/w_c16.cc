// C16 — export and rendering are faithful, bounded and independent of the output target.
//
// World: one real vbi_decoder.  A Teletext broadcaster task and a caption encoder task
// feed it frame by frame; an exporter task, interleaved with them by the seeded
// scheduler, fetches whatever page the decoder holds at that moment (snapshot) and
// exports it with a module x option vector to four targets:
//   vbi_export_alloc (anchor), vbi_export_mem (sizes 0..needed+1, guarded buffers),
//   vbi_export_stdio (FILE* from fopencookie over the simulated file layer),
//   vbi_export_file  (simulated open/write/close/stat/unlink, link-time wrap).
// Fault enumeration: a fault-free pass counts the writes W; then fault kinds are attached
// to write indices (all of them when the op says so, a planned subset otherwise).
// Pure clauses (text round trip, vbi_print_page_region, region rendering) ride along on
// the pages the simulation reached.  The text module's content clause is judged for every
// setting of its options: with control=1/2 the ECMA-48 control functions are removed first and
// the right halves of wide characters may be missing (check_text_roundtrip); a sweep over
// control x format/charset x gfx_chr runs on every page the text module exports and as an
// op of its own (text_sweep), each vector over all four targets.  vbi_print_page_region is
// called with every buffer size (small regions) or every row-end size (size sweep flag).
#include <errno.h>
#include <fcntl.h>
#include <iconv.h>
#include <stdarg.h>
#include <sys/stat.h>
#include <unistd.h>

#include <cstdio>
#include <cstring>
#include <map>
#include <set>
#include <algorithm>

#include "alloc.h"
#include "sim.h"
#include "ttx.h"

extern "C" {
#include "src/libzvbi.h"
}

using namespace sim;

// ======================================================= simulated file layer ===
namespace c16 {

enum FaultKind {
  F_NONE = 0,
  // fd layer (vbi_export_file)
  W_SHORT, W_ZERO, W_EINTR, W_EIO, W_ENOSPC, C_EINTR, C_EIO, O_EINTR, O_EACCES,
  // fopencookie write function (vbi_export_stdio)
  K_SHORT, K_ZERO_EIO, K_ZERO_ENOSPC,
  // stdio calls of the library (vbi_export_stdio)
  S_FWRITE_SHORT, S_VFPRINTF_FAIL,
  F_N
};
static const char* fault_name[F_N] = {"none", "write_short", "write_zero", "write_eintr", "write_eio", "write_enospc", "close_eintr", "close_eio",
                                      "open_eintr", "open_eacces", "cookie_short", "cookie_zero_eio", "cookie_zero_enospc", "fwrite_short", "vfprintf_fail"};
static bool is_file_fault(int k) { return k >= W_SHORT && k <= O_EACCES; }
static bool is_stdio_fault(int k) { return k >= K_SHORT && k <= S_VFPRINTF_FAIL; }

static const char* SIMROOT = "/zsimfs/";

struct Inode { std::string data; size_t last_write = 0; };
struct Fd { int ino = -1; bool open = false; bool wr = false; bool hard_failed = false; int close_calls = 0; int close_ok_possible = 0; };

struct SimFS {
  RunCtx* ctx = nullptr;
  std::vector<Inode> ino;
  std::map<std::string, int> names;
  std::map<int, Fd> fds;
  int next_fd = 700;
  // the fault attached to the export in progress
  int fk = F_NONE; int fidx = 0; int fcount = 1; int farg = 0; int fired = 0;
  // counters of the export in progress
  int n_open = 0, n_write = 0, n_close = 0, n_unlink = 0, n_stat = 0, n_cookie = 0, n_fwrite = 0, n_vfprintf = 0;
  bool in_export = false;
  FILE* sim_fp = nullptr;
  bool stdio_call_failed = false;  // an fwrite/vfprintf of the library returned failure
  bool cookie_sticky_fail = false;
  std::string never;               // first never-event seen
  int hard_faults = 0;

  void reset_counters() {
    n_open = n_write = n_close = n_unlink = n_stat = n_cookie = n_fwrite = n_vfprintf = 0;
    fired = 0; stdio_call_failed = false; cookie_sticky_fail = false; never.clear(); hard_faults = 0;
  }
  void arm(int k, int idx, int count, int arg) { fk = k; fidx = idx; fcount = count < 1 ? 1 : count; farg = arg; fired = 0; }
  void disarm() { fk = F_NONE; }
  void nev(const std::string& s) { if (never.empty()) never = s; }
  bool fire(int kind, int call_index) {
    if (fk != kind || call_index < fidx || fired >= fcount) return false;
    fired++;
    return true;
  }
  static bool is_sim(const char* p) { return p && !strncmp(p, SIMROOT, strlen(SIMROOT)); }
  bool owns(int fd) const { return fds.count(fd) != 0; }
  bool exists(const std::string& n) const { return names.count(n) != 0; }
  const std::string& content(const std::string& n) { return ino[(size_t)names[n]].data; }
  void create(const std::string& n, const std::string& data) { ino.push_back(Inode()); ino.back().data = data; names[n] = (int)ino.size() - 1; }
  int open_fds() const { int n = 0; for (auto& kv : fds) if (kv.second.open) n++; return n; }

  int do_open(const char* path, int flags) {
    int i = n_open++;
    if (fire(O_EINTR, i)) { errno = EINTR; return -1; }
    if (fire(O_EACCES, i)) { errno = EACCES; return -1; }
    std::string n(path);
    if (!names.count(n)) {
      if (!(flags & O_CREAT)) { errno = ENOENT; return -1; }
      create(n, "");
    } else if ((flags & O_CREAT) && (flags & O_EXCL)) { errno = EEXIST; return -1; }
    int id = names[n];
    if (flags & O_TRUNC) ino[(size_t)id].data.clear();
    Fd f; f.ino = id; f.open = true; f.wr = (flags & O_ACCMODE) != O_RDONLY;
    int fd = next_fd++;
    fds[fd] = f;
    return fd;
  }
  ssize_t do_write(int fd, const void* buf, size_t n) {
    Fd& f = fds[fd];
    int i = n_write++;
    if (!f.open) { nev("write() to a closed descriptor"); errno = EBADF; return -1; }
    if (!f.wr) { errno = EBADF; return -1; }
    if (f.hard_failed) nev("write() after a failed write()");
    if (fire(W_ZERO, i)) return 0;
    if (fire(W_EINTR, i)) { errno = EINTR; return -1; }
    if (fire(W_EIO, i)) { f.hard_failed = true; hard_faults++; errno = EIO; return -1; }
    if (fire(W_ENOSPC, i)) { f.hard_failed = true; hard_faults++; errno = ENOSPC; return -1; }
    if (n >= 2 && fire(W_SHORT, i)) {
      size_t k = 1 + (size_t)farg % (n - 1);
      ino[(size_t)f.ino].data.append((const char*)buf, k); ino[(size_t)f.ino].last_write = k;
      return (ssize_t)k;
    }
    ino[(size_t)f.ino].data.append((const char*)buf, n); ino[(size_t)f.ino].last_write = n;
    return (ssize_t)n;
  }
  int do_close(int fd) {
    Fd& f = fds[fd];
    int i = n_close++;
    f.close_calls++;
    if (!f.open) { nev("close() of a descriptor that is already closed (double close)"); errno = EBADF; return -1; }
    // EINTR: POSIX leaves the descriptor state unspecified; this layer keeps it open, the
    // reading under which a retry (as export.c does) is correct.
    if (fire(C_EINTR, i)) { errno = EINTR; return -1; }
    f.close_ok_possible++;
    f.open = false;
    if (fire(C_EIO, i)) {
      // deferred write error reported at close: the last chunk did not reach the medium
      Inode& in = ino[(size_t)f.ino];
      size_t lost = in.last_write ? in.last_write : in.data.size();
      if (lost > in.data.size()) lost = in.data.size();
      in.data.resize(in.data.size() - lost);
      hard_faults++;
      errno = EIO; return -1;
    }
    return 0;
  }
  int do_unlink(const char* path) {
    n_unlink++;
    auto it = names.find(path);
    if (it == names.end()) { errno = ENOENT; return -1; }
    names.erase(it);
    return 0;
  }
  int do_stat(const char* path, struct stat* st) {
    n_stat++;
    auto it = names.find(path);
    if (it == names.end()) { errno = ENOENT; return -1; }
    memset(st, 0, sizeof *st);
    st->st_mode = S_IFREG | 0644; st->st_size = (off_t)ino[(size_t)it->second].data.size(); st->st_nlink = 1;
    return 0;
  }
  // fopencookie write function: returns the number of bytes taken, 0 on error
  ssize_t do_cookie_write(int id, const char* buf, size_t n) {
    int i = n_cookie++;
    if (cookie_sticky_fail) { errno = EIO; return 0; }
    if (fire(K_ZERO_EIO, i)) { hard_faults++; if (farg & 1) cookie_sticky_fail = true; errno = EIO; return 0; }
    if (fire(K_ZERO_ENOSPC, i)) { hard_faults++; if (farg & 1) cookie_sticky_fail = true; errno = ENOSPC; return 0; }
    if (n >= 2 && fire(K_SHORT, i)) {
      size_t k = 1 + (size_t)(farg >> 1) % (n - 1);
      ino[(size_t)id].data.append(buf, k);
      hard_faults++; if (farg & 1) cookie_sticky_fail = true;
      errno = ENOSPC; return (ssize_t)k;
    }
    ino[(size_t)id].data.append(buf, n);
    return (ssize_t)n;
  }
};

static SimFS* g_fs = nullptr;
struct Cookie { int ino; };
static ssize_t cookie_write(void* c, const char* buf, size_t n) {
  HarnessScope hs;
  if (!g_fs) return 0;
  return g_fs->do_cookie_write(((Cookie*)c)->ino, buf, n);
}
static int cookie_close(void*) { return 0; }

}  // namespace c16

extern "C" {
int __real_open(const char*, int, ...);
ssize_t __real_write(int, const void*, size_t);
int __real_close(int);
int __real_stat(const char*, struct stat*);
int __real_unlink(const char*);
size_t __real_fwrite(const void*, size_t, size_t, FILE*);
int __real_vfprintf(FILE*, const char*, va_list);

int __wrap_open(const char* path, int flags, ...) {
  mode_t mode = 0;
  if (flags & O_CREAT) { va_list ap; va_start(ap, flags); mode = (mode_t)va_arg(ap, int); va_end(ap); }
  if (c16::g_fs && c16::SimFS::is_sim(path)) { HarnessScope hs; return c16::g_fs->do_open(path, flags); }
  return __real_open(path, flags, mode);
}
ssize_t __wrap_write(int fd, const void* buf, size_t n) {
  if (c16::g_fs && c16::g_fs->owns(fd)) { HarnessScope hs; return c16::g_fs->do_write(fd, buf, n); }
  return __real_write(fd, buf, n);
}
int __wrap_close(int fd) {
  if (c16::g_fs && c16::g_fs->owns(fd)) { HarnessScope hs; return c16::g_fs->do_close(fd); }
  return __real_close(fd);
}
int __wrap_stat(const char* path, struct stat* st) {
  if (c16::g_fs && c16::SimFS::is_sim(path)) { HarnessScope hs; return c16::g_fs->do_stat(path, st); }
  return __real_stat(path, st);
}
int __wrap_unlink(const char* path) {
  if (c16::g_fs && c16::SimFS::is_sim(path)) { HarnessScope hs; return c16::g_fs->do_unlink(path); }
  return __real_unlink(path);
}
size_t __wrap_fwrite(const void* p, size_t size, size_t nmemb, FILE* fp) {
  c16::SimFS* fs = c16::g_fs;
  if (fs && fs->in_export && fp == fs->sim_fp) {
    int i = fs->n_fwrite++;
    if (fs->stdio_call_failed) fs->nev("fwrite() after a stdio call that reported failure");
    if (nmemb >= 1 && fs->fire(c16::S_FWRITE_SHORT, i)) {
      size_t k = (size_t)fs->farg % nmemb;
      size_t r = k ? __real_fwrite(p, size, k, fp) : 0;
      fs->stdio_call_failed = true; fs->hard_faults++;
      errno = EIO;
      return r;
    }
    size_t r = __real_fwrite(p, size, nmemb, fp);
    if (r != nmemb) fs->stdio_call_failed = true;
    return r;
  }
  return __real_fwrite(p, size, nmemb, fp);
}
int __wrap_vfprintf(FILE* fp, const char* fmt, va_list ap) {
  c16::SimFS* fs = c16::g_fs;
  if (fs && fs->in_export && fp == fs->sim_fp) {
    int i = fs->n_vfprintf++;
    if (fs->stdio_call_failed) fs->nev("vfprintf() after a stdio call that reported failure");
    if (fs->fire(c16::S_VFPRINTF_FAIL, i)) { fs->stdio_call_failed = true; fs->hard_faults++; errno = EIO; return -1; }
    int r = __real_vfprintf(fp, fmt, ap);
    if (r < 0) fs->stdio_call_failed = true;
    return r;
  }
  return __real_vfprintf(fp, fmt, ap);
}
}


namespace {
using namespace c16;

static int to_bcd(int v) { return ((v / 10) % 10) * 16 + v % 10; }

// ---- Teletext content (generation only; the oracle never looks at what was sent) ----
static void header_text(int pgno, uint8_t out[32]) {
  char t[40];
  snprintf(t, sizeof t, "ZSIMTEXT%03X Export News  AB12:34:56", pgno);
  memcpy(out, t, 32);
}
static void gen_row(Rng& r, int style, uint8_t out[40]) {
  // styles: 0 plain, 1 attributes, 2 mosaics, 3 sizes, 4 boxes, 5 everything, 6 text with URLs / e-mail (link cells),
  //         7 headline rows, 8 words of mixed sizes (both below)
  if (style == 6) {
    static const char* words[] = {"www.zsim.org ", "http://a.b/c?d&e ", "joe@example.com ", "ftp://x.y ", "<News> & \"more\" ", "p.123 ", "Wetter ", "100 200 300 "};
    std::string s;
    while (s.size() < 40) s += words[r.below(8)];
    for (int c = 0; c < 40; c++) out[c] = (uint8_t)s[(size_t)c];
    if (r.chance(1, 2)) out[0] = (uint8_t)r.below(8);
    return;
  }
  if (style == 7 || style == 8) {
    // 7: headline - a colour, one size attribute (double height / width / size), optionally flash, conceal or a box, words (letters
    //    spaced out under double width so that every letter shows), back to normal size somewhere, plain text to the end
    // 8: words of changing size within one row, every size attribute incl. normal, some words flashing / concealed / boxed / mosaics
    static const char* words[] = {"NEWS", "Wetter", "SPORT", "12:30", "Heute", "TV", "Index 100", "+++", "Seite", "zsim"};
    int c = 0;
    auto put = [&](int v) { if (c < 40) out[c++] = (uint8_t)v; };
    memset(out, 0x20, 40);
    if (r.chance(2, 3)) put(1 + (int)r.below(7));
    while (c < 40) {
      int size = 0x0C + (int)r.below(4);
      if (style == 7 && c < 4) size = 0x0D + (int)r.below(3);
      put(size);
      bool boxed = r.chance(1, 6);
      if (boxed) { put(0x0B); put(0x0B); }
      switch (r.below(8)) { case 0: put(0x08); break; case 1: put(0x18); break; case 2: put(0x10 + (int)r.below(8)); break; default: break; }
      int nw = style == 7 ? 2 + (int)r.below(3) : 1;
      bool spaced = (size == 0x0E || size == 0x0F) && r.chance(3, 4);
      for (int k = 0; k < nw; k++) {
        for (const char* w = words[r.below(10)]; *w; w++) { put(*w); if (spaced) put(0x20); }
        put(0x20);
      }
      if (boxed) { put(0x0A); put(0x0A); }
      if (r.chance(1, 3)) put(0x09);
      if (style == 7) {
        if (r.chance(1, 4)) break;  // the rest of the row stays blank, still in the headline's size
        put(0x0C);
        if (r.chance(1, 2)) put(1 + (int)r.below(7));
        while (c < 40) put(r.chance(1, 8) ? 0x20 : 0x41 + (int)r.below(58));
      }
    }
    return;
  }
  for (int c = 0; c < 40; c++) {
    int ch; bool ctl;
    switch (style) { case 0: ctl = r.chance(1, 20); break; case 1: ctl = r.chance(1, 4); break; default: ctl = r.chance(1, 3); break; }
    if (!ctl) { out[c] = (uint8_t)(0x20 + r.below(0x60)); continue; }
    switch (style) {
      case 0: ch = (int)r.below(8); break;
      case 1: { static const int s[] = {0,1,2,3,4,5,6,7,8,9,0x18,0x1C,0x1D}; ch = s[r.below(sizeof s / sizeof s[0])]; break; }
      case 2: { static const int s[] = {0x10,0x11,0x12,0x13,0x14,0x15,0x16,0x17,0x19,0x1A,0x1E,0x1F,1,7,0x1D,0x1C}; ch = s[r.below(sizeof s / sizeof s[0])]; break; }
      case 3: { static const int s[] = {0x0C,0x0D,0x0E,0x0F,0x0D,0x0E,0x0F,2,0x12,0x1E}; ch = s[r.below(sizeof s / sizeof s[0])]; break; }
      case 4: { static const int s[] = {0x0A,0x0B}; ch = s[r.below(2)]; out[c] = (uint8_t)ch; if (c < 39 && r.chance(2, 3)) out[++c] = (uint8_t)ch; continue; }
      default: ch = (int)r.below(0x20); break;
    }
    out[c] = (uint8_t)ch;
  }
}

// ---- characters, charsets (harness side: libc iconv used independently of the library) ----
static bool representable(const std::string& cs, unsigned u) {
  static std::map<std::string, std::map<unsigned, bool>> cache;
  auto& m = cache[cs];
  auto it = m.find(u);
  if (it != m.end()) return it->second;
  bool ok = false;
  iconv_t cd = iconv_open(cs.c_str(), "UTF-32LE");
  if (cd != (iconv_t)-1) {
    uint32_t in = u; char out[16]; char* ip = (char*)&in; char* op = out; size_t li = 4, lo = sizeof out;
    size_t rc = iconv(cd, &ip, &li, &op, &lo);
    ok = rc != (size_t)-1 && li == 0 && op != out;
    iconv_close(cd);
  }
  m[u] = ok;
  return ok;
}
// decode bytes in charset cs to code points; false when the bytes are not valid in cs
static bool decode(const std::string& cs, const std::string& bytes, std::vector<uint32_t>& out) {
  out.clear();
  iconv_t cd = iconv_open("UTF-32LE", cs.c_str());
  if (cd == (iconv_t)-1) return false;
  std::vector<uint32_t> buf(bytes.size() + 4);
  char* ip = (char*)bytes.data(); size_t li = bytes.size(); char* op = (char*)buf.data(); size_t lo = buf.size() * 4;
  size_t rc = iconv(cd, &ip, &li, &op, &lo);
  iconv_close(cd);
  if (rc == (size_t)-1 || li != 0) return false;
  out.assign(buf.begin(), buf.begin() + (long)((buf.size() * 4 - lo) / 4));
  return true;
}
static std::string encode(const std::string& cs, const std::vector<uint32_t>& cps) {
  std::string r;
  iconv_t cd = iconv_open(cs.c_str(), "UTF-32LE");
  if (cd == (iconv_t)-1) return r;
  for (uint32_t u : cps) {
    if (u == '\n') { r += '\n'; continue; }
    char out[16]; char* ip = (char*)&u; char* op = out; size_t li = 4, lo = sizeof out;
    if (iconv(cd, &ip, &li, &op, &lo) == (size_t)-1) { r += '?'; continue; }
    r.append(out, (size_t)(op - out));
  }
  iconv_close(cd);
  return r;
}
static const char* const charsets[] = {"ASCII", "ISO-8859-1", "ISO-8859-2", "ISO-8859-5", "ISO-8859-7", "KOI8-R", "UTF-8", "ISO-8859-9"};
static const int n_charsets = 8;

// Heap blocks handed to the library during an export call are pre-filled with a byte the harness
// changes from call to call: output that depends on uninitialised heap memory then differs between
// the targets deterministically instead of by accident.  (Active only inside export/render calls,
// where the library and its helpers allocate with malloc/realloc; calloc of small blocks is zeroed
// by the allocator after this hook has run.)
extern "C" int __sanitizer_install_malloc_and_free_hooks(void (*)(const volatile void*, size_t), void (*)(const volatile void*)) __attribute__((weak));
static bool g_fill_active = false; static int g_fill_byte = 0x31;
static void fill_malloc_hook(const volatile void* p, size_t n) { if (g_fill_active && p && n && n <= (64u << 20)) memset((void*)p, g_fill_byte, n); }
static void fill_free_hook(const volatile void*) {}
struct FillScope { FillScope() { g_fill_byte = 0x31 + (g_fill_byte - 0x31 + 7) % 61; g_fill_active = true; } ~FillScope() { g_fill_active = false; } };

static uint64_t hash_bytes(const void* p, size_t n) { Fnv f; f.bytes(p, n); return f.h; }

struct OptVal { std::string key; int type; int num; std::string str; };

struct C16 : World {
  const char* name() const override { return "c16"; }
  const char* property() const override { return "C16"; }

  // ------------------------------------------------------------------ plan ----
  Plan generate(uint64_t seed, const std::string& tier) override {
    Plan p; p.world = name(); p.seed = seed;
    Rng r(seed, "plan");
    bool thorough = tier == "thorough";
    p.knobs["sched_seed"] = (int64_t)(r.next() >> 1);
    p.knobs["policy"] = (int64_t)r.below(3);
    p.knobs["pparam"] = (p.knobs["policy"] == 1) ? 30 + (int64_t)r.below(65) : (int64_t)r.below(4);
    p.knobs["frame_max"] = 1 + (int64_t)r.below(12);
    p.knobs["stdio_buf"] = (int64_t)r.below(5);
    bool faults = r.chance(2, 3);  // a third of the runs fault free: every target must succeed
    p.knobs["faults"] = faults;
    unsigned enabled = faults ? ((unsigned)r.below(1u << F_N) | (1u << (1 + r.below(F_N - 1)))) : 0;  // swarm subset of fault kinds
    // broadcaster
    int npages = 1 + (int)r.below(thorough ? 8 : 5);
    for (int i = 0; i < npages; i++) {
      Op o; o.task = 0; o.kind = "page";
      // a: page, sub, national option, header control (bit0 erase, bit1 newsflash, bit2 subtitle, bit3 suppress header, bit4 inhibit display),
      //    content seed, flags (bit0 X/27/0, bit1 link control, bit2 row 24, bit3 random order, bit4 X/26, bit5 X/28/0), style, density,
      //    extra row styles (bit0 headline / mixed-size rows among the per-row styles, bit1 as the base style)
      o.a = {(int64_t)r.below(99), (int64_t)r.below(4), (int64_t)r.below(8), r.chance(1, 3) ? (int64_t)r.below(32) : 0, (int64_t)r.below(1u << 30),
             (int64_t)r.below(64), (int64_t)r.below(7), (int64_t)r.below(4), r.chance(1, 2) ? (int64_t)r.below(4) : 0};
      p.ops.push_back(o);
    }
    // caption encoder
    int ncap = (int)r.below(thorough ? 10 : 6);
    for (int i = 0; i < ncap; i++) {
      Op o; o.task = 1; o.kind = "cap";
      o.a = {(int64_t)r.below(6), (int64_t)r.below(1u << 30), 1 + (int64_t)r.below(14)};
      p.ops.push_back(o);
    }
    // exporter
    int nexp = 1 + (int)r.below(thorough ? 5 : 3);
    auto textopts = [&] {
      Op o; o.task = 2; o.kind = "textopts";
      // a: page selector, level, wait, option seed: the text module's option space (control x format/charset x gfx_chr) on one page
      o.a = {(int64_t)r.below(64), (int64_t)r.below(4), (int64_t)r.below(4), (int64_t)r.below(1u << 30)};
      p.ops.push_back(o);
    };
    if (r.chance(1, 6)) textopts();
    for (int i = 0; i < nexp; i++) {
      int what = (int)r.below(10);
      if (what < 6) {
        Op o; o.task = 2; o.kind = "export";
        // a: module, option seed, page selector, level, wait, mem seed, flags (bit0 sweep all buffer sizes, bit1 enumerate every fault point,
        //    bit2 file exists before, bit3 ..)
        int flags = (r.chance(1, thorough ? 3 : 8) ? 1 : 0) | (faults && r.chance(1, thorough ? 4 : 12) ? 2 : 0) | (r.chance(1, 3) ? 4 : 0);
        // module = position in vbi_export_info_enum (html, png, ppm, text, xpm in this build); the text module a little more often
        int64_t module = r.chance(1, 6) ? 3 : (int64_t)r.below(5);
        o.a = {module, (int64_t)r.below(1u << 30), (int64_t)r.below(64), (int64_t)r.below(4), (int64_t)r.below(4), (int64_t)r.below(1u << 30), flags};
        p.ops.push_back(o);
        if (faults) {
          int nf = 1 + (int)r.below(thorough ? 10 : 6);
          for (int k = 0; k < nf; k++) {
            int kind = 1 + (int)r.below(F_N - 1);
            if (!(enabled >> kind & 1)) continue;
            Op f; f.task = 2; f.kind = "fault";
            // a: kind, index selector (0 first, 1 last, else seeded), count, argument
            int cnt = (kind == W_ZERO || kind == C_EINTR || kind == O_EINTR) ? 1 + (int)r.below(13) : 1 + (int)r.below(2);
            f.a = {kind, (int64_t)r.below(40), cnt, (int64_t)r.below(1u << 20)};
            p.ops.push_back(f);
          }
        }
      } else if (what < 8) {
        Op o; o.task = 2; o.kind = "render";
        // a: page selector, level, wait, region seed, format (0 RGBA32_LE, 1 PAL8, 2 unsupported), stride mode, reveal/flash bits
        o.a = {(int64_t)r.below(64), (int64_t)r.below(4), (int64_t)r.below(4), (int64_t)r.below(1u << 30), (int64_t)r.below(3), (int64_t)r.below(6), (int64_t)r.below(4)};
        p.ops.push_back(o);
      } else {
        Op o; o.task = 2; o.kind = "print";
        // a: page selector, level, wait, region seed, charset, buffer size mode, flags (bit0 sweep the buffer sizes)
        o.a = {(int64_t)r.below(64), (int64_t)r.below(4), (int64_t)r.below(4), (int64_t)r.below(1u << 30), (int64_t)r.below(n_charsets), (int64_t)r.below(6), r.chance(1, 4) ? 1 : 0};
        p.ops.push_back(o);
      }
    }
    if (r.chance(1, 5)) textopts();
    return p;
  }

  // ------------------------------------------------------------------ state ---
  RunCtx* ctx = nullptr;
  Sched* sched = nullptr;
  vbi_decoder* dec = nullptr;
  SimFS fs;
  double ts = 7000.0;
  std::vector<vbi_sliced> frame; int frame_ttx = 0; bool frame_cc = false; int frame_max = 4;
  std::vector<std::pair<int, int>> avail;  // Teletext pages announced by VBI_EVENT_TTX_PAGE
  int page_events = 0, cc_events = 0, producers_alive = 0;
  Task* exp_task = nullptr; bool exp_waiting = false;
  int exports_compared = 0, rich_pages = 0, faults_run = 0;
  static C16* g;

  static void handler(vbi_event* ev, void*) {
    HarnessScope hs;
    if (!g) return;
    if (ev->type == VBI_EVENT_TTX_PAGE) {
      g->avail.push_back({ev->ev.ttx_page.pgno, ev->ev.ttx_page.subno});
      g->page_events++;
      g->ctx->log("event ttx %x.%x", ev->ev.ttx_page.pgno, ev->ev.ttx_page.subno);
    } else if (ev->type == VBI_EVENT_CAPTION) {
      g->cc_events++;
    }
    if (g->exp_waiting && g->exp_task) { g->exp_waiting = false; g->sched->wake(g->exp_task); }
  }

  void flush() {
    if (frame.empty()) return;
    ts += 0.04;
    budget_begin("vbi_decode", 30000000);
    { SutScope ss; vbi_decode(dec, frame.data(), (int)frame.size(), ts); }
    budget_end();
    frame.clear(); frame_ttx = 0; frame_cc = false;
  }
  void push_ttx(const uint8_t b[42]) {
    if (frame_ttx >= frame_max) flush();
    vbi_sliced s; memset(&s, 0, sizeof s);
    s.id = VBI_SLICED_TELETEXT_B; s.line = 7 + (uint32_t)frame_ttx;
    memcpy(s.data, b, 42);
    frame.push_back(s); frame_ttx++;
  }
  void push_cc(int b0, int b1) {
    if (frame_cc) flush();
    vbi_sliced s; memset(&s, 0, sizeof s);
    s.id = VBI_SLICED_CAPTION_525; s.line = 21;
    s.data[0] = tx::odd_parity((uint8_t)b0); s.data[1] = tx::odd_parity((uint8_t)b1);
    frame.push_back(s); frame_cc = true;
    ctx->log("cc %02x %02x", b0, b1);
  }

  // ---------------------------------------------------------------- producers --
  void broadcast_page(const Op* op, int& prev_page) {
    int mag = 1 + (int)(llabs(op->arg(0)) / 25 % 3);  // magazines 1..3
    int page = to_bcd((int)(llabs(op->arg(0)) % 99));
    if (mag * 256 + page == prev_page) page = to_bcd((int)((llabs(op->arg(0)) + 1) % 99));
    prev_page = mag * 256 + page;
    int sub = to_bcd((int)(llabs(op->arg(1)) % 80));
    int nat = (int)(llabs(op->arg(2)) % 8);
    int hc = (int)llabs(op->arg(3));
    Rng r((uint64_t)op->arg(4), "content");
    int flags = (int)llabs(op->arg(5));
    int style = (int)(llabs(op->arg(6)) % 7);
    int density = (int)(llabs(op->arg(7)) % 4);
    int extra = (int)(llabs(op->arg(8)) & 3);
    int pgno = mag * 256 + page;
    uint8_t text[32]; header_text(pgno, text);
    unsigned ctrl = ttx::ctrl_national(nat) | ((hc & 1) ? ttx::C4_ERASE : 0) | ((hc & 2) ? ttx::C5_NEWSFLASH : 0) | ((hc & 4) ? ttx::C6_SUBTITLE : 0) |
                    ((hc & 8) ? ttx::C7_SUPPRESS : 0) | ((hc & 16) ? ttx::C10_INHIBIT : 0);
    ttx::Packet h = ttx::header(mag, page, sub, ctrl, text);
    ctx->log("tx header %x.%x ctrl %x", pgno, sub, ctrl);
    push_ttx(h.b); flush();
    sched->yield();
    std::vector<int> ys;
    for (int y = 1; y <= 23; y++) if (density == 3 || r.below(4) <= (uint64_t)density) ys.push_back(y);
    if (flags & 4) ys.push_back(24);
    if (flags & 8) for (size_t i = ys.size(); i > 1; i--) std::swap(ys[i - 1], ys[r.below(i)]);
    for (int y : ys) {
      if (ctx->failed) return;
      uint8_t ch[40];
      // extra (arg 8, absent in older plans = 0): bit0 rows also draw the headline / mixed-size styles 7 and 8, bit1 they are the page's base style
      int st = r.chance(1, 3) ? (int)r.below((extra & 1) ? 9 : 7) : style;
      if ((extra & 2) && st == style) st = 7 + (int)r.below(2);
      gen_row(r, st, ch);
      ttx::Packet pk = ttx::row(mag, y, ch);
      ctx->log("tx row %d", y);
      push_ttx(pk.b);
      sched->yield();
    }
    if (flags & 16) {
      ttx::Triplet t[13];
      int row = 1 + (int)r.below(23);
      t[0] = {40 + row, 0x04, 0};
      for (int k = 1; k < 13; k++) {
        switch (r.below(6)) {
          case 0: t[k] = {(int)r.below(40), 0x0F, 0x20 + (int)r.below(0x60)}; break;                    // G2 character
          case 1: t[k] = {(int)r.below(40), 0x10 + (int)r.below(16), 0x41 + (int)r.below(26)}; break;   // diacritical mark
          case 2: t[k] = {(int)r.below(40), 0x00, (int)r.below(32)}; break;                            // foreground colour
          case 3: t[k] = {(int)r.below(40), 0x03, (int)r.below(32)}; break;                            // background colour
          case 4: t[k] = {(int)r.below(40), 0x0C, (int)r.below(128)}; break;                           // display attributes (sizes, boxing, conceal, underline)
          default: t[k] = {40 + 1 + (int)r.below(23), 0x04, (int)r.below(40)}; break;                   // set active position
        }
      }
      t[12] = {0x3F, 0x1F, 0x7F};
      ttx::Packet pk = ttx::x26(mag, 0, t);
      ctx->log("tx x26");
      push_ttx(pk.b); sched->yield();
    }
    if (flags & 1) {
      ttx::Link L[6];
      for (int k = 0; k < 6; k++) { L[k].pgno = (1 + (int)r.below(8)) * 256 + to_bcd((int)r.below(100)); L[k].subno = r.chance(1, 2) ? 0x3F7F : to_bcd((int)r.below(80)); }
      ttx::Packet pk = ttx::x27_0(mag, L, ((flags & 2) ? 8 : 0) | (int)r.below(8));
      ctx->log("tx x27");
      push_ttx(pk.b); sched->yield();
    }
    if (flags & 32) {
      uint32_t tr[13];
      tr[0] = 0;
      for (int k = 1; k < 13; k++) tr[k] = (uint32_t)r.below(1u << 18);
      ttx::Packet pk = ttx::x28(mag, 0, tr);
      ctx->log("tx x28");
      push_ttx(pk.b); sched->yield();
    }
  }

  void ctl(int b0, int b1) { push_cc(b0, b1); push_cc(b0, b1); }  // control pairs are sent twice (EIA-608)
  void caption_op(const Op* op) {
    int mode = (int)(llabs(op->arg(0)) % 6);
    Rng r((uint64_t)op->arg(1), "cap");
    int len = (int)(llabs(op->arg(2)) % 16);
    int chan = r.chance(1, 4) ? 8 : 0;  // second channel: first byte | 8
    auto pac = [&] { int b0 = 0x10 + (int)r.below(8), b1 = 0x40 + (int)r.below(0x40); if (b0 == 0x10) b1 &= ~0x20; ctl(b0 | chan, b1); };
    auto text = [&](int n) {
      for (int k = 0; k < n && !ctx->failed; k++) {
        if (r.chance(1, 8)) ctl(0x11 | chan, 0x20 + (int)r.below(0x20));            // mid-row code / special character
        else if (r.chance(1, 16)) ctl((0x12 + (int)r.below(2)) | chan, 0x20 + (int)r.below(0x20));  // extended character
        else push_cc(0x20 + (int)r.below(0x60), r.chance(1, 6) ? 0 : 0x20 + (int)r.below(0x60));
        sched->yield();
      }
    };
    switch (mode) {
      case 0: ctl(0x14 | chan, 0x25 + (int)r.below(3)); pac(); text(len); ctl(0x14 | chan, 0x2D); break;          // roll-up, CR
      case 1: ctl(0x14 | chan, 0x20); pac(); text(len); if (r.chance(1, 2)) { pac(); text(len / 2); } ctl(0x14 | chan, 0x2F); break;  // pop-on, EOC
      case 2: ctl(0x14 | chan, 0x29); pac(); text(len); break;                                                       // paint-on
      case 3: ctl(0x14 | chan, r.chance(1, 2) ? 0x2A : 0x2B); text(len); ctl(0x14 | chan, 0x2D); break;              // text mode
      case 4: ctl(0x14 | chan, r.chance(1, 2) ? 0x2C : 0x2E); break;                                                 // erase displayed / non-displayed
      default: ctl(0x14 | chan, 0x26); pac(); text(len); ctl(0x14 | chan, 0x21); ctl(0x14 | chan, 0x24); text(2); break;  // backspace, delete to end of row
    }
    sched->yield();
  }

  // fetch a snapshot of a page the decoder holds now
  bool fetch(int sel, int level, int wait, vbi_page& pg, bool& is_cc) {
    wait = (int)(llabs(wait) % 4);
    while (page_events < wait && producers_alive > 0 && !ctx->failed) { exp_waiting = true; sched->block(); }
    sel = (int)llabs(sel);
    vbi_bool ok = FALSE;
    is_cc = false;
    // The page object is the caller's: give the library a defined one.  (vbi_format_vt_page()'s column_41() looks at rows
    // 1-23 whatever display_rows is; with fewer rows fetched the 41st column of the rows that ARE displayed depended on what
    // the stack held - found by the determinism gate of the thorough sweep, one run in 60 000, confirmed with valgrind.
    // No given property covers reads of uninitialised caller memory; a run must be a pure function of its plan.)
    memset((void*)&pg, 0, sizeof pg);
    if (!(sel & 1) && !avail.empty()) {
      auto& pr = avail[(size_t)(sel >> 1) % avail.size()];
      static const vbi_wst_level lv[4] = {VBI_WST_LEVEL_1, VBI_WST_LEVEL_1p5, VBI_WST_LEVEL_2p5, VBI_WST_LEVEL_3p5};
      int rows = (sel & 32) ? 1 + (sel >> 1) % 25 : 25;
      budget_begin("vbi_fetch_vt_page", 50000000);
      { SutScope ss; ok = vbi_fetch_vt_page(dec, &pg, pr.first, (sel & 16) ? VBI_ANY_SUBNO : pr.second, lv[llabs(level) % 4], rows, (sel & 8) ? TRUE : FALSE); }
      budget_end();
      ctx->log("fetch ttx %x.%x level %d rows %d nav %d -> %d", pr.first, pr.second, (int)(llabs(level) % 4), rows, (sel >> 3) & 1, ok);
      if (ok && ctx->verbose) { fprintf(stderr, "    row 24 link cells:"); for (int c2 = 0; c2 < 40; c2++) if (pg.text[24 * 41 + c2].link) fprintf(stderr, " %d:%d(%c)", c2, (int)pg.nav_index[c2], (int)pg.text[24 * 41 + c2].unicode); fprintf(stderr, "\n"); }
      if (ok) return true;
    }
    int cpg = 1 + (sel >> 1) % 8;
    budget_begin("vbi_fetch_cc_page", 50000000);
    { SutScope ss; ok = vbi_fetch_cc_page(dec, &pg, cpg, (sel & 8) ? TRUE : FALSE); }
    budget_end();
    ctx->log("fetch cc %d -> %d", cpg, ok);
    is_cc = true;
    return ok;
  }
  void unref(vbi_page& pg) { SutScope ss; vbi_unref_page(&pg); }
  static int nonblank(const vbi_page& pg) {
    int n = 0;
    for (int i = 0; i < pg.rows * pg.columns; i++) if (pg.text[i].unicode != 0x20) n++;
    return n;
  }

  // ------------------------------------------------------------------ export ---
  static constexpr uint64_t BUD = 400000000ull;
  struct Outcome { bool ok = false; bool reported = false; std::string bytes; bool exists = false; std::string err; int W = 0, Wk = 0, nfw = 0, nvf = 0; int fired = 0; bool opened = false; bool leak_excused = false; int leaked = 0; };

  // random legal option vector; remembers what the text round trip needs
  struct TextOpts { int format = 0; std::string charset; int control = 0; unsigned gfx = '#'; std::string format_label; };
  std::string set_options(vbi_export* e, Rng& r, TextOpts& to) {
    std::string desc;
    for (int i = 0;; i++) {
      vbi_option_info* oi;
      { SutScope ss; oi = vbi_export_option_info_enum(e, i); }
      if (!oi) break;
      std::string key = oi->keyword;
      if (key == "format" && oi->type == VBI_OPTION_MENU && oi->menu.str) to.format_label = oi->menu.str[0];
      if (!r.chance(2, 3)) continue;
      vbi_bool ok = TRUE; char t[96];
      switch (oi->type) {
        case VBI_OPTION_BOOL: { int v = (int)r.below(2); { SutScope ss; ok = vbi_export_option_set(e, oi->keyword, v); } snprintf(t, sizeof t, "%s=%d ", oi->keyword, v); break; }
        case VBI_OPTION_INT:
        case VBI_OPTION_MENU: {
          int lo = oi->min.num, hi = oi->max.num; if (hi < lo) hi = lo;
          int v = lo + (int)r.below((uint64_t)(hi - lo + 1));
          { SutScope ss; ok = vbi_export_option_set(e, oi->keyword, v); }
          if (key == "format") { to.format = v; if (oi->menu.str) to.format_label = oi->menu.str[v]; }
          if (key == "control") to.control = v;
          snprintf(t, sizeof t, "%s=%d ", oi->keyword, v); break;
        }
        case VBI_OPTION_STRING: {
          std::string v;
          if (key == "network") { static const char* s[] = {"", "ZSIM", "A&B <TV>", "Sender \"1\"", "N"}; v = s[r.below(5)]; }
          else if (key == "creator") { static const char* s[] = {"zsim 1.0", "x\"y\"z", "c"}; v = s[r.below(3)]; }
          else if (key == "charset") { v = r.chance(1, 2) ? "" : r.chance(1, 12) ? "NO-SUCH-CHARSET" : charsets[r.below(n_charsets)]; to.charset = v; }
          else if (key == "gfx_chr") {
            // documented: a single character, or a decimal or hex code
            static const char* s[] = {"#", "*", ".", "35", "0x40", "0x25A0", "9608", "x", "0x20"}; v = s[r.below(9)];
            if (v.size() == 1) to.gfx = (unsigned char)v[0]; else to.gfx = (unsigned)strtol(v.c_str(), nullptr, 0);
          } else continue;
          { SutScope ss; ok = vbi_export_option_set(e, oi->keyword, v.c_str()); }
          snprintf(t, sizeof t, "%s='%s' ", oi->keyword, v.c_str()); break;
        }
        default: continue;
      }
      desc += t;
      if (!ok) ctx->fail("oracle:option-set", "setting legal option %s failed: %s", t, vbi_export_errstr(e));
    }
    return desc;
  }

  // vbi_export_mem into a buffer of `size` bytes.  variant 0: guard bytes on both sides inside one allocation;
  // 1: allocation of exactly `size` bytes (ASan red zones are the guard); 2: NULL buffer
  void mem_case(vbi_export* e, vbi_page& pg, bool refok, const std::string& ref, size_t size, int variant) {
    const size_t G = 32;
    char* base = nullptr; char* buf = nullptr;
    if (variant == 0) { base = (char*)malloc(G + size + G); memset(base, 0xA5, G + size + G); buf = base + G; memset(buf, 0xCD, size); }
    else if (variant == 1) { base = (char*)malloc(size); buf = base; if (size) memset(base, 0xCD, size); }
    ssize_t ret;
    budget_begin("vbi_export_mem", BUD);
    { SutScope ss; FillScope fsc; ret = vbi_export_mem(e, buf, size, &pg); }
    budget_end();
    ctx->log("mem size %zu variant %d -> %zd", size, variant, ret);
    if (variant == 0) {
      for (size_t i = 0; i < G; i++)
        if ((unsigned char)base[i] != 0xA5 || (unsigned char)base[G + size + i] != 0xA5) {
          ctx->fail("oracle:mem-overrun", "vbi_export_mem wrote outside the %zu byte buffer (guard byte %s offset %zu changed); needed %zu", size, (unsigned char)base[i] != 0xA5 ? "before, " : "after,", i, ref.size());
          break;
        }
    }
    if (!ctx->failed) {
      if (!refok) { if (ret != -1) ctx->fail("oracle:mem-result", "vbi_export_alloc fails for this page/options but vbi_export_mem(size %zu) returned %zd", size, ret); }
      else if (ret != (ssize_t)ref.size()) ctx->fail("oracle:mem-size", "vbi_export_mem(size %zu%s) returned %zd, the export needs %zu bytes", size, variant == 2 ? ", NULL buffer" : "", ret, ref.size());
      else if (buf && size >= ref.size() && memcmp(buf, ref.data(), ref.size())) {
        size_t i = 0; while (i < ref.size() && buf[i] == ref[i]) i++;
        ctx->fail("oracle:mem-bytes", "vbi_export_mem(size %zu) differs from vbi_export_alloc at offset %zu of %zu", size, i, ref.size());
      }
    }
    free(base);
  }

  Outcome run_stdio(vbi_export* e, vbi_page& pg, int bufmode, int fk, int fidx, int fcount, int farg) {
    Outcome o;
    fs.reset_counters();
    fs.create("<stream>", ""); int id = fs.names["<stream>"]; fs.names.erase("<stream>");
    Cookie ck{id};
    cookie_io_functions_t io; memset(&io, 0, sizeof io); io.write = cookie_write; io.close = cookie_close;
    FILE* fp = fopencookie(&ck, "w", io);
    if (!fp) { ctx->fail("harness:fopencookie", "fopencookie failed"); return o; }
    static char sbuf[65536];
    switch (bufmode % 5) { case 0: setvbuf(fp, nullptr, _IONBF, 0); break; case 1: setvbuf(fp, sbuf, _IOFBF, 16); break; case 2: setvbuf(fp, sbuf, _IOFBF, 100); break;
                           case 3: break; default: setvbuf(fp, sbuf, _IOFBF, sizeof sbuf); break; }
    if (fk) fs.arm(fk, fidx, fcount, farg); else fs.disarm();
    fs.sim_fp = fp; fs.in_export = true;
    vbi_bool ok;
    budget_begin("vbi_export_stdio", BUD);
    { SutScope ss; FillScope fsc; ok = vbi_export_stdio(e, fp, &pg); }
    budget_end();
    fs.in_export = false;
    o.ok = ok; o.err = ok ? "" : vbi_export_errstr(e);
    // "Don't forget to check for i/o errors after closing": the caller's part
    int ferr = ferror(fp); int fl = fflush(fp); int cl = fclose(fp);
    fs.sim_fp = nullptr;
    o.reported = !ok || ferr || fl || cl;
    o.bytes = fs.ino[(size_t)id].data;
    o.Wk = fs.n_cookie; o.nfw = fs.n_fwrite; o.nvf = fs.n_vfprintf; o.fired = fs.fired;
    fs.disarm();
    ctx->log("stdio fault %s@%d x%d -> ok %d ferror %d fflush %d fclose %d bytes %zu hash %llx cookie writes %d fwrite %d vfprintf %d fired %d", fault_name[fk], fidx, fcount, (int)ok, !!ferr, fl, cl,
             o.bytes.size(), (unsigned long long)hash_bytes(o.bytes.data(), o.bytes.size()), o.Wk, o.nfw, o.nvf, o.fired);
    return o;
  }

  Outcome run_file(vbi_export* e, vbi_page& pg, const std::string& name, bool preexisting, int fk, int fidx, int fcount, int farg) {
    Outcome o;
    fs.reset_counters();
    fs.names.erase(name);
    if (preexisting) fs.create(name, std::string(5000, 'O'));
    int fd_before = fs.next_fd;
    if (fk) fs.arm(fk, fidx, fcount, farg); else fs.disarm();
    fs.in_export = true;
    vbi_bool ok;
    budget_begin("vbi_export_file", BUD);
    { SutScope ss; FillScope fsc; ok = vbi_export_file(e, name.c_str(), &pg); }
    budget_end();
    fs.in_export = false;
    o.ok = ok; o.reported = !ok; o.err = ok ? "" : vbi_export_errstr(e);
    o.exists = fs.exists(name);
    if (o.exists) o.bytes = fs.content(name);
    o.W = fs.n_write; o.fired = fs.fired; o.opened = fs.next_fd > fd_before;
    // descriptors still open: excused only when every close() attempt was refused with EINTR
    for (auto& kv : fs.fds) if (kv.second.open) { o.leaked++; if (kv.second.close_calls > 0 && kv.second.close_ok_possible == 0) o.leak_excused = true; kv.second.open = false; }
    fs.disarm();
    ctx->log("file fault %s@%d x%d pre %d -> ok %d exists %d bytes %zu hash %llx writes %d opens %d closes %d unlinks %d fired %d leaked %d", fault_name[fk], fidx, fcount, (int)preexisting, (int)ok, (int)o.exists,
             o.bytes.size(), (unsigned long long)hash_bytes(o.bytes.data(), o.bytes.size()), o.W, fs.n_open, fs.n_close, fs.n_unlink, o.fired, o.leaked);
    return o;
  }

  void check_stdio(const Outcome& o, bool refok, const std::string& ref, int fk, const char* what) {
    if (ctx->failed) return;
    if (!fs.never.empty()) { ctx->fail("oracle:stdio-never", "%s, fault %s: %s", what, fault_name[fk], fs.never.c_str()); return; }
    if (!o.ok && o.err.empty()) { ctx->fail("oracle:errstr-empty", "%s: vbi_export_stdio failed with an empty error string", what); return; }
    if (!o.fired) {  // nothing went wrong underneath: the outcome is that of the page/options alone
      if (o.ok != refok || (refok && o.reported)) { ctx->fail("oracle:stdio-result", "%s: no fault fired, vbi_export_alloc %s but vbi_export_stdio returned %d (stream error %d): %s", what, refok ? "succeeds" : "fails", (int)o.ok, (int)o.reported, o.err.c_str()); return; }
    }
    if (!o.reported) {
      if (!refok) { ctx->fail("oracle:stdio-result", "%s: stdio export succeeds although vbi_export_alloc fails", what); return; }
      if (o.bytes != ref) {
        size_t i = 0; while (i < ref.size() && i < o.bytes.size() && o.bytes[i] == ref[i]) i++;
        ctx->fail("oracle:stdio-bytes", "%s, fault %s fired %d: success reported (export TRUE, no stream error) but the stream holds %zu bytes, vbi_export_alloc gives %zu; first difference at %zu", what, fault_name[fk], o.fired, o.bytes.size(), ref.size(), i);
      }
    } else if (o.fired) ctx->count("probe_stdio_failure_reported");
  }

  void check_file(const Outcome& o, bool refok, const std::string& ref, int fk, const char* what) {
    if (ctx->failed) return;
    if (!fs.never.empty()) { ctx->fail("oracle:file-never", "%s, fault %s: %s", what, fault_name[fk], fs.never.c_str()); return; }
    if (o.leaked && !o.leak_excused) { ctx->fail("oracle:fd-leak", "%s, fault %s: %d descriptor(s) still open after vbi_export_file returned %d", what, fault_name[fk], o.leaked, (int)o.ok); return; }
    if (o.leaked) ctx->count("probe_close_eintr_gave_up");
    if (!o.ok && o.err.empty()) { ctx->fail("oracle:errstr-empty", "%s: vbi_export_file failed with an empty error string", what); return; }
    if (!o.fired && o.ok != refok) { ctx->fail("oracle:file-result", "%s: no fault fired, vbi_export_alloc %s but vbi_export_file returned %d: %s", what, refok ? "succeeds" : "fails", (int)o.ok, o.err.c_str()); return; }
    if (o.ok) {
      if (!refok) { ctx->fail("oracle:file-result", "%s: file export succeeds although vbi_export_alloc fails", what); return; }
      if (!o.exists) { ctx->fail("oracle:file-missing", "%s, fault %s: vbi_export_file returned TRUE but no file of that name exists", what, fault_name[fk]); return; }
      if (o.bytes != ref) {
        size_t i = 0; while (i < ref.size() && i < o.bytes.size() && o.bytes[i] == ref[i]) i++;
        ctx->fail("oracle:file-bytes", "%s, fault %s fired %d: vbi_export_file returned TRUE but the file holds %zu bytes, vbi_export_alloc gives %zu; first difference at %zu", what, fault_name[fk], o.fired, o.bytes.size(), ref.size(), i);
        return;
      }
      if (o.fired) ctx->count("probe_file_success_despite_fault");
    } else {
      if (o.fired) ctx->count("probe_file_failure_reported");
      if (o.fired && (fk == W_SHORT || fk == W_EINTR)) ctx->count("probe_short_write_or_eintr_fatal");
      // documented: "When an error occurs after the file was opened, the function deletes the file."
      if (o.opened && o.exists) {
        bool complete = o.bytes == ref;
        ctx->fail(fk == C_EIO || fk == C_EINTR ? "oracle:file-left-after-close-error" : "oracle:file-left-after-failure",
                  "%s, fault %s fired %d: vbi_export_file returned FALSE (%s) but a %s file of %zu bytes (export is %zu) is left under that name", what, fault_name[fk], o.fired, o.err.c_str(),
                  complete ? "complete" : "partial", o.bytes.size(), ref.size());
      }
    }
  }

  // ECMA-48 (= ANSI X3.64, the standard the option's menu names) framing of control functions: CSI = ESC [ parameter bytes 3/0-3/15,
  // intermediate bytes 2/0-2/15, one final byte 4/0-7/14; other escape sequences = ESC, intermediate bytes, one final byte 3/0-7/14
  // (ESC # 3/4/5/6 are the DEC line-size sequences of the VT 100).  Everything that is not part of a control function stays.
  static bool strip_control_functions(const std::vector<uint32_t>& in, std::vector<uint32_t>& out, size_t& bad_at, int& nseq) {
    out.clear(); nseq = 0;
    for (size_t i = 0; i < in.size();) {
      if (in[i] != 0x1B) { out.push_back(in[i++]); continue; }
      size_t k = i + 1;
      if (k < in.size() && in[k] == '[') {
        k++;
        while (k < in.size() && in[k] >= 0x30 && in[k] <= 0x3F) k++;
        while (k < in.size() && in[k] >= 0x20 && in[k] <= 0x2F) k++;
        if (k >= in.size() || in[k] < 0x40 || in[k] > 0x7E) { bad_at = i; return false; }
      } else {
        while (k < in.size() && in[k] >= 0x20 && in[k] <= 0x2F) k++;
        if (k >= in.size() || in[k] < 0x30 || in[k] > 0x7E) { bad_at = i; return false; }
      }
      i = k + 1; nseq++;
    }
    return true;
  }

  // Text module: the bytes, converted back from the requested encoding (terminal control functions removed when the option
  // "control" asks for them), are the page's characters row by row, each row ended by a line feed.
  // Leniency, control != 0 only: the right halves of double width / double size characters (VBI_OVER_TOP, VBI_OVER_BOTTOM) may
  // be left out - the terminal is told to draw the character twice as wide, and format.h says these cells "can be safely
  // ignored when scanning the page"; the statement does not say which of the two the exporter does.  Printed as the cell's
  // character (the anchor's, by the same documentation) or as a blank is accepted as well.  Every other cell is demanded.
  void check_text_roundtrip(const vbi_page& pg, const TextOpts& to, const std::string& ref, const char* what = "") {
    std::string cs = to.charset;
    if (cs.empty()) {
      // the public menu label names the encoding: "ISO-8859-1 (Latin-1 ...)", "ISO-10646/UTF-8 (Unicode)"
      std::string l = to.format_label;
      size_t sp = l.find(' '); if (sp != std::string::npos) l = l.substr(0, sp);
      size_t sl = l.find('/'); if (sl != std::string::npos) l = l.substr(sl + 1);
      cs = l;
    }
    std::vector<uint32_t> raw, got;
    if (!decode(cs, ref, raw)) { ctx->fail("oracle:text-roundtrip", "%stext export is not valid %s", what, cs.c_str()); return; }
    // a page character that looks like framing (line feed; ESC when control functions are to be removed) would make the rows
    // ambiguous; the decoder has no way to produce one (U+0000 from a failed X/26 composition does occur and is compared)
    for (int i = 0; i < pg.rows * pg.columns; i++)
      if (pg.text[i].unicode == 0x0A || (to.control != 0 && pg.text[i].unicode == 0x1B)) { ctx->count("probe_page_cell_looks_like_framing"); return; }
    if (to.control != 0) {
      size_t bad = 0; int nseq = 0;
      if (!strip_control_functions(raw, got, bad, nseq)) { ctx->fail("oracle:text-roundtrip", "%stext export (%s, control=%d): malformed control function at character %zu of %zu", what, cs.c_str(), to.control, bad, raw.size()); return; }
      if (nseq) ctx->count("text_control_functions_removed", nseq);
    } else got = raw;
    unsigned gfx = to.gfx; if (gfx < 0x20 || gfx > 0xE000) gfx = 0x20;
    size_t k = 0; int skipped_cells = 0, optional_cells = 0;
    for (int row = 0; row < pg.rows; row++) {
      size_t end = k; while (end < got.size() && got[end] != '\n') end++;
      if (end >= got.size()) { ctx->fail("oracle:text-roundtrip", "%stext export (%s, control=%d): row %d of %d is missing or not terminated by a line feed (%zu characters left)", what, cs.c_str(), to.control, row, pg.rows, got.size() - k); return; }
      const int n = pg.columns; const size_t m = end - k;
      std::vector<uint32_t> want((size_t)n); std::vector<char> opt((size_t)n, 0);
      for (int col = 0; col < n; col++) {
        const vbi_char& ac = pg.text[row * n + col];
        unsigned u = ac.unicode;
        if (u >= 0xEE00 && u <= 0xEFFF) u = gfx; else if (u >= 0xE600) u = 0x20;  // graphics -> replacement, DRCS / private glyphs -> space
        if (!representable(cs, u)) u = 0x20;
        want[(size_t)col] = u;
        if (to.control != 0 && (ac.size == VBI_OVER_TOP || ac.size == VBI_OVER_BOTTOM)) { opt[(size_t)col] = 1; optional_cells++; }
      }
      // reach[i] = set of j: the first i cells account for the first j characters of the row
      std::vector<char> cur(m + 1, 0), nxt(m + 1, 0);
      cur[0] = 1; int far_i = 0; size_t far_j = 0;
      for (int i = 0; i < n; i++) {
        std::fill(nxt.begin(), nxt.end(), 0); bool any = false;
        for (size_t j = 0; j <= m; j++) {
          if (!cur[j]) continue;
          if (opt[(size_t)i]) { nxt[j] = 1; any = true; }
          if (j < m && (got[k + j] == want[(size_t)i] || (opt[(size_t)i] && got[k + j] == 0x20))) { nxt[j + 1] = 1; any = true; if (j + 1 >= far_j) { far_j = j + 1; far_i = i + 1; } }
        }
        cur.swap(nxt);
        if (!any) break;
      }
      if (!cur[m] || far_i < 0) {
        // diagnostics: the longest prefix of the row that can be accounted for
        bool some = false; for (size_t j = 0; j <= m; j++) some = some || cur[j];
        ctx->fail("oracle:text-roundtrip", "%stext export (%s, control=%d) row %d: %zu characters for %d cells (%d of them right halves of wide characters that may be left out); the first %zu characters match the cells up to column %d, then U+%04X follows where the page has U+%04X (expected U+%04X)%s",
                  what, cs.c_str(), to.control, row, m, n, (int)std::count(opt.begin(), opt.end(), 1), far_j, far_i, far_j < m ? got[k + far_j] : (uint32_t)'\n',
                  far_i < n ? pg.text[row * n + far_i].unicode : (unsigned)'\n', far_i < n ? want[(size_t)far_i] : (unsigned)'\n', some ? " (row too short)" : "");
        return;
      }
      skipped_cells += n - (int)m;
      k = end + 1;
    }
    if (k != got.size()) { ctx->fail("oracle:text-roundtrip", "%stext export (%s, control=%d): %zu extra characters after the last row", what, cs.c_str(), to.control, got.size() - k); return; }
    ctx->count("text_roundtrips");
    if (to.control != 0) { ctx->count("text_roundtrips_control"); if (optional_cells) ctx->count("text_roundtrips_control_wide_chars"); if (skipped_cells > 0) ctx->count("probe_text_wide_right_halves_left_out", skipped_cells); }
  }

  // The text module's own option space on one page: control 0, 1, 2 (in seeded order), each with a seeded format or charset and
  // graphics replacement (plus the assumed terminal colours fg / bg, which option_set still takes although the option table no
  // longer lists them: refusing them is accepted).  Every vector is exported to all four targets and judged by the content clause.
  void text_sweep(vbi_page& pg, bool is_cc, uint64_t seed, int bufmode, int seq) {
    Rng r(seed, "textsweep");
    vbi_export* e;
    { SutScope ss; e = vbi_export_new("text", nullptr); }
    if (!e) { ctx->fail("oracle:export-new", "vbi_export_new(text) failed"); return; }
    std::vector<std::string> labels; bool has_charset = false, has_gfx = false, has_control = false; int ctl_lo = 0, ctl_hi = 0;
    for (int i = 0;; i++) {
      vbi_option_info* oi;
      { SutScope ss; oi = vbi_export_option_info_enum(e, i); }
      if (!oi) break;
      std::string key = oi->keyword;
      if (key == "format" && oi->type == VBI_OPTION_MENU && oi->menu.str) for (int k = oi->min.num; k <= oi->max.num; k++) labels.push_back(oi->menu.str[k]);
      if (key == "charset") has_charset = true;
      if (key == "gfx_chr") has_gfx = true;
      if (key == "control" && (oi->type == VBI_OPTION_MENU || oi->type == VBI_OPTION_INT)) { has_control = true; ctl_lo = oi->min.num; ctl_hi = oi->max.num; }
    }
    std::vector<int> ctls;
    if (has_control) for (int v = ctl_lo; v <= ctl_hi && v < ctl_lo + 8; v++) ctls.push_back(v); else ctls.push_back(0);
    for (size_t i = ctls.size(); i > 1; i--) std::swap(ctls[i - 1], ctls[r.below(i)]);
    int nb = nonblank(pg);
    std::string name = std::string(SIMROOT) + "out/sweep" + std::to_string(seq) + ".txt";
    for (size_t t = 0; t < ctls.size() && !ctx->failed; t++) {
      TextOpts to; std::string desc; char tmp[96]; vbi_bool ok = TRUE;
      if (!labels.empty()) to.format_label = labels[0];
      if (has_control) { to.control = ctls[t]; { SutScope ss; ok = vbi_export_option_set(e, "control", to.control); } snprintf(tmp, sizeof tmp, "control=%d ", to.control); desc += tmp; }
      if (ok && !labels.empty()) { to.format = (int)r.below(labels.size()); to.format_label = labels[(size_t)to.format]; { SutScope ss; ok = vbi_export_option_set(e, "format", to.format); } snprintf(tmp, sizeof tmp, "format=%d ", to.format); desc += tmp; }
      if (ok && has_charset) { to.charset = r.chance(1, 3) ? charsets[r.below(n_charsets)] : ""; { SutScope ss; ok = vbi_export_option_set(e, "charset", to.charset.c_str()); } snprintf(tmp, sizeof tmp, "charset='%s' ", to.charset.c_str()); desc += tmp; }
      if (ok && has_gfx) {
        static const char* gs[] = {"#", "*", ".", "35", "0x40", "0x25A0", "9608", "x", "0x20", "+", "0x7E", "0xA4"};
        std::string v = gs[r.below(12)];
        to.gfx = v.size() == 1 ? (unsigned char)v[0] : (unsigned)strtol(v.c_str(), nullptr, 0);
        { SutScope ss; ok = vbi_export_option_set(e, "gfx_chr", v.c_str()); } snprintf(tmp, sizeof tmp, "gfx_chr='%s' ", v.c_str()); desc += tmp;
      }
      if (!ok) { ctx->fail("oracle:option-set", "setting legal text option [%s] failed: %s", desc.c_str(), vbi_export_errstr(e)); break; }
      for (const char* k : {"fg", "bg"}) if (r.chance(1, 2)) { int v = (int)r.below(9); vbi_bool ok2; { SutScope ss; ok2 = vbi_export_option_set(e, k, v); } snprintf(tmp, sizeof tmp, "%s=%d%s ", k, v, ok2 ? "" : "(refused)"); desc += tmp; }
      void* rbuf = nullptr; size_t rsize = 0; void* res;
      budget_begin("vbi_export_alloc", BUD);
      { SutScope ss; FillScope fsc; res = vbi_export_alloc(e, &rbuf, &rsize, &pg); }
      budget_end();
      bool refok = res != nullptr; std::string ref;
      if (refok) { ref.assign((char*)rbuf, rsize); free(rbuf); }
      ctx->log("text sweep #%d [%s] page %x.%x %dx%d -> alloc ok %d size %zu hash %llx", seq, desc.c_str(), pg.pgno, pg.subno, pg.columns, pg.rows, (int)refok, ref.size(), (unsigned long long)hash_bytes(ref.data(), ref.size()));
      char what[200]; snprintf(what, sizeof what, "option sweep #%d text [%s] of %s page %x", seq, desc.c_str(), is_cc ? "caption" : "Teletext", pg.pgno);
      if (!refok) ctx->count("probe_export_fails_everywhere");
      int v = (int)r.below(2);
      mem_case(e, pg, refok, ref, ref.size(), v);
      if (!ctx->failed && !ref.empty()) mem_case(e, pg, refok, ref, ref.size() - 1 - (r.chance(1, 2) ? 0 : (size_t)r.below(ref.size())), v ^ 1);
      if (!ctx->failed) { Outcome s0 = run_stdio(e, pg, bufmode, F_NONE, 0, 1, 0); check_stdio(s0, refok, ref, F_NONE, what); }
      if (!ctx->failed) { Outcome f0 = run_file(e, pg, name, (int)r.below(2), F_NONE, 0, 1, 0); check_file(f0, refok, ref, F_NONE, what); }
      if (!ctx->failed && refok) { exports_compared++; if (nb >= 20) rich_pages++; std::string w2 = std::string(what) + ": "; check_text_roundtrip(pg, to, ref, w2.c_str()); }
      ctx->count("text_option_vectors");
    }
    fs.names.erase(name);
    { SutScope ss; vbi_export_delete(e); }
    ctx->count(is_cc ? "text_option_sweeps_caption" : "text_option_sweeps_teletext");
  }

  void do_textopts(const Op* op, int bufmode, int seq) {
    vbi_page pg; bool is_cc;
    if (!fetch((int)op->arg(0), (int)op->arg(1), (int)op->arg(2), pg, is_cc)) { ctx->count("page_unavailable"); return; }
    text_sweep(pg, is_cc, (uint64_t)op->arg(3), bufmode, seq);
    unref(pg);
  }

  void do_export(const Op* op, const std::vector<const Op*>& faults, bool thorough, int bufmode, int seq) {
    vbi_page pg; bool is_cc;
    if (!fetch((int)op->arg(2), (int)op->arg(3), (int)op->arg(4), pg, is_cc)) { ctx->count("page_unavailable"); return; }
    int nmod = 0; { SutScope ss; while (vbi_export_info_enum(nmod)) nmod++; }
    if (nmod < 1) { ctx->fail("oracle:no-modules", "vbi_export_info_enum lists no module"); return; }
    vbi_export_info* xi; { SutScope ss; xi = vbi_export_info_enum((int)(llabs(op->arg(0)) % nmod)); }
    std::string mod = xi->keyword;
    char* es = nullptr; vbi_export* e;
    { SutScope ss; e = vbi_export_new(mod.c_str(), &es); }
    if (!e) { ctx->fail("oracle:export-new", "vbi_export_new(%s) failed", mod.c_str()); unref(pg); return; }
    Rng r((uint64_t)op->arg(1), "opts");
    TextOpts to;
    std::string desc = set_options(e, r, to);
    int flags = (int)llabs(op->arg(6));
    int nb = nonblank(pg);
    if (ctx->verbose && getenv("C16_DUMP"))
      for (int row = 0; row < pg.rows; row++) {
        fprintf(stderr, "    r%02d ", row);
        for (int col = 0; col < pg.columns; col++) { const vbi_char& a = pg.text[row * pg.columns + col]; fprintf(stderr, a.unicode == 0x20 && a.size == 0 ? "." : "%x", a.size); }
        fprintf(stderr, " ");
        for (int col = 0; col < pg.columns; col++) fprintf(stderr, "%x", pg.text[row * pg.columns + col].opacity);
        fprintf(stderr, "\n");
      }
    // anchor: vbi_export_alloc
    void* rbuf = nullptr; size_t rsize = 0; void* res;
    budget_begin("vbi_export_alloc", BUD);
    { SutScope ss; FillScope fsc; res = vbi_export_alloc(e, &rbuf, &rsize, &pg); }
    budget_end();
    bool refok = res != nullptr;
    std::string ref;
    if (refok) { ref.assign((char*)rbuf, rsize); free(rbuf); }
    else if (rbuf != nullptr || rsize != 0) ctx->fail("oracle:alloc-result", "vbi_export_alloc failed but modified *buffer / *buffer_size");
    ctx->log("export #%d module %s opts [%s] page %x.%x %dx%d nonblank %d -> alloc ok %d size %zu hash %llx", seq, mod.c_str(), desc.c_str(), pg.pgno, pg.subno, pg.columns, pg.rows, nb, (int)refok, ref.size(),
             (unsigned long long)hash_bytes(ref.data(), ref.size()));
    if (!refok) ctx->count("probe_export_fails_everywhere");
    char what[160]; snprintf(what, sizeof what, "export #%d %s [%s] of %s page %x", seq, mod.c_str(), desc.c_str(), is_cc ? "caption" : "Teletext", pg.pgno);

    // (1) caller buffer
    if (!ctx->failed) {
      Rng mr((uint64_t)op->arg(5), "mem");
      size_t need = ref.size();
      std::set<size_t> sizes = {0, 1, need, need + 1};
      if (need > 0) sizes.insert(need - 1);
      if (need > 2) { sizes.insert((size_t)mr.below(need)); sizes.insert(need - 1 - (size_t)mr.below(need < 300 ? need - 1 : 300)); }
      bool small = mod == "text" || mod == "html";
      if ((flags & 1) && small) {
        // every size 0..needed+1 for small exports, a seeded stride (plus every size in the last 300) otherwise
        size_t stride = need <= (thorough ? 6000u : 1600u) ? 1 : 1 + need / (thorough ? 3000 : 800);
        for (size_t s = (size_t)mr.below(stride); s <= need + 1; s += stride) sizes.insert(s);
        for (size_t s = need > 300 ? need - 300 : 0; s <= need + 1; s++) sizes.insert(s);
        ctx->count("mem_size_sweeps");
      }
      int v = (int)mr.below(2);
      for (size_t s : sizes) { if (ctx->failed) break; mem_case(e, pg, refok, ref, s, (v++) & 1); }
      if (!ctx->failed) mem_case(e, pg, refok, ref, 0, 2);
      if (!ctx->failed && mr.chance(1, 2)) mem_case(e, pg, refok, ref, need + (size_t)mr.below(3), 2);  // NULL buffer: size is ignored
      ctx->count("mem_exports", (int64_t)sizes.size() + 1);
    }
    // (3) stdio, (4) file: fault-free passes count the writes
    std::string name = std::string(SIMROOT) + "out/page" + std::to_string(seq) + "." + (xi->extension ? std::string(xi->extension).substr(0, std::string(xi->extension).find(',')) : "bin");
    Outcome s0, f0;
    if (!ctx->failed) { s0 = run_stdio(e, pg, bufmode, F_NONE, 0, 1, 0); check_stdio(s0, refok, ref, F_NONE, what); }
    if (!ctx->failed) { f0 = run_file(e, pg, name, flags & 4, F_NONE, 0, 1, 0); check_file(f0, refok, ref, F_NONE, what); }
    if (!ctx->failed && refok) { exports_compared++; if (nb >= 20) rich_pages++; }
    if (!ctx->failed && refok && mod == "text") check_text_roundtrip(pg, to, ref);

    // fault enumeration
    struct FP { int kind, idx, count, arg; };
    std::vector<FP> fl;
    if (!ctx->failed && refok) {
      if (flags & 2) {
        for (int i = 0; i < f0.W; i++) {
          fl.push_back({W_SHORT, i, 1, (int)r.below(1 << 20)}); fl.push_back({W_ZERO, i, 1 + (int)r.below(10), 0}); fl.push_back({W_ZERO, i, 11 + (int)r.below(3), 0});
          fl.push_back({W_EINTR, i, 1, 0}); fl.push_back({W_EIO, i, 1, 0}); fl.push_back({W_ENOSPC, i, 1, 0});
        }
        fl.push_back({C_EINTR, 0, 1 + (int)r.below(9), 0}); fl.push_back({C_EINTR, 0, 10 + (int)r.below(4), 0}); fl.push_back({C_EIO, 0, 1, 0});
        fl.push_back({O_EINTR, 0, 1 + (int)r.below(9), 0}); fl.push_back({O_EINTR, 0, 10 + (int)r.below(4), 0}); fl.push_back({O_EACCES, 0, 1, 0});
        for (int i = 0; i < s0.Wk; i++) { fl.push_back({K_SHORT, i, 1, (int)r.below(1 << 20)}); fl.push_back({K_ZERO_EIO, i, 1, i & 1}); fl.push_back({K_ZERO_ENOSPC, i, 1, (i + 1) & 1}); }
        for (int i = 0; i < s0.nfw; i++) fl.push_back({S_FWRITE_SHORT, i, 1, (int)r.below(1 << 20)});
        for (int i = 0; i < s0.nvf; i++) fl.push_back({S_VFPRINTF_FAIL, i, 1, 0});
        ctx->count("fault_point_enumerations");
      }
      for (const Op* f : faults) {
        int kind = (int)(llabs(f->arg(0)) % F_N); if (kind == F_NONE) continue;
        int n = kind >= W_SHORT && kind <= W_ENOSPC ? f0.W : kind >= K_SHORT && kind <= K_ZERO_ENOSPC ? s0.Wk : kind == S_FWRITE_SHORT ? s0.nfw : kind == S_VFPRINTF_FAIL ? s0.nvf : 1;
        if (n < 1) { ctx->count("fault_without_target_point"); continue; }
        int sel = (int)llabs(f->arg(1));
        int idx = sel == 0 ? 0 : sel == 1 ? n - 1 : sel % n;
        fl.push_back({kind, idx, (int)(llabs(f->arg(2)) % 16), (int)llabs(f->arg(3))});
      }
    }
    for (auto& f : fl) {
      if (ctx->failed) break;
      char w2[220]; snprintf(w2, sizeof w2, "%s, %s at point %d x%d", what, fault_name[f.kind], f.idx, f.count);
      if (is_file_fault(f.kind)) {
        Outcome o = run_file(e, pg, name, flags & 4, f.kind, f.idx, f.count, f.arg);
        if (o.fired) ctx->count(std::string("fault_") + fault_name[f.kind]);
        check_file(o, refok, ref, f.kind, w2);
      } else if (is_stdio_fault(f.kind)) {
        Outcome o = run_stdio(e, pg, bufmode, f.kind, f.idx, f.count, f.arg);
        if (o.fired) ctx->count(std::string("fault_") + fault_name[f.kind]);
        check_stdio(o, refok, ref, f.kind, w2);
      }
      faults_run++;
      // the caller buffer variant right after an export that hit the fault, on the same export context: a failed (or
      // retried) write to another target must not leak into it ("yield byte-identical data")
      if (!ctx->failed && ((faults_run & 3) == 1 || &f == &fl.front())) { mem_case(e, pg, refok, ref, ref.size(), (int)(faults_run & 1)); ctx->count("mem_export_right_after_faulted_export"); }
    }
    // "You can call this function repeatedly, it does not change the state of the vbi_export or vbi_page structure."
    if (!ctx->failed && refok) {
      void* b2 = nullptr; size_t n2 = 0; void* res2;
      budget_begin("vbi_export_alloc", BUD);
      { SutScope ss; FillScope fsc; res2 = vbi_export_alloc(e, &b2, &n2, &pg); }
      budget_end();
      if (!res2 || n2 != ref.size() || memcmp(b2, ref.data(), n2))
        ctx->fail("oracle:export-not-repeatable", "%s: repeating vbi_export_alloc (after %zu faulted exports, heap pre-filled with another byte) gives %s (first time %zu bytes)", what, fl.size(), res2 ? "different bytes" : "a failure", ref.size());
      free(b2);
      ctx->log("re-export ok %d size %zu", res2 != nullptr, n2);
    }
    fs.names.erase(name);
    { SutScope ss; vbi_export_delete(e); }
    free(es);
    if (!ctx->failed && mod == "text") text_sweep(pg, is_cc, (uint64_t)op->arg(1) * 0x9E3779B97F4A7C15ull + 1, bufmode, seq);
    unref(pg);
  }

  // ------------------------------------------------------------------ render ---
  void do_render(const Op* op) {
    vbi_page pg; bool is_cc;
    if (!fetch((int)op->arg(0), (int)op->arg(1), (int)op->arg(2), pg, is_cc)) { ctx->count("page_unavailable"); return; }
    Rng r((uint64_t)op->arg(3), "region");
    const int cw = is_cc ? 16 : 12, ch = is_cc ? 26 : 10;
    int col = (int)r.below((uint64_t)pg.columns), w = 1 + (int)r.below((uint64_t)(pg.columns - col));
    int row = (int)r.below((uint64_t)pg.rows), h = 1 + (int)r.below((uint64_t)(pg.rows - row));
    if (r.chance(1, 6)) { col = 0; w = pg.columns; }
    if (r.chance(1, 6)) { row = 0; h = pg.rows; }
    int fsel = (int)(llabs(op->arg(4)) % 3);
    vbi_pixfmt fmt = fsel == 0 ? VBI_PIXFMT_RGBA32_LE : fsel == 1 ? VBI_PIXFMT_PAL8 : (r.chance(1, 2) ? VBI_PIXFMT_YUYV : VBI_PIXFMT_RGB24);
    int type = fsel == 1 ? 1 : 4;
    int smode = (int)(llabs(op->arg(5)) % 6);
    // row stride: tight, padded, the page's natural stride, or -1 (documented for vbi_rgba canvases)
    int tight = w * cw * type;
    int stride = smode == 0 ? tight : smode == 1 ? tight + type * (1 + (int)r.below(16)) : smode == 2 ? pg.columns * cw * type : smode == 3 ? tight + type * (int)r.below(200) : smode == 4 ? tight : -1;
    if (stride == -1 && fsel == 1) stride = tight;  // the -1 default is documented in terms of sizeof(vbi_rgba) only
    int eff = stride == -1 ? pg.columns * cw * 4 : stride;
    int reveal = (int)(llabs(op->arg(6)) & 1), flash_on = (int)((llabs(op->arg(6)) >> 1) & 1);
    // canvas of exactly the documented size: rowstride * height * cell height
    size_t csize = (size_t)eff * (size_t)h * (size_t)ch;
    uint8_t* canvas = (uint8_t*)malloc(csize);
    memset(canvas, 0x5A, csize);
    budget_begin("vbi_draw_page_region", BUD);
    { SutScope ss;
      if (is_cc) vbi_draw_cc_page_region(&pg, fmt, canvas, stride, col, row, w, h);
      else vbi_draw_vt_page_region(&pg, fmt, canvas, stride, col, row, w, h, reveal, flash_on); }
    budget_end();
    ctx->log("render %s page %x region %d,%d %dx%d fmt %d stride %d -> hash %llx", is_cc ? "cc" : "vt", pg.pgno, col, row, w, h, (int)fmt, stride, (unsigned long long)hash_bytes(canvas, csize));
    ctx->count("renders");
    // which cells does the region cut?
    bool cut = false;
    for (int y = row; y < row + h && !is_cc; y++) {
      int sl = pg.text[y * pg.columns + col].size, sr = pg.text[y * pg.columns + col + w - 1].size;
      if (sl == VBI_OVER_TOP || sl == VBI_OVER_BOTTOM) cut = true;
      if (sr == VBI_DOUBLE_WIDTH || sr == VBI_DOUBLE_SIZE || sr == VBI_DOUBLE_SIZE2) cut = true;
    }
    if (cut) ctx->count("probe_region_cuts_wide_char");
    // outside the region rectangle nothing may change
    for (int y = 0; y < h * ch && !ctx->failed; y++)
      for (int x = (fsel == 2 ? 0 : tight); x < eff; x++)
        if (canvas[(size_t)y * (size_t)eff + (size_t)x] != 0x5A) {
          ctx->fail(fsel == 2 ? "oracle:render-unsupported-format" : cut ? "oracle:render-outside-region-cut" : "oracle:render-outside-region",
                    "%s page %x region col %d row %d %dx%d fmt %d rowstride %d: scan line %d byte %d changed, the region is %d bytes wide%s", is_cc ? "caption" : "Teletext", pg.pgno, col, row, w, h, (int)fmt, stride,
                    y, x, fsel == 2 ? 0 : tight, cut ? " (region cuts a double-width/size character)" : "");
          break;
        }
    // agreement with the full-page rendering
    if (!ctx->failed && fsel != 2 && !cut) {
      size_t fstride = (size_t)pg.columns * (size_t)cw * (size_t)type;
      size_t fsize = fstride * (size_t)pg.rows * (size_t)ch;
      uint8_t* full = (uint8_t*)malloc(fsize);
      memset(full, 0x5A, fsize);
      budget_begin("vbi_draw_page", BUD);
      { SutScope ss;
        if (is_cc) vbi_draw_cc_page_region(&pg, fmt, full, (int)fstride, 0, 0, pg.columns, pg.rows);
        else vbi_draw_vt_page_region(&pg, fmt, full, (int)fstride, 0, 0, pg.columns, pg.rows, reveal, flash_on); }
      budget_end();
      for (int y = 0; y < h * ch && !ctx->failed; y++) {
        const uint8_t* a = canvas + (size_t)y * (size_t)eff;
        const uint8_t* b = full + ((size_t)row * (size_t)ch + (size_t)y) * fstride + (size_t)col * (size_t)cw * (size_t)type;
        if (memcmp(a, b, (size_t)tight)) {
          int x = 0; while (a[x] == b[x]) x++;
          ctx->fail("oracle:render-region-differs", "%s page %x region col %d row %d %dx%d fmt %d rowstride %d: scan line %d byte %d (cell column %d) differs from the full-page rendering", is_cc ? "caption" : "Teletext", pg.pgno, col, row, w, h,
                    (int)fmt, stride, y, x, col + x / (cw * type));
        }
      }
      free(full);
      ctx->count("render_region_vs_full");
    }
    free(canvas);
    unref(pg);
  }

  // ------------------------------------------------------------------- print ---
  void do_print(const Op* op) {
    vbi_page pg; bool is_cc;
    if (!fetch((int)op->arg(0), (int)op->arg(1), (int)op->arg(2), pg, is_cc)) { ctx->count("page_unavailable"); return; }
    Rng r((uint64_t)op->arg(3), "region");
    int col = (int)r.below((uint64_t)pg.columns), w = 1 + (int)r.below((uint64_t)(pg.columns - col));
    int row = (int)r.below((uint64_t)pg.rows), h = 1 + (int)r.below((uint64_t)(pg.rows - row));
    if (r.chance(1, 4)) { col = 0; w = pg.columns; row = 0; h = pg.rows; }
    std::string cs = charsets[llabs(op->arg(4)) % n_charsets];
    // expectation from the documentation: table mode prints every cell of the rectangle, rows separated by "\n";
    // "Graphics characters, DRCS and all characters not representable in the target format will be replaced by spaces."
    std::vector<uint32_t> want; std::vector<bool> lenient;
    for (int y = row; y < row + h; y++) {
      for (int x = col; x < col + w; x++) {
        const vbi_char& ac = pg.text[y * pg.columns + x];
        unsigned u = ac.unicode;
        if (u >= 0xE600 || !representable(cs, u)) u = 0x20;
        want.push_back(u);
        // cells covered by a double width / height / size neighbour: the statement does not say whether they repeat the character or print blank
        lenient.push_back(ac.size > VBI_DOUBLE_SIZE);
      }
      if (y < row + h - 1) { want.push_back('\n'); lenient.push_back(false); }
    }
    // the space a cell takes depends on which of the two the function picks for lenient cells: upper bound both ways
    std::vector<uint32_t> blanked = want;
    for (size_t i = 0; i < blanked.size(); i++) if (lenient[i]) blanked[i] = 0x20;
    size_t need_a = encode(cs, want).size(), need_b = encode(cs, blanked).size();
    size_t need_hi = std::max(need_a, need_b), need_lo = std::min(need_a, need_b);
    int mode = (int)(llabs(op->arg(5)) % 6);
    std::set<size_t> extra_sizes;
    size_t first = mode == 0 ? need_hi : mode == 1 ? (need_lo ? need_lo - 1 : 0) : mode == 2 ? need_hi + 1 + (size_t)r.below(64) : mode == 3 ? (size_t)r.below(need_lo + 1) : mode == 4 ? 0 : need_hi;
    if (llabs(op->arg(6)) & 1) {
      // "never more bytes than the stated buffer size", quantified over all sizes 0..needed+1: every size for small regions, otherwise
      // the sizes at which a row (with or without its line feed) ends flush with the buffer, one less and one more, plus a seeded stride
      if (need_hi <= 400) for (size_t sz = 0; sz <= need_hi + 1; sz++) extra_sizes.insert(sz);
      else {
        for (int variant = 0; variant < 2; variant++) {
          const std::vector<uint32_t>& v = variant ? blanked : want;
          size_t acc = 0;
          for (int y = 0; y < h; y++) {
            std::vector<uint32_t> seg(v.begin() + (long)y * (w + 1), v.begin() + (long)y * (w + 1) + w);
            acc += encode(cs, seg).size();
            for (size_t d = 0; d < 3; d++) if (acc + d >= 1) extra_sizes.insert(acc + d - 1);
            acc += 1;
          }
        }
        size_t stride = 1 + need_hi / 150;
        for (size_t sz = (size_t)r.below(stride); sz <= need_hi + 1; sz += stride) extra_sizes.insert(sz);
        extra_sizes.insert(need_hi + 1); extra_sizes.insert(need_lo ? need_lo - 1 : 0);
      }
      extra_sizes.erase(first);
      ctx->count("print_size_sweeps");
    }
    std::vector<size_t> sizes_v; sizes_v.push_back(first); sizes_v.insert(sizes_v.end(), extra_sizes.begin(), extra_sizes.end());
    for (size_t size : sizes_v) {
    if (ctx->failed) break;
    const size_t G = 32;
    char* base = (char*)malloc(G + size + G); memset(base, 0xA5, G + size + G);
    char* buf = base + G;
    int ret;
    budget_begin("vbi_print_page_region", BUD);
    { SutScope ss; ret = vbi_print_page_region(&pg, buf, (int)size, cs.c_str(), TRUE, FALSE, col, row, w, h); }
    budget_end();
    ctx->log("print %s page %x region %d,%d %dx%d charset %s size %zu (need %zu..%zu) -> %d hash %llx", is_cc ? "cc" : "vt", pg.pgno, col, row, w, h, cs.c_str(), size, need_lo, need_hi, ret,
             (unsigned long long)hash_bytes(buf, ret > 0 && (size_t)ret <= size ? (size_t)ret : 0));
    ctx->count("prints");
    for (size_t i = 0; i < G; i++)
      if ((unsigned char)base[i] != 0xA5 || (unsigned char)base[G + size + i] != 0xA5) { ctx->fail("oracle:print-overrun", "vbi_print_page_region(size %zu, %s) wrote outside the buffer (needs %zu bytes)", size, cs.c_str(), need_hi); break; }
    if (!ctx->failed && (ret < 0 || (size_t)ret > size)) ctx->fail("oracle:print-overrun", "vbi_print_page_region(size %zu) returned %d", size, ret);
    if (!ctx->failed && size < need_lo && ret != 0) ctx->fail("oracle:print-size", "vbi_print_page_region(size %zu, %s) returned %d although the region needs at least %zu bytes", size, cs.c_str(), ret, need_lo);
    if (!ctx->failed && size >= need_hi && ret == 0) ctx->fail("oracle:print-failed", "vbi_print_page_region(size %zu, %s) failed although the region needs only %zu bytes", size, cs.c_str(), need_hi);
    if (!ctx->failed && ret > 0) {
      std::vector<uint32_t> got;
      if (!decode(cs, std::string(buf, (size_t)ret), got)) ctx->fail("oracle:print-roundtrip", "vbi_print_page_region output is not valid %s", cs.c_str());
      else if (got.size() != want.size()) ctx->fail("oracle:print-roundtrip", "vbi_print_page_region (%s) region %d,%d %dx%d printed %zu characters, the rectangle plus line feeds has %zu", cs.c_str(), col, row, w, h, got.size(), want.size());
      else
        for (size_t i = 0; i < want.size(); i++)
          if (got[i] != want[i] && !(lenient[i] && got[i] == 0x20)) {
            int cellrow = row + (int)(i / (size_t)(w + 1)), cellcol = col + (int)(i % (size_t)(w + 1));
            ctx->fail("oracle:print-roundtrip", "vbi_print_page_region (%s) row %d column %d: printed U+%04X, expected U+%04X (page cell U+%04X)", cs.c_str(), cellrow, cellcol, got[i], want[i],
                      cellcol < col + w ? pg.text[cellrow * pg.columns + cellcol].unicode : '\n');
            break;
          }
      ctx->count("print_roundtrips");
    }
    free(base);
    }
    unref(pg);
  }

  // --------------------------------------------------------------------- run ---
  void warm_up() {
    // process-global one-time initialisation (gettext, iconv modules, libpng, stdio) is not a per-run leak
    vbi_decoder* d = vbi_decoder_new();
    vbi_page pg;
    if (vbi_fetch_cc_page(d, &pg, 1, TRUE)) {
      for (int i = 0; vbi_export_info_enum(i); i++) {
        vbi_export* e = vbi_export_new(vbi_export_info_enum(i)->keyword, nullptr);
        if (!e) continue;
        void* b = nullptr; size_t n = 0;
        if (vbi_export_alloc(e, &b, &n, &pg)) free(b);
        vbi_export_delete(e);
      }
      char buf[64];
      for (int k = 0; k < n_charsets; k++) { vbi_print_page_region(&pg, buf, sizeof buf, charsets[k], TRUE, FALSE, 0, 0, 4, 1); representable(charsets[k], 0x20); }
    }
    static const char* names[] = {"iso-8859-1", "iso-8859-2", "iso-8859-4", "iso-8859-5", "iso-8859-6", "iso-8859-7", "iso-8859-8", "iso-8859-9", "koi8-r", "koi8-u", "iso-10646",
                                  "ASCII", "ISO-8859-1", "ISO-8859-2", "ISO-8859-4", "ISO-8859-5", "ISO-8859-7", "ISO-8859-8", "ISO-8859-9", "KOI8-R", "KOI8-U", "UTF-8", "NO-SUCH-CHARSET"};
    // the descriptors stay open for the life of the process: glibc unloads a conversion module (dlclose) with its
    // last user and would load it again (allocating) inside the next export
    static std::vector<iconv_t> keep;
    for (const char* n : names) { keep.push_back(iconv_open(n, "UCS-2")); keep.push_back(iconv_open("UTF-32LE", n)); }
    vbi_decoder_delete(d);
    if (__sanitizer_install_malloc_and_free_hooks) __sanitizer_install_malloc_and_free_hooks(fill_malloc_hook, fill_free_hook);
  }

  void run(const Plan& plan, RunCtx& c) override {
    static bool warmed = false;
    if (!warmed) { warmed = true; warm_up(); }
    alloc_track_reset();
    ctx = &c; g = this;
    fs = SimFS(); fs.ctx = &c; g_fs = &fs;
    ts = 7000.0; frame.clear(); frame_ttx = 0; frame_cc = false;
    avail.clear(); page_events = cc_events = 0; producers_alive = 0; exp_task = nullptr; exp_waiting = false;
    exports_compared = rich_pages = faults_run = 0;
    frame_max = (int)(llabs(plan.knob("frame_max", 4)) % 13); if (frame_max < 1) frame_max = 1;
    int bufmode = (int)(llabs(plan.knob("stdio_buf")) % 5);
    bool thorough = c.tier == "thorough";
    Sched sc(c, (uint64_t)plan.knob("sched_seed", (int64_t)plan.seed), (Policy)(llabs(plan.knob("policy")) % 3), (int)plan.knob("pparam"));
    sched = &sc;
    { SutScope ss;
      dec = vbi_decoder_new();
      vbi_event_handler_register(dec, VBI_EVENT_TTX_PAGE | VBI_EVENT_CAPTION, handler, nullptr); }
    std::vector<const Op*> pages, caps, exps;
    for (auto& op : plan.ops) {
      if (op.kind == "page") pages.push_back(&op);
      else if (op.kind == "cap") caps.push_back(&op);
      else if (op.kind == "export" || op.kind == "fault" || op.kind == "render" || op.kind == "print" || op.kind == "textopts") exps.push_back(&op);
    }
    auto producer_done = [&] { producers_alive--; if (exp_waiting && exp_task) { exp_waiting = false; sc.wake(exp_task); } };
    if (!pages.empty()) {
      producers_alive++;
      sc.spawn("ttx", [&] {
        int prev = -1;
        for (const Op* op : pages) { if (c.failed) break; broadcast_page(op, prev); sc.yield(); }
        if (!c.failed) {  // a trailing header terminates the last page
          uint8_t text[32]; header_text(0x1FE, text);
          for (int mag = 1; mag <= 3; mag++) { ttx::Packet h = ttx::header(mag, 0xFE, 0, ttx::C4_ERASE, text); push_ttx(h.b); }
          flush();
        }
        producer_done();
      });
    }
    if (!caps.empty()) {
      producers_alive++;
      sc.spawn("cc", [&] {
        for (const Op* op : caps) { if (c.failed) break; caption_op(op); }
        if (!c.failed) flush();
        producer_done();
      });
    }
    if (!exps.empty()) {
      exp_task = sc.spawn("exp", [&] {
        int seq = 0;
        for (size_t i = 0; i < exps.size(); i++) {
          if (c.failed) break;
          const Op* op = exps[i];
          sc.yield();
          if (op->kind == "export") {
            std::vector<const Op*> fl;
            for (size_t k = i + 1; k < exps.size() && exps[k]->kind == "fault"; k++) fl.push_back(exps[k]);
            do_export(op, fl, thorough, bufmode, seq++);
          } else if (op->kind == "textopts") do_textopts(op, bufmode, seq++);
          else if (op->kind == "render") do_render(op);
          else if (op->kind == "print") do_print(op);
        }
      }, 2 * 1024 * 1024);
    }
    int rc = sc.run(50000000);
    if (rc == 2) c.fail("harness:budget", "scheduler budget exhausted");
    if (rc == 1 && !c.failed) c.fail("harness:deadlock", "tasks blocked forever");
    if (!c.failed) flush();
    c.state(sc.interleaving_hash());
    { SutScope ss; vbi_decoder_delete(dec); dec = nullptr; }
    if (!c.failed && fs.open_fds() != 0) c.fail("oracle:fd-leak", "%d simulated descriptors still open at the end of the run", fs.open_fds());
    if (!c.failed && alloc_track_available() && alloc_live_blocks() != 0)
      c.fail("leak", "%zu blocks (%zu bytes; sizes %s) still allocated after all exports and vbi_decoder_delete", alloc_live_blocks(), alloc_live_bytes(), alloc_live_summary().c_str());
    c.count("exports_compared", exports_compared);
    c.count("faulted_exports", faults_run);
    c.count("ttx_page_events", page_events);
    c.count("caption_events", cc_events);
    c.nontrivial = exports_compared >= 1 && rich_pages >= 1 && sc.switches() > 5;
    c.sim_seconds = ts - 7000.0;
    g_fs = nullptr; g = nullptr; sched = nullptr;
  }
};
C16* C16::g = nullptr;
ZSIM_REGISTER_WORLD(C16)

}  // namespace
