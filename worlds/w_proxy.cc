// C18 / C19 — the VBI proxy: real daemon (daemon/proxyd.c, embedded in
// worlds/c/proxyd_embed.c), real src/proxy-msg.c, N real clients
// (src/proxy-client.c through the public capture API) and, for C19, byte-level
// adversary clients, all as tasks of ONE simulated universe: simulated kernel
// (simk/kernel.cc: AF_UNIX sockets with bounded buffers, select, pipes, clock,
// alarm/SIGALRM/SIGTERM, pthreads incl. deferred cancellation) and a
// simulated capture device that takes the place of the V4L drivers.
//
// Ground truth is the device's HAND-OVER LOG: every frame actually returned
// to the daemon (unique frame number in every payload, capture timestamp).
// C18 oracle (black box, from the clients' side): frames a client receives in
// a subscription interval are a subsequence of the hand-over log, exactly
// once, in order, with the hand-over timestamp and exactly the hand-over lines
// of the services the daemon confirmed to it; a client that keeps reading has
// no gap; device open <=> somebody is subscribed.  C19 adds adversaries, the
// daemon-liveness / witness oracle and token exclusivity over the global
// order of socket events.  DESIGN.md section 6 (C18, C19).
#include <errno.h>
#include <fcntl.h>
#include <signal.h>
#include <sys/socket.h>
#include <sys/un.h>
#include <unistd.h>

#include <algorithm>
#include <cstdio>
#include <cstdlib>
#include <cstring>
#include <map>
#include <set>

#include "alloc.h"
#include "kernel.h"
#include "sim.h"

extern "C" {
#include "src/vbi.h"
#include "src/inout.h"
#include "src/proxy-msg.h"
#include "src/proxy-client.h"

int zvbid_main(int argc, char** argv);
struct zvbid_client_view { int state, sock_fd, token_state, chn_prio, profile_valid; unsigned all_services; unsigned services[4]; int queued; int buffer_count; };
struct zvbid_dev_view { int open, use_thread, thread_active, vbi_fd; unsigned all_services; int max_lines, n_sliced, n_free, chn_prio, scanning; };
int zvbid_n_clients(void);
int zvbid_client(int idx, struct zvbid_client_view* v);
void zvbid_dev(struct zvbid_dev_view* v);
const char* zvbid_audit(void);
int zvbid_should_exit(void);
void zsim_exit(int status) __attribute__((noreturn));
vbi_capture* zsim_capture_v4l2_new(const char* dev, int buffers, unsigned int* services, int strict, char** errstr, vbi_bool trace);
vbi_capture* zsim_capture_v4l_new(const char* dev, int scanning, unsigned int* services, int strict, char** errstr, vbi_bool trace);
}

using namespace sim;

namespace {

const char* DEVNAME = "/dev/simvbi0";
const int DAEMON_PID = 4242;
const int DEV_TASK = 90;  // plan task number of the capture hardware / driver (dev_quiet, dev_glitch ops)

static int64_t absmod(int64_t v, int64_t m) { if (m <= 0) return 0; v %= m; return v < 0 ? v + m : v; }

// ---- service alphabet -------------------------------------------------------
static const unsigned SVC[] = {
    VBI_SLICED_TELETEXT_B, VBI_SLICED_VPS, VBI_SLICED_CAPTION_625, VBI_SLICED_WSS_625,
    VBI_SLICED_TELETEXT_B | VBI_SLICED_VPS, VBI_SLICED_TELETEXT_B | VBI_SLICED_WSS_625 | VBI_SLICED_CAPTION_625,
    VBI_SLICED_VPS | VBI_SLICED_WSS_625, VBI_SLICED_TELETEXT_B_L10_625, VBI_SLICED_CAPTION_625_F1 | VBI_SLICED_VPS,
    VBI_SLICED_TELETEXT_B | VBI_SLICED_VPS | VBI_SLICED_CAPTION_625 | VBI_SLICED_WSS_625,
    VBI_SLICED_CAPTION_525 /* never available with 625 line scanning */, VBI_SLICED_TELETEXT_B | VBI_SLICED_CAPTION_525};
static const int NSVC = 12;

struct HandFrame { int idx; double ts; uint64_t seq; unsigned dev_services; std::vector<vbi_sliced> lines; };

struct Universe;
static Universe* U = nullptr;

// ---- simulated capture device ----------------------------------------------
struct SimDev {
  vbi_capture cap;  // first member: the daemon holds a vbi_capture*
  Universe* u;
  vbi_raw_decoder rd;
  unsigned services = 0;
  // like io-v4l2k.c: every service update suspends capturing (the driver would answer EBUSY otherwise), only an update with
  // commit = TRUE starts it again; read() while suspended fails with ESRCH
  bool suspended = false;
  int fd = -1;
  bool thread_mode = false;
  bool in_read_wait = false;
  int64_t t_next = 0;  // capture time of the next frame
  int idx_next = 0;
  int64_t wake_armed = -1;
  // planned read faults (ops of the device task, DEV_TASK): the next glitch_left read calls fail although the descriptor was
  // reported readable (select variant) / the blocking read returns early (thread variant).  Kind 0 = time-out (read returns 0),
  // else -1 with an errno a V4L driver hands through; glitch_gap_ns apart; glitch_eats = the frame that was due is lost in the driver
  int glitch_left = 0, glitch_kind = 0;
  bool glitch_eats = false;
  int64_t glitch_gap_ns = 0, glitch_next = 0, glitch_armed = -1;
  int fault_run = 0;  // failed reads within this device session since the last service update (probe)
  vbi_sliced buf[64];
  vbi_capture_buffer sliced_buffer;
};

struct Recv { double ts; uint64_t seq; std::vector<vbi_sliced> lines; bool checked = false; };
struct Interval {  // one subscription interval of one client
  unsigned granted = 0;
  uint64_t begin_start_seq = 0;   // connect / update started
  uint64_t begin_done_seq = 0;    // connect / update returned
  uint64_t end_seq = ~0ull;       // next own service change or close started
  std::vector<Recv> frames;
  std::vector<std::pair<uint64_t, uint64_t>> inattentive;  // [seq at which the client stopped reading, seq at which it resumed]
};
struct Client {
  int idx = 0;
  vbi_proxy_client* vpc = nullptr;
  vbi_capture* cap = nullptr;
  std::vector<Interval> iv;
  bool connected = false;
  bool dropped = false;  // the library reported a lost connection
  bool adversary_hit = false;
  int reads_ok = 0;
  sim::Task* task = nullptr;
  bool done = false;
  bool token = false;
  uint64_t last_rx_seq = 0;  // hand-over seq of the last frame received (frames captured after it are still on their way)
  // after a period of inattention the client is behind ("keeps up" no longer holds) until one of its reads had to wait:
  // only then has it consumed everything that piled up; frames the daemon dropped for it meanwhile are its own loss
  bool behind = false; uint64_t behind_from = 0;
};

struct Universe {
  RunCtx& ctx;
  const Plan& plan;
  Sched& sched;
  simk::Kernel& k;
  uint64_t seq = 0;
  std::vector<HandFrame> hand;
  std::map<uint64_t, int> hand_by_ts;  // bit pattern of the timestamp -> index into hand
  SimDev* dev = nullptr;               // while open
  int dev_opens = 0, dev_closes = 0;
  int64_t period_ns = 40000000;
  int win_start[2] = {7, 320}, win_count[2] = {16, 16};
  bool thread_mode = false;
  int fill_pct = 60;
  int full_pct = 5;
  uint64_t content_seed = 1;
  std::vector<Client> clients;
  sim::Task* daemon_task = nullptr;
  bool daemon_exited = false;
  int daemon_status = -1;
  bool term_sent = false;
  bool c19 = false;
  long baseline_blocks = -1;  // daemon heap blocks while it listens and nobody has connected yet
  // C19 token bookkeeping over the global order of events at the daemon's socket boundary
  std::map<int, int> fd_conn;                 // daemon side fd -> connection id
  int next_conn = 0;
  struct Conn { bool asked = false; bool closed = false; bool rx_broken = false; std::string rx, tx; };
  std::vector<Conn> conns;

  std::vector<int> holders;                   // connections currently holding the token (global event order)
  std::vector<std::pair<uint64_t, double>> flushes;  // (seq, capture clock) of channel flush notifications
  int adversaries_done = 0, adversaries = 0;
  int64_t last_dev_fault_ns = -1;  // simulated time of the last failed device read / armed glitch
  Universe(RunCtx& c, const Plan& p, Sched& s, simk::Kernel& kk) : ctx(c), plan(p), sched(s), k(kk) {}
  uint64_t next_seq() { return ++seq; }
};

static uint64_t ts_key(double ts) { uint64_t b; memcpy(&b, &ts, 8); return b; }

// What a direct capture from this device grants for (services, strict): pure function of the request.
static unsigned direct_grant(Universe& u, unsigned services, int strict, vbi_raw_decoder* keep = nullptr) {
  vbi_raw_decoder rd;
  vbi_raw_decoder_init(&rd);
  rd.scanning = 625;
  rd.sampling_format = VBI_PIXFMT_YUV420;
  rd.sampling_rate = 35468950;
  rd.bytes_per_line = 2048;
  rd.offset = 244;
  rd.start[0] = u.win_start[0]; rd.count[0] = u.win_count[0];
  rd.start[1] = u.win_start[1]; rd.count[1] = u.win_count[1];
  rd.interlaced = FALSE;
  rd.synchronous = TRUE;
  unsigned g = vbi_raw_decoder_add_services(&rd, services & ~(VBI_SLICED_VBI_625 | VBI_SLICED_VBI_525), strict);
  (void)keep;
  vbi_raw_decoder_destroy(&rd);
  return g;
}

static void dev_set_params(SimDev* d) {
  Universe& u = *d->u;
  d->rd.scanning = 625;
  d->rd.sampling_format = VBI_PIXFMT_YUV420;
  d->rd.sampling_rate = 35468950;
  d->rd.bytes_per_line = 2048;
  d->rd.offset = 244;
  d->rd.start[0] = u.win_start[0]; d->rd.count[0] = u.win_count[0];
  d->rd.start[1] = u.win_start[1]; d->rd.count[1] = u.win_count[1];
  d->rd.interlaced = FALSE;
  d->rd.synchronous = TRUE;
}

// The transmitted signal: which service line L of frame i carries (0 = nothing).  Independent of who listens.
static unsigned signal_on_line(Universe& u, int i, int L, bool full) {
  uint64_t h = hash_mix(hash_mix(u.content_seed, (uint64_t)i), (uint64_t)L);
  if (!full && (int)(h % 100) >= u.fill_pct) return 0;
  if (L == 16 && ((h >> 8) & 1)) return VBI_SLICED_VPS;
  if (L == 23) return VBI_SLICED_WSS_625;
  if (L == 22) return ((h >> 9) & 1) ? VBI_SLICED_CAPTION_625_F1 : VBI_SLICED_TELETEXT_B;
  if (L == 335 && ((h >> 9) & 1)) return VBI_SLICED_CAPTION_625_F2;
  if (L == 336 || L == 6 || L == 319) return 0;
  return VBI_SLICED_TELETEXT_B;
}

static int dev_make_frame(SimDev* d, int i, vbi_sliced* out) {
  Universe& u = *d->u;
  bool full = (int)(hash_mix(u.content_seed ^ 0xF011, (uint64_t)i) % 100) < u.full_pct;
  int n = 0;
  for (int f = 0; f < 2; f++) {
    for (int L = d->rd.start[f]; L < d->rd.start[f] + d->rd.count[f]; L++) {
      unsigned id = signal_on_line(u, i, L, full);
      if (!id || !(id & d->services)) continue;
      vbi_sliced& s = out[n++];
      memset(&s, 0, sizeof s);
      s.id = id;
      s.line = (uint32_t)L;
      uint64_t h = hash_mix(hash_mix(u.content_seed ^ 0xDA7A, (uint64_t)i), (uint64_t)L);
      for (int b = 0; b < 56; b++) { if ((b & 7) == 0) h = splitmix64(h); s.data[b] = (uint8_t)(h >> ((b & 7) * 8)); }
      s.data[0] = (uint8_t)i; s.data[1] = (uint8_t)(i >> 8); s.data[2] = (uint8_t)(i >> 16); s.data[3] = (uint8_t)L;
    }
  }
  return n;
}

static bool dev_readable(SimDev* d) {
  simk::Kernel& k = d->u->k;
  if (d->services == 0 || d->suspended) return false;
  if (d->glitch_left > 0) {  // spurious wake-up: readable, but the read will not return a frame
    if (k.now_ns() >= d->glitch_next) return true;
    if (d->glitch_armed != d->glitch_next) {
      d->glitch_armed = d->glitch_next;
      k.sched.at(d->glitch_next, [&k] { k.wake_all(); });
    }
  }
  if (k.now_ns() >= d->t_next) return true;
  if (d->wake_armed != d->t_next) {
    d->wake_armed = d->t_next;
    k.sched.at(d->t_next, [&k] { k.wake_all(); });
  }
  return false;
}

// A planned read fault fires: nothing is handed over (the hand-over log only holds frames a read call returned with > 0).
// What io-v4l2k.c / io-v4l.c can return from read(): 0 when their select() times out (the daemon passes a zero time-out, so
// any wake-up without a complete frame, and every frame skipped after a flush, ends like this); -1 with the errno of read(2) /
// VIDIOC_DQBUF / select(2) other than EINTR and ETIME, which both drivers retry internally: EIO (also for a short read; bttv
// then has dequeued the buffer: the frame is lost), EAGAIN, EBUSY (the one the daemon's own comment names).
static int dev_read_fault(SimDev* d) {
  Universe& u = *d->u;
  simk::Kernel& k = u.k;
  static const int errs[4] = {0, EIO, EAGAIN, EBUSY};
  static const char* const names[4] = {"fault_dev_read_timeout", "fault_dev_read_eio", "fault_dev_read_eagain", "fault_dev_read_ebusy"};
  int kind = d->glitch_kind & 3;
  d->glitch_left--;
  d->glitch_next = k.now_ns() + d->glitch_gap_ns;
  u.last_dev_fault_ns = k.now_ns();
  bool due = k.now_ns() >= d->t_next;
  if (d->glitch_eats && due) { d->idx_next++; d->t_next += u.period_ns; u.ctx.count("dev_frames_lost_in_failed_read"); }
  u.ctx.log("dev read fails: %s%s", kind ? (kind == 1 ? "EIO" : kind == 2 ? "EAGAIN" : "EBUSY") : "time-out", due ? (d->glitch_eats ? " (frame lost)" : " (frame due)") : "");
  u.ctx.count(names[kind]);
  if (due) u.ctx.count("dev_read_failed_with_frame_due");
  d->fault_run++;
  if (d->fault_run == 3) u.ctx.count("dev_failed_reads_between_updates_3");
  if (d->fault_run == 10) u.ctx.count("dev_failed_reads_between_updates_10");
  if (d->fault_run == 20) u.ctx.count("dev_failed_reads_between_updates_20");
  if (d->fault_run == 40) u.ctx.count("dev_failed_reads_between_updates_40");
  if (kind == 0) return 0;
  errno = errs[kind];
  return -1;
}
static bool dev_glitch_due(SimDev* d) { return d->glitch_left > 0 && d->services != 0 && d->u->k.now_ns() >= d->glitch_next; }

static int dev_read(vbi_capture* vc, vbi_capture_buffer** raw, vbi_capture_buffer** sliced, const struct timeval* timeout) {
  simk::KScope ks;  // driver context: its allocations are not the daemon's
  SimDev* d = (SimDev*)vc;
  Universe& u = *d->u;
  simk::Kernel& k = u.k;
  if (getenv("ZSIM_KTRACE")) fprintf(stderr, "    dev_read: fd %d open %d services %x now %lld t_next %lld thread_mode %d\n", d->fd, k.get(d->fd) != nullptr, d->services, (long long)k.now_ns(), (long long)d->t_next, d->thread_mode);
  if (k.get(d->fd) == nullptr) { errno = EBADF; return -1; }  // the daemon's "dirty hack" closed the descriptor
  if (d->suspended) { u.ctx.count("dev_read_while_suspended"); errno = ESRCH; return -1; }
  if (raw && *raw == nullptr) { /* raw data is never available from this device */ }
  int64_t deadline = k.now_ns() + (int64_t)timeout->tv_sec * 1000000000ll + (int64_t)timeout->tv_usec * 1000ll;
  for (;;) {
    k.cancel_point();  // read(2) is a cancellation point when it is entered, not only while it blocks
    if (dev_glitch_due(d)) return dev_read_fault(d);
    if (d->services != 0 && k.now_ns() >= d->t_next) break;
    if (!d->thread_mode && k.now_ns() >= deadline) { u.ctx.count("dev_read_nothing_due"); return 0; }
    // a driver without select() support blocks in read(2) (a cancellation point) until a frame arrives
    d->in_read_wait = true;
    k.thr().at_cancel_point = true;
    int64_t wake = d->thread_mode ? d->t_next : std::min(d->t_next, deadline);
    if (d->glitch_left > 0) wake = std::min(wake, std::max(d->glitch_next, k.now_ns()));
    if (d->services == 0) k.wait(); else k.wait_until(wake);
    k.thr().at_cancel_point = false;
    d->in_read_wait = false;
    k.cancel_point();
    if (k.get(d->fd) == nullptr) { errno = EBADF; return -1; }
  }
  // frames that became due while nobody read are lost in the driver (it has no unbounded queue)
  int64_t late = (k.now_ns() - d->t_next) / u.period_ns;
  if (late > 2) { d->idx_next += (int)(late - 2); d->t_next += (late - 2) * u.period_ns; u.ctx.count("dev_overrun", late - 2); }
  int i = d->idx_next++;
  double ts = (double)k.epoch_s + (double)d->t_next / 1e9;
  d->t_next += u.period_ns;
  int n = dev_make_frame(d, i, d->buf);
  HandFrame hf;
  { HarnessScope hs;
    hf.idx = i; hf.ts = ts; hf.seq = u.next_seq(); hf.dev_services = d->services;
    hf.lines.assign(d->buf, d->buf + n);
    u.hand_by_ts[ts_key(ts)] = (int)u.hand.size();
    u.hand.push_back(hf);
  }
  u.ctx.log("handover frame %d lines %d services %x", i, n, d->services);
  u.ctx.count("frames_handed_over");
  if (n == d->rd.count[0] + d->rd.count[1]) u.ctx.count("frames_all_lines_filled");
  if (sliced) {
    if (*sliced) { memcpy((*sliced)->data, d->buf, (size_t)n * sizeof(vbi_sliced)); }
    else { *sliced = &d->sliced_buffer; d->sliced_buffer.data = d->buf; }
    (*sliced)->size = n * (int)sizeof(vbi_sliced);
    (*sliced)->timestamp = ts;
  }
  if (raw && *raw) { (*raw)->size = 0; (*raw)->timestamp = ts; }
  return 1;
}

static vbi_raw_decoder* dev_parameters(vbi_capture* vc) { return &((SimDev*)vc)->rd; }

static unsigned int dev_update_services(vbi_capture* vc, vbi_bool reset, vbi_bool commit, unsigned int services, int strict, char** errstr) {
  simk::KScope ks;  // driver context: its allocations are not the daemon's
  SimDev* d = (SimDev*)vc;
  Universe& u = *d->u;
  d->suspended = true;
  d->fault_run = 0;
  if (reset) {
    vbi_raw_decoder_reset(&d->rd);
    dev_set_params(d);
    d->services = 0;
  }
  unsigned g = direct_grant(u, services, strict);
  if (g & ~d->services) vbi_raw_decoder_add_services(&d->rd, g & ~d->services, strict);
  bool was_idle = d->services == 0;
  d->services |= g;
  if (was_idle && d->services) {  // streaming starts now: the first frame is one period away
    d->t_next = (u.k.now_ns() / u.period_ns + 1) * u.period_ns;
  }
  if (commit && d->services != 0) d->suspended = false;
  u.ctx.log("dev update_services reset=%d commit=%d services=%x strict=%d -> %x (device now %x)", reset, commit, services, strict, g, d->services);
  u.ctx.count("dev_update_services");
  if (!g && errstr) { *errstr = strdup("Sorry, the simulated device cannot capture any of the requested data services."); }
  u.k.wake_all();
  return g & services;  // like the V4L drivers: the granted subset of what was asked for
}

static int dev_get_scanning(vbi_capture*) { return 625; }
static void dev_flush(vbi_capture* vc) {
  simk::KScope ks;  // driver context: its allocations are not the daemon's
  SimDev* d = (SimDev*)vc;
  Universe& u = *d->u;
  if (u.k.now_ns() >= d->t_next) {
    int64_t skip = (u.k.now_ns() - d->t_next) / u.period_ns + 1;
    d->idx_next += (int)skip; d->t_next += skip * u.period_ns;
  }
  u.ctx.count("dev_flush");
}
static int dev_get_fd(vbi_capture* vc) { return ((SimDev*)vc)->fd; }
static VBI_CAPTURE_FD_FLAGS dev_get_fd_flags(vbi_capture* vc) { return ((SimDev*)vc)->thread_mode ? (VBI_CAPTURE_FD_FLAGS)0 : VBI_FD_HAS_SELECT; }
static void dev_delete(vbi_capture* vc) {
  simk::KScope ks;  // driver context: its allocations are not the daemon's
  SimDev* d = (SimDev*)vc;
  Universe& u = *d->u;
  if (u.k.get(d->fd)) u.k.sys_close(d->fd);
  vbi_raw_decoder_destroy(&d->rd);
  u.ctx.log("dev close");
  u.dev_closes++;
  if (u.dev == d) u.dev = nullptr;
  d->~SimDev();
  free(d);
}

static vbi_capture* dev_new(const char* name) {
  simk::KScope ks;  // driver context: its allocations are not the daemon's
  Universe& u = *U;
  if (strcmp(name, DEVNAME) != 0) return nullptr;
  if (u.dev) { u.ctx.fail("oracle:device-opened-twice", "the daemon opened the capture device while it still has it open"); return nullptr; }
  SimDev* d = new (calloc(1, sizeof(SimDev))) SimDev();
  d->u = &u;
  d->thread_mode = u.thread_mode;
  vbi_raw_decoder_init(&d->rd);
  dev_set_params(d);
  d->cap.read = dev_read;
  d->cap.parameters = dev_parameters;
  d->cap.update_services = dev_update_services;
  d->cap.get_scanning = dev_get_scanning;
  d->cap.flush = dev_flush;
  d->cap.get_fd = dev_get_fd;
  d->cap.get_fd_flags = dev_get_fd_flags;
  d->cap._delete = dev_delete;
  SimDev* dd = d;
  d->fd = u.k.make_device_fd([dd] { return dev_readable(dd); });
  d->t_next = (u.k.now_ns() / u.period_ns + 1) * u.period_ns;
  u.dev = d;
  u.dev_opens++;
  u.ctx.log("dev open fd=%d", d->fd);
  u.ctx.count("dev_open");
  return &d->cap;
}

}  // namespace

extern "C" vbi_capture* zsim_capture_v4l2_new(const char* dev, int, unsigned int*, int, char** errstr, vbi_bool) {
  if (U && U->plan.knob("v4l2_fails", 0)) { (void)errstr; U->ctx.count("v4l2_open_failed"); return nullptr; }  // (no error string: the daemon would leak it when the V4L1 open then succeeds - outside the properties)
  return U ? dev_new(dev) : nullptr;
}
extern "C" vbi_capture* zsim_capture_v4l_new(const char* dev, int, unsigned int*, int, char**, vbi_bool) { return U ? dev_new(dev) : nullptr; }
extern "C" void zsim_exit(int status) {
  if (U && U->sched.in_task()) {
    Universe& u = *U;
    if (u.sched.current() == u.daemon_task) { u.daemon_exited = true; u.daemon_status = status; u.ctx.log("daemon exit(%d)", status); }
    u.k.thr().exited = true;
    u.k.wake_all();
    u.sched.finish_current();
  }
  _exit(status);
}

// UBSan monitor hook.  daemon/proxyd.c is compiled with recoverable bounds checks because its macro
// VBI_GET_SERVICE_P(req, strict) evaluates (services + strict) - VBI_MIN_STRICT: for strict == -1 the intermediate
// pointer is services - 1 ("index -1 out of bounds for type 'unsigned int[4]'") although nothing outside the array
// is ever accessed.  Exactly that report is ignored; every other report is fatal and names its site.
extern "C" const char* zsim_ubsan_options = "print_stacktrace=0:exitcode=77:external_symbolizer_path=/usr/bin/llvm-symbolizer-14";
extern "C" void __ubsan_get_current_report_data(const char** kind, const char** msg, const char** file, unsigned* line, unsigned* col, char** addr);
extern "C" void __ubsan_on_report(void) {
  const char *kind = "", *msg = "", *file = ""; unsigned line = 0, col = 0; char* addr = nullptr;
  __ubsan_get_current_report_data(&kind, &msg, &file, &line, &col, &addr);
  if (msg && file && !strncasecmp(msg, "index -1 out of bounds for type 'unsigned int[4]'", 49) && strstr(file, "proxyd.c")) {
    if (U) { HarnessScope hs; U->ctx.count("ubsan_benign_service_p"); }
    return;
  }
  const char* b = file ? strrchr(file, '/') : nullptr;
  fprintf(stderr, "\nZSIM-FATAL ubsan@%s:%u %s\n", b ? b + 1 : (file ? file : "?"), line, msg ? msg : "");
  _exit(77);
}

namespace {

// ---- oracle -----------------------------------------------------------------
static bool lines_equal(const vbi_sliced& a, const vbi_sliced& b) { return a.id == b.id && a.line == b.line && !memcmp(a.data, b.data, sizeof a.data); }

static void check_interval(Universe& u, Client& c, size_t ivx) {
  Interval& iv = c.iv[ivx];
  RunCtx& ctx = u.ctx;
  int prev_idx = -1;
  for (size_t n = 0; n < iv.frames.size() && !ctx.failed; n++) {
    Recv& r = iv.frames[n];
    auto it = u.hand_by_ts.find(ts_key(r.ts));
    if (it == u.hand_by_ts.end()) { ctx.fail("oracle:phantom-frame", "client %d received a frame with timestamp %.3f that the device never handed over (%zu lines)", c.idx, r.ts, r.lines.size()); return; }
    const HandFrame& hf = u.hand[(size_t)it->second];
    if (it->second <= prev_idx) { ctx.fail(it->second == prev_idx ? "oracle:duplicate-frame" : "oracle:reordered-frame", "client %d received frame #%d after frame #%d", c.idx, hf.idx, u.hand[(size_t)prev_idx].idx); return; }
    if (hf.seq < iv.begin_start_seq && ivx == 0) { ctx.fail("oracle:stale-frame", "client %d received frame #%d which was captured before it connected", c.idx, hf.idx); return; }
    bool old = hf.seq < iv.begin_start_seq;  // captured before the client changed its services: statement silent on the filter
    if (!old) {
      std::vector<const vbi_sliced*> want;
      for (auto& l : hf.lines) if (l.id & iv.granted) want.push_back(&l);
      bool same = want.size() == r.lines.size();
      for (size_t q = 0; same && q < want.size(); q++) same = lines_equal(*want[q], r.lines[q]);
      if (!same) {
        ctx.fail("oracle:frame-content", "client %d (granted %x) frame #%d: received %zu lines, the hand-over frame has %zu lines of its services (%zu in total)", c.idx, iv.granted, hf.idx, r.lines.size(), want.size(), hf.lines.size());
        return;
      }
    } else ctx.count("frames_from_before_service_change");
    // no gap for a client that keeps reading
    int first_required = -1;
    if (prev_idx < 0) {
      for (size_t h = 0; h < u.hand.size(); h++) if (u.hand[h].seq > iv.begin_done_seq) { first_required = (int)h; break; }
    } else first_required = prev_idx + 1;
    if (first_required >= 0) {
      for (int m = first_required; m < it->second; m++) {
        uint64_t ms = u.hand[(size_t)m].seq;
        bool excused = false;
        for (auto& ia : iv.inattentive) if (ms > ia.first && ms < ia.second) excused = true;
        // a channel flush notification discards every client's queue by design: frames captured shortly before it may be lost
        for (auto& fl : u.flushes) if (ms < fl.first && u.hand[(size_t)m].ts > fl.second - 2.0) excused = true;
        if (!excused) { ctx.fail("oracle:gap", "client %d kept reading but never received frame #%d (received #%d next, previous #%d)", c.idx, u.hand[(size_t)m].idx, hf.idx, prev_idx < 0 ? -1 : u.hand[(size_t)prev_idx].idx); return; }
        ctx.count("frames_lost_by_stalled_client");
      }
    }
    prev_idx = it->second;
    ctx.count("frames_checked");
  }
}

// ---- client tasks -----------------------------------------------------------
struct ClientRunner {
  Universe& u;
  Client& c;
  ClientRunner(Universe& uu, Client& cc) : u(uu), c(cc) {}

  void begin_interval(uint64_t start_seq, unsigned granted) {
    HarnessScope hs;
    Interval iv; iv.granted = granted; iv.begin_start_seq = start_seq; iv.begin_done_seq = u.next_seq();
    c.iv.push_back(iv);
  }
  void end_interval() {
    if (c.iv.empty() || c.iv.back().end_seq != ~0ull) return;
    c.iv.back().end_seq = u.next_seq();
    if (c.behind) { HarnessScope hs; c.iv.back().inattentive.push_back({c.behind_from, c.iv.back().end_seq}); c.behind = false; }
  }
  void inattentive(uint64_t a, uint64_t b) {
    HarnessScope hs;
    c.iv.back().inattentive.push_back({a, b});
    if (!c.behind) { c.behind = true; c.behind_from = b; }
  }
  void drop(const char* why) {
    u.ctx.log("client %d: connection lost (%s)", c.idx, why);
    if (!c.adversary_hit) u.ctx.fail("oracle:client-dropped", "well-behaved client %d lost its connection to the daemon (%s)", c.idx, why);
    c.dropped = true; c.connected = false;
  }
  void do_connect(int svc, int strict, int buffers, bool no_services) {
    if (c.vpc) do_close();
    char* err = nullptr;
    char name[32]; snprintf(name, sizeof name, "client%d", c.idx);
    c.vpc = vbi_proxy_client_create(DEVNAME, name, (VBI_PROXY_CLIENT_FLAGS)(u.plan.knob("no_status_ind", 0) ? VBI_PROXY_CLIENT_NO_STATUS_IND : 0), &err, getenv("ZSIM_PROXY_TRACE") ? 2 : 0);
    if (!c.vpc) { u.ctx.fail("harness:client-create", "vbi_proxy_client_create failed"); return; }
    unsigned services = SVC[absmod(svc, NSVC)];
    unsigned req = services;
    uint64_t start = u.next_seq();
    u.ctx.log("client %d: connect services=%x strict=%d buffers=%d%s", c.idx, services, strict, buffers, no_services ? " (none)" : "");
    c.cap = vbi_capture_proxy_new(c.vpc, buffers, 0, no_services ? nullptr : &services, strict, &err);
    unsigned want = no_services ? 0 : (direct_grant(u, req, strict) & req);
    if (!c.cap) {
      u.ctx.log("client %d: connect refused: %s", c.idx, err ? err : "?");
      if (err) free(err);
      if (no_services || want != 0) { u.ctx.fail("oracle:connect-refused", "client %d asked for services %x strict %d, a direct capture would grant %x, but the proxy refused the connection", c.idx, req, strict, want); }
      else u.ctx.count("connect_rejected_no_service");
      vbi_proxy_client_destroy(c.vpc); c.vpc = nullptr;
      return;
    }
    unsigned granted = no_services ? 0 : services;
    if (granted != want) { u.ctx.fail("oracle:grant", "client %d asked for %x strict %d: granted %x, a direct capture grants %x", c.idx, req, strict, granted, want); return; }
    // (whether the device captures the granted services is checked at quiescent points: another client's request may be reconfiguring it right now)
    c.connected = true;
    begin_interval(start, granted);
    u.ctx.log("client %d: connected, granted %x", c.idx, granted);
    u.ctx.count("connects");
  }
  void do_read(int count) {
    if (!c.connected) return;
    for (int n = 0; n < count && !u.ctx.failed && c.connected; n++) {
      vbi_capture_buffer* sb = nullptr;
      struct timeval tv; tv.tv_sec = 1; tv.tv_usec = 0;
      int64_t t0 = u.k.now_ns(); uint64_t s0 = c.behind ? u.next_seq() : 0;
      int r = vbi_capture_pull_sliced(c.cap, &sb, &tv);
      if (c.behind && u.k.now_ns() > t0 && !c.iv.empty()) {   // this read had to wait: the backlog is consumed, the client keeps up again
        HarnessScope hs; c.iv.back().inattentive.push_back({c.behind_from, s0}); c.behind = false; u.ctx.count("client_caught_up_after_stall");
      }
      if (r > 0) {
        HarnessScope hs;
        Recv rv; rv.ts = sb->timestamp; rv.seq = u.next_seq();
        int nl = sb->size / (int)sizeof(vbi_sliced);
        rv.lines.assign((vbi_sliced*)sb->data, (vbi_sliced*)sb->data + nl);
        auto it = u.hand_by_ts.find(ts_key(rv.ts));
        u.ctx.log("client %d: frame #%d lines %d", c.idx, it == u.hand_by_ts.end() ? -1 : u.hand[(size_t)it->second].idx, nl);
        c.iv.back().frames.push_back(rv);
        if (it != u.hand_by_ts.end()) c.last_rx_seq = u.hand[(size_t)it->second].seq;
        c.reads_ok++;
      } else if (r == 0) {
        u.ctx.count("client_read_timeout_or_async");
        u.ctx.log("client %d: read -> 0", c.idx);
        // Bounded liveness ("each client that keeps up receives every frame captured while it was subscribed ... the same data a
        // direct capture would have returned"): a direct capture returns a frame every 40 ms unless a device fault is planned.  A
        // subscribed client that sat in ONE read call for the full second (25 frame periods of simulated time, and simulated time
        // only passes when every task is blocked) and got nothing was starved by the daemon.  Not judged: windows with a planned
        // device fault (armed, pending, or fired from two periods before the window on: frames may be lost in the driver) and
        // windows near a channel flush notification (C19: the daemon discards every queue and flushes the device by design).
        if (u.k.now_ns() - t0 >= 999000000ll && c.iv.back().granted != 0) {
          bool dev_fault = (u.dev && u.dev->glitch_left > 0) || u.last_dev_fault_ns >= t0 - 2 * u.period_ns;
          bool flushed = false;
          double w0 = (double)u.k.epoch_s + (double)t0 / 1e9, w1 = (double)u.k.epoch_s + (double)u.k.now_ns() / 1e9;
          for (auto& fl : u.flushes) if (fl.second > w0 - 2.5 && fl.second < w1 + 2.5) flushed = true;
          if (dev_fault) u.ctx.count("client_waited_1s_during_device_faults");
          else if (flushed) u.ctx.count("client_waited_1s_near_flush");
          else { u.ctx.fail("oracle:starved", "client %d (granted %x) waited a full second in one read call and received nothing; the device had no fault planned and a direct capture returns a frame every 40 ms (device %s, %zu frames handed over so far)", c.idx, c.iv.back().granted, u.dev ? "open" : "closed", u.hand.size()); return; }
        }
        if (c.iv.back().granted == 0) break;  // nothing is ever sent to a client without services
      } else { drop("read"); }
    }
  }
  void do_stall(int ms) {
    uint64_t a = u.next_seq();
    u.ctx.log("client %d: stalls %d ms", c.idx, ms);
    u.sched.sleep_ns((int64_t)ms * 1000000);
    uint64_t b = u.next_seq();
    if (c.connected && !c.iv.empty()) inattentive(a, b);
    u.ctx.count("fault_client_stall");
  }
  void do_update(int svc, int strict, bool reset) {
    if (!c.connected) return;
    unsigned services = SVC[absmod(svc, NSVC)];
    unsigned before = c.iv.back().granted;
    end_interval();
    uint64_t start = u.next_seq();
    char* err = nullptr;
    u.ctx.log("client %d: update services=%x strict=%d reset=%d", c.idx, services, strict, reset);
    unsigned r = vbi_capture_update_services(c.cap, reset, TRUE, services, strict, &err);
    if (err) free(err);
    // did the connection survive?
    if (vbi_capture_fd(c.cap) < 0) { drop("service update"); return; }
    unsigned want_new = direct_grant(u, services, strict) & services;
    if (r != want_new) { u.ctx.fail("oracle:grant", "client %d update to %x strict %d (reset %d): granted %x, a direct capture grants %x", c.idx, services, strict, reset, r, want_new); return; }
    // the set confirmed to the client: the new services plus, without reset, what it had before
    unsigned granted = reset ? r : ((before & ~services) | r);
    // a rejected request (nothing of it can be captured) leaves the confirmation to the daemon: the library then
    // keeps its previous set; accept that
    if (r == 0) granted = reset ? 0 : (before & ~services);
    begin_interval(start, granted);
    u.ctx.count("service_updates");
  }
  // channel control through the real client API.  While the library waits for the reply it discards sliced data (that
  // is how proxy-client.c works), so the RPC counts as a moment of inattention of this client.
  // KNOWN FINDING C18-K1 (known_findings.json): proxy-client.c throws away sliced frames that arrive while it waits for
  // the reply to a channel request / notification ("XXX FIXME: don't discard messages" in the source), including frames
  // the daemon had queued before the request.  With knob strict_rpc_gap=0 (generator default) frames captured after the
  // last frame this client received and before the reply are excused; the finding's own replay sets the knob to 1.
  uint64_t rpc_begin() {
    uint64_t a = u.next_seq();
    if (!u.plan.knob("strict_rpc_gap", 0) && c.last_rx_seq && c.last_rx_seq < a) a = c.last_rx_seq;
    if (!u.plan.knob("strict_rpc_gap", 0) && !c.last_rx_seq && !c.iv.empty()) a = c.iv.back().begin_done_seq;
    return a;
  }
  void do_token_req(int prio, int subprio, int min_dur, int valid) {
    if (!c.connected) return;
    vbi_channel_profile prof; memset(&prof, 0, sizeof prof);
    prof.is_valid = (uint8_t)(valid != 0); prof.sub_prio = (uint8_t)subprio; prof.allow_suspend = 1;
    prof.min_duration = min_dur; prof.exp_duration = min_dur * 2;
    uint64_t a = rpc_begin();
    u.ctx.log("client %d: channel request prio=%d sub=%d min=%d valid=%d", c.idx, prio, subprio, min_dur, valid);
    int r = vbi_proxy_client_channel_request(c.vpc, (VBI_CHN_PRIO)prio, &prof);
    uint64_t b = u.next_seq();
    if (!c.iv.empty()) inattentive(a, b);
    if (r < 0) { drop("channel request"); return; }
    u.ctx.log("client %d: channel request -> %d", c.idx, r);
    u.ctx.count(r > 0 ? "token_granted_at_once" : "token_requests_pending");
  }
  void do_notify(int flags) {
    if (!c.connected) return;
    uint64_t a = rpc_begin();
    u.ctx.log("client %d: channel notify flags=%x (has token %d)", c.idx, flags, vbi_proxy_client_has_channel_control(c.vpc));
    if (flags & VBI_PROXY_CHN_FLUSH) { HarnessScope hs; u.flushes.push_back({a, (double)u.k.epoch_s + (double)u.k.now_ns() / 1e9}); u.ctx.count("fault_channel_flush"); }
    int r = vbi_proxy_client_channel_notify(c.vpc, (VBI_PROXY_CHN_FLAGS)flags, 0);
    uint64_t b = u.next_seq();
    if (flags & VBI_PROXY_CHN_FLUSH) { HarnessScope hs; u.flushes.push_back({b, (double)u.k.epoch_s + (double)u.k.now_ns() / 1e9}); }
    if (!c.iv.empty()) inattentive(a, b);
    if (r < 0) { drop("channel notify"); return; }
    u.ctx.count("token_notifies");
  }
  void do_close() {
    if (!c.vpc) return;
    end_interval();
    u.ctx.log("client %d: close", c.idx);
    if (c.cap) { vbi_capture_delete(c.cap); c.cap = nullptr; }
    vbi_proxy_client_destroy(c.vpc);
    c.vpc = nullptr;
    c.connected = false;
    u.ctx.count("closes");
  }
  void run() {
    for (const Op& op : u.plan.ops) {
      if (op.task != c.idx || u.ctx.failed) continue;
      if (op.kind == "connect") do_connect((int)op.arg(0), (int)absmod(op.arg(1) + 1, 4) - 1, 1 + (int)absmod(op.arg(2), 10), op.arg(3) != 0);
      else if (op.kind == "read") do_read(1 + (int)absmod(op.arg(0), 160));  // (the generator stayed below 40 until device faults came)
      else if (op.kind == "stall") do_stall(20 + (int)absmod(op.arg(0), 3000));
      else if (op.kind == "update") do_update((int)op.arg(0), (int)absmod(op.arg(1) + 1, 4) - 1, op.arg(2) != 0);
      else if (op.kind == "close") do_close();
      else if (op.kind == "sync") {  // act at a common instant: several clients' messages reach the daemon in one select round
        int64_t g = (int64_t)(10 + absmod(op.arg(0), 200)) * 1000000, now = u.k.now_ns();
        uint64_t a = u.next_seq();
        u.sched.sleep_ns((now / g + 1) * g - now);
        uint64_t b = u.next_seq();
        if (c.connected && !c.iv.empty()) inattentive(a, b);  // not reading while it waits
        u.ctx.count("client_sync_points");
      }
      else if (op.kind == "token") do_token_req(1 + (int)absmod(op.arg(0), 3), (int)absmod(op.arg(1), 0x50), (int)absmod(op.arg(2), 4), (int)op.arg(3, 1));
      else if (op.kind == "notify") do_notify((int)absmod(op.arg(0), 32));
    }
    if (!u.ctx.failed) do_close();
    c.done = true;
  }
};

// ---- device task: the capture hardware / driver as an independent party.  Its script (ops of task DEV_TASK) arms read
// faults on the device as it is at that simulated instant: "dev_quiet" [ms, us] lets time pass, "dev_glitch" [kind, burst,
// gap_us, eats, aligned] makes the next 1 + burst % 40 read calls fail (kind 0: time-out, read returns 0; 1-3: -1 with EIO / EAGAIN /
// EBUSY), gap_us apart (0 = back to back at one instant), eats != 0: a frame that was due at a failed read is lost in the driver.
// A glitch while the device is closed, suspended or idle hits nothing.
static void dev_fault_script(Universe& u) {
  auto over = [&u] {
    if (u.ctx.failed || u.daemon_exited) return true;
    for (auto& c : u.clients) if (!c.done) return false;
    return true;
  };
  for (const Op& op : u.plan.ops) {
    if (op.task != DEV_TASK) continue;
    if (over()) return;
    if (op.kind == "dev_quiet") u.sched.sleep_ns(absmod(op.arg(0), 3001) * 1000000 + absmod(op.arg(1), 1000) * 1000);
    else if (op.kind == "dev_glitch") {
      SimDev* d = u.dev;
      if (!d || d->services == 0 || d->suspended) { u.ctx.count("dev_glitch_hit_nothing"); continue; }
      int burst = 1 + (int)absmod(op.arg(1), 40);
      d->glitch_kind = (int)absmod(op.arg(0), 4);
      d->glitch_left = std::min(d->glitch_left + burst, 120);
      d->glitch_gap_ns = absmod(op.arg(2), 40001) * 1000;
      d->glitch_eats = op.arg(3) != 0;
      // at once (a wake-up between two frames), or (aligned) with the next frame: the descriptor is readable because a frame
      // is there, and the read fails all the same
      d->glitch_next = op.arg(4) != 0 ? std::max(d->t_next, u.k.now_ns()) : u.k.now_ns();
      u.ctx.log("dev glitch: kind %d, %d reads, %lld us apart%s%s", d->glitch_kind, burst, (long long)(d->glitch_gap_ns / 1000), d->glitch_eats ? ", frames lost" : "", op.arg(4) != 0 ? ", with the next frame" : "");
      u.ctx.count("dev_glitches");
      u.last_dev_fault_ns = u.k.now_ns();
      u.k.wake_all();
    }
  }
}

// ---- quiescence audit (white box), run in scheduler context after task switches
static void audit(Universe& u) {
  if (u.ctx.failed || u.daemon_exited || !u.daemon_task) return;
  simk::Thread& dt = u.k.thr_of(u.daemon_task);
  if (!dt.in_select || !u.sched.task_blocked(u.daemon_task)) return;   // the daemon main thread is blocked in select()
  if (u.thread_mode && u.dev && !u.dev->in_read_wait) return;               // the acquisition thread is inside forward_data
  zvbid_dev_view dv; zvbid_dev(&dv);
  if (u.baseline_blocks < 0 && zvbid_n_clients() == 0 && !dv.open) u.baseline_blocks = (long)alloc_live_blocks();
  if (u.thread_mode && dv.use_thread && !(u.dev && u.dev->in_read_wait)) return;
  const char* e = zvbid_audit();
  if (e) { u.ctx.fail("oracle:queue-audit", "daemon frame queue inconsistent at a quiescent point: %s", e); return; }
  // device open <=> somebody is subscribed
  int n = zvbid_n_clients();
  unsigned uni = 0;
  for (int i = 0; i < n; i++) { zvbid_client_view v; if (zvbid_client(i, &v) && v.state == 2 /* FORWARD */) uni |= v.all_services; }
  if ((dv.open != 0) != (uni != 0)) { u.ctx.fail("oracle:device-open-iff-subscribed", "at a quiescent point the device is %s but the union of the clients' services is %x (%d connections)", dv.open ? "open" : "closed", uni, n); return; }
  if (dv.open && u.dev && (u.dev->services & uni) != uni) { u.ctx.fail("oracle:device-services", "device captures %x, the clients were granted %x", u.dev->services, uni); return; }
  if (dv.open && u.dev && u.dev->services != 0 && u.dev->suspended) { u.ctx.fail("oracle:device-suspended", "at a quiescent point the device is open for services %x but capturing is suspended: the daemon's last service update was not committed, nobody receives anything", u.dev->services); return; }
  if ((u.dev != nullptr) != (dv.open != 0)) { u.ctx.fail("oracle:device-leak", "daemon thinks the device is %s, the driver has it %s", dv.open ? "open" : "closed", u.dev ? "open" : "closed"); return; }
  u.ctx.count("audits");
  uint64_t st = (uint64_t)n | (uint64_t)dv.n_sliced << 4 | (uint64_t)dv.n_free << 10 | (uint64_t)(uni & 0xFFFF) << 16 | (uint64_t)dv.use_thread << 40;
  for (int i = 0; i < n && i < 6; i++) { zvbid_client_view v; zvbid_client(i, &v); st = hash_mix(st, (uint64_t)v.state | (uint64_t)std::min(v.queued, 7) << 4 | (uint64_t)v.token_state << 8); }
  u.ctx.state(st);
}

// ---- common universe driver ------------------------------------------------
struct ProxyWorld : World {
  virtual bool is_c19() const = 0;

  void gen_common(Plan& p, Rng& r, bool thorough) {
    p.knobs["sched_seed"] = (int64_t)(r.next() >> 1);
    p.knobs["policy"] = (int64_t)r.below(3);
    p.knobs["pparam"] = (p.knobs["policy"] == 1) ? 30 + (int64_t)r.below(65) : (int64_t)r.below(4);
    p.knobs["fault_seed"] = (int64_t)(r.next() >> 1);
    p.knobs["content_seed"] = (int64_t)(r.next() >> 1);
    // Socket buffer capacity per direction.  Not below 2048 bytes: Linux never gives an AF_UNIX stream socket less (SO_SNDBUF
    // minimum), and the protocol lets both sides write at the same time (a client sending its request while the daemon sends an
    // indication), which needs room for one small message per direction; with 64-byte buffers both sides waited for writability
    // until the client's RPC timeout - an artefact of the simulated kernel, not a property violation (DESIGN.md 0.4).  Frames are
    // 2 KiB and more, so partial sends still happen; short_io_pct cuts calls arbitrarily on top.
    static const int caps[] = {2048, 2304, 3000, 4096, 8192, 16384, 65536, 212992};
    p.knobs["sock_cap"] = caps[r.below(8)];
    bool faults = !r.chance(1, 3);
    p.knobs["short_io_pct"] = faults && r.chance(1, 2) ? (int64_t)r.range(5, 40) : 0;
    p.knobs["eintr_pct"] = faults && r.chance(1, 3) ? (int64_t)r.range(2, 15) : 0;
    p.knobs["connect_inprogress_pct"] = faults && r.chance(1, 3) ? 60 : 0;
    p.knobs["thread_mode"] = r.chance(1, 3);
    p.knobs["buffers"] = (int64_t)r.range(1, 6);
    p.knobs["window"] = (int64_t)r.below(3);
    p.knobs["fill_pct"] = (int64_t)r.range(20, 100);
    p.knobs["full_pct"] = r.chance(1, 3) ? (int64_t)r.range(5, 50) : 0;
    p.knobs["v4l2_fails"] = r.chance(1, 8);
    p.knobs["no_status_ind"] = r.chance(1, 4);
    (void)thorough;
  }

  void gen_client_ops(Plan& p, Rng& r, int ci, int len, bool may_stall) {
    bool connected = false;
    for (int n = 0; n < len; n++) {
      Op o; o.task = ci;
      if (!connected) {
        o.kind = "connect"; o.a = {(int64_t)r.below(NSVC), (int64_t)r.below(4), (int64_t)r.below(10), r.chance(1, 10)};
        connected = true;
      } else {
        unsigned x = (unsigned)r.below(100);
        if (x < 50) { o.kind = "read"; o.a = {(int64_t)r.below(r.chance(1, 4) ? 40 : 8)}; }
        else if (x < 65 && may_stall) { o.kind = "stall"; o.a = {(int64_t)(r.chance(1, 2) ? r.below(200) : r.below(3000))}; }
        else if (x < 85) { o.kind = "update"; o.a = {(int64_t)r.below(NSVC), (int64_t)r.below(4), r.chance(1, 3)}; }
        else if (x < 93) { o.kind = "close"; connected = false; }
        else { o.kind = "read"; o.a = {(int64_t)r.below(4)}; }
      }
      p.ops.push_back(o);
    }
  }

  // Script of the device task.  Drawn from a random stream of its own: the rest of the plan is what it was without it.
  // In a quarter of these runs one client read becomes a long one (1.6 - 4.4 s), a quiet phase as far as this client goes.
  void gen_dev_faults(Plan& p, Rng& r) {
    int n = (int)r.range(1, 4);
    int flavour = (int)r.below(4);   // 0: time-outs only, 1: errors only, 2, 3: mixed
    bool spread = r.chance(1, 2);    // bursts spread over simulated time as well, else back to back only
    for (int i = 0; i < n; i++) {
      Op q; q.task = DEV_TASK; q.kind = "dev_quiet";
      q.a = {(int64_t)(i == 0 ? r.range(40, 700) : (r.chance(1, 3) ? r.below(40) : r.below(1500))), (int64_t)r.below(1000)};
      p.ops.push_back(q);
      Op g; g.task = DEV_TASK; g.kind = "dev_glitch";
      int64_t kind = flavour == 0 ? 0 : flavour == 1 ? (int64_t)r.range(1, 3) : (r.chance(1, 2) ? 0 : (int64_t)r.range(1, 3));
      int64_t burst = r.chance(1, 4) ? (int64_t)r.below(3) : (int64_t)r.below(40);
      int64_t gap = !spread || r.chance(1, 2) ? 0 : (r.chance(1, 2) ? (int64_t)r.range(1, 3000) : (int64_t)r.range(3000, 40000));
      g.a = {kind, burst, gap, r.chance(1, 4), r.chance(1, 3)};
      p.ops.push_back(g);
    }
    if (r.chance(1, 4)) {
      std::vector<size_t> reads;
      for (size_t i = 0; i < p.ops.size(); i++) if (p.ops[i].kind == "read" && p.ops[i].task < DEV_TASK) reads.push_back(i);
      if (!reads.empty()) p.ops[reads[r.below(reads.size())]].a = {(int64_t)r.range(40, 110)};
    }
  }

  virtual void spawn_extra(Universe&, std::vector<ClientRunner*>&) {}
  virtual void final_checks(Universe&) {}
  virtual void install_hooks(Universe&) {}

  void run(const Plan& plan, RunCtx& ctx) override {
    alloc_track_reset();
    int nclients = 1 + (int)absmod(plan.knob("nclients", 2) - 1, 5);
    {
      Sched sched(ctx, (uint64_t)plan.knob("sched_seed", (int64_t)plan.seed), (Policy)absmod(plan.knob("policy"), 3), (int)plan.knob("pparam"));
      simk::Kernel k(sched, ctx, (uint64_t)plan.knob("fault_seed", 1));
      k.sock_cap = (size_t)std::max<int64_t>(16, plan.knob("sock_cap", 4096));
      k.short_io_pct = (int)absmod(plan.knob("short_io_pct", 0), 90);
      k.eintr_pct = (int)absmod(plan.knob("eintr_pct", 0), 50);
      k.connect_inprogress_pct = (int)absmod(plan.knob("connect_inprogress_pct", 0), 101);
      simk::Node devnode; devnode.mode = S_IFCHR | 0660; devnode.uid = 0; devnode.gid = 44;
      k.vfs[DEVNAME] = devnode;
      Universe u(ctx, plan, sched, k);
      U = &u;
      u.c19 = is_c19();
      u.thread_mode = plan.knob("thread_mode", 0) != 0;
      u.content_seed = (uint64_t)plan.knob("content_seed", 7);
      u.fill_pct = (int)absmod(plan.knob("fill_pct", 60), 101);
      u.full_pct = (int)absmod(plan.knob("full_pct", 0), 101);
      switch (absmod(plan.knob("window", 0), 3)) {
        case 0: u.win_start[0] = 7; u.win_start[1] = 320; u.win_count[0] = u.win_count[1] = 16; break;
        case 1: u.win_start[0] = 6; u.win_start[1] = 319; u.win_count[0] = u.win_count[1] = 18; break;
        default: u.win_start[0] = 7; u.win_start[1] = 320; u.win_count[0] = 17; u.win_count[1] = 16; break;
      }
      u.clients.resize((size_t)nclients);
      for (int i = 0; i < nclients; i++) u.clients[(size_t)i].idx = i;
      install_hooks(u);

      static char a0[] = "zvbid", a1[] = "-dev", a2[] = "/dev/simvbi0", a3[] = "-nodetach", a4[] = "-buffers", a6[] = "-maxclients";
      static char a5[16], a7[16];
      snprintf(a5, sizeof a5, "%d", 1 + (int)absmod(plan.knob("buffers", 4) - 1, 8));
      snprintf(a7, sizeof a7, "%d", 1 + (int)absmod(plan.knob("maxclients", 10) - 1, 12));
      static char a8[] = "-debug", a9[] = "15";
      static char* argv[] = {a0, a1, a2, a3, a4, a5, a6, a7, nullptr, nullptr, nullptr};
      static int argc; argc = 8;
      if (getenv("ZSIM_DAEMON_DEBUG")) { argv[8] = a8; argv[9] = a9; argc = 10; }  // debugging aid only (changes daemon_flags)
      u.daemon_task = sched.spawn("zvbid", [&] { zvbid_main(argc, argv); zsim_exit(0); }, 512 * 1024);
      k.set_pid(u.daemon_task, DAEMON_PID, true);

      std::vector<ClientRunner*> runners;
      { HarnessScope hs;
        for (int i = 0; i < nclients; i++) runners.push_back(new ClientRunner(u, u.clients[(size_t)i])); }
      for (int i = 0; i < nclients; i++) {
        ClientRunner* cr = runners[(size_t)i];
        sim::Task* t = sched.spawn("client" + std::to_string(i), [cr, &u, i] {
          // clients start after the daemon listens; a scripted start delay decides the relative phase
          u.sched.sleep_ns(1000000 + (int64_t)absmod(u.plan.knob("start_delay" + std::to_string(i), 0), 200) * 1000000);
          cr->run();
        }, 512 * 1024);
        u.clients[(size_t)i].task = t;
        k.set_pid(t, 100 + i, true);
      }
      spawn_extra(u, runners);
      for (const Op& op : plan.ops) if (op.task == DEV_TASK) {
        sim::Task* dt = sched.spawn("device", [&u] { dev_fault_script(u); }, 256 * 1024);
        k.set_pid(dt, 2, true);
        break;
      }

      // controller: when every client is done, let the daemon settle, check that the device is closed, terminate it
      sim::Task* ctl = sched.spawn("controller", [&] {
        for (;;) {
          bool all = true;
          for (auto& c : u.clients) if (!c.done) all = false;
          if (extra_done(u) && all) break;
          if (u.ctx.failed || u.daemon_exited) return;
          u.sched.sleep_ns(20000000);
        }
        u.sched.sleep_ns(200000000);
        if (u.ctx.failed) return;
        if (!u.daemon_exited) {
          if (u.dev) { u.ctx.fail("oracle:device-not-closed", "200 ms after the last client left the capture device is still open (services %x)", u.dev->services); return; }
          if (zvbid_n_clients() != 0) { u.ctx.fail("oracle:connection-leak", "200 ms after the last client left the daemon still holds %d connections", zvbid_n_clients()); return; }
          if (u.baseline_blocks >= 0 && (long)alloc_live_blocks() != u.baseline_blocks && alloc_track_available() && !alloc_overflowed()) {
            if (ctx.verbose) alloc_describe_live();
            u.ctx.fail("oracle:daemon-memory", "after the last client left the daemon holds %zu heap blocks (%zu bytes), it held %ld before the first client connected", alloc_live_blocks(), alloc_live_bytes(), u.baseline_blocks); return; }
          if (k.open_fds(DAEMON_PID) != 1) { u.ctx.fail("oracle:fd-leak", "after the last client left the daemon holds %d descriptors (expected: the listening socket only)", k.open_fds(DAEMON_PID)); return; }
          u.term_sent = true;
          u.ctx.log("SIGTERM");
          k.post_signal(DAEMON_PID, SIGTERM);
          for (int n = 0; n < 200 && !u.daemon_exited; n++) u.sched.sleep_ns(10000000);
          if (!u.daemon_exited) u.ctx.fail("oracle:daemon-hang", "the daemon did not terminate within 2 s of SIGTERM");
        }
      });
      k.set_pid(ctl, 1, true);
      // allocator observation: only what the daemon process (main thread + acquisition thread) allocates is tracked
      k.tracked_pid = DAEMON_PID;
      sched.set_before_switch([&k](sim::Task* t) { simk::Thread& th = k.thr_of(t); g_sut_depth = (th.pid == DAEMON_PID && th.in_kernel == 0) ? 1 : 0; });
      sched.set_after_switch([&u] { g_sut_depth = 0; audit(u); });

      int rc = sched.run(3000000);
      ctx.sim_seconds = (double)sched.now_ns() / 1e9;
      if (!ctx.failed) {
        if (rc == 1) ctx.fail("deadlock", "no task can run and no timer is pending, but tasks are still blocked");
        else if (rc == 2) {
          zvbid_dev_view dv; zvbid_dev(&dv);
          std::string cl;
          for (int i = 0; i < zvbid_n_clients(); i++) { zvbid_client_view v; zvbid_client(i, &v); char b[96]; snprintf(b, sizeof b, " [state %d services %x queued %d]", v.state, v.all_services, v.queued); cl += b; }
          ctx.fail("livelock", "the simulated time stands still at %.3f s while tasks keep running (scheduler switch budget exhausted): device open %d thread %d/%d services %x max_lines %d sliced %d free %d; clients:%s",
                   (double)sched.now_ns() / 1e9, dv.open, dv.use_thread, dv.thread_active, dv.all_services, dv.max_lines, dv.n_sliced, dv.n_free, cl.c_str());
        }
      }
      if (!ctx.failed && u.daemon_exited && !u.term_sent) ctx.fail("oracle:daemon-exit", "the daemon exited with status %d without being told to", u.daemon_status);
      if (!ctx.failed) for (auto& c : u.clients) for (size_t i = 0; i < c.iv.size() && !ctx.failed; i++) check_interval(u, c, i);
      if (!ctx.failed) final_checks(u);
      ctx.state(sched.interleaving_hash());
      int frames = 0, busy = 0;
      for (auto& c : u.clients) { frames += c.reads_ok; if (c.reads_ok >= 5) busy++; }
      ctx.nontrivial = nontrivial(u, frames, busy);
      { HarnessScope hs; for (auto* cr : runners) delete cr; }
      g_sut_depth = 0;
      U = nullptr;
      if (ctx.failed) return;
    }
  }
  virtual bool extra_done(Universe&) { return true; }
  virtual bool nontrivial(Universe& u, int frames, int busy) { (void)u; return frames >= 10 && busy >= 1; }
};

struct C18 : ProxyWorld {
  const char* name() const override { return "c18"; }
  const char* property() const override { return "C18"; }
  bool is_c19() const override { return false; }
  Plan generate(uint64_t seed, const std::string& tier) override {
    Plan p; p.world = name(); p.seed = seed;
    Rng r(seed, "plan");
    bool thorough = tier == "thorough";
    gen_common(p, r, thorough);
    int nc = (int)r.range(1, thorough ? 5 : 4);
    p.knobs["nclients"] = nc;
    p.knobs["maxclients"] = (int64_t)r.range(1, 10);
    for (int i = 0; i < nc; i++) {
      p.knobs["start_delay" + std::to_string(i)] = (int64_t)r.below(200);
      gen_client_ops(p, r, i, (int)r.range(2, thorough ? 14 : 8), r.chance(1, 2));
    }
    Rng rd(seed, "devfaults");
    if (rd.chance(1, 2)) gen_dev_faults(p, rd);
    return p;
  }
  bool nontrivial(Universe& u, int frames, int busy) override { (void)u; return frames >= 10 && busy >= 1; }
};
ZSIM_REGISTER_WORLD(C18)

// ============================================================== C19 =========
// Adversary: a task that speaks raw bytes on a simulated socket.  Every message starts from a VALID message of the
// protocol (built from src/proxy-msg.h) and is then mutated as the plan says.
struct Adversary {
  Universe& u;
  int idx;   // task number in the plan (100 + n)
  int fd = -1;
  std::string sock_path;
  Adversary(Universe& uu, int i) : u(uu), idx(i) {}

  static uint32_t be32(uint32_t v) { return __builtin_bswap32(v); }

  void connect_() {
    if (fd >= 0) close_();
    fd = socket(AF_UNIX, SOCK_STREAM, 0);
    if (fd < 0) return;
    struct sockaddr_un sa; memset(&sa, 0, sizeof sa); sa.sun_family = AF_UNIX;
    snprintf(sa.sun_path, sizeof sa.sun_path, "%s", sock_path.c_str());
    if (connect(fd, (struct sockaddr*)&sa, sizeof sa) != 0) { u.ctx.log("adversary %d: connect failed errno %d", idx, errno); close(fd); fd = -1; return; }
    fcntl(fd, F_SETFL, O_NONBLOCK);
    u.ctx.log("adversary %d: connected", idx);
    u.ctx.count("adv_connects");
  }
  void close_() {
    if (fd < 0) return;
    close(fd); fd = -1;
    u.ctx.log("adversary %d: closed", idx);
  }
  void drain() {  // read and throw away whatever the daemon sent
    if (fd < 0) return;
    char b[4096]; long total = 0;
    for (int i = 0; i < 64; i++) { ssize_t r = recv(fd, b, sizeof b, 0); if (r <= 0) { if (r == 0) { u.ctx.log("adversary %d: peer closed", idx); close_(); } break; } total += r; }
    if (total) u.ctx.count("adv_bytes_drained", total);
  }
  void send_bytes(const std::string& d) {
    if (fd < 0) return;
    size_t off = 0;
    for (int tries = 0; off < d.size() && tries < 50; ) {
      ssize_t r = send(fd, d.data() + off, d.size() - off, 0);
      if (r > 0) { off += (size_t)r; continue; }
      if (r < 0 && (errno == EAGAIN || errno == EINTR)) { tries++; drain(); if (fd < 0) return; u.sched.sleep_ns(5000000); continue; }
      u.ctx.log("adversary %d: send failed errno %d", idx, errno); close_(); return;
    }
    u.ctx.count("adv_bytes_sent", (int64_t)off);
  }

  // a valid message of the given kind (network byte order header)
  std::string build(int kind, const Op& op) {
    VBIPROXY_MSG m; memset(&m, 0, sizeof m);
    uint32_t type = 0; size_t body = 0;
    switch (absmod(kind, 10)) {
      case 0: {
        type = MSG_TYPE_CONNECT_REQ; body = sizeof m.body.connect_req;
        vbi_proxy_msg_fill_magics(&m.body.connect_req.magics);
        snprintf((char*)m.body.connect_req.client_name, VBIPROXY_CLIENT_NAME_MAX_LENGTH, "adversary%d", idx);
        m.body.connect_req.pid = 666; m.body.connect_req.client_flags = (uint32_t)absmod(op.arg(5), 4);
        m.body.connect_req.scanning = op.arg(6) % 3 == 0 ? 625 : (op.arg(6) % 3 == 1 ? 0 : 525);
        m.body.connect_req.buffer_count = (uint8_t)(1 + absmod(op.arg(7), 8));
        m.body.connect_req.services = SVC[absmod(op.arg(4), NSVC)]; m.body.connect_req.strict = (int8_t)(absmod(op.arg(8), 4) - 1);
        break; }
      case 1: type = MSG_TYPE_SERVICE_REQ; body = sizeof m.body.service_req;
        m.body.service_req.reset = (uint8_t)(op.arg(5) & 1); m.body.service_req.commit = 1;
        m.body.service_req.strict = (int8_t)(absmod(op.arg(8), 4) - 1); m.body.service_req.services = SVC[absmod(op.arg(4), NSVC)]; break;
      case 2: type = MSG_TYPE_CHN_TOKEN_REQ; body = sizeof m.body.chn_token_req;
        m.body.chn_token_req.chn_prio = (uint32_t)(1 + absmod(op.arg(4), 3));
        m.body.chn_token_req.chn_profile.is_valid = (uint8_t)(op.arg(5, 1) != 0); m.body.chn_token_req.chn_profile.sub_prio = (uint8_t)absmod(op.arg(6), 0x50);
        m.body.chn_token_req.chn_profile.min_duration = absmod(op.arg(7), 4); break;
      case 3: type = MSG_TYPE_CHN_NOTIFY_REQ; body = sizeof m.body.chn_notify_req;
        m.body.chn_notify_req.notify_flags = (VBI_PROXY_CHN_FLAGS)absmod(op.arg(4), 32); m.body.chn_notify_req.scanning = op.arg(5) & 1 ? 625 : 0; break;
      case 4: type = MSG_TYPE_CHN_RECLAIM_CNF; body = sizeof m.body.chn_reclaim_cnf; break;
      case 5: type = MSG_TYPE_CHN_IOCTL_REQ; {
        uint32_t asz = (uint32_t)absmod(op.arg(4), 64);
        m.body.chn_ioctl_req.request = (uint32_t)op.arg(5); m.body.chn_ioctl_req.arg_size = asz;
        body = VBIPROXY_CHN_IOCTL_REQ_SIZE(asz); break; }
      case 6: type = MSG_TYPE_CLOSE_REQ; body = 0; break;
      case 7: type = MSG_TYPE_DAEMON_PID_REQ; body = sizeof m.body.daemon_pid_req; vbi_proxy_msg_fill_magics(&m.body.daemon_pid_req.magics); break;
      case 8: type = MSG_TYPE_CHN_SUSPEND_REQ; body = sizeof m.body.chn_notify_req; break;   // (the daemon checks it against chn_notify_req)
      default: {  // server-only, reply and unknown types
        static const uint32_t odd[] = {MSG_TYPE_CONNECT_CNF, MSG_TYPE_SLICED_IND, MSG_TYPE_SERVICE_CNF, MSG_TYPE_CHN_TOKEN_IND, MSG_TYPE_CHN_RECLAIM_REQ,
                                       MSG_TYPE_DAEMON_PID_CNF, MSG_TYPE_CHN_CHANGE_IND, MSG_TYPE_COUNT, 255, 0x7fffffffu, 0xffffffffu};
        type = odd[absmod(op.arg(4), 11)]; body = (size_t)absmod(op.arg(5), 200); break; }
    }
    size_t len = sizeof(VBIPROXY_MSG_HEADER) + body;
    m.head.len = be32((uint32_t)len); m.head.type = be32(type);
    return std::string((const char*)&m, len);
  }

  void mutate(std::string& d, const Op& op) {
    int mut = (int)absmod(op.arg(1), 9);
    uint64_t h = hash_mix((uint64_t)op.arg(2), 0xAD7);
    auto put32 = [&](size_t off, uint32_t v) { if (off + 4 <= d.size()) memcpy(&d[off], &v, 4); };
    switch (mut) {
      case 0: u.ctx.count("adv_valid_messages"); break;
      case 1: {  // length field
        static const uint32_t lens[] = {0, 1, 7, 8, 9, 0x7fffffffu, 0xffffffffu, 65536, (uint32_t)sizeof(VBIPROXY_MSG), (uint32_t)sizeof(VBIPROXY_MSG) + 1, (uint32_t)sizeof(VBIPROXY_MSG) + 8, 0};
        int k = (int)absmod(op.arg(2), 14);
        uint32_t v = k < 11 ? lens[k] : (uint32_t)d.size() + (k == 11 ? 1 : k == 12 ? (uint32_t)-1 : 4);
        put32(0, be32(v)); u.ctx.count("fault_adv_bad_length"); break; }
      case 2: { static const uint32_t ty[] = {1, 2, 4, 6, 10, 11, 14, 18, 19, 20, 255, 0xffffffffu};
        put32(4, be32(ty[absmod(op.arg(2), 12)])); u.ctx.count("fault_adv_bad_type"); break; }
      case 3: {  // out-of-range field values, by message type
        uint32_t type = d.size() >= 8 ? be32(*(uint32_t*)&d[4]) : 0;
        VBIPROXY_MSG* m = (VBIPROXY_MSG*)&d[0];
        static const int8_t stricts[] = {127, -128, 3, -2, 64, -64, 4, 100};
        if (type == MSG_TYPE_CONNECT_REQ && d.size() >= sizeof(VBIPROXY_MSG_HEADER) + sizeof m->body.connect_req) {
          switch (h % 7) {
            case 0: m->body.connect_req.strict = stricts[(h >> 8) % 8]; break;
            case 1: m->body.connect_req.buffer_count = (h >> 8) & 1 ? 255 : 0; break;
            case 2: m->body.connect_req.services = (h >> 8) & 1 ? 0xffffffffu : (VBI_SLICED_VBI_625 | VBI_SLICED_TELETEXT_B); break;
            case 3: m->body.connect_req.magics.endian_magic = (h >> 8) & 1 ? VBIPROXY_ENDIAN_MISMATCH : 0x12345678; break;
            case 4: m->body.connect_req.magics.protocol_compat_version = 0x00000200; break;
            case 5: memset(m->body.connect_req.client_name, 'A', VBIPROXY_CLIENT_NAME_MAX_LENGTH); break;
            default: m->body.connect_req.scanning = (uint32_t)(h >> 8); break;
          }
        } else if (type == MSG_TYPE_SERVICE_REQ && d.size() >= sizeof(VBIPROXY_MSG_HEADER) + sizeof m->body.service_req) {
          if (h & 1) m->body.service_req.strict = stricts[(h >> 8) % 8]; else m->body.service_req.services = 0xffffffffu;
        } else if (type == MSG_TYPE_CHN_TOKEN_REQ && d.size() >= sizeof(VBIPROXY_MSG_HEADER) + sizeof m->body.chn_token_req) {
          switch (h % 4) {
            case 0: m->body.chn_token_req.chn_prio = (h >> 8) & 1 ? 0 : 0x7fffffff; break;
            case 1: m->body.chn_token_req.chn_profile.min_duration = (h >> 8) & 1 ? (time_t)-5 : (time_t)1 << 40; break;
            case 2: m->body.chn_token_req.chn_profile.is_valid = 2; break;
            default: m->body.chn_token_req.chn_profile.sub_prio = 255; break;
          }
        } else if (type == MSG_TYPE_CHN_NOTIFY_REQ && d.size() >= sizeof(VBIPROXY_MSG_HEADER) + sizeof m->body.chn_notify_req) {
          m->body.chn_notify_req.notify_flags = (VBI_PROXY_CHN_FLAGS)((h >> 8) & 1 ? 0xffffffffu : (uint32_t)(h >> 16));
          m->body.chn_notify_req.scanning = (uint32_t)(h >> 9) & 1 ? 525 : 0xffffffffu;
        } else if (type == MSG_TYPE_CHN_IOCTL_REQ && d.size() >= sizeof(VBIPROXY_MSG_HEADER) + sizeof m->body.chn_ioctl_req) {
          m->body.chn_ioctl_req.arg_size = (h >> 8) & 1 ? 0xffffffffu : (uint32_t)((h >> 16) % 4096);
        }
        u.ctx.count("fault_adv_bad_field"); break; }
      case 4: { int n = 1 + (int)(h % 6); for (int i = 0; i < n && !d.empty(); i++) { uint64_t g = hash_mix(h, (uint64_t)i); d[g % d.size()] ^= (char)(1 << ((g >> 20) & 7)); } u.ctx.count("fault_adv_bitflips"); break; }
      case 5: { size_t k = d.empty() ? 0 : (size_t)(h % d.size()); d.resize(k); u.ctx.count("fault_adv_truncated"); break; }
      case 6: { size_t n = 1 + (size_t)(h % 300); for (size_t i = 0; i < n; i++) d += (char)hash_mix(h, i); u.ctx.count("fault_adv_trailing_garbage"); break; }
      case 7: d += d; u.ctx.count("fault_adv_duplicate"); break;
      default: { size_t n = (size_t)(h % 600); d.clear(); for (size_t i = 0; i < n; i++) d += (char)hash_mix(h ^ 0x77, i); u.ctx.count("fault_adv_random_bytes"); break; }
    }
  }

  void run() {
    { char* n = vbi_proxy_msg_get_socket_name(DEVNAME); sock_path = n ? n : ""; free(n); }
    for (const Op& op : u.plan.ops) {
      if (op.task != idx || u.ctx.failed) continue;
      if (op.kind == "a_connect") connect_();
      else if (op.kind == "a_msg") { std::string d = build((int)op.arg(0), op); mutate(d, op); u.ctx.log("adversary %d: msg kind %d mutation %d (%zu bytes)", idx, (int)absmod(op.arg(0), 10), (int)absmod(op.arg(1), 9), d.size()); send_bytes(d); if (op.arg(3) & 1) drain(); }
      else if (op.kind == "a_sleep") { int ms = (int)absmod(op.arg(0), 70001); u.sched.sleep_ns((int64_t)ms * 1000000); if (ms > 60000) u.ctx.count("adv_long_silence"); }
      else if (op.kind == "a_drain") drain();
      else if (op.kind == "a_close") close_();
    }
    // whatever happened, an adversary leaves in the end (silently, as a vanished process would)
    if (fd >= 0) { u.sched.sleep_ns(50000000); drain(); }
    close_();
    u.adversaries_done++;
  }
};

// ---- token exclusivity over the global order of events at the daemon's socket boundary ----------------------
// grant to c  = the daemon sends TOKEN_IND, or TOKEN_CNF with token_ind, to c
// hand-back by c = the daemon receives from c: NOTIFY with TOKEN or RELEASE, RECLAIM_CNF, a new TOKEN_REQ; or c's connection ends
static void token_handback(Universe& u, int c, const char* why) {
  for (size_t i = 0; i < u.holders.size(); i++) if (u.holders[i] == c) { u.holders.erase(u.holders.begin() + (long)i); u.ctx.log("token: connection %d hands back (%s)", c, why); u.ctx.count("token_handbacks"); return; }
}
static void token_grant(Universe& u, int c, const char* how) {
  Universe::Conn& cn = u.conns[(size_t)c];
  for (int h : u.holders) if (h != c) { u.ctx.fail("oracle:token-two-holders", "the daemon grants the channel token to connection %d (%s) while connection %d, which was granted it earlier, has not returned or released it, confirmed a reclaim or disconnected", c, how, h); return; }
  if (!cn.asked) { u.ctx.fail("oracle:token-unasked", "the daemon grants the channel token to connection %d (%s) which has not asked for channel control", c, how); return; }
  bool has = false; for (int h : u.holders) if (h == c) has = true;
  if (!has) u.holders.push_back(c);
  u.ctx.log("token: granted to connection %d (%s)", c, how);
  u.ctx.count("token_grants");
}
static void parse_rx(Universe& u, int c) {
  Universe::Conn& cn = u.conns[(size_t)c];
  for (;;) {
    if (cn.rx_broken || cn.rx.size() < 8) return;
    uint32_t len = __builtin_bswap32(*(const uint32_t*)&cn.rx[0]), type = __builtin_bswap32(*(const uint32_t*)&cn.rx[4]);
    if (len < 8 || len > sizeof(VBIPROXY_MSG)) { cn.rx_broken = true; return; }   // the daemon drops such a connection
    if (cn.rx.size() < len) return;
    const VBIPROXY_MSG* m = (const VBIPROXY_MSG*)cn.rx.data();
    // only messages the daemon's own size check accepts have an effect
    if (type == MSG_TYPE_CHN_TOKEN_REQ && len == 8 + sizeof m->body.chn_token_req) { token_handback(u, c, "new token request"); cn.asked = true; u.ctx.count("token_requests_seen"); }
    else if (type == MSG_TYPE_CHN_NOTIFY_REQ && len == 8 + sizeof m->body.chn_notify_req) {
      unsigned fl; memcpy(&fl, &m->body.chn_notify_req.notify_flags, sizeof fl);  // (an adversary may send any bit pattern: not a valid enum value)
      if (fl & VBI_PROXY_CHN_RELEASE) { token_handback(u, c, "release"); cn.asked = false; }
      else if (fl & VBI_PROXY_CHN_TOKEN) token_handback(u, c, "token returned");
      if (fl & VBI_PROXY_CHN_FLUSH) { HarnessScope hs; u.flushes.push_back({u.next_seq(), (double)u.k.epoch_s + (double)u.k.now_ns() / 1e9 + 0.5}); }
    } else if (type == MSG_TYPE_CHN_RECLAIM_CNF && len == 8 + sizeof m->body.chn_reclaim_cnf) token_handback(u, c, "reclaim confirmed");
    else if (type == MSG_TYPE_CLOSE_REQ && len == 8) { token_handback(u, c, "close request"); cn.asked = false; }
    cn.rx.erase(0, len);
  }
}
static void parse_tx(Universe& u, int c) {
  Universe::Conn& cn = u.conns[(size_t)c];
  for (;;) {
    if (cn.tx.size() < 8) return;
    uint32_t len = __builtin_bswap32(*(const uint32_t*)&cn.tx[0]), type = __builtin_bswap32(*(const uint32_t*)&cn.tx[4]);
    if (len < 8 || len > (1u << 20)) { u.ctx.fail("oracle:daemon-sent-garbage", "the daemon sent a message header with length %u type %u on connection %d", len, type, c); return; }
    if (cn.tx.size() < len) return;
    const VBIPROXY_MSG* m = (const VBIPROXY_MSG*)cn.tx.data();
    if (type == MSG_TYPE_CHN_TOKEN_IND) token_grant(u, c, "TOKEN_IND");
    else if (type == MSG_TYPE_CHN_TOKEN_CNF && len >= 8 + sizeof m->body.chn_token_cnf && m->body.chn_token_cnf.token_ind) token_grant(u, c, "TOKEN_CNF");
    else if (type == MSG_TYPE_CHN_RECLAIM_REQ) u.ctx.count("token_reclaims");
    cn.tx.erase(0, len);
  }
}
static void c19_io_hook(Universe& u, const simk::IoEvent& e) {
  if (e.pid != DAEMON_PID || u.ctx.failed) return;
  HarnessScope hs;
  if (!strcmp(e.op, "accept")) {
    Universe::Conn cn; u.conns.push_back(cn);
    u.fd_conn[(int)e.res] = (int)u.conns.size() - 1;
    return;
  }
  auto it = u.fd_conn.find(e.fd);
  if (it == u.fd_conn.end()) return;
  int c = it->second;
  if (!strcmp(e.op, "close")) { token_handback(u, c, "connection closed"); u.conns[(size_t)c].asked = false; u.conns[(size_t)c].closed = true; u.fd_conn.erase(it); return; }
  if (e.res <= 0) { if (e.res == 0 && (!strcmp(e.op, "recv") || !strcmp(e.op, "read"))) { /* EOF: the daemon will close */ } return; }
  if (!strcmp(e.op, "recv") || !strcmp(e.op, "read")) { u.conns[(size_t)c].rx.append((const char*)e.buf, (size_t)e.res); parse_rx(u, c); }
  else if (!strcmp(e.op, "send") || !strcmp(e.op, "write")) { u.conns[(size_t)c].tx.append((const char*)e.buf, (size_t)e.res); parse_tx(u, c); }
}

struct C19 : ProxyWorld {
  const char* name() const override { return "c19"; }
  const char* property() const override { return "C19"; }
  bool is_c19() const override { return true; }
  void install_hooks(Universe& u) override {
    Universe* up = &u;
    u.k.io_hook = [up](const simk::IoEvent& e) { c19_io_hook(*up, e); };
  }
  std::vector<Adversary*> advs;
  void spawn_extra(Universe& u, std::vector<ClientRunner*>&) override {
    int n = (int)absmod(u.plan.knob("nadversaries", 1), 5);
    u.adversaries = n;
    { HarnessScope hs; advs.clear(); for (int i = 0; i < n; i++) advs.push_back(new Adversary(u, 100 + i)); }
    for (int i = 0; i < n; i++) {
      Adversary* a = advs[(size_t)i];
      Universe* up = &u;
      sim::Task* t = u.sched.spawn("adversary" + std::to_string(i), [a, up, i] {
        up->sched.sleep_ns(1000000 + (int64_t)absmod(up->plan.knob("adv_delay" + std::to_string(i), 0), 400) * 1000000);
        a->run();
      }, 512 * 1024);
      u.k.set_pid(t, 200 + i, true);
    }
  }
  bool extra_done(Universe& u) override { return u.adversaries_done >= u.adversaries; }
  void final_checks(Universe& u) override { HarnessScope hs; for (auto* a : advs) delete a; advs.clear(); (void)u; }
  bool nontrivial(Universe& u, int frames, int busy) override { (void)busy; return frames >= 5 && (u.ctx.stats.count("adv_bytes_sent") || u.ctx.stats.count("token_requests_seen")); }

  Plan generate(uint64_t seed, const std::string& tier) override {
    Plan p; p.world = name(); p.seed = seed;
    Rng r(seed, "plan");
    bool thorough = tier == "thorough";
    gen_common(p, r, thorough);
    int mode = (int)r.below(3);  // 0: adversaries + witnesses, 1: token workload, 2: both
    int nc = (int)r.range(1, 3) + (mode != 0 ? (int)r.range(1, 2) : 0);
    p.knobs["nclients"] = nc;
    p.knobs["maxclients"] = (int64_t)r.range(1, 10);
    int nadv = mode == 1 ? 0 : (int)r.range(1, thorough ? 4 : 3);
    p.knobs["nadversaries"] = nadv;
    for (int i = 0; i < nc; i++) {
      p.knobs["start_delay" + std::to_string(i)] = (int64_t)r.below(200);
      bool token_client = mode != 0 && (i > 0 || mode == 1);
      if (!token_client) { gen_client_ops(p, r, i, (int)r.range(3, thorough ? 14 : 9), false); continue; }
      // token client: connect, then a mix of reads, channel requests and notifications
      Op c; c.task = i; c.kind = "connect"; c.a = {(int64_t)r.below(10), (int64_t)r.below(4), (int64_t)r.below(10), 0}; p.ops.push_back(c);
      int len = (int)r.range(3, thorough ? 16 : 10);
      for (int n = 0; n < len; n++) {
        Op o; o.task = i;
        unsigned x = (unsigned)r.below(100);
        if (x >= 35 && x < 92 && r.chance(1, 2)) { Op sy; sy.task = i; sy.kind = "sync"; sy.a = {(int64_t)(r.below(3) * 40)}; p.ops.push_back(sy); }
        if (x < 35) { o.kind = "read"; o.a = {(int64_t)r.below(30)}; }
        else if (x < 65) { o.kind = "token"; o.a = {r.chance(4, 5) ? 0 : (int64_t)r.below(3), (int64_t)(r.below(5) * 0x10), (int64_t)r.below(4), r.chance(9, 10)}; }
        else if (x < 90) { static const int fl[] = {VBI_PROXY_CHN_TOKEN, VBI_PROXY_CHN_RELEASE, VBI_PROXY_CHN_TOKEN, VBI_PROXY_CHN_TOKEN | VBI_PROXY_CHN_FLUSH, VBI_PROXY_CHN_FLUSH, VBI_PROXY_CHN_FAIL, VBI_PROXY_CHN_NORM, VBI_PROXY_CHN_RELEASE | VBI_PROXY_CHN_TOKEN};
          o.kind = "notify"; o.a = {fl[r.below(8)]}; }
        else if (x < 97) { o.kind = "stall"; o.a = {(int64_t)r.below(2500)}; }
        else { o.kind = "close"; p.ops.push_back(o); Op c2 = c; p.ops.push_back(c2); continue; }
        p.ops.push_back(o);
      }
    }
    for (int i = 0; i < nadv; i++) {
      p.knobs["adv_delay" + std::to_string(i)] = (int64_t)r.below(400);
      int len = (int)r.range(2, thorough ? 16 : 10);
      bool connected = false, handshaken = false;
      for (int n = 0; n < len; n++) {
        Op o; o.task = 100 + i;
        if (!connected) { o.kind = "a_connect"; connected = true; handshaken = false; p.ops.push_back(o); continue; }
        unsigned x = (unsigned)r.below(100);
        if (x < 70) {
          o.kind = "a_msg";
          int kind = !handshaken && r.chance(3, 4) ? 0 : (int)r.below(10);
          int mut = r.chance(2, 5) ? 0 : (int)r.range(1, 8);
          if (kind == 0 && mut == 0) handshaken = true;
          o.a = {kind, mut, (int64_t)(r.next() >> 40), (int64_t)r.below(2), (int64_t)r.below(64), (int64_t)r.below(1 << 16), (int64_t)r.below(64), (int64_t)r.below(64), (int64_t)r.below(8)};
        } else if (x < 82) { o.kind = "a_sleep"; o.a = {r.chance(1, 12) ? (int64_t)r.range(60001, 70000) : (int64_t)r.below(1500)}; }
        else if (x < 90) { o.kind = "a_drain"; }
        else { o.kind = "a_close"; connected = false; }
        p.ops.push_back(o);
      }
    }
    return p;
  }
};
ZSIM_REGISTER_WORLD(C19)

}  // namespace
