LDFLAGS_w_c11 := -Wl,--wrap=vbi_send_event
