// C15 — IDL (format A) and PFC demultiplexers deliver the sent data in order and flag loss.
//
// World: source tasks (selected IDL source, selected PFC source, foreign IDL
// addresses/channels, foreign PFC stream, ordinary page noise) emit Teletext
// packets; the seeded scheduler interleaves them at packet granularity (a
// magazine's page is kept contiguous, as Teletext requires); a channel drops
// or corrupts planned packets.  Every packet reaches the real vbi_idl_demux
// and vbi_pfc_demux in an exactly 42-byte heap buffer (ASan sees byte 42).
// Encoders are written from EN 300 708 / EN 300 706, not from the decoders.
// IDL faults come singly (one copy of a packet) or as per-copy patterns over a
// packet and its repeats (e.g. the original fails its CRC and every announced
// repeat is lost: the next delivery must carry VBI_IDL_DATA_LOST).
#include <cstdio>
#include <cstdlib>
#include <cstring>
#include <map>
#include <set>

#include "alloc.h"
#include "sim.h"
#include "tx.h"

extern "C" {
#include "src/libzvbi.h"
}

using namespace sim;

namespace {

typedef std::string Bytes;

// ---- CRC of EN 300 708 6.5.8: x^16 + x^9 + x^7 + x^4 + 1, bits LSB first, zero start
static unsigned crc_bit(unsigned crc, unsigned byte) {
  for (int k = 0; k < 8; k++) {
    unsigned fb = (crc ^ (byte >> k)) & 1;
    crc >>= 1;
    if (fb) crc ^= 0x8940;  // reflected 0x0291
  }
  return crc & 0xFFFF;
}
static unsigned crc_of(const Bytes& b) { unsigned c = 0; for (unsigned char x : b) c = crc_bit(c, x); return c; }
// two trailing bytes that turn remainder `c` into `target`
static void crc_tail(unsigned c, unsigned target, unsigned char out[2]) {
  static std::map<unsigned, unsigned>* tab = nullptr;  // remainder of (d0,d1) from zero -> d0|d1<<8
  if (!tab) {
    tab = new std::map<unsigned, unsigned>();
    for (unsigned d = 0; d < 65536; d++) { unsigned r = crc_bit(crc_bit(0, d & 255), d >> 8); (*tab)[r] = d; }
  }
  // appending (lo,hi) of c gives remainder 0; by linearity appending (lo^d0, hi^d1) gives R(d0,d1)
  unsigned d = (*tab)[target];
  out[0] = (unsigned char)((c & 255) ^ (d & 255));
  out[1] = (unsigned char)((c >> 8) ^ (d >> 8));
}

struct Pkt {
  unsigned char b[42];
  int src = -1;         // source task
  int mag = 0;          // magazine for the contiguity rule (-1 none)
  int unit = -1;        // index of IDL packet / PFC page it belongs to
};

// ------------------------------------------------------------ IDL-A encoder
struct IdlCfg { int channel = 0; int spa_len = 0; int spa = 0; bool have_ri = false, explicit_ci = true, have_dl = false, dependent = false; };
struct IdlSent { Bytes user; bool dependent; int copies; };

static int idl_capacity(const IdlCfg& c) { return 36 - c.spa_len - (c.have_ri ? 1 : 0) - (c.explicit_ci ? 1 : 0) - (c.have_dl ? 1 : 0); }

// Encodes as much of `data` (from `off`) as fits into one packet; returns packets (copies) and consumed user bytes.
static size_t idl_encode(const IdlCfg& c, const Bytes& data, size_t off, int ci, int copies, std::vector<Pkt>& out, Bytes& user_out) {
  int cap = idl_capacity(c);
  // user bytes with dummy insertion (6.5.7.1): after eight consecutive 0x00 or 0xFF, counting from CI
  Bytes tx_data;
  user_out.clear();
  unsigned char hist = (unsigned char)ci; int run = 1;  // run of bytes equal to hist
  size_t i = off;
  while (i < data.size()) {
    unsigned char t = (unsigned char)data[i];
    bool ext = (t == 0 || t == 0xFF) && t == hist;
    int need = 1 + ((ext && run + 1 == 8) ? 1 : 0);  // byte plus the dummy that would have to follow it
    if ((int)tx_data.size() + need > cap) {
      // the 8th equal byte may close the packet without a dummy only if it is the last byte
      if (!((int)tx_data.size() + 1 == cap && need == 2)) break;
    }
    tx_data += (char)t; user_out += (char)t; i++;
    if (ext) { run++; } else { hist = t; run = 1; }
    if (run == 8) {
      if ((int)tx_data.size() < cap) { tx_data += (char)0xAA; hist = 0xAA; run = 1; }
      else break;
    }
  }
  for (int copy = 0; copy < copies; copy++) {
    Pkt p; memset(p.b, 0, 42);
    p.src = -1; p.mag = -1;
    p.b[0] = tx::ham84((unsigned)c.channel & 15);
    p.b[1] = tx::ham84(15);
    int ft = (c.have_ri ? 2 : 0) | (c.explicit_ci ? 4 : 0) | (c.have_dl ? 8 : 0);
    p.b[2] = tx::ham84((unsigned)ft);
    p.b[3] = tx::ham84((unsigned)(c.spa_len | (c.dependent ? 8 : 0)));
    int k = 4;
    for (int n = 0; n < c.spa_len; n++) p.b[k++] = tx::ham84((unsigned)(c.spa >> (4 * n)) & 15);
    if (c.have_ri) p.b[k++] = (unsigned char)((copy & 15) | (copy + 1 < copies ? 0x80 : 0));
    int crc_from = k;
    if (c.explicit_ci) p.b[k++] = (unsigned char)ci;
    Bytes d = tx_data;
    if (c.have_dl) p.b[k++] = (unsigned char)(d.size() & 0x3F);
    // without DL the packet is always full: pad user data is not possible, so callers pass enough data
    for (unsigned char x : d) p.b[k++] = x;
    while (k < 40) p.b[k++] = c.have_dl ? 0x55 : 0x00;  // only reached with DL (ignored filler)
    unsigned crc = crc_of(Bytes((const char*)p.b + crc_from, (size_t)(40 - crc_from)));
    unsigned target = c.explicit_ci ? 0 : (unsigned)((ci & 255) | ((ci & 255) << 8));
    crc_tail(crc, target, p.b + 40);
    out.push_back(p);
  }
  return i - off;
}

// ------------------------------------------------------------- PFC encoder
struct PfcBlockSent { int app; Bytes data; int first_page, last_page; int first_pkt, last_pkt; /* global packet indices */ };
struct PfcPage { int ci; int n; std::vector<Pkt> pkts; /* header + n */ };

static int g_serial = 0;  // C11 of every header in this run
static void pfc_encode(int pgno /*0x100..0x8FF*/, int stream, const std::vector<std::pair<int, Bytes>>& blocks, Rng& r, int filler_max, bool align_all,
                       std::vector<PfcPage>& pages, std::vector<PfcBlockSent>& sent, int ci0) {
  // 1. lay the stream into 39-byte packet payloads
  std::vector<Bytes> payloads; std::vector<int> bp;
  Bytes cur; int first_bs = -1;
  auto flush = [&] { while (cur.size() < 39) cur += (char)tx::ham84(3); payloads.push_back(cur); bp.push_back(first_bs < 0 ? 13 : first_bs / 3); cur.clear(); first_bs = -1; };
  auto put = [&](unsigned char c) { if (cur.size() == 39) flush(); cur += (char)c; };
  std::vector<std::pair<int, int>> span;  // per block: first/last payload index
  for (auto& bl : blocks) {
    int nf = filler_max ? (int)r.below((uint64_t)filler_max + 1) : 0;
    for (int k = 0; k < nf; k++) put(tx::ham84(3));
    if (cur.size() == 39) flush();
    // the first block start of a packet must sit at a multiple of three (BP counts triplets)
    while ((first_bs < 0 || align_all) && cur.size() % 3 != 0) { put(tx::ham84(3)); if (cur.size() == 39) flush(); }
    if (cur.size() == 39) flush();
    int startp = (int)payloads.size();
    if (first_bs < 0) first_bs = (int)cur.size();
    put(tx::ham84(0x0C));
    unsigned sh = (unsigned)(bl.first & 0x1F) | ((unsigned)bl.second.size() << 5);
    for (int n = 0; n < 4; n++) put(tx::ham84((sh >> (4 * n)) & 15));
    for (unsigned char c : bl.second) put(c);
    int endp = (int)payloads.size();  // payload index holding the last byte (cur not flushed yet)
    span.push_back({startp, endp});
  }
  if (!cur.empty()) flush();
  // 2. group payloads into pages
  size_t k = 0; int ci = ci0;
  std::vector<int> page_of(payloads.size());
  while (k < payloads.size()) {
    int n = 1 + (int)r.below(25);
    if ((size_t)n > payloads.size() - k) n = (int)(payloads.size() - k);
    PfcPage pg; pg.ci = ci & 15; pg.n = n;
    Pkt h; memset(h.b, 0, 42);
    int mag = (pgno >> 8) & 7;
    h.b[0] = tx::ham84((unsigned)mag); h.b[1] = tx::ham84(0);  // packet 0
    h.b[2] = tx::ham84((unsigned)pgno & 15); h.b[3] = tx::ham84((unsigned)(pgno >> 4) & 15);
    h.b[4] = tx::ham84((unsigned)pg.ci);                // S1: continuity index
    h.b[5] = tx::ham84((unsigned)n & 7);                // S2: packet count low bits
    h.b[6] = tx::ham84((unsigned)stream & 15);          // S3: stream
    h.b[7] = tx::ham84((unsigned)(n >> 3) & 3);         // S4: packet count high bits
    h.b[8] = tx::ham84(0); h.b[9] = tx::ham84((unsigned)g_serial);  // C11: magazine serial
    for (int c = 10; c < 42; c++) h.b[c] = tx::odd_parity(' ');
    h.mag = mag; pg.pkts.push_back(h);
    for (int j = 0; j < n; j++) {
      Pkt p; memset(p.b, 0, 42);
      int y = j + 1;
      p.b[0] = tx::ham84((unsigned)(mag | ((y & 1) << 3))); p.b[1] = tx::ham84((unsigned)(y >> 1));
      p.b[2] = tx::ham84((unsigned)bp[k + (size_t)j]);
      memcpy(p.b + 3, payloads[k + (size_t)j].data(), 39);
      p.mag = mag; pg.pkts.push_back(p);
      page_of[k + (size_t)j] = (int)pages.size();
    }
    pages.push_back(pg);
    k += (size_t)n; ci++;
  }
  for (size_t b = 0; b < blocks.size(); b++) {
    PfcBlockSent s; s.app = blocks[b].first & 0x1F; s.data = blocks[b].second;
    s.first_pkt = span[b].first; s.last_pkt = std::min(span[b].second, (int)payloads.size() - 1);
    s.first_page = page_of[(size_t)s.first_pkt]; s.last_page = page_of[(size_t)s.last_pkt];
    sent.push_back(s);
  }
}

struct IdlGot { Bytes data; unsigned flags; };
struct PfcGot { int app; Bytes data; unsigned size_field; int pgno; unsigned stream; bool spliced; };

struct C15 : World {
  const char* name() const override { return "c15"; }
  const char* property() const override { return "C15"; }

  // plan: knobs configure the selected IDL and PFC sources; ops:
  //  task0 "idl"  a=[len, dseed, copies, fault(0 none,1 drop,2 crc,3 ham2,4 ham1), farg, pattern]  one IDL packet worth of user data (selected address).
  //               pattern == 0: `fault` hits the one copy farg % copies.  pattern > 0: base-5 digit c of pattern is the fault of copy c
  //               (several faults in one packet and its repeats, e.g. original fails its CRC and the announced repeat is lost)
  //  task1 "pfc"  a=[app, size, dseed, align] one PFC block;  "pfcfault" a=[page, pkt, kind(1 drop,3 ham2,4 ham1), farg] attached by index to the page/packet laid out
  //  task2 "idlx" a=[len,dseed,which] foreign IDL packet;  task3 "page" a=[mag, rows, seed] ordinary page noise; task4 "pfcx" a=[size,dseed] foreign PFC stream blocks
  Plan generate(uint64_t seed, const std::string& tier) override {
    Plan p; p.world = name(); p.seed = seed;
    Rng r(seed, "plan");
    p.knobs["sched_seed"] = (int64_t)(r.next() >> 1);
    p.knobs["policy"] = (int64_t)r.below(3);
    p.knobs["pparam"] = (p.knobs["policy"] == 1) ? 40 + (int64_t)r.below(55) : (int64_t)r.below(4);
    p.knobs["idl_channel"] = (int64_t)r.below(16);
    int spa_len = (int)r.below(7);
    p.knobs["idl_spa_len"] = spa_len;
    p.knobs["idl_spa"] = spa_len ? (int64_t)r.below(1ull << (4 * spa_len)) : 0;
    p.knobs["idl_ri"] = (int64_t)r.below(2);
    p.knobs["idl_ci"] = (int64_t)r.below(2);
    p.knobs["idl_dl"] = (int64_t)r.below(2);
    p.knobs["idl_dep"] = (int64_t)r.below(2);
    p.knobs["idl_ci0"] = (int64_t)r.below(256);
    int mag = 1 + (int)r.below(8);
    p.knobs["pfc_pgno"] = (mag << 8) | (int64_t)r.below(256);
    p.knobs["pfc_stream"] = (int64_t)r.below(16);
    p.knobs["pfc_filler"] = r.chance(1, 2) ? 0 : (int64_t)r.below(8);
    p.knobs["pfc_align_all"] = (int64_t)r.below(2);
    p.knobs["pfc_ci0"] = (int64_t)r.below(16);
    p.knobs["pfc_seed"] = (int64_t)(r.next() >> 1);
    p.knobs["serial"] = (int64_t)r.below(2);  // magazine serial (C11=1: pages never interleave) or parallel transmission
    bool faults = r.chance(2, 3);
    int big = tier == "thorough" ? 2 : 1;
    int nidl = (int)r.below(20 * (uint64_t)big);
    for (int i = 0; i < nidl; i++) {
      Op o; o.task = 0; o.kind = "idl";
      int f = 0;
      if (faults && r.chance(1, 5)) f = 1 + (int)r.below(4);
      o.a = {(int64_t)r.below(40), (int64_t)r.below(1000), 1 + (r.chance(1, 3) ? (int64_t)r.below(3) : 0), f, (int64_t)r.below(1000), 0};
      if (faults && r.chance(1, 8)) {
        // several faults within one packet and its repeats
        int n = 2 + (int)r.below(3);  // copies (meaningful with the repeat indicator only)
        int64_t pat = 0, w = 1;
        if (r.chance(2, 3)) {
          // a copy announcing a repeat fails its CRC and every announced repeat is lost in transit
          // (dropped or unreadable); copies before it: lost or fine
          int c0 = (int)r.below((uint64_t)n - 1);
          for (int c = 0; c < n; c++, w *= 5) {
            int d = c < c0 ? (r.chance(1, 2) ? 1 : 0) : c == c0 ? 2 : (r.chance(3, 4) ? 1 : 3);
            pat += d * w;
          }
        } else {
          for (int c = 0; c < n; c++, w *= 5) pat += (int64_t)(r.chance(1, 2) ? r.below(5) : 0) * w;
        }
        o.a[2] = n - 1;  // copies = 1 + a[2] % 4
        o.a[5] = pat;
      }
      p.ops.push_back(o);
      if (faults && r.chance(1, 40)) {
        // burst loss: a run of consecutive packets of the selected service is lost (one copy each, dropped), the lengths
        // around the multiples of 16 included (continuity index arithmetic); 256 packets and more - a whole cycle of the
        // 8 bit index - are not generated: such a gap is invisible by construction of the format
        static const int lens[] = {15, 16, 17, 31, 32, 33, 47, 48, 49, 64, 2, 3, 5, 8, 12, 20, 24, 40};
        int L = r.chance(2, 3) ? lens[r.below(10)] : lens[r.below(sizeof lens / sizeof lens[0])];
        for (int k = 0; k < L; k++) { Op b; b.task = 0; b.kind = "idl"; b.a = {(int64_t)r.below(40), (int64_t)r.below(1000), 0, 1, 0, 0}; p.ops.push_back(b); }
        Op g; g.task = 0; g.kind = "idl"; g.a = {1 + (int64_t)r.below(39), (int64_t)r.below(1000), 0, 0, 0, 0}; p.ops.push_back(g);   // an intact packet behind the gap
      }
    }
    int npfc = (int)r.below(14 * (uint64_t)big);
    for (int i = 0; i < npfc; i++) {
      Op o; o.task = 1; o.kind = "pfc";
      int64_t size;
      switch (r.below(6)) {
        case 0: size = (int64_t)r.below(4); break;
        case 1: size = 30 + (int64_t)r.below(12); break;     // around one packet: every alignment of the block end
        case 2: size = 34 * (1 + (int64_t)r.below(3)) + (int64_t)r.below(10); break;
        case 3: size = (int64_t)r.below(2048); break;
        default: size = (int64_t)r.below(120); break;
      }
      o.a = {(int64_t)r.below(32), size, (int64_t)r.below(100000)};
      p.ops.push_back(o);
    }
    if (faults && npfc) {
      int nf = 1 + (int)r.below(3);
      for (int i = 0; i < nf; i++) { Op o; o.task = 1; o.kind = "pfcfault"; o.a = {(int64_t)r.below(8), (int64_t)r.below(27), r.chance(1, 2) ? 1 : 3 + (int64_t)r.below(2), (int64_t)r.below(1000)}; p.ops.push_back(o); }
    }
    int nx = (int)r.below(12);
    for (int i = 0; i < nx; i++) { Op o; o.task = 2; o.kind = "idlx"; o.a = {(int64_t)r.below(36), (int64_t)r.below(1000), (int64_t)r.below(4)}; p.ops.push_back(o); }
    int np = (int)r.below(4);
    for (int i = 0; i < np; i++) { Op o; o.task = 3; o.kind = "page"; o.a = {1 + (int64_t)r.below(8), (int64_t)r.below(24), (int64_t)r.below(1000)}; p.ops.push_back(o); }
    int nfx = (int)r.below(4);
    for (int i = 0; i < nfx; i++) { Op o; o.task = 4; o.kind = "pfcx"; o.a = {(int64_t)r.below(200), (int64_t)r.below(1000)}; p.ops.push_back(o); }
    return p;
  }

  struct St {
    RunCtx* ctx;
    vbi_idl_demux* idl = nullptr;
    vbi_pfc_demux* pfc = nullptr;
    std::vector<IdlGot> idl_got;
    std::vector<PfcGot> pfc_got;
    bool splice = false;  // the packet being fed continues, undetectably, the page of an earlier header (see the channel)
  };
  static St* g;

  static vbi_bool idl_cb(vbi_idl_demux*, const uint8_t* buf, unsigned n, unsigned flags, void*) {
    HarnessScope hs;
    IdlGot x; x.data.assign((const char*)buf, n); x.flags = flags;
    g->idl_got.push_back(x);
    g->ctx->log("idl deliver n=%u flags=%x %s", n, flags, hex(x.data).c_str());
    return TRUE;
  }
  static vbi_bool pfc_cb(vbi_pfc_demux*, void*, const vbi_pfc_block* b) {
    HarnessScope hs;
    PfcGot x; x.app = (int)b->application_id; x.size_field = b->block_size; x.pgno = b->pgno; x.stream = b->stream;
    x.data.assign((const char*)b->block, std::min<unsigned>(b->block_size, 2048));
    x.spliced = g->splice;
    g->pfc_got.push_back(x);
    g->ctx->log("pfc deliver app=%d size=%u fnv=%016llx%s", x.app, x.size_field, (unsigned long long)hash_str(hex(x.data).c_str()), x.spliced ? " (spliced page)" : "");
    return TRUE;
  }

  static void feed(const unsigned char b[42]) {
    unsigned char* hb = (unsigned char*)malloc(42);  // exact size: a read of byte 42 is an ASan report
    memcpy(hb, b, 42);
    budget_begin("vbi_idl_demux_feed", 200000);
    int r1, r2;
    { SutScope ss; r1 = vbi_idl_demux_feed(g->idl, hb); }
    budget_begin("vbi_pfc_demux_feed", 2000000);
    { SutScope ss; r2 = vbi_pfc_demux_feed(g->pfc, hb); }
    budget_end();
    g->ctx->log("feed %02x %02x %02x.. -> idl %d pfc %d", hb[0], hb[1], hb[2], r1, r2);
    free(hb);
  }

  static Bytes gen_data(int len, uint64_t dseed, int counter) {
    Rng r(dseed, "data");
    Bytes d;
    int mode = (int)r.below(4);
    for (int i = 0; i < len; i++) {
      switch (mode) {
        case 0: d += (char)r.below(256); break;
        case 1: d += (char)(r.chance(1, 12) ? r.below(256) : 0x00); break;  // long runs of 0x00 -> dummy bytes
        case 2: d += (char)(r.chance(1, 12) ? r.below(256) : 0xFF); break;
        default: d += (char)(r.chance(1, 2) ? 0x00 : 0xFF); break;
      }
    }
    // make deliveries attributable: stamp a counter where there is room (keeps runs elsewhere)
    if (len >= 3) { d[0] = (char)0xC5; d[1] = (char)(counter & 255); d[2] = (char)((counter >> 8) | 0x10); }
    return d;
  }

  void run(const Plan& plan, RunCtx& ctx) override {
    alloc_track_reset();
    St st; st.ctx = &ctx; g = &st;
    Sched sched(ctx, (uint64_t)plan.knob("sched_seed", (int64_t)plan.seed), (Policy)(plan.knob("policy") % 3), (int)plan.knob("pparam"));
    g_serial = (int)(plan.knob("serial") & 1);
    int page_owner = -1;  // serial mode: the task that is in the middle of a page
    std::vector<Task*> page_waiters;
    auto page_begin = [&](int me) {
      while (g_serial && page_owner != -1 && page_owner != me && !ctx.failed) { page_waiters.push_back(sched.current()); sched.block(); }
      page_owner = me;
    };
    auto page_end = [&] { page_owner = -1; for (Task* t : page_waiters) sched.wake(t); page_waiters.clear(); };
    IdlCfg ic;
    ic.channel = (int)(plan.knob("idl_channel") & 15);
    ic.spa_len = (int)(plan.knob("idl_spa_len") % 7);
    ic.spa = ic.spa_len ? (int)(plan.knob("idl_spa") & ((1 << (4 * ic.spa_len)) - 1)) : 0;
    ic.have_ri = plan.knob("idl_ri") & 1; ic.explicit_ci = plan.knob("idl_ci") & 1; ic.have_dl = plan.knob("idl_dl") & 1; ic.dependent = plan.knob("idl_dep") & 1;
    int pgno = (int)plan.knob("pfc_pgno", 0x1DF);
    if ((pgno >> 8) < 1 || (pgno >> 8) > 8) pgno = 0x100 | (pgno & 0xFF);
    unsigned stream = (unsigned)(plan.knob("pfc_stream") & 15);
    { SutScope ss;
      st.idl = vbi_idl_a_demux_new((unsigned)ic.channel, (unsigned)ic.spa, idl_cb, nullptr);
      st.pfc = vbi_pfc_demux_new(pgno, stream, pfc_cb, nullptr);
    }
    if (!st.idl || !st.pfc) { ctx.fail("harness:new", "demux constructors failed"); g = nullptr; return; }

    // ---- build the transmissions of every source
    struct IdlUnit { std::vector<Pkt> copies; Bytes user; int fault, farg; int64_t pattern; };
    std::vector<IdlUnit> idl_units;
    std::vector<std::pair<int, Bytes>> pfc_blocks;
    std::vector<const Op*> pfc_faults;
    std::vector<std::vector<Pkt>> foreign_idl, noise_pages, foreign_pfc_pages;
    int ci = (int)(plan.knob("idl_ci0") & 255);
    int counter = 0;
    for (auto& op : plan.ops) {
      if (op.kind == "idl") {
        int cap = idl_capacity(ic);
        int len = (int)(llabs(op.arg(0)) % 40);
        if (!ic.have_dl) len = cap + 8;  // without DL a packet is always full
        if (len > cap + 8) len = cap + 8;
        Bytes d = gen_data(len, (uint64_t)op.arg(1), counter++);
        IdlUnit u; u.fault = (int)(llabs(op.arg(3)) % 5); u.farg = (int)(llabs(op.arg(4)) % 1000000); u.pattern = llabs(op.arg(5));
        int copies = ic.have_ri ? 1 + (int)(llabs(op.arg(2)) % 4) : 1;
        idl_encode(ic, d, 0, ci, copies, u.copies, u.user);  // without DL the data is long enough to fill the packet
        idl_units.push_back(u);
        ci = (ci + 1) & 255;
      } else if (op.kind == "pfc") {
        int size = (int)(llabs(op.arg(1)) % 2048);
        pfc_blocks.push_back({(int)(llabs(op.arg(0)) % 32), gen_data(size, (uint64_t)op.arg(2), counter++)});
      } else if (op.kind == "pfcfault") {
        pfc_faults.push_back(&op);
      } else if (op.kind == "idlx") {
        IdlCfg fc = ic;
        switch (llabs(op.arg(2)) % 4) {
          case 0: fc.channel = (ic.channel + 1 + (int)(llabs(op.arg(1)) % 15)) & 15; break;                 // other channel
          case 1: fc.spa_len = (ic.spa_len + 1) % 7; fc.spa = ic.spa & ((1 << (4 * fc.spa_len)) - 1); if (fc.spa_len > ic.spa_len) fc.spa |= 1 << (4 * ic.spa_len); break;  // other address length
          case 2: if (ic.spa_len) { fc.spa = ic.spa ^ (1 << (int)(llabs(op.arg(1)) % (4 * ic.spa_len))); } else fc.channel = (ic.channel + 1) & 15; break;
          default: fc.channel = ic.channel ^ 8; break;                                                          // packet 30 vs 31 of the same magazine
        }
        int len = (int)(llabs(op.arg(0)) % 36);
        if (!fc.have_dl) len = 44;
        std::vector<Pkt> v; Bytes u;
        idl_encode(fc, gen_data(len, (uint64_t)op.arg(1) + 5, 9999), 0, (int)(op.arg(1) & 255), 1, v, u);
        // a foreign source whose address, seen through the selected demux, equals the selected one is not foreign
        bool same = fc.channel == ic.channel && fc.spa_len == ic.spa_len && fc.spa == ic.spa;
        if (!same) foreign_idl.push_back(v);
      } else if (op.kind == "page") {
        int m = 1 + (int)(llabs(op.arg(0)) % 8);
        if ((m & 7) == ((pgno >> 8) & 7)) m = (m % 8) + 1;  // ordinary pages of the PFC magazine would legitimately end the PFC page
        std::vector<Pkt> v; Rng r((uint64_t)op.arg(2), "page");
        Pkt h; memset(h.b, 0, 42);
        h.b[0] = tx::ham84((unsigned)m & 7); h.b[1] = tx::ham84(0);
        int pn = (int)r.below(256);
        h.b[2] = tx::ham84((unsigned)pn & 15); h.b[3] = tx::ham84((unsigned)pn >> 4);
        for (int c = 4; c < 9; c++) h.b[c] = tx::ham84(0);
        h.b[9] = tx::ham84((unsigned)g_serial);
        for (int c = 10; c < 42; c++) h.b[c] = tx::odd_parity((uint8_t)(0x20 + r.below(0x5F)));
        h.mag = m & 7; v.push_back(h);
        int rows = (int)(llabs(op.arg(1)) % 25);
        for (int y = 1; y <= rows; y++) {
          Pkt p; memset(p.b, 0, 42);
          p.b[0] = tx::ham84((unsigned)((m & 7) | ((y & 1) << 3))); p.b[1] = tx::ham84((unsigned)y >> 1);
          for (int c = 2; c < 42; c++) p.b[c] = tx::odd_parity((uint8_t)(0x20 + r.below(0x5F)));
          p.mag = m & 7; v.push_back(p);
        }
        noise_pages.push_back(v);
      } else if (op.kind == "pfcx") {
        // same page number, other stream — or other page of another magazine
        std::vector<PfcPage> pages; std::vector<PfcBlockSent> sent; Rng r((uint64_t)op.arg(1), "pfcx");
        std::vector<std::pair<int, Bytes>> bl = {{(int)r.below(32), gen_data((int)(llabs(op.arg(0)) % 300), (uint64_t)op.arg(1), 7777)}};
        int om = (((pgno >> 8) & 7) + 1 + (int)r.below(7)) & 7; if (!om) om = 8;
        pfc_encode((om << 8) | (pgno & 0xFF), (int)stream, bl, r, 2, false, pages, sent, (int)r.below(16));
        for (auto& pg : pages) { std::vector<Pkt> v = pg.pkts; foreign_pfc_pages.push_back(v); }
      }
    }
    std::vector<PfcPage> pfc_pages; std::vector<PfcBlockSent> pfc_sent;
    {
      Rng r((uint64_t)plan.knob("pfc_seed", 1), "pfc");
      if (!pfc_blocks.empty())
        pfc_encode(pgno, (int)stream, pfc_blocks, r, (int)(plan.knob("pfc_filler") % 9), plan.knob("pfc_align_all") & 1, pfc_pages, pfc_sent, (int)(plan.knob("pfc_ci0") & 15));
    }
    // attach PFC faults to packets: damage[page] = lowest damaged packet index (0 = header), -1 none
    std::vector<int> page_damaged(pfc_pages.size(), 0);
    std::map<std::pair<int, int>, std::pair<int, int>> pfc_fault_at;
    for (const Op* f : pfc_faults) {
      if (pfc_pages.empty()) break;
      int pg = (int)(llabs(f->arg(0)) % (int64_t)pfc_pages.size());
      int pk = (int)(llabs(f->arg(1)) % (int64_t)pfc_pages[(size_t)pg].pkts.size());
      int kind = (int)(llabs(f->arg(2)) % 5); if (kind == 0 || kind == 2) kind = 1;
      pfc_fault_at[{pg, pk}] = {kind, (int)llabs(f->arg(3))};
      if (kind != 4) page_damaged[(size_t)pg] = 1;
    }

    // ---- the channel: apply faults, deliver to both demuxes
    std::set<int> bp_unreadable;  // payload packets (global index) delivered to the demux with an uncorrectable block pointer byte
    int last_mag_owner[9]; for (int& x : last_mag_owner) x = -1;
    int cur_pfc_page = -1;  // page whose header was sent last
    // What the receiver can observe of the PFC continuity sequence: the page (index) whose header it accepted
    // last, the packet number it expects next and the packet count that header announced.  PFC packets carry no
    // page identity, only their number: when the tail of page P, the header of P+1 and the packets of P+1 up to
    // exactly the number expected next are all lost, the received sequence (header P, 1..k-1, k, ...) has no
    // gap; no receiver can tell from the continuity sequence that packet k belongs to another page.  The
    // statement promises discarding on "a gap in the continuity sequence"; here there is none to see, so what
    // is assembled from the spliced packets is unspecified (both pages are already marked damaged) until the
    // next header of the stream, whose continuity index cannot match.
    int rx_hdr = -1, rx_next = 0, rx_n = 0;
    auto rx_lost = [&] { rx_hdr = -1; st.splice = false; };
    auto unreadable_packet = [&] { if (cur_pfc_page >= 0) page_damaged[(size_t)cur_pfc_page] = 1; rx_lost(); ctx.count("pfc_hit_by_unreadable_foreign_packet"); };
    std::vector<int> idl_status(idl_units.size(), 0);  // per unit: bit0 original arrived intact, bit1 some copy arrived intact, bit2 some copy corrupted (crc) arrived
    auto corrupt_ham = [&](Pkt& p, int from, int to, int farg, int nbits) {
      int pos = from + farg % (to - from);
      int b1 = (farg / 7) % 8, b2 = (b1 + 1 + (farg / 57) % 7) % 8;
      p.b[pos] ^= (unsigned char)(1 << b1);
      if (nbits == 2) p.b[pos] ^= (unsigned char)(1 << b2);
    };
    // probe of the shape "a packet announcing a repeat failed its CRC and the announced repeat never arrived":
    // (unit, copy) the receiver was told to wait for, -1 none
    long pend_unit = -1, pend_copy = -1;
    sched.spawn("idl", [&] {
      for (size_t u = 0; u < idl_units.size(); u++) {
        IdlUnit& un = idl_units[u];
        for (size_t c = 0; c < un.copies.size(); c++) {
          if (ctx.failed) return;
          Pkt p = un.copies[c];
          int f; int farg = un.farg;
          if (un.pattern > 0) {
            int64_t d = un.pattern; for (size_t q = 0; q < c; q++) d /= 5;
            f = (int)(d % 5); farg = un.farg + 131 * (int)c;
          } else {
            bool hit = (size_t)(un.farg % (int)un.copies.size()) == c || un.fault == 0;
            f = hit ? un.fault : 0;
          }
          ctx.count(std::string("fault_idl_") + (f == 0 ? "none" : f == 1 ? "drop" : f == 2 ? "crc" : f == 3 ? "ham2" : "ham1"));
          if (f == 1) { ctx.log("idl unit %zu copy %zu dropped", u, c); sched.yield(); continue; }
          int hdr = 4 + ic.spa_len;
          if (f == 2) {
            // flip one bit in the CRC-protected part.  With the implicit continuity index 256 of the 65536
            // remainders are valid, so some single-bit errors are undetectable by construction of the
            // format; those are not "a packet failing its CRC" and are skipped.
            int from = hdr + (ic.have_ri ? 1 : 0);
            for (int tries = 0; tries < 64; tries++) {
              int pos = from + (farg + tries * 7) % (42 - from), bit = (farg + tries) % 8;
              p.b[pos] ^= (unsigned char)(1 << bit);
              unsigned rem = crc_of(Bytes((const char*)p.b + from, (size_t)(42 - from)));
              bool valid = ic.explicit_ci ? rem == 0 : ((rem & 255) == (rem >> 8));
              if (!valid) break;
              p.b[pos] ^= (unsigned char)(1 << bit);
              if (tries == 63) f = 0;
            }
          }
          if (f == 3) {
            corrupt_ham(p, 0, hdr, farg, 2);
            // an unreadable packet address could belong to any magazine: the PFC demux may discard its block in progress
            if (farg % hdr < 2) unreadable_packet();
          }
          if (f == 4) corrupt_ham(p, 0, hdr, farg, 1);
          if (f == 0 || f == 4) { idl_status[u] |= 2; if (c == 0) idl_status[u] |= 1; }
          if (f == 2) idl_status[u] |= 4;
          if (f == 2) {
            bool announces = ic.have_ri && c + 1 < un.copies.size();
            pend_unit = announces ? (long)u : -1; pend_copy = announces ? (long)c + 1 : -1;
            if (announces) ctx.count("idl_crc_on_repeating_packet");
          } else if (f == 0 || f == 4) {
            if (pend_unit >= 0 && !(pend_unit == (long)u && pend_copy == (long)c)) {
              ctx.count("idl_repeat_lost");
              // the next readable packet is a fresh one, no copy of the awaited packet got through and there is
              // a continuity reference: the property demands the data-lost flag on this delivery
              if (c == 0 && !st.idl_got.empty() && !(idl_status[(size_t)pend_unit] & 2)) ctx.count("idl_repeat_lost_then_fresh");
            }
            pend_unit = pend_copy = -1;
          }
          ctx.log("idl unit %zu copy %zu fault %d", u, c, f);
          feed(p.b);
          sched.yield();
        }
      }
    });
    sched.spawn("pfc", [&] {
      for (size_t pg = 0; pg < pfc_pages.size(); pg++) {
        page_begin(100);
        for (size_t k = 0; k < pfc_pages[pg].pkts.size(); k++) {
          if (ctx.failed) return;
          Pkt p = pfc_pages[pg].pkts[k];
          if (k == 0) cur_pfc_page = (int)pg;
          auto it = pfc_fault_at.find({(int)pg, (int)k});
          int f = it == pfc_fault_at.end() ? 0 : it->second.first;
          ctx.count(std::string("fault_pfc_") + (f == 0 ? "none" : f == 1 ? "drop" : f == 3 ? "ham2" : "ham1"));
          if (f == 1) { ctx.log("pfc page %zu pkt %zu dropped", pg, k); sched.yield(); continue; }
          if (f == 3 || f == 4) corrupt_ham(p, 0, k == 0 ? 8 : 3, it->second.second, f == 3 ? 2 : 1);
          // an uncorrectable block pointer (byte 2) in a packet the demultiplexer can tell is its own: "a packet failing its
          // ... Hamming check is never delivered" - no block may contain bytes of this packet
          if (f == 3 && k > 0 && it->second.second % 3 == 2) {
            int gi = (int)k - 1; for (size_t q = 0; q < pg; q++) gi += pfc_pages[q].n;   // global index of the payload packet, as in PfcBlockSent
            bp_unreadable.insert(gi); ctx.count("pfc_block_pointer_unreadable");
          }
          if (f == 3) rx_lost();  // unreadable: the receiver knows it lost something
          else if (k == 0) { rx_hdr = (int)pg; rx_next = 1; rx_n = pfc_pages[pg].n; st.splice = false; }
          else if (rx_hdr >= 0) {
            if ((int)k == rx_next && (int)k <= rx_n) {
              if (rx_hdr != (int)pg && !st.splice) { st.splice = true; ctx.count("pfc_undetectable_splice"); }
              rx_next++;
            } else rx_lost();
          }
          ctx.log("pfc page %zu pkt %zu fault %d%s", pg, k, f, st.splice ? " (continues an earlier page undetectably)" : "");
          feed(p.b);
          sched.yield();
        }
        page_end();
        sched.yield();
      }
    });
    int next_owner_id = 101;
    auto spawn_units = [&](const char* nm, std::vector<std::vector<Pkt>>& units, bool pages) {
      if (units.empty()) return;
      int me = next_owner_id++;
      sched.spawn(nm, [&ctx, &sched, &units, pages, me, &page_begin, &page_end, &rx_lost] {
        for (auto& u : units) {
          if (pages) page_begin(me);
          if (pages && g_serial) rx_lost();  // serial transmission: any other header terminates the PFC page
          for (auto& p : u) { if (ctx.failed) return; feed(p.b); sched.yield(); }
          if (pages) { page_end(); sched.yield(); }
        }
      });
    };
    spawn_units("idlx", foreign_idl, false);
    spawn_units("noise", noise_pages, true);
    spawn_units("pfcx", foreign_pfc_pages, true);
    (void)last_mag_owner;
    int rc = sched.run(5000000);
    if (rc == 2) ctx.fail("harness:budget", "scheduler budget exhausted");
    ctx.state(sched.interleaving_hash());

    // ---- oracle: IDL
    // Deliveries must be, in order, packets ("units") of the selected source.  MUST = the original copy
    // arrived intact; MAY = some copy arrived intact; else MUST NOT.  Identical payloads make the
    // alignment ambiguous, so all alignments are tracked (set of possible "last delivered unit").
    if (!ctx.failed) {
      std::set<long> cands = {-1};
      for (size_t j = 0; j < st.idl_got.size() && !ctx.failed; j++) {
        const IdlGot& gd = st.idl_got[j];
        if (((gd.flags & VBI_IDL_DEPENDENT) != 0) != ic.dependent) { ctx.fail("oracle:idl-dependent", "VBI_IDL_DEPENDENT delivered as %d, transmitted %d", (gd.flags & VBI_IDL_DEPENDENT) != 0, ic.dependent); break; }
        if (gd.flags & ~(unsigned)(VBI_IDL_DATA_LOST | VBI_IDL_DEPENDENT)) { ctx.fail("oracle:idl-flags", "unknown flag bits %x", gd.flags); break; }
        bool lost_flag = gd.flags & VBI_IDL_DATA_LOST;
        std::set<long> next;
        bool data_match = false, flag_missing = false, flag_spurious = false; long must_block = -1;
        for (long prev : cands) {
          for (long k = prev + 1; k < (long)idl_units.size(); k++) {
            if ((idl_status[(size_t)k] & 2) && idl_units[(size_t)k].user == gd.data) {
              data_match = true;
              // a CRC-corrupted copy that reached the demux since the previous delivery (also a redundant copy
              // of a delivered packet) legitimately makes it report possible loss
              bool corrupt = false;
              for (long q = prev < 0 ? 0 : prev; q <= k; q++) if (idl_status[(size_t)q] & 4) corrupt = true;
              bool gap = prev >= 0 && k != prev + 1;  // before the first delivery the demux has no continuity reference
              if (gap && !lost_flag) flag_missing = true;
              else if (!gap && lost_flag && !corrupt) flag_spurious = true;
              else next.insert(k);
            }
            if (idl_status[(size_t)k] & 1) { if (must_block < 0) must_block = k; break; }  // a MUST unit cannot be skipped
          }
        }
        if (next.empty()) {
          if (data_match && flag_missing) ctx.fail("oracle:idl-lostflag-missing", "delivery %zu [%s]: packets of the sequence were lost before it but VBI_IDL_DATA_LOST is not set", j, hex(gd.data).c_str());
          else if (data_match && flag_spurious) ctx.fail("oracle:idl-lostflag-spurious", "VBI_IDL_DATA_LOST set on delivery %zu [%s] although nothing was lost or corrupted since the previous delivery", j, hex(gd.data).c_str());
          else if (must_block >= 0) ctx.fail("oracle:idl-delivery", "delivery %zu [%s] but the next packet that had to be delivered is unit %ld [%s]", j, hex(gd.data).c_str(), must_block, hex(idl_units[(size_t)must_block].user).c_str());
          else ctx.fail("oracle:idl-spurious", "delivery %zu [%s] (n=%zu) is not a sent, intact packet of the selected address still due (foreign, corrupt or duplicate)", j, hex(gd.data).c_str(), gd.data.size());
          break;
        }
        cands.swap(next);
      }
      if (!ctx.failed) {
        bool ok = false; long miss = -1;
        for (long prev : cands) {
          long k = prev + 1;
          while (k < (long)idl_units.size() && !(idl_status[(size_t)k] & 1)) k++;
          if (k >= (long)idl_units.size()) { ok = true; break; }
          if (miss < 0) miss = k;
        }
        if (!ok) ctx.fail("oracle:idl-lost", "unit %ld [%s] arrived intact (original copy) but was never delivered", miss, hex(idl_units[(size_t)miss].user).c_str());
      }
    }
    // ---- oracle: PFC
    if (!ctx.failed) {
      // a block MUST be delivered if every page it touches is undamaged and the page in which it starts
      // is not preceded, since the last damage, by ... (resynchronisation happens at a page header):
      // i.e. all pages from its first to its last are undamaged.  Blocks of size 0: optional.
      // Identical blocks (same application id and bytes, e.g. two 1-byte blocks) make the alignment of
      // deliveries to sent blocks ambiguous, so every alignment is tracked: cands = possible indices of the
      // next sent block not yet accounted for.
      auto must = [&](size_t q) { const PfcBlockSent& s = pfc_sent[q]; if (s.data.empty()) return false; for (int pg = s.first_page; pg <= s.last_page; pg++) if (page_damaged[(size_t)pg]) return false; return true; };
      auto must_not = [&](size_t q) {
        const PfcBlockSent& b = pfc_sent[q];
        for (int u : bp_unreadable) if (u >= b.first_pkt && u <= b.last_pkt) return true;
        return false;
      };
      std::set<size_t> cands = {0};
      for (size_t j = 0; j < st.pfc_got.size(); j++) {
        const PfcGot& gd = st.pfc_got[j];
        if (gd.pgno != pgno || gd.stream != stream) { ctx.fail("oracle:pfc-foreign", "block of page %x stream %u delivered", gd.pgno, gd.stream); break; }
        if (gd.size_field > 2047) { ctx.fail("oracle:pfc-size", "block_size %u", gd.size_field); break; }
        std::set<size_t> next; long blocker = -1, hit_damaged = -1;
        for (size_t b : cands)
          for (size_t k = b; k < pfc_sent.size(); k++) {
            if (pfc_sent[k].data == gd.data && pfc_sent[k].app == gd.app && gd.size_field == gd.data.size()) { if (must_not(k)) hit_damaged = (long)k; else next.insert(k + 1); }
            if (must(k)) { if (blocker < 0) blocker = (long)k; break; }  // an undamaged block cannot be skipped
          }
        if (gd.spliced) {
          // assembled from packets that continue an earlier page without an observable gap: content unspecified
          for (size_t b : cands) next.insert(b);
          ctx.count("pfc_spliced_delivery_tolerated");
        }
        if (next.empty()) {
          if (hit_damaged >= 0) {
            const PfcBlockSent& s = pfc_sent[(size_t)hit_damaged];
            ctx.fail("oracle:pfc-delivered-damaged", "delivered block %zu is sent block %ld (app %d size %zu, pages %d-%d packets %d-%d), part of which came in a packet with an uncorrectable block pointer byte", j, hit_damaged, s.app, s.data.size(), s.first_page, s.last_page, s.first_pkt, s.last_pkt);
          } else if (blocker >= 0) {
            const PfcBlockSent& s = pfc_sent[(size_t)blocker];
            ctx.fail("oracle:pfc-delivery", "delivered block %zu (app %d size %zu) differs from the next undamaged block %ld (app %d size %zu, pages %d-%d)", j, gd.app, gd.data.size(), blocker, s.app, s.data.size(), s.first_page, s.last_page);
          } else
            ctx.fail("oracle:pfc-spurious", "delivered block %zu (app %d size %zu) is not a sent block (wrong bytes, duplicate or foreign)", j, gd.app, gd.data.size());
          break;
        }
        cands.swap(next);
      }
      if (!ctx.failed) {
        bool ok = false; long miss = -1;
        for (size_t b : cands) {
          size_t k = b;
          // the last block is only complete once its last byte was sent: it was (the transmission ends after it)
          while (k < pfc_sent.size() && !must(k)) k++;
          if (k >= pfc_sent.size()) { ok = true; break; }
          if (miss < 0) miss = (long)k;
        }
        if (!ok) {
          const PfcBlockSent& s = pfc_sent[(size_t)miss];
          ctx.fail("oracle:pfc-lost", "block %ld (app %d size %zu, pages %d-%d, packets %d-%d) undamaged but not delivered", miss, s.app, s.data.size(), s.first_page, s.last_page, s.first_pkt, s.last_pkt);
        }
      }
    }
    { SutScope ss; vbi_idl_demux_delete(st.idl); vbi_pfc_demux_delete(st.pfc); }
    if (!ctx.failed && alloc_track_available() && alloc_live_blocks() != 0)
      ctx.fail("leak", "%zu blocks (%zu bytes) still allocated after delete", alloc_live_blocks(), alloc_live_bytes());
    ctx.count("idl_deliveries", (int64_t)st.idl_got.size());
    ctx.count("pfc_deliveries", (int64_t)st.pfc_got.size());
    ctx.count("pfc_pages", (int64_t)pfc_pages.size());
    ctx.nontrivial = st.idl_got.size() + st.pfc_got.size() >= 3 && sched.switches() > 10;
    g = nullptr;
  }
};
C15::St* C15::g = nullptr;
ZSIM_REGISTER_WORLD(C15)

}  // namespace
