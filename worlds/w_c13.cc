// C13 — station, programme, time and aspect announcements are faithful and debounced.
//
// World: one vbi_decoder with handlers for NETWORK, NETWORK_ID, PROG_ID,
// LOCAL_TIME, ASPECT, PROG_INFO (and TTX_PAGE so that pages are cached).
//
// 625-line runs (mode 0 strict / mode 1 with timestamp gaps): carrier tasks
// VPS (line 16), 8/30 format 1, 8/30 format 2, WSS (line 23) read the station
// "on air" whenever the seeded scheduler lets them emit one line; a script
// task switches stations (rows of the CNI table whose codes are unambiguous),
// changes the programme label / the WSS word, transmits Teletext pages that
// must stay cached, inserts empty frames and (mode 1) drops frames.  Lines are
// packed into frames (one line per carrier per frame, 1-5 lines per
// vbi_decode() call, timestamps +40 ms).  The channel attaches faults to
// single receptions: deviating CNI / PIL / WSS word, dropped line, Hamming
// single / double errors (8/30-2), garbled time digits (8/30-1).
//
// 525-line runs (mode 2): XDS network name and call letter packets (EIA-608
// class "channel", types 1 and 2) multiplexed pair by pair on field 2 with
// idle pairs; stations are 8 network names x (own call letters | those of a
// second affiliate | call letters shared between names | none), a third of the
// switches go to an affiliate (same name, other call letters: the station is
// identified by name + call letters); faults: deviating (checksum-valid) packet, parity error,
// checksum error, dropped packet.  (event.h: "VPS/TTX and XDS will not combine
// in real life, feeding the decoder with artificial data can confuse the
// logic" - therefore never mixed in one run.)
//
// Handler population (any mode): up to four handlers (slots, distinct functions) whose event masks are seeded and
// change at script points ("handler" ops: vbi_event_handler_register / _unregister / the deprecated _add / _remove).
// Two flavours: a complete observer in slot 0 (always NETWORK | NETWORK_ID | TTX_PAGE) plus clients that come and go;
// or (knob h0_free) specialised clients only - a recorder listening to PROG_ID, a clock listening to LOCAL_TIME, a
// video window listening to ASPECT, NETWORK and NETWORK_ID listeners that come and go, runs in which nobody listens to
// NETWORK / NETWORK_ID / TTX_PAGE at all.  One event raised by the library is evaluated once, at its delivery to the
// lowest subscribed slot.  What the model may conclude without a NETWORK listener: see net_wit.
//
// Teletext services (625-line runs): every station has its own page header text, or one of three, or all share one
// (knob own_headers); pages in all eight magazines, parallel or serial mode.  Differing rolling headers are what the
// decoder's own channel switch detection works on: see hdr_seen for what the statement lets it do in header-first
// and in identifier-first order.
//
// Real re-tunes (mode 1): a station change accompanied by dropped frames ("gap" next to "station").  A gap makes the
// decoder suspect a channel switch (vbi_decode() documentation); the model grants ONE assumed switch per suspicion
// and returns to the strict clauses once the suspicion is visibly resolved (see resolve_suspicion()).
//
// Exact attribution of events to the line being decoded is obtained with
// link-time wrappers around the four per-line entry points vbi_decode() calls
// (worlds/w_c13.mk); the wrappers only observe.
//
// Encoders are written from EN 300 231 (VPS, 8/30-2 PDC), EN 300 706 9.8
// (8/30), EN 300 294 (WSS), EIA-608 (XDS), checked once per process against
// the library's stand-alone decode functions (second opinion, class
// probe codec_second_opinion_disagrees).  The oracle is a reference model of the property
// statement, see eval_*().
#include <cmath>
#include <cstdio>
#include <cstring>
#include <map>
#include <set>
#include <tuple>

#include "alloc.h"
#include "sim.h"
#include "ttx.h"

extern "C" {
#include "src/libzvbi.h"

// the CNI table (src/network-table.h, generated from the EBU/ETSI TR 101 231 lists) is the
// public data the stations are taken from; declared as in src/tables.h
struct vbi_cni_entry { int16_t id; const char* country; const char* name; uint16_t cni1, cni2, cni3, cni4; };
extern const struct vbi_cni_entry vbi_cni_table[];

void __real_vbi_decode_vps(vbi_decoder*, uint8_t*);
vbi_bool __real_vbi_decode_teletext(vbi_decoder*, uint8_t*);
void __real_vbi_decode_caption(vbi_decoder*, int, uint8_t*);
void __real_vbi_decode_wss_625(vbi_decoder*, uint8_t*, double);
void __wrap_vbi_decode_vps(vbi_decoder*, uint8_t*);
vbi_bool __wrap_vbi_decode_teletext(vbi_decoder*, uint8_t*);
void __wrap_vbi_decode_caption(vbi_decoder*, int, uint8_t*);
void __wrap_vbi_decode_wss_625(vbi_decoder*, uint8_t*, double);
}

using namespace sim;

namespace {

enum { C_VPS = 0, C_8301 = 1, C_8302 = 2 };
enum LineKind { L_VPS = 0, L_8301 = 1, L_8302 = 2, L_WSS = 3, L_TTX = 4, L_CC1 = 5, L_XDS = 6 };
static const char* kind_name[] = {"vps", "8301", "8302", "wss", "ttx", "cc-f1", "xds"};
enum Fault { F_NONE = 0, F_DROP = 1, F_CNI = 2, F_FIELD = 3, F_HAM1 = 4, F_HAM2 = 5, F_N = 6 };
// WSS: F_CNI = deviating word, F_FIELD = one of the bits 0-3 flipped (parity invalid)
// 8301: F_FIELD = garbled date/time digit;  VPS / 8302: F_FIELD = deviating PIL / PTY
// XDS: F_CNI = deviating packet (valid checksum), F_FIELD = parity error, F_HAM1 = checksum error

// ------------------------------------------------------------ CNI table ----
struct Row { int id; std::string name; int code[3]; };
static std::vector<Row> g_rows;           // eligible stations
static std::vector<int> g_multi;          // indices of eligible stations with codes for two or three carriers
static std::map<int, int> g_known[3];     // unambiguous code -> table id (all rows), per carrier column
static std::map<int, std::string> g_name; // table id -> name
static void build_table() {
  if (!g_rows.empty()) return;
  std::map<int, int> cnt[3], idcnt;
  for (const vbi_cni_entry* p = vbi_cni_table; p->name; p++) {
    int code[3] = {p->cni4, p->cni1, p->cni2};
    for (int c = 0; c < 3; c++) if (code[c]) cnt[c][code[c]]++;
    idcnt[p->id]++;
  }
  for (const vbi_cni_entry* p = vbi_cni_table; p->name; p++) {
    int code[3] = {p->cni4, p->cni1, p->cni2};
    if (idcnt[p->id] != 1) continue;
    bool ok = true; int n = 0;
    for (int c = 0; c < 3; c++) if (code[c]) { n++; if (cnt[c][code[c]] != 1) ok = false; }
    // the translated code 0xDC3 (TR 101 231) and an all-zero row are not stations of their own
    if (code[0] == 0xDC3 || (code[2] & 0xFFF) == 0xDC3) ok = false;
    for (int c = 0; c < 3; c++) if (code[c] && cnt[c][code[c]] == 1) g_known[c][code[c]] = p->id;
    g_name[p->id] = p->name;
    if (!ok || n == 0) continue;
    Row r; r.id = p->id; r.name = p->name; for (int c = 0; c < 3; c++) r.code[c] = code[c];
    if (n >= 2) g_multi.push_back((int)g_rows.size());
    g_rows.push_back(r);
  }
  // A received value that is not an unambiguous code of its column (a corrupted word; an 8/30-2 value that a
  // receiver may still resolve through its 12 VPS bits, both being PDC CNIs) is not decided by the model: lookup()
  // returns 0 and any nuid / name is accepted for it.
}
// 1 = unambiguous table station (id returned), 0 = the model does not decide
static int lookup(int carrier, int value, int* id) {
  auto it = g_known[carrier].find(value);
  if (it == g_known[carrier].end()) return 0;
  *id = it->second; return 1;
}

// -------------------------------------------------------------- encoders ---
// EN 300 231 8.2.3 (VPS data line, bytes 3-15 -> index 0-12; first transmitted bit = msb of the sliced byte):
// byte 5: b0 b1 sound (PCS), b3 distinguishes ARD/ZDF for the shared code 0xDC3;  byte 11: b0 b1 network bits 7:6,
// b2-b7 PIL 19:14;  byte 12: PIL 13:6;  byte 13: PIL 5:0, country bits 3:2 (CNI 11:10);  byte 14: country bits
// 1:0 (CNI 9:8), network bits 5:0;  byte 15: PTY.
static void enc_vps(uint8_t d[13], int cni, int pil, int pcs, int pty, bool b3, uint64_t junk) {
  for (int i = 0; i < 13; i++) d[i] = (uint8_t)(junk >> ((i % 8) * 8)) ^ (uint8_t)(i * 37);
  d[2] = (uint8_t)((d[2] & 0x2F) | ((pcs & 3) << 6) | (b3 ? 0x10 : 0));
  d[8] = (uint8_t)((((cni >> 6) & 3) << 6) | ((pil >> 14) & 0x3F));
  d[9] = (uint8_t)((pil >> 6) & 0xFF);
  d[10] = (uint8_t)(((pil & 0x3F) << 2) | ((cni >> 10) & 3));
  d[11] = (uint8_t)((((cni >> 8) & 3) << 6) | (cni & 0x3F));
  d[12] = (uint8_t)pty;
}
static int vps_value(int raw, bool b3) { return raw == 0xDC3 ? (b3 ? 0xDC1 : 0xDC2) : raw; }  // TR 101 231

static void p830_common(ttx::Packet& p, int designation, const char* status) {
  memset(&p, 0, sizeof p); ttx::mrag(p, 8, 30); p.designation = designation;
  auto h = [&](int i, unsigned v) { p.b[i] = tx::ham84(v & 15); p.tag[i] = ttx::H84; };
  h(2, (unsigned)designation);
  // initial page 100, subcode 3F7F: units, tens, S1, S2+M1, S3, S4+M2+M3 (magazine 1 relative to 8 -> M1)
  h(3, 0); h(4, 0); h(5, 0xF); h(6, 7 | 8); h(7, 0xF); h(8, 3);
  for (int i = 0; i < 20; i++) { p.b[22 + i] = tx::odd_parity((uint8_t)status[i]); p.tag[22 + i] = ttx::PAR; }
}
struct TimeF { int off = 0; bool neg = false; int mjd = 50000; int h = 0, m = 0, s = 0; };
// EN 300 706 9.8.1: NI msb first; time offset: bits 2-6 half hours, bit 7 sign, bits 1 and 8 one;
// MJD 5 digits and UTC hhmmss, every BCD digit incremented by one.
static ttx::Packet enc_8301(int designation, int cni, const TimeF& t, const char* status) {
  ttx::Packet p; p830_common(p, designation & 1, status);
  p.b[9] = tx::rev8((uint8_t)(cni >> 8)); p.b[10] = tx::rev8((uint8_t)cni);
  p.b[11] = (uint8_t)(0x81 | ((t.off & 0x1F) << 1) | (t.neg ? 0x40 : 0));
  int d[5], m = t.mjd; for (int i = 0; i < 5; i++) { d[i] = m % 10; m /= 10; }
  p.b[12] = (uint8_t)(d[4] + 1);
  p.b[13] = (uint8_t)(((d[3] + 1) << 4) | (d[2] + 1));
  p.b[14] = (uint8_t)(((d[1] + 1) << 4) | (d[0] + 1));
  p.b[15] = (uint8_t)(((t.h / 10 + 1) << 4) | (t.h % 10 + 1));
  p.b[16] = (uint8_t)(((t.m / 10 + 1) << 4) | (t.m % 10 + 1));
  p.b[17] = (uint8_t)(((t.s / 10 + 1) << 4) | (t.s % 10 + 1));
  p.b[18] = p.b[19] = p.b[20] = p.b[21] = 0x15;
  return p;
}
// reading the (possibly garbled) digits back, as the standard defines them
static bool dec_time(const uint8_t b[42], int64_t* time, int* east) {
  int nib[11] = {b[12] & 15, b[13] >> 4, b[13] & 15, b[14] >> 4, b[14] & 15, b[15] >> 4, b[15] & 15, b[16] >> 4, b[16] & 15, b[17] >> 4, b[17] & 15};
  for (int i = 0; i < 11; i++) { nib[i]--; if (nib[i] < 0 || nib[i] > 9) return false; }
  int64_t mjd = nib[0] * 10000 + nib[1] * 1000 + nib[2] * 100 + nib[3] * 10 + nib[4];
  int hh = nib[5] * 10 + nib[6], mm = nib[7] * 10 + nib[8], ss = nib[9] * 10 + nib[10];
  *time = (mjd - 40587) * 86400 + hh * 3600 + mm * 60 + ss;
  *east = ((b[11] >> 1) & 0x1F) * 1800 * ((b[11] & 0x40) ? -1 : 1);
  return true;
}
struct Pid { int cni = 0, pil = 0, pcs = 0, pty = 0, lci = 0, luf = 0, prf = 0, mi = 0; };
static unsigned rev4(unsigned v) { return ((v & 1) << 3) | ((v & 2) << 1) | ((v & 4) >> 1) | ((v & 8) >> 3); }
// EN 300 231 8.2.1 / EN 300 706 9.8.2: bytes 13-25 carry 13 Hamming 8/4 nibbles, each field msb first:
// LCI(2) LUF PRF | PCS(2) MI res | CNI 15:12 | CNI 7:6 PIL 19:18 | PIL 17:2 (4 nibbles) | PIL 1:0 CNI 11:10 |
// CNI 9:8 CNI 5:4 | CNI 3:0 | PTY 7:4 | PTY 3:0
static ttx::Packet enc_8302(int designation, const Pid& q, const char* status) {
  ttx::Packet p; p830_common(p, 2 | (designation & 1), status);
  unsigned n[13];
  n[0] = (unsigned)((q.lci & 3) << 2 | (q.luf & 1) << 1 | (q.prf & 1));
  n[1] = (unsigned)((q.pcs & 3) << 2 | (q.mi & 1) << 1 | 1);
  n[2] = (unsigned)(q.cni >> 12) & 15;
  n[3] = (unsigned)(((q.cni >> 6) & 3) << 2 | ((q.pil >> 18) & 3));
  n[4] = (unsigned)(q.pil >> 14) & 15; n[5] = (unsigned)(q.pil >> 10) & 15; n[6] = (unsigned)(q.pil >> 6) & 15; n[7] = (unsigned)(q.pil >> 2) & 15;
  n[8] = (unsigned)((q.pil & 3) << 2 | ((q.cni >> 10) & 3));
  n[9] = (unsigned)(((q.cni >> 8) & 3) << 2 | ((q.cni >> 4) & 3));
  n[10] = (unsigned)q.cni & 15;
  n[11] = (unsigned)(q.pty >> 4) & 15; n[12] = (unsigned)q.pty & 15;
  for (int i = 0; i < 13; i++) { p.b[9 + i] = tx::ham84(rev4(n[i])); p.tag[9 + i] = ttx::H84; }
  return p;
}

// EN 300 294 Table 1 / 4.2: group 1 b0-b2 format, b3 odd parity; b4 film; b9 b10 open subtitles
struct Aspect { int first = 0, last = 0; int anamorphic = 0; int film = 0; int subt = 0; int fmt = 0; };
static bool wss_parity_ok(int w) { return __builtin_popcount((unsigned)w & 15) & 1; }
static Aspect wss_aspect(int w) {
  Aspect a; a.fmt = w & 7; a.film = (w >> 4) & 1;
  int s = (w >> 9) & 3;  // b9 + 2*b10: 0 none, 1 in active image, 2 out of active image, 3 reserved
  a.subt = s == 0 ? VBI_SUBT_NONE : s == 1 ? VBI_SUBT_ACTIVE : s == 2 ? VBI_SUBT_MATTE : VBI_SUBT_UNKNOWN;
  a.anamorphic = a.fmt == 7;
  return a;
}
// active lines of the first field (23..310 = 576 frame lines): n frame lines centred or at the top
static bool aspect_lines_ok(int fmt, int first, int last) {
  switch (fmt) {
    case 0: case 6: case 7: return first == 23 && last == 310;            // full format 576 lines
    case 1: return first == 41 && last == 292;                            // 14:9 centre, 504 lines
    case 2: return first == 23 && last == 274;                            // 14:9 top
    case 3: return (first == 59 || first == 60) && (last == 273 || last == 274);  // 16:9 centre, 430 lines (half line)
    case 4: return first == 23 && (last == 237 || last == 238);           // 16:9 top
    default: return first >= 59 && first < last && last <= 274;           // > 16:9 centre: number of lines not defined
  }
}

// --------------------------------------------------- reference XDS demux ---
// (EIA-608 rules as in worlds/w_c09.cc, reduced to what this world transmits)
struct XdsRef {
  struct Pk { bool active = false; std::string bytes; unsigned sum = 0; bool overlong = false; };
  std::map<int, Pk> pk; int cur = -1;
  // returns key (class*256+type) of a delivered packet or -1
  int pair(int b0, int b1, std::string* out) {
    bool par_ok = (__builtin_popcount((unsigned)b0 & 0xFF) & 1) && (__builtin_popcount((unsigned)b1 & 0xFF) & 1);
    int c1 = b0 & 0x7F, c2 = b1 & 0x7F;
    if (!par_ok) { if (cur >= 0) pk[cur] = Pk(); cur = -1; return -1; }
    if (c1 == 0) return -1;
    if (c1 <= 0x0E) {
      int key = ((c1 - 1) >> 1) * 256 + c2;
      if (c1 & 1) { Pk p; p.active = true; p.sum = (unsigned)(c1 + c2); pk[key] = p; cur = key; }
      else cur = pk[key].active ? key : -1;
      return -1;
    }
    if (c1 == 0x0F) {
      if (cur < 0) return -1;
      Pk& p = pk[cur]; p.sum += (unsigned)(c1 + c2);
      int r = -1;
      if ((p.sum & 0x7F) == 0 && !p.bytes.empty() && !p.overlong) { r = cur; *out = p.bytes; }
      pk[cur] = Pk(); cur = -1;
      return r;
    }
    if (c1 <= 0x1F) { cur = -1; return -1; }
    if (cur < 0) return -1;
    Pk& p = pk[cur];
    p.bytes += (char)c1; if (c2) p.bytes += (char)c2;
    p.sum += (unsigned)(c1 + c2);
    if (p.bytes.size() > 32) p.overlong = true;
    return -1;
  }
};

// ------------------------------------------------------------------ world --
struct Line {
  int kind = L_TTX;
  bool valid = true;     // reception usable as an identifier reception (no uncorrectable Hamming error in a byte the identifier is read from, designation included)
  bool pid_valid = true; // 8/30-2: usable as a programme identification (no uncorrectable error in any of the 13 PDC bytes)
  // An uncorrectable byte elsewhere in the packet (initial page; format 2: a PDC byte the identifier is not read from): the
  // identifier arrived intact, a receiver may use or discard the packet, the statement does not say.  The reception
  // counts for the model (lenient side of "received again unchanged"), what the decoder held before stays acceptable.
  bool undecided = false;
  bool faulted = false;
  int cni = 0;           // received identifier (VPS after the documented 0xDC3 rule)
  Pid pid;               // VPS / 8/30-2
  bool time_ok = false; int64_t time = 0; int east = 0; bool leap = false;  // 8/30-1
  int word = 0;          // WSS
  int b0 = 0, b1 = 0;    // XDS
  // filled by the model at reception
  bool name_delivered = false;
  bool pid_seen_before = false;
};

struct Ev {
  int type = 0;
  vbi_network net; vbi_aspect_ratio asp; vbi_program_id pid; vbi_local_time lt; vbi_aspect_ratio pi_asp;
};

struct Air {  // what the tuned station transmits
  bool on = false;
  int row = 0; bool has[3] = {false, false, false}; int code[3] = {0, 0, 0}; bool dc3 = false;
  Pid prog; uint64_t junk = 0;
  bool has_wss = false; int wss = 0;
  TimeF t; char status[21] = "ZSIM STATUS DISPLAY ";
  std::string name, call;  // XDS
};

struct C13 : World {
  const char* name() const override { return "c13"; }
  const char* property() const override { return "C13"; }

  // ---------------------------------------------------------------- plan ----
  Plan generate(uint64_t seed, const std::string& tier) override {
    build_table();
    Plan p; p.world = name(); p.seed = seed;
    Rng r(seed, "plan");
    p.knobs["sched_seed"] = (int64_t)(r.next() >> 1);
    p.knobs["policy"] = (int64_t)r.below(3);
    p.knobs["pparam"] = (p.knobs["policy"] == 1) ? 30 + (int64_t)r.below(65) : (int64_t)r.below(4);
    int m = (int)r.below(100);
    int mode = m < 60 ? 0 : m < 75 ? 1 : 2;
    p.knobs["mode"] = mode;
    p.knobs["frame_max"] = 1 + (int64_t)r.below(5);
    bool faults = r.chance(2, 3);  // a third of the runs fault free
    unsigned enabled = faults ? ((unsigned)r.below(1u << F_N) | 1u) : 1u;
    p.knobs["faults_enabled"] = enabled;
    int scale = tier == "thorough" ? 2 : 1;
    auto station = [&](int task) {
      Op o; o.task = task; o.kind = "station";
      // idx, carrier mask (bit0 VPS, bit1 8/30-1, bit2 8/30-2, bit3 WSS, bit4 send the shared VPS code 0xDC3), wss word, programme seed
      o.a = {(int64_t)r.below(100000), 1 + (int64_t)r.below(31), (int64_t)r.below(1 << 14), (int64_t)r.below(1 << 30)};
      p.ops.push_back(o);
    };
    auto page = [&] { Op o; o.task = 0; o.kind = "page"; o.a = {(int64_t)r.below(90), (int64_t)r.below(1000)}; p.ops.push_back(o); };
    auto wait = [&](int lo, int hi) { Op o; o.task = 0; o.kind = "wait"; o.a = {lo + (int64_t)r.below((uint64_t)(hi - lo + 1))}; p.ops.push_back(o); };
    // script
    int np = 1 + (int)r.below(3);
    for (int i = 0; i < np; i++) page();
    station(0);
    int nsw = (int)r.below(5 * (uint64_t)scale);
    bool few_stations = r.chance(1, 2);  // switching back and forth between two stations
    int64_t st_a = (int64_t)r.below(100000), st_b = (int64_t)r.below(100000);
    for (int i = 0; i < nsw + 3; i++) {
      wait(4, 30);
      switch (r.below(8)) {
        case 0: case 1: case 2:
          station(0);
          if (few_stations) p.ops.back().a[0] = (i & 1) ? st_a : st_b;
          break;
        case 3: { Op o; o.task = 0; o.kind = "prog"; o.a = {(int64_t)r.below(1 << 30)}; p.ops.push_back(o); break; }
        case 4: { Op o; o.task = 0; o.kind = "wss"; o.a = {(int64_t)r.below(1 << 14)}; p.ops.push_back(o); break; }
        case 5: page(); break;
        case 6: if (mode == 1) { Op o; o.task = 0; o.kind = "gap"; o.a = {1 + (int64_t)r.below(60)}; p.ops.push_back(o); } else page(); break;
        default: { Op o; o.task = 0; o.kind = "idle"; o.a = {1 + (int64_t)r.below(45)}; p.ops.push_back(o); break; }
      }
    }
    if (mode == 2) {
      // XDS station identity is name + call letters: consecutive stations that share the network name and differ only in
      // the call letters (two affiliates of one network), or share call letters and differ in the name.  A separate
      // random stream and a fifth station argument (absent = 0 = the station's own call letters) keep all older plans
      // and replay files meaning what they meant.
      Rng rx(seed, "xds-affiliates");
      Op* prev = nullptr;
      for (auto& o : p.ops) {
        if (o.kind != "station") continue;
        o.a.push_back((int64_t)rx.below(16));  // call letter variant, see set_station()
        if (prev && rx.chance(1, 3)) {         // an affiliate of the same network: same name, other call letters
          o.a[0] = prev->a[0]; o.a[1] |= 1;
          if (o.a[4] % 4 == prev->a[4] % 4 || (o.a[4] % 4 <= 1 && prev->a[4] % 4 <= 1)) o.a[4] = (prev->a[4] % 4 == 2) ? 0 : 2;
        }
        prev = &o;
      }
      // Names / call letters that are the beginning of the previous station's ("PBS Kids" -> "PBS", "WNBC" -> "WNB"):
      // sixth station argument (absent / 0 = complete strings), own random stream.
      Rng ry(seed, "xds-prefixes");
      prev = nullptr;
      for (auto& o : p.ops) {
        if (o.kind != "station") continue;
        o.a.push_back(0);
        if (prev && prev->a[5] == 0 && ry.chance(1, 5)) { o.a[0] = prev->a[0]; o.a[1] = prev->a[1]; o.a[4] = prev->a[4]; o.a[5] = 1 + (int64_t)ry.below(3); }
        prev = &o;
      }
    }
    if (mode == 1 && r.chance(2, 3)) { Op o; o.task = 0; o.kind = "gap"; o.a = {1 + (int64_t)r.below(60)}; p.ops.push_back(o); wait(10, 60); }
    wait(4, 30);
    // carriers: one op = one reception opportunity
    int ncar = mode == 2 ? 3 : 4;
    for (int t = 1; t <= ncar; t++) {
      if (r.chance(1, 8) && ncar > 1) continue;  // carrier absent in this run
      int n = (mode == 2 ? 6 : 15) + (int)r.below((uint64_t)((mode == 2 ? 25 : 70) * scale));
      for (int i = 0; i < n; i++) {
        Op o; o.task = t; o.kind = "rx";
        int f = F_NONE;
        if (faults && r.chance(1, 7)) { f = (int)r.below(F_N); if (!(enabled >> f & 1)) f = F_NONE; }
        // deviation masks: line noise is mostly one or two flipped bits
        int64_t mask = r.chance(1, 2) ? (int64_t)1 << r.below(16) : r.chance(1, 2) ? ((int64_t)1 << r.below(16)) | ((int64_t)1 << r.below(16)) : 1 + (int64_t)r.below(0xFFFF);
        o.a = {f, mask, (int64_t)r.below(1000)};
        p.ops.push_back(o);
      }
    }
    // ---- dimensions added later.  Separate random streams and post-hoc insertion keep the base plan of a seed (and
    // ---- every older replay file) what it was; all new op arguments / knobs default to the old behaviour when absent.
    auto insert_script_op = [&](Rng& rr, const Op& o) {  // before a random script op, or behind the last one
      std::vector<size_t> pos;
      for (size_t i = 0; i < p.ops.size(); i++) if (p.ops[i].task == 0) pos.push_back(i);
      size_t k = (size_t)rr.below(pos.size() + 1);
      size_t at = k < pos.size() ? pos[k] : (pos.empty() ? 0 : pos.back() + 1);
      p.ops.insert(p.ops.begin() + (long)at, o);
    };
    {
      // Teletext pages in all eight magazines (third page argument; absent / 0 = magazine 1)
      Rng rp(seed, "page-magazines");
      for (auto& o : p.ops) if (o.kind == "page" && rp.chance(1, 2)) o.a.push_back(1 + (int64_t)rp.below(8));
    }
    if (mode == 1) {
      // Real re-tunes: the station change comes together with dropped frames (capture stalls while the tuner is
      // re-tuned), the new station then keeps transmitting its identifiers and Teletext pages for a long time.
      Rng rz(seed, "retune");
      auto gap_op = [&] { Op g; g.task = 0; g.kind = "gap"; g.a = {1 + (int64_t)rz.below(60)}; return g; };
      auto wait_op = [&](int lo, int hi) { Op w; w.task = 0; w.kind = "wait"; w.a = {lo + (int64_t)rz.below((uint64_t)(hi - lo + 1))}; return w; };
      auto new_pages = [&](std::vector<Op>& out) {
        int n = (int)rz.below(4);
        for (int i = 0; i < n; i++) {
          out.push_back(wait_op(3, 25));
          Op pg; pg.task = 0; pg.kind = "page"; pg.a = {(int64_t)rz.below(90), (int64_t)rz.below(1000), rz.chance(3, 4) ? 2 + (int64_t)rz.below(7) : 1};
          out.push_back(pg);
        }
      };
      auto retune = [&](std::vector<Op>& out, const Op& st) {
        switch (rz.below(3)) {
          case 0: out.push_back(gap_op()); out.push_back(st); break;
          case 1: out.push_back(st); out.push_back(gap_op()); break;
          default: out.push_back(st); out.push_back(wait_op(1, 8)); out.push_back(gap_op()); break;
        }
        new_pages(out);
      };
      std::vector<Op> out; bool first = true; const Op* last_station = nullptr;
      for (auto& o : p.ops) {
        bool st = o.task == 0 && o.kind == "station";
        if (st && !first && rz.chance(1, 2)) retune(out, o); else out.push_back(o);
        if (st) first = false;
      }
      p.ops.swap(out);
      for (auto& o : p.ops) if (o.task == 0 && o.kind == "station") last_station = &o;
      if (last_station && rz.chance(1, 2)) {  // a last re-tune, followed by nothing but the new station's transmissions
        Op st = *last_station; st.a[0] = (int64_t)rz.below(100000); st.a[3] = (int64_t)rz.below(1 << 30);
        std::vector<Op> tail; tail.push_back(wait_op(4, 30)); retune(tail, st);
        for (auto& o : tail) p.ops.push_back(o);
      }
      for (int t = 1; t <= 4; t++) {  // carriers present in this run go on for another 50-110 receptions
        bool present = false; for (auto& o : p.ops) if (o.task == t && o.kind == "rx") present = true;
        if (!present) continue;
        int n = 50 + (int)rz.below(60);
        for (int i = 0; i < n; i++) {
          Op o; o.task = t; o.kind = "rx";
          int f = F_NONE;
          if (faults && rz.chance(1, 7)) { f = (int)rz.below(F_N); if (!(enabled >> f & 1)) f = F_NONE; }
          int64_t mask = rz.chance(1, 2) ? (int64_t)1 << rz.below(16) : 1 + (int64_t)rz.below(0xFFFF);
          o.a = {f, mask, (int64_t)rz.below(1000)};
          p.ops.push_back(o);
        }
      }
    }
    if (mode != 2) {
      // Teletext services: every station its own page header text (1), three services shared by all stations (2), or one
      // header for all (knob absent, older plans); pages in magazine serial mode (fourth page argument).
      Rng rt(seed, "page-headers");
      if (rt.chance(1, 2)) p.knobs["own_headers"] = 1 + (int64_t)rt.below(2);
      p.knobs["unlisted_stations"] = 1;
      for (auto& o : p.ops) if (o.kind == "page") { while (o.a.size() < 3) o.a.push_back(0); o.a.push_back(rt.chance(1, 5) ? 1 : 0); }
    }
    {
      // Fault positions (fourth rx argument; absent / 0 = the older position rule): Hamming faults of the 8/30 packets
      // hit every protected byte (designation, initial page, format 2: the 13 PDC bytes) with the same probability,
      // garbled 8/30 format 1 digits every byte of time offset, MJD and UTC.
      Rng rf(seed, "fault-positions");
      for (auto& o : p.ops) if (o.kind == "rx") o.a.push_back(1 + (int64_t)rf.below(1 << 20));
    }
    {
      // Handler population: which event types the handlers (slots 0-3) listen to, registered / re-registered with another
      // mask / removed at script points.  Mask bits: 0 NETWORK, 1 NETWORK_ID, 2 PROG_ID, 3 LOCAL_TIME, 4 ASPECT,
      // 5 PROG_INFO, 6 TTX_PAGE.  Older flavour: slot 0 always keeps NETWORK | NETWORK_ID | TTX_PAGE (a complete observer
      // plus clients that come and go).  Knob h0_free: slot 0 is a client like the others (525-line runs: it keeps
      // NETWORK, see run()); populations of specialised clients (a recorder: PROG_ID only; a clock: LOCAL_TIME only; a
      // video window: ASPECT only ...), runs in which nobody listens to NETWORK / NETWORK_ID / TTX_PAGE.
      Rng rh(seed, "handlers");
      if (rh.chance(1, 2)) {
        p.knobs["h0_mask"] = (int64_t)rh.below(128);
        bool no_station = false;
        Rng rq(seed, "handlers-free");
        if (rq.chance(3, 5)) {
          p.knobs["h0_free"] = 1;
          no_station = rq.chance(1, 3);  // a third: nobody ever listens to NETWORK / NETWORK_ID
          auto sparse = [&]() -> int64_t {
            int64_t m;
            switch (rq.below(4)) {
              case 0: case 1: m = (int64_t)1 << rq.below(7); break;                          // one event type
              case 2: m = ((int64_t)1 << rq.below(7)) | ((int64_t)1 << rq.below(7)); break;  // two
              default: m = (int64_t)(rq.below(128) & rq.below(128)); break;
            }
            if (no_station) { m &= 0x7C; if (!m) m = (int64_t)1 << (2 + rq.below(5)); }
            return m;
          };
          p.knobs["h0_mask"] = sparse();
          // further clients present from the start
          int n0 = (int)rq.below(4);
          std::vector<Op> pre;
          for (int i = 0; i < n0; i++) { Op o; o.task = 0; o.kind = "handler"; o.a = {1 + (int64_t)rq.below(3), sparse(), (int64_t)rq.below(2)}; pre.push_back(o); }
          p.ops.insert(p.ops.begin(), pre.begin(), pre.end());
        }
        int n = 1 + (int)rh.below(5);
        for (int i = 0; i < n; i++) {
          Op o; o.task = 0; o.kind = "handler";
          int64_t m;
          switch (rh.below(4)) {
            case 0: m = 0; break;                                         // remove
            case 1: m = (int64_t)1 << (2 + rh.below(4)); break;           // one of PROG_ID, LOCAL_TIME, ASPECT, PROG_INFO
            case 2: m = (int64_t)(rh.below(4) << 4) | (int64_t)rh.below(16); break;
            default: m = (int64_t)rh.below(128); break;
          }
          o.a = {(int64_t)rh.below(4), m, (int64_t)rh.below(2)};  // slot, mask, API (0 register / unregister, 1 deprecated add / remove)
          insert_script_op(rh, o);
        }
        if (no_station) for (auto& o : p.ops) if (o.kind == "handler") o.a[1] &= 0x7C;
      }
    }
    return p;
  }

  // ----------------------------------------------------------------- state --
  RunCtx* ctx = nullptr;
  vbi_decoder* dec = nullptr;
  int mode = 0;
  bool relaxed = false;         // after a timestamp gap: safety and fidelity only
  double ts = 7000.0, dt = 0.04, next_gap = 0;
  int frame_max = 3;
  std::vector<vbi_sliced> sl; std::vector<Line> lines; bool in_frame[8];
  int cur_line = -1; bool in_decode = false;
  std::vector<Ev> line_events, pre_events;
  Air air;
  // model
  bool have[3]; int last[3]; int streak[3]; bool blanked[3];
  bool dirty = false;
  bool any_net = false; unsigned last_net_nuid = 0; std::string last_net_name, last_net_call;
  bool wss_have = false; int wss_last = 0, wss_streak = 0; bool aspect_known = false; vbi_aspect_ratio last_aspect;
  std::set<std::tuple<int, int, int, int>> vps_pids;
  std::set<int> must_pages, maybe_pages; bool pending_drop = false; int net_epoch = 0;
  XdsRef xref; bool have_name = false, have_call = false; std::string last_name, last_call; int name_streak = 0;
  int xds_last_sender = -1;
  // handler population: slot -> event mask currently registered (0 = not registered)
  enum { NSLOT = 4 };
  unsigned hmask[NSLOT] = {0, 0, 0, 0};
  // "is not announced again while the same value keeps arriving" is judged from the point of view of a client that
  // received the announcement and has listened to that event type ever since: the slots that witnessed the last
  // ASPECT (PROG_INFO) announcement and kept the type in their mask.  Without such a witness a fresh announcement is
  // legitimate (accepted, not demanded).
  bool asp_wit[NSLOT] = {false, false, false, false}, pi_wit[NSLOT] = {false, false, false, false};
  // The same for the station.  net_wit: slots registered for NETWORK ever since the model's view of the announced
  // station (any_net, last_net_nuid / name / call) was established (start of the run: nothing announced; every NETWORK
  // event).  While there is such a witness the model knows what the decoder has announced: repeat, change and cache
  // clauses apply.  Without one (nobody listens to NETWORK, or the only listeners joined later) the decoder still
  // identifies stations internally (vbi_decode_vps() and the XDS decoder run whatever handlers exist), announces them to
  // nobody and resets itself and its cache on a change, which the model cannot observe: the clauses that DEMAND network
  // events or a particular cache content are off, pages count as "may be cached", unobserved resets are taken into
  // account for the aspect ratio memory; fidelity, debounce and from-invalid clauses of every observable event stay on.
  // nid_wit: slots registered for NETWORK_ID ever since the last NETWORK_ID event (quiescence clause).
  bool net_wit[NSLOT] = {false, false, false, false}, nid_wit[NSLOT] = {false, false, false, false};
  bool net_view_ok() const { return any_wit(net_wit); }
  void net_view_lost() {
    for (int p : must_pages) maybe_pages.insert(p);
    must_pages.clear(); pending_drop = false; pi_known = false; wss_live = 0;
    wss_since = 1 << 20;  // resets can no longer be observed
    ctx->count("network_view_lost");
  }
  void net_view_established() { for (int k = 0; k < NSLOT; k++) net_wit[k] = (hmask[k] & VBI_EVENT_NETWORK) != 0; }
  std::map<int, int> hyp[3];
  // "WSS: after several identical repeats": repeats of the station the announcement is made for.  Once the decoder has
  // reported that it left an identified station (NETWORK event for another station, station revoked / assumed switch:
  // vbi_channel_switched() documents that a switch resets the decoding context) what was received before belongs to the
  // old station and does not count.  wss_since: WSS receptions since the last such event the model could observe (a
  // first identification is no such event; unobservable ones leave the count alone, which is the lenient side).
  int wss_since = 0;
  // Teletext page headers.  Knob own_headers: every station has its own header text (1) or one of three (2: stations
  // sharing a Teletext service); absent: all stations share one text (older plans).  hdr_seen: header texts of the
  // rolling-header pages received (with a TTX_PAGE listener) since the last decoder reset the model could observe.  The
  // decoder "attempts to detect channel switches automatically" (vbi_channel_switched() documentation; for Teletext by
  // comparing rolling page headers): when a rolling header arrives that differs from one in hdr_seen the Teletext
  // evidence says "another station" and the decoder may assume a switch - blank NETWORK event if a station was
  // identified, silently otherwise, cache dropped, identifiers forgotten, the page itself lost.  That is "station no
  // longer identified", not one of the network events the change clause counts; the identification of the new station
  // follows with its own NETWORK event (header-first order).  In identifier-first order (change between identified
  // stations confirmed and announced, hdr_seen emptied with it) the new station's pages are no such evidence: exactly
  // one NETWORK event, and its pages stay cached.
  int own_headers = 0; std::set<int> hdr_seen; bool page_switch_possible = false;
  int header_id() const { if (!own_headers || !air.on || mode == 2) return 0; int id = g_rows[(size_t)air.row].id; return own_headers == 1 ? 1 + id : 1 + id % 3; }
  // the decoder reset itself and the model saw it
  void decoder_reset_observed() { wss_since = 0; hdr_seen.clear(); }
  std::set<int> alt[3];   // identifier values the decoder may hold for a carrier besides last[] (undecided receptions)
  bool was_undecided[3] = {false, false, false};
  int observed_events = 0;
  // "announcements are faithful", read as bounded liveness: what a client that has listened to ASPECT events without
  // interruption believes (the last ASPECT event, revoking blank events included; the documented default - full format
  // 4:3, nothing known - before the first) must come to equal the transmitted WSS word.  view_wit: slots registered for
  // ASPECT ever since the view was last established; wss_live: identical receptions in a row since anything happened
  // that makes the decoder start counting afresh (station change, assumed switch, timestamp gap, handler change).
  bool view_wit[NSLOT] = {false, false, false, false}; vbi_aspect_ratio view; int wss_live = 0;
  static constexpr int WSS_ANNOUNCE_BY = 6;   // "several identical repeats": the decoder documents no number (it uses 4 receptions); deliberately loose
  bool pi_known = false; vbi_aspect_ratio last_pi;
  // a call letter packet that was in transmission when the decoder reset itself for a station change may or may
  // not be delivered (partial packets of the old station are legitimately discarded): both values are accepted
  bool call_open_uncertain = false; std::set<std::string> call_alts;   // call letters the decoder may hold instead of last_call (call letter packets lost in a decoder reset; several in a row are possible)
  bool xds_dirty = false;  // a name or call letter packet differed from its predecessor since the last NETWORK_ID
  int stable_names = 0;    // name packets received in a row unchanged since the name or the call letters last changed
  // statistics
  int receptions = 0, legit_net = 0, quiet_receptions = 0;
  static C13* g;

  // ------------------------------------------------------------- handlers --
  static void h0(vbi_event* ev, void*) { on_event(0, ev); }
  static void h1(vbi_event* ev, void*) { on_event(1, ev); }
  static void h2(vbi_event* ev, void*) { on_event(2, ev); }
  static void h3(vbi_event* ev, void*) { on_event(3, ev); }
  static vbi_event_handler slot_fn(int s) { static const vbi_event_handler f[NSLOT] = {h0, h1, h2, h3}; return f[s]; }
  static const unsigned MANDATORY = VBI_EVENT_NETWORK | VBI_EVENT_NETWORK_ID | VBI_EVENT_TTX_PAGE;
  // what slot 0 always keeps: absent knobs (older plans) NETWORK | NETWORK_ID | TTX_PAGE; knob net_churn (hand-written
  // replay of the vbi_event_enable() defect, now a regression replay) NETWORK | TTX_PAGE; knob h0_free: nothing in
  // 625-line runs, NETWORK in 525-line runs (there the model has to see every decoder reset: a call letter packet in
  // transmission across a reset may be lost, see call_open_uncertain)
  unsigned mandatory = MANDATORY;
  static unsigned bits_to_mask(int64_t b) {
    static const unsigned t[7] = {VBI_EVENT_NETWORK, VBI_EVENT_NETWORK_ID, VBI_EVENT_PROG_ID, VBI_EVENT_LOCAL_TIME, VBI_EVENT_ASPECT, VBI_EVENT_PROG_INFO, VBI_EVENT_TTX_PAGE};
    unsigned m = 0; for (int i = 0; i < 7; i++) if (llabs(b) >> i & 1) m |= t[i];
    return m;
  }
  // the lowest slot subscribed to the type: every event of that type is delivered to it exactly once, in the order raised
  // (masks change between frames only); -1 = events of this type are not observable at present
  int leader(unsigned type) const { for (int s = 0; s < NSLOT; s++) if (hmask[s] & type) return s; return -1; }
  bool any_wit(const bool* w) const { for (int s = 0; s < NSLOT; s++) if (w[s]) return true; return false; }
  void set_handler(const Op& op) {
    flush();  // between frames
    int slot = (int)(llabs(op.arg(0)) % NSLOT);
    unsigned m = bits_to_mask(op.arg(1) % 128);
    if (slot == 0) m |= mandatory;
    bool old_api = llabs(op.arg(2)) & 1;
    ctx->log("handler slot %d mask %x -> %x (%s)", slot, hmask[slot], m, old_api ? "add/remove" : "register/unregister");
    budget_begin("vbi_event_handler_register", 1000000);
    { SutScope ss;
      vbi_bool ok = TRUE;
      if (m == 0) { if (old_api) vbi_event_handler_remove(dec, slot_fn(slot)); else vbi_event_handler_unregister(dec, slot_fn(slot), &hmask[slot]); }
      else ok = old_api ? vbi_event_handler_add(dec, (int)m, slot_fn(slot), &hmask[slot]) : vbi_event_handler_register(dec, (int)m, slot_fn(slot), &hmask[slot]);
      if (!ok) { HarnessScope hs; ctx->fail("harness:handler-register", "registration failed"); }
    }
    budget_end();
    ctx->count(m == 0 ? (hmask[slot] ? "handler_removed" : "handler_remove_absent") : hmask[slot] ? "handler_mask_changed" : "handler_added");
    unsigned both = VBI_EVENT_ASPECT | VBI_EVENT_PROG_INFO, before = 0, after = 0;
    for (int s = 0; s < NSLOT; s++) { before |= hmask[s]; after |= (s == slot ? m : hmask[s]); }
    if ((before & both) && (before & both) != both && (after & both) == both) ctx->count("handler_adds_other_proginfo_event");
    if (!(before & both) && (after & both)) ctx->count("handler_proginfo_events_enabled_afresh");
    if (hmask[slot] != m) ctx->count("fault_handler_change");
    unsigned netpair = VBI_EVENT_NETWORK | VBI_EVENT_NETWORK_ID;
    if ((before & netpair) && !(after & netpair)) ctx->count("handler_nobody_listens_to_network");
    if (!(before & netpair) && (after & netpair)) {
      // Nobody was listening to the station events: whatever identifiers arrived meanwhile need not have been taken in
      // (8/30 packets are not examined for them then), the first listeners are told everything afresh: every carrier
      // counts as revoked (the decoder holds nothing for it until its next reception).
      for (int k = 0; k < 3; k++) blanked[k] = true;
      dirty = true; xds_dirty = true;
      ctx->count("handler_network_events_enabled_afresh");
    }
    hmask[slot] = m;
    if (!(m & VBI_EVENT_NETWORK) && net_wit[slot]) { net_wit[slot] = false; if (!net_view_ok()) net_view_lost(); }
    if (!(m & VBI_EVENT_NETWORK_ID) && nid_wit[slot]) {
      nid_wit[slot] = false;
      // nobody is left who heard the last NETWORK_ID: announcing every carrier's identifier afresh is legitimate (not demanded)
      if (!any_wit(nid_wit)) { dirty = true; xds_dirty = true; for (int k = 0; k < 3; k++) blanked[k] = true; }
    }
    if (!(m & VBI_EVENT_ASPECT)) asp_wit[slot] = false;
    if (!(m & VBI_EVENT_PROG_INFO)) pi_wit[slot] = false;
    if (!(m & VBI_EVENT_ASPECT)) view_wit[slot] = false;
    wss_live = 0;
  }
  static void on_event(int slot, vbi_event* ev) {
    HarnessScope hs;
    if (!g) return;
    C13& w = *g;
    // (which handler receives what is C11's property; here it only has to agree with the model's bookkeeping)
    if (!(w.hmask[slot] & (unsigned)ev->type)) { w.ctx->fail("harness:handler-mask", "event %d delivered to slot %d registered with mask %x", ev->type, slot, w.hmask[slot]); return; }
    if (w.leader((unsigned)ev->type) != slot) { if (ev->type != VBI_EVENT_TTX_PAGE) w.ctx->count("event_delivered_to_further_handler"); return; }
    Ev e; memset((void*)&e, 0, sizeof e); e.type = ev->type;
    switch (ev->type) {
      case VBI_EVENT_NETWORK: case VBI_EVENT_NETWORK_ID:
        e.net = ev->ev.network;
        w.ctx->log("ev %s nuid=%u name='%s' call='%s' vps=%x 8301=%x 8302=%x", ev->type == VBI_EVENT_NETWORK ? "NETWORK" : "NETWORK_ID", e.net.nuid,
                   (const char*)e.net.name, (const char*)e.net.call, e.net.cni_vps, e.net.cni_8301, e.net.cni_8302);
        break;
      case VBI_EVENT_ASPECT:
        e.asp = ev->ev.aspect;
        w.ctx->log("ev ASPECT %d-%d ratio=%.4f film=%d subt=%d", e.asp.first_line, e.asp.last_line, e.asp.ratio, e.asp.film_mode, (int)e.asp.open_subtitles);
        break;
      case VBI_EVENT_PROG_INFO:
        e.pi_asp = ev->ev.prog_info->aspect;
        w.ctx->log("ev PROG_INFO aspect %d-%d", e.pi_asp.first_line, e.pi_asp.last_line);
        break;
      case VBI_EVENT_PROG_ID:
        e.pid = *ev->ev.prog_id;
        w.ctx->log("ev PROG_ID ch=%d type=%d cni=%x pil=%x luf=%d mi=%d prf=%d pcs=%d pty=%x", (int)e.pid.channel, (int)e.pid.cni_type, e.pid.cni, e.pid.pil, e.pid.luf, e.pid.mi, e.pid.prf, (int)e.pid.pcs_audio, e.pid.pty);
        break;
      case VBI_EVENT_LOCAL_TIME:
        e.lt = *ev->ev.local_time;
        w.ctx->log("ev LOCAL_TIME t=%lld east=%d valid=%d", (long long)e.lt.time, e.lt.seconds_east, e.lt.seconds_east_valid);
        break;
      default: return;  // TTX_PAGE etc.
    }
    if (!w.in_decode) { w.ctx->fail("oracle:c13-event-outside-decode", "event %d raised outside vbi_decode()", ev->type); return; }
    w.observed_events++;
    if (w.cur_line < 0 && ev->type == VBI_EVENT_NETWORK) w.wss_since = 0;  // (evaluated after the frame; the reset precedes its lines)
    if (w.cur_line < 0) w.pre_events.push_back(e); else w.line_events.push_back(e);
  }

  void line_begin(int kind_seen) {
    cur_line++;
    line_events.clear();
    if (cur_line >= (int)lines.size()) { ctx->fail("harness:line-count", "decoder dispatched more lines than the frame has"); return; }
    Line& L = lines[(size_t)cur_line];
    bool match = (kind_seen == L_TTX) ? (L.kind == L_TTX || L.kind == L_8301 || L.kind == L_8302) : (kind_seen == L_CC1) ? (L.kind == L_CC1 || L.kind == L_XDS) : L.kind == kind_seen;
    if (!match) { ctx->fail("harness:line-kind", "line %d dispatched as %d, built as %s", cur_line, kind_seen, kind_name[L.kind]); return; }
    receive(L);
  }
  void line_end() {
    if (ctx->failed || cur_line < 0 || cur_line >= (int)lines.size()) return;
    eval_line(lines[(size_t)cur_line], line_events);
    line_events.clear();
  }

  // ------------------------------------------------ model: one reception ----
  void receive(Line& L) {
    receptions++;
    switch (L.kind) {
      case L_VPS: case L_8301: case L_8302: {
        if (!L.valid) break;
        int c = L.kind;
        bool changed = !have[c] || last[c] != L.cni;
        // A blank NETWORK event ("vbi_network all zero", event.h) told the client that the station and with it the
        // identifiers of ALL carriers are revoked (the client now holds 0 for each of them).  The first announcement of a
        // carrier's identifier after that is not "announced again while the same value keeps arriving": nothing announced
        // is standing any more, and the fidelity clause ("events carry exactly the values that were transmitted") can only
        // be met for this carrier by a new NETWORK_ID.  So the first reception on EACH revoked carrier (not only the first
        // line after the blank event) counts as news; the reception history for the debounce clause is kept (lenient side).
        bool revoked = blanked[c];
        // the decoder may have discarded the previous (undecided) reception: for it this one is the news
        if (was_undecided[c]) dirty = true;
        if (changed) dirty = true;
        else { if (revoked) { dirty = true; ctx->count("reception_after_revocation"); } else if (!dirty) quiet_receptions++; }
        {
          // "received again unchanged" over every reading of the undecided receptions (each one taken in or discarded):
          // value -> longest possible run of identical receptions ending now; a decided reception leaves one entry
          std::map<int, int>& H = hyp[c]; std::map<int, int> N;
          N[L.cni] = 1;
          for (auto& h : H) if (h.first == L.cni) N[L.cni] = std::max(N[L.cni], h.second + 1);
          if (L.undecided) for (auto& h : H) N[h.first] = std::max(N[h.first], h.second);
          H.swap(N);
          streak[c] = H[L.cni];
        }
        if (L.undecided) {
          // what the decoder held before stays possible (and the revocation stands if it discards the packet)
          alt[c].insert(have[c] ? last[c] : 0); if (revoked || !have[c]) alt[c].insert(0);
          ctx->count("reception_undecided");
        } else { alt[c].clear(); blanked[c] = false; }
        was_undecided[c] = L.undecided;
        have[c] = true; last[c] = L.cni;
        if (c == C_VPS) L.pid_seen_before = vps_pids.count(std::make_tuple(L.cni, L.pid.pil, L.pid.pcs, L.pid.pty)) > 0;
        break;
      }
      case L_WSS:
        if (wss_have && wss_last == L.word) { wss_streak++; wss_live++; } else { wss_streak = 1; wss_live = 1; }
        wss_since++;
        if (relaxed || !net_view_ok()) wss_live = 0;  // (a station change nobody can observe makes the decoder start afresh)
        wss_have = true; wss_last = L.word;
        break;
      case L_XDS: {
        std::string bytes;
        if ((L.b0 & 0x7F) == 5 && (L.b1 & 0x7F) == 2) call_open_uncertain = false;  // a new call letter packet starts
        int key = xref.pair(L.b0, L.b1, &bytes);
        if (key == 2 * 256 + 1) {
          std::string s = strfu(bytes);
          if (have_name && s == last_name) { name_streak++; stable_names++; } else { name_streak = 1; stable_names = 1; xds_dirty = true; }
          have_name = true; last_name = s; L.name_delivered = true;
          ctx->log("ref name '%s' streak %d", s.c_str(), name_streak);
        } else if (key == 2 * 256 + 2) {
          // a change against what the decoder may hold (it may have lost the previous packet) permits a re-announcement
          bool alt_differs = false;
          for (auto& a : call_alts) if (a != strfu(bytes)) alt_differs = true;
          if (!have_call || last_call != strfu(bytes) || alt_differs) { xds_dirty = true; stable_names = 0; }
          // a packet that was open during a decoder reset may be lost: what the decoder held before stays possible
          // (and what it possibly held before that: two such packets in a row were seen, found by seed 8)
          if (call_open_uncertain) { call_alts.insert(have_call ? last_call : std::string()); ctx->count("xds_call_packet_across_reset"); }
          else call_alts.clear();
          call_open_uncertain = false;
          have_call = true; last_call = strfu(bytes);
          ctx->log("ref call '%s'", last_call.c_str());
        }
        break;
      }
      default: break;
    }
  }
  static std::string strfu(const std::string& s) {  // event.h/XDS: leading blanks skipped
    size_t i = 0; while (i < s.size() && (unsigned char)s[i] <= 0x20) i++;
    std::string r; for (; i < s.size(); i++) r += (char)((unsigned char)s[i] < 0x20 ? 0x20 : s[i]);
    return r;
  }

  // ------------------------------------------------- oracle: one line -------
  static bool net_blank(const vbi_network& n) { return n.nuid == 0 && n.name[0] == 0 && n.call[0] == 0 && n.cni_vps == 0 && n.cni_8301 == 0 && n.cni_8302 == 0; }
  static bool asp_blank(const vbi_aspect_ratio& a) { return a.first_line == 23 && a.last_line == 310 && a.ratio == 1.0 && a.film_mode == 0 && a.open_subtitles == VBI_SUBT_UNKNOWN; }
  static bool asp_same(const vbi_aspect_ratio& a, const vbi_aspect_ratio& b) { return a.first_line == b.first_line && a.last_line == b.last_line && a.ratio == b.ratio && a.film_mode == b.film_mode && a.open_subtitles == b.open_subtitles; }

  // station change accepted by the model: bookkeeping for the cache clauses
  // A timestamp gap (dropped frames) "will be interpreted as frame dropping, which starts a resynchronization cycle,
  // eventually a channel switch may be assumed which resets even more decoder state" (vbi_decode() documentation).  The
  // statement is silent about this, so from the gap on (relaxed) the model accepts ONE assumed switch: the station
  // revoked (blank NETWORK event, or silently when none was identified), every identifier forgotten and announced
  // afresh, the cache dropped.  It does not say when ("eventually"), so the model stays relaxed until the suspicion is
  // VISIBLY over, which is the case
  //  (a) when the assumed switch has been executed (blank NETWORK event that no reception raised), or
  //  (b) when a change between two identified stations has been confirmed and announced after the gap: this is the
  //      switch the decoder was suspecting.  "When the identified station does change, exactly one network event is
  //      raised and the cached pages of the old station are dropped": a further reset for the same re-tune would be a
  //      second and third network event for one change and would drop the pages of the NEW station.
  // From there the strict clauses apply again (until the next gap).  While relaxed the decoder may have forgotten the
  // identifiers of the carriers (silently when no station was identified): on return they count as revoked (blanked[]),
  // which is the lenient side.  A suspicion that ends invisibly (refuted by the decoder's own means, or executed while
  // no station was identified) leaves the run relaxed: never more demanded than stated.
  void resolve_suspicion(int keep_carrier, const char* how) {
    if (!relaxed) return;
    relaxed = false;
    for (int k = 0; k < 3; k++) if (k != keep_carrier) blanked[k] = true;
    ctx->count(how);
    if (keep_carrier >= 0) ctx->count("fault_retune");  // station change together with dropped frames, announced
    ctx->log("suspicion resolved: %s", how);
  }
  // the assumed switch was executed: blank NETWORK event not raised by an identifier reception
  void assumed_switch_executed() {
    net_epoch++;
    any_net = true; last_net_nuid = 0; last_net_name.clear(); last_net_call.clear(); net_view_established();
    aspect_known = false; pi_known = false; wss_live = 0;
    decoder_reset_observed();
    for (int k = 0; k < 3; k++) blanked[k] = true;
    dirty = true;
    // the station is no longer identified: the statement is silent about the cache (but a later change between
    // identified stations must still find the old pages gone)
    for (int p : must_pages) maybe_pages.insert(p);
    must_pages.clear(); pending_drop = false;
    ctx->count("gap_reset_network");
  }
  void network_changed(bool from_identified, bool to_identified, bool to_unlisted = false) {
    net_epoch++; legit_net++; wss_live = 0;
    if (from_identified) decoder_reset_observed();
    aspect_known = false;  // the reset may announce the aspect again (vbi_channel_switched documentation: "blank events ... revoking")
    pi_known = false;
    if (from_identified && to_unlisted) pending_drop = true;
    else if (from_identified && to_identified) { pending_drop = true; ctx->count("station_switch_identified"); }
    else { for (int p : must_pages) maybe_pages.insert(p); must_pages.clear(); }  // first identification / station lost: the statement is silent about the cache
  }

  bool check_cni_payload(const vbi_network& n, int c, bool line_blank, const char* what) {
    int f[3] = {n.cni_vps, n.cni_8301, n.cni_8302};
    static const char* fn[3] = {"cni_vps", "cni_8301", "cni_8302"};
    for (int k = 0; k < 3; k++) {
      bool ok;
      // without a NETWORK witness a revocation (station lost: every identifier forgotten) may have passed unobserved
      if (k == c) ok = f[k] == last[k] || (line_blank && f[k] == 0);
      else ok = (have[k] && f[k] == last[k]) || ((!have[k] || blanked[k] || relaxed || line_blank || !net_view_ok()) && f[k] == 0) || alt[k].count(f[k]) > 0;
      if (!ok) { ctx->fail("oracle:c13-network-fidelity", "%s on %s line: %s = 0x%x, most recent reception on that carrier 0x%x%s", what, kind_name[c], fn[k], f[k], have[k] ? last[k] : 0, have[k] ? "" : " (none)"); return false; }
    }
    if (n.call[0]) { ctx->fail("oracle:c13-network-fidelity", "%s carries call letters '%s', none were transmitted", what, (const char*)n.call); return false; }
    int id;
    if (!line_blank && lookup(c, last[c], &id)) {
      if ((int)n.nuid != id || g_name[id] != (const char*)n.name) {
        ctx->fail("oracle:c13-network-fidelity", "%s for %s code 0x%x: nuid %u name '%s', table says %d '%s'", what, kind_name[c], last[c], n.nuid, (const char*)n.name, id, g_name[id].c_str());
        return false;
      }
    } else ctx->count("netid_unknown_code_not_decided");
    return true;
  }

  void eval_cni_line(const Line& L, std::vector<Ev>& evs) {
    int c = L.kind;
    bool line_blank = false, saw_net = false, saw_blank_aspect = false;
    int n_netid = 0, n_lt = 0, n_pid = 0;
    bool confirmed = L.valid && streak[c] >= 2;
    bool view = net_view_ok();  // the model knows which station the decoder has announced
    {
      // Nobody has been listening to NETWORK: when an identifier that is not a table station is confirmed the decoder may
      // revoke an identified station (blank NETWORK event, accepted below when observed) unobserved: every identifier is
      // forgotten and announced afresh.
      int id;
      if (!view && confirmed && !lookup(c, last[c], &id)) { line_blank = true; for (int k = 0; k < 3; k++) if (k != c) blanked[k] = true; ctx->count("unobserved_revocation_possible"); }
    }
    for (Ev& e : evs) {
      if (ctx->failed) return;
      if (!L.valid || (e.type == VBI_EVENT_PROG_ID && !L.pid_valid)) {
        ctx->fail("oracle:c13-event-from-invalid", "event %d raised by an 8/30 format %d packet with an uncorrectable Hamming error in a byte the event is read from", e.type, c == C_8301 ? 1 : 2);
        return;
      }
      switch (e.type) {
        case VBI_EVENT_NETWORK: {
          if (net_blank(e.net)) {
            // "no longer transmitted (vbi_network all zero, eg. after a channel switch)": accepted when an identifier that is
            // not a table station was confirmed while a station was identified; a second blank in the same line is
            // accepted too (the statement counts events for identified stations only)
            int id;
            bool ok = relaxed || line_blank || (confirmed && !lookup(c, last[c], &id) && (!view || (any_net && last_net_nuid != 0)));
            if (!ok) { ctx->fail(confirmed ? "oracle:c13-network-blank" : "oracle:c13-network-early", "blank NETWORK event on %s line (streak %d, value 0x%x) revokes the identified station", kind_name[c], streak[c], last[c]); return; }
            // a confirmed identifier that is not in the table, received while a table station was identified, IS a station
            // change ("when the identified station does change ... the cached pages of the old station are dropped"): the
            // decoder cannot name the new station, but the old one's pages must go
            bool to_unlisted = !relaxed && !line_blank && confirmed && !lookup(c, last[c], &id) && view && any_net && last_net_nuid != 0;
            if (!saw_net) { network_changed(view && last_net_nuid != 0, false, to_unlisted); ctx->count("blank_network"); if (to_unlisted) ctx->count("station_switch_to_unlisted"); }
            line_blank = true; saw_net = true; any_net = true; last_net_nuid = 0; last_net_name.clear(); net_view_established();
            for (int k = 0; k < 3; k++) blanked[k] = true;
            break;
          }
          if (!confirmed) { ctx->fail("oracle:c13-network-early", "NETWORK (nuid %u) on %s line after %d reception(s) of 0x%x in a row: not received again unchanged", e.net.nuid, kind_name[c], streak[c], last[c]); return; }
          if (!check_cni_payload(e.net, c, line_blank, "NETWORK")) return;
          // "not announced again": to a handler that heard the last NETWORK event and has listened ever since
          if (view && any_net && e.net.nuid == last_net_nuid) { ctx->fail("oracle:c13-network-repeat", "NETWORK raised again for nuid %u '%s' although the identified station did not change", e.net.nuid, (const char*)e.net.name); return; }
          if (!view) ctx->count("network_event_without_witness");
          {
            // without a witness the station announced before is unknown: first identification or change, the cache may or may not be dropped
            bool from_id = view && any_net && last_net_nuid != 0, to_id = e.net.nuid != 0;
            network_changed(from_id, to_id);
            if (relaxed && from_id && to_id) resolve_suspicion(c, "suspicion_resolved_by_station_change");
          }
          any_net = true; last_net_nuid = e.net.nuid; saw_net = true; net_view_established();
          break;
        }
        case VBI_EVENT_NETWORK_ID: {
          if (!confirmed) { ctx->fail("oracle:c13-netid-early", "NETWORK_ID on %s line after %d reception(s) of 0x%x in a row: not received again unchanged", kind_name[c], streak[c], last[c]); return; }
          if (!check_cni_payload(e.net, c, line_blank, "NETWORK_ID")) return;
          if (++n_netid > 1) { ctx->fail("oracle:c13-netid-repeat", "two NETWORK_ID events from one %s line", kind_name[c]); return; }
          // quiescence; after a deviation on any carrier one re-announcement is accepted (shared confirmation, DESIGN C13)
          // (the NETWORK_ID that accompanies an accepted NETWORK event of the same line is part of that announcement: found by the
          // thorough sweep, one run in 2 000 000 - the NETWORK event ended a suspicion, the run went strict again within the line,
          // and `dirty` is not kept while relaxed)
          if (!relaxed && !dirty && !line_blank && !saw_net) { ctx->fail("oracle:c13-netid-repeat", "NETWORK_ID announced again on %s line while every carrier kept sending the same values since the last announcement", kind_name[c]); return; }
          if (dirty && any_net) ctx->count("netid_reannounced");
          dirty = false;
          for (int k = 0; k < NSLOT; k++) nid_wit[k] = (hmask[k] & VBI_EVENT_NETWORK_ID) != 0;
          // demanded only while somebody who would have received the NETWORK event has been listening all the time
          if (net_view_ok() && e.net.nuid != 0 && !(any_net && e.net.nuid == last_net_nuid)) { ctx->fail("oracle:c13-change-no-network", "NETWORK_ID announces station %u but no NETWORK event was raised for the change (last NETWORK nuid %u)", e.net.nuid, last_net_nuid); return; }
          break;
        }
        case VBI_EVENT_ASPECT:
          // only the revoking blank event of a channel switch may come from an identification line
          if (!asp_blank(e.asp)) { ctx->fail("oracle:c13-aspect-spurious", "ASPECT %d-%d raised by a %s line", e.asp.first_line, e.asp.last_line, kind_name[c]); return; }
          saw_blank_aspect = true; ctx->count("aspect_blank"); set_view(e.asp);
          // (the station change behind it may be unobservable: the decoder starts afresh as after an observed one)
          if (!view) { aspect_known = false; pi_known = false; wss_live = 0; ctx->count("aspect_blank_unobserved_change"); }
          break;
        case VBI_EVENT_LOCAL_TIME:
          if (c != C_8301) { ctx->fail("oracle:c13-event-spurious", "LOCAL_TIME raised by a %s line", kind_name[c]); return; }
          if (++n_lt > 1) { ctx->fail("oracle:c13-event-spurious", "two LOCAL_TIME events from one packet"); return; }
          if (!L.time_ok) { ctx->fail("oracle:c13-time-fidelity", "LOCAL_TIME %lld from a packet whose date/time digits are not BCD", (long long)e.lt.time); return; }
          // seconds = 60 (leap second) is not covered by the statement: +0 .. +60 both read the digits as sent
          if ((int64_t)e.lt.time != L.time || e.lt.seconds_east != L.east || !e.lt.seconds_east_valid) {
            ctx->fail("oracle:c13-time-fidelity", "LOCAL_TIME %lld east %d (valid %d), transmitted %lld east %d", (long long)e.lt.time, e.lt.seconds_east, e.lt.seconds_east_valid, (long long)L.time, L.east);
            return;
          }
          ctx->count("local_time_events");
          break;
        case VBI_EVENT_PROG_ID: {
          if (c == C_8301) { ctx->fail("oracle:c13-event-spurious", "PROG_ID raised by an 8/30 format 1 packet"); return; }
          if (++n_pid > 1) { ctx->fail("oracle:c13-event-spurious", "two PROG_ID events from one line"); return; }
          const vbi_program_id& q = e.pid; const Pid& t = L.pid;
          bool ok = (int)q.cni == L.cni && (int)q.pil == t.pil && (int)q.pcs_audio == t.pcs && (int)q.pty == t.pty;
          if (c == C_VPS) ok = ok && q.channel == VBI_PID_CHANNEL_VPS && q.cni_type == VBI_CNI_TYPE_VPS;  // LUF/MI/PRF are not transmitted in VPS
          else ok = ok && (int)q.channel == VBI_PID_CHANNEL_LCI_0 + t.lci && q.cni_type == VBI_CNI_TYPE_8302 && !!q.luf == !!t.luf && !!q.mi == !!t.mi && !!q.prf == !!t.prf;
          if (!ok) { ctx->fail("oracle:c13-progid-fidelity", "PROG_ID on %s line: cni %x pil %x pcs %d pty %x ch %d luf %d mi %d prf %d, transmitted cni %x pil %x pcs %d pty %x lci %d luf %d mi %d prf %d", kind_name[c], q.cni, q.pil, (int)q.pcs_audio, q.pty, (int)q.channel, q.luf, q.mi, q.prf, L.cni, t.pil, t.pcs, t.pty, t.lci, t.luf, t.mi, t.prf); return; }
          // VPS has no error protection: the label must have been received before (any earlier reception counts:
          // "received again unchanged" does not say "consecutively" for the label).  8/30-2 is Hamming protected and the
          // statement's repeat clause speaks of identifiers: announced on every valid reception.
          if (c == C_VPS && !L.pid_seen_before) { ctx->fail("oracle:c13-progid-early", "VPS PROG_ID pil %x pty %x announced on its first reception", q.pil, q.pty); return; }
          ctx->count("prog_id_events");
          break;
        }
        default:
          ctx->fail("oracle:c13-event-spurious", "event %d raised by a %s line", e.type, kind_name[c]);
          return;
      }
    }
    if (saw_blank_aspect && !saw_net && !relaxed && view) { ctx->fail("oracle:c13-aspect-spurious", "blank ASPECT event on %s line without a station change", kind_name[c]); return; }
    if (line_blank) dirty = true;  // every identifier was revoked: re-announcement accepted (and once per revoked carrier, see receive())
    if (L.faulted && L.valid && !saw_net) ctx->count("deviation_survived");
    if (c == C_VPS && L.valid) vps_pids.insert(std::make_tuple(L.cni, L.pid.pil, L.pid.pcs, L.pid.pty));
  }

  // fidelity and debounce of an aspect ratio announced from a WSS line (ASPECT event, or the aspect inside PROG_INFO)
  bool check_aspect_value(const Line& L, const vbi_aspect_ratio& v, const char* what) {
    // "after several identical repeats": no number is documented; the weakest reading (a reception and two repeats) is demanded
    if (wss_streak < 3) { ctx->fail("oracle:c13-aspect-early", "%s after %d identical reception(s) of WSS word %04x", what, wss_streak, L.word); return false; }
    if (wss_since < 3) { ctx->fail("oracle:c13-aspect-early", "%s after %d reception(s) of WSS word %04x since the decoder reported that it left the previous station (%d identical ones in a row counting those of the previous station)", what, wss_since, L.word, wss_streak); return false; }
    if (!wss_parity_ok(L.word)) { ctx->fail("oracle:c13-aspect-parity", "%s from WSS word %04x whose aspect ratio group has even parity", what, L.word); return false; }
    Aspect a = wss_aspect(L.word);
    // anamorphic: the representation of the ratio is the library's choice (documented "16/9 for example", implemented 3/4)
    bool ratio_ok = a.anamorphic ? (v.ratio != 1.0 && v.ratio > 0.5 && v.ratio < 2.0) : v.ratio == 1.0;
    if (!aspect_lines_ok(a.fmt, v.first_line, v.last_line) || !ratio_ok || !!v.film_mode != !!a.film || (int)v.open_subtitles != a.subt) {
      ctx->fail("oracle:c13-aspect-fidelity", "%s %d-%d ratio %.3f film %d subt %d from WSS word %04x (format %d film %d subtitles %d)", what, v.first_line, v.last_line, v.ratio, v.film_mode, (int)v.open_subtitles, L.word, a.fmt, a.film, a.subt);
      return false;
    }
    return true;
  }
  void eval_wss_line(const Line& L, std::vector<Ev>& evs) {
    bool saw_aspect = false;
    bool aspect_observable = leader(VBI_EVENT_ASPECT) >= 0;
    for (Ev& e : evs) {
      if (ctx->failed) return;
      if (e.type == VBI_EVENT_ASPECT) {
        if (saw_aspect) { ctx->fail("oracle:c13-aspect-repeat", "two ASPECT events from one WSS line"); return; }
        if (!check_aspect_value(L, e.asp, "ASPECT")) return;
        // "is not announced again while the same value keeps arriving": to a handler that received the announcement and has
        // been registered for ASPECT ever since (whatever other handlers came and went)
        if (!relaxed && aspect_known && any_wit(asp_wit) && asp_same(e.asp, last_aspect)) { ctx->fail("oracle:c13-aspect-repeat", "ASPECT announced again although unchanged (WSS word %04x)", L.word); return; }
        if (aspect_known && !any_wit(asp_wit) && asp_same(e.asp, last_aspect)) ctx->count("aspect_fresh_announcement_without_witness");
        last_aspect = e.asp; aspect_known = true; saw_aspect = true; set_view(e.asp);
        for (int k = 0; k < NSLOT; k++) asp_wit[k] = (hmask[k] & VBI_EVENT_ASPECT) != 0;
        ctx->count("aspect_events");
      } else if (e.type == VBI_EVENT_PROG_INFO) {
        if (aspect_observable) {
          if (!saw_aspect || !asp_same(e.pi_asp, last_aspect)) { ctx->fail("oracle:c13-proginfo-fidelity", "PROG_INFO from a WSS line %s", saw_aspect ? "with an aspect different from the ASPECT event" : "without aspect change"); return; }
        } else {
          // nobody listens to ASPECT: PROG_INFO is the aspect ratio announcement, held to the same clauses
          if (!check_aspect_value(L, e.pi_asp, "PROG_INFO aspect")) return;
          ctx->count("proginfo_without_aspect_handler");
        }
        if (!relaxed && pi_known && any_wit(pi_wit) && asp_same(e.pi_asp, last_pi)) { ctx->fail("oracle:c13-aspect-repeat", "PROG_INFO announced the aspect ratio again although unchanged (WSS word %04x)", L.word); return; }
        last_pi = e.pi_asp; pi_known = net_view_ok();  // a station change resets the programme information without an event: the memory holds while such changes are observable
        for (int k = 0; k < NSLOT; k++) pi_wit[k] = (hmask[k] & VBI_EVENT_PROG_INFO) != 0;
      } else { ctx->fail("oracle:c13-event-spurious", "event %d raised by a WSS line", e.type); return; }
    }
    // the announcement must come: the word has valid parity, was received WSS_ANNOUNCE_BY times in a row while nothing made
    // the decoder start afresh, somebody has listened all the time, and what he was told last is not what is transmitted
    if (!ctx->failed && !relaxed && wss_live >= WSS_ANNOUNCE_BY && wss_parity_ok(L.word) && any_wit(view_wit)) {
      ctx->count("aspect_liveness_checks");
      if (!aspect_matches(L.word, view)) {
        ctx->fail("oracle:c13-aspect-never", "WSS word %04x received %d times in a row with valid parity, but the last the ASPECT client was told is %d-%d ratio %.3f film %d subt %d",
                  L.word, wss_live, view.first_line, view.last_line, view.ratio, view.film_mode, (int)view.open_subtitles);
        return;
      }
    }
  }
  void set_view(const vbi_aspect_ratio& a) { view = a; for (int k = 0; k < NSLOT; k++) view_wit[k] = (hmask[k] & VBI_EVENT_ASPECT) != 0; }
  bool aspect_matches(int word, const vbi_aspect_ratio& v) {
    Aspect a = wss_aspect(word);
    bool ratio_ok = a.anamorphic ? (v.ratio != 1.0 && v.ratio > 0.5 && v.ratio < 2.0) : v.ratio == 1.0;
    return aspect_lines_ok(a.fmt, v.first_line, v.last_line) && ratio_ok && !!v.film_mode == !!a.film && (int)v.open_subtitles == a.subt;
  }

  void eval_xds_line(const Line& L, std::vector<Ev>& evs) {
    int n_netid = 0;
    for (Ev& e : evs) {
      if (ctx->failed) return;
      if (e.type != VBI_EVENT_NETWORK && e.type != VBI_EVENT_NETWORK_ID) {
        if (e.type == VBI_EVENT_ASPECT && asp_blank(e.asp)) continue;
        ctx->fail("oracle:c13-event-spurious", "event %d raised by an XDS pair", e.type); return;
      }
      const char* what = e.type == VBI_EVENT_NETWORK ? "NETWORK" : "NETWORK_ID";
      if (net_blank(e.net) && relaxed) continue;
      if (!L.name_delivered || name_streak < 2) {
        ctx->fail(e.type == VBI_EVENT_NETWORK ? "oracle:c13-network-early" : "oracle:c13-netid-early", "%s '%s' from XDS although the name was received %d time(s) in a row (%s)", what, (const char*)e.net.name, name_streak, L.name_delivered ? "name packet" : "no valid name packet ended here");
        return;
      }
      std::string nm = (const char*)e.net.name, cl = (const char*)e.net.call;
      bool call_ok = cl == (have_call ? last_call : std::string()) || call_alts.count(cl) > 0;
      if (nm != last_name || !call_ok) {
        ctx->fail("oracle:c13-network-fidelity", "%s name '%s' call '%s', most recent valid packets: name '%s' call '%s'", what, nm.c_str(), cl.c_str(), last_name.c_str(), have_call ? last_call.c_str() : "");
        return;
      }
      if (e.type == VBI_EVENT_NETWORK) {
        // name and call letters arrive in separate packets, the statement does not say how they combine: a NETWORK event
        // is accepted for every confirmed change of the pair, not for the same pair again
        if (any_net && nm == last_net_name && cl == last_net_call) { ctx->fail("oracle:c13-network-repeat", "NETWORK raised again for '%s' / '%s' although the identified station did not change", nm.c_str(), cl.c_str()); return; }
        if (any_net) ctx->count(nm == last_net_name ? "xds_network_same_name_new_call" : cl == last_net_call ? "xds_network_new_name_same_call" : "xds_network_new_name_new_call");
        network_changed(any_net, true);
        any_net = true; last_net_name = nm; last_net_call = cl; last_net_nuid = e.net.nuid; net_view_established();
        if (xref.pk[2 * 256 + 2].active) call_open_uncertain = true;
      } else {
        if (++n_netid > 1) { ctx->fail("oracle:c13-netid-repeat", "two NETWORK_ID events from one XDS packet"); return; }
        if (!xds_dirty) { ctx->fail("oracle:c13-netid-repeat", "NETWORK_ID '%s' announced again while the same name and call letters kept arriving", nm.c_str()); return; }
        xds_dirty = false;
        for (int k = 0; k < NSLOT; k++) nid_wit[k] = (hmask[k] & VBI_EVENT_NETWORK_ID) != 0;
      }
    }
    // Change clause ("When the identified station does change, exactly one network event is raised and the cached pages of
    // the old station are dropped"; the pages are checked in flush() once the event is accepted).  An XDS station is
    // identified by its network name and its call letters.  The statement gives no deadline; "received again unchanged"
    // is two receptions, the model waits for one more: the event is overdue when the name has been received three times
    // in a row unchanged since the name or the call letters last changed and the station received differs from the one of
    // the last NETWORK event.  Demanded only where the identity is beyond doubt: the call letters received most recently
    // differ from the announced ones, or no call letters were ever received and the names differ.  (A new name under
    // unchanged call letters - a station changing its affiliation, or a station without call letters after one with -
    // is not decided: with or without NETWORK event.)  Not demanded while a call letter packet may have been lost in a
    // decoder reset.
    if (!ctx->failed && !relaxed && L.name_delivered && any_net && stable_names >= 3 && call_alts.empty() && !call_open_uncertain) {
      bool differs = have_call ? last_call != last_net_call : last_name != last_net_name;
      if (differs) {
        ctx->fail("oracle:c13-change-no-network", "XDS station '%s' / '%s' received %d times in a row unchanged, no NETWORK event: the last one announced '%s' / '%s'",
                  last_name.c_str(), have_call ? last_call.c_str() : "", stable_names, last_net_name.c_str(), last_net_call.c_str());
        return;
      }
      if (stable_names == 3) ctx->count("xds_change_clause_evaluated");
    }
  }

  void eval_line(const Line& L, std::vector<Ev>& evs) {
    switch (L.kind) {
      case L_VPS: case L_8301: case L_8302: eval_cni_line(L, evs); break;
      case L_WSS: eval_wss_line(L, evs); break;
      case L_XDS: eval_xds_line(L, evs); break;
      default: {
        bool ttx_switched = false;
        for (Ev& e : evs) {
          // (the Teletext decoder has its own channel switch detection; only while a switch is suspected anyway,
          // or when the rolling header of this page differs from one received before, see hdr_seen)
          bool may_switch = relaxed || page_switch_possible || ttx_switched;
          if (may_switch && e.type == VBI_EVENT_NETWORK && net_blank(e.net)) {
            if (!relaxed) ctx->count("header_switch_network_blank");
            assumed_switch_executed(); ttx_switched = true; continue;
          }
          if (may_switch && e.type == VBI_EVENT_ASPECT && asp_blank(e.asp)) { ctx->count("aspect_blank"); set_view(e.asp); if (!net_view_ok()) { aspect_known = false; pi_known = false; wss_live = 0; } continue; }
          if (e.type == VBI_EVENT_NETWORK)
            ctx->fail("oracle:c13-network-spurious", "NETWORK event (nuid %u) raised by a Teletext page although neither frames were dropped nor does its header differ from a header received since the station was announced", e.net.nuid);
          else ctx->fail("oracle:c13-event-spurious", "event %d raised by a %s line", e.type, kind_name[L.kind]);
          return;
        }
      }
    }
  }

  // ----------------------------------------------------------------- frames --
  void flush(bool force = false) {
    if (ctx->failed) { sl.clear(); lines.clear(); memset(in_frame, 0, sizeof in_frame); return; }
    if (sl.empty() && !force) return;
    double step = dt;
    if (next_gap > 0) {
      step = dt * (1 + next_gap); next_gap = 0; relaxed = true; pending_drop = false; ctx->count("fault_gap");
      // the assumed switch may drop what is cached; pages of this station must still be gone after a real change
      for (int pg : must_pages) maybe_pages.insert(pg);
      must_pages.clear();
    }
    ts += step;
    ctx->log("frame ts+%.3f lines %zu", step, sl.size());
    cur_line = -1; pre_events.clear(); line_events.clear(); in_decode = true;
    budget_begin("vbi_decode", 20000000);
    { SutScope ss; vbi_decode(dec, sl.data(), (int)sl.size(), ts); }
    budget_end();
    in_decode = false;
    if (!ctx->failed && cur_line + 1 != (int)lines.size()) ctx->fail("harness:line-count", "frame of %zu lines, %d dispatched", lines.size(), cur_line + 1);
    bool pre_switch = false;
    for (Ev& e : pre_events) {
      if (ctx->failed) break;
      // before the first line only an assumed channel switch can act (after a timestamp gap, see resolve_suspicion())
      if (e.type == VBI_EVENT_NETWORK && net_blank(e.net) && (relaxed || pre_switch)) {
        if (!pre_switch) assumed_switch_executed();
        pre_switch = true;
        // (a): the decoder has acted on its suspicion, a mode 1 run is strict again.  (XDS runs have no gaps.)
        if (mode == 1) resolve_suspicion(-1, "suspicion_resolved_by_assumed_switch");
      } else if (e.type == VBI_EVENT_ASPECT && asp_blank(e.asp) && (relaxed || pre_switch)) {
        ctx->count("aspect_blank"); set_view(e.asp);
      } else if (e.type == VBI_EVENT_NETWORK) {
        ctx->fail("oracle:c13-network-spurious", "NETWORK event (nuid %u) raised by no reception: the station %s and no frames were dropped since", e.net.nuid,
                  legit_net ? "did not change since the last NETWORK event" : "was never announced");
      } else ctx->fail("oracle:c13-event-spurious", "event %d raised before any line of the frame was decoded", e.type);
    }
    sl.clear(); lines.clear(); memset(in_frame, 0, sizeof in_frame);
    if (ctx->failed || relaxed) return;
    // cache clauses
    if (pending_drop) {
      pending_drop = false;
      for (int pass = 0; pass < 2; pass++)
        for (int pg : (pass ? maybe_pages : must_pages)) {
          int c; { SutScope ss; c = vbi_is_cached(dec, pg, VBI_ANY_SUBNO); }
          if (c) { ctx->fail("oracle:c13-old-pages-kept", "page %x of the previous station is still cached after the station change", pg); return; }
          ctx->count("pages_checked_dropped");
        }
      must_pages.clear(); maybe_pages.clear();
    } else {
      for (int pg : must_pages) {
        int c; { SutScope ss; c = vbi_is_cached(dec, pg, VBI_ANY_SUBNO); }
        if (!c) { ctx->fail("oracle:c13-cache-lost", "page %x is no longer cached although the identified station did not change", pg); return; }
      }
      ctx->count("pages_checked_kept", (int64_t)must_pages.size());
    }
  }
  void emit(const vbi_sliced& s, const Line& L, int slot) {
    if (ctx->failed) return;
    if (in_frame[slot] || (int)sl.size() >= frame_max) flush();
    in_frame[slot] = true;
    sl.push_back(s); lines.push_back(L);
    switch (L.kind) {
      case L_VPS: ctx->log("tx vps cni=%x pil=%x pcs=%d pty=%x%s", L.cni, L.pid.pil, L.pid.pcs, L.pid.pty, L.faulted ? " FAULT" : ""); break;
      case L_8301: ctx->log("tx 8301 cni=%x time=%lld ok=%d valid=%d%s%s", L.cni, (long long)L.time, L.time_ok, L.valid, L.undecided ? " undecided" : "", L.faulted ? " FAULT" : ""); break;
      case L_8302: ctx->log("tx 8302 cni=%x pil=%x valid=%d pid_valid=%d%s%s", L.cni, L.pid.pil, L.valid, L.pid_valid, L.undecided ? " undecided" : "", L.faulted ? " FAULT" : ""); break;
      case L_WSS: ctx->log("tx wss %04x%s", L.word, L.faulted ? " FAULT" : ""); break;
      case L_XDS: ctx->log("tx xds %02x %02x", L.b0, L.b1); break;
      default: break;
    }
  }
  static vbi_sliced ttx_sliced(const uint8_t b[42], int line) {
    vbi_sliced s; memset(&s, 0, sizeof s); s.id = VBI_SLICED_TELETEXT_B; s.line = (uint32_t)line; memcpy(s.data, b, 42); return s;
  }

  // a Teletext page transmitted in one frame (header, two rows, terminating header); all stations use the same
  // header text (the header comparison of the Teletext decoder is another mechanism, not part of C13)
  // magazine 1-8 (0 = 1): parallel magazine transmission, the page is terminated by the next header of its magazine
  // serial: magazine serial transmission (C11 set in both headers): the header counts as a rolling header in every magazine
  void send_page(int page_bcd, int seed, int magazine = 1, bool serial = false) {
    flush();
    int epoch = net_epoch;
    int mag = magazine < 1 || magazine > 8 ? 1 : magazine;
    int pgno = mag * 0x100 + page_bcd;
    int hid = header_id();
    auto hdr = [&](int page, bool erase) {
      char t[48];
      if (hid == 0) snprintf(t, sizeof t, "ZSIMTEXT%03X Network News AB12:34:56", mag * 0x100 + page);
      else snprintf(t, sizeof t, "ZSIMTEXT%03X St%05d News AB12:34:56", mag * 0x100 + page, hid % 100000);  // 24 compared characters, then the clock
      uint8_t text[32]; memcpy(text, t, 32);
      return ttx::header(mag, page, 0, (erase ? ttx::C4_ERASE : 0) | (serial ? ttx::C11_SERIAL : 0), text);
    };
    // EN 300 706 / event.h roll_header: pages 100-199 of a parallel transmission, every page of a serial one (the
    // world sets none of the flags that take a page out of the rolling sequence)
    bool rolling = (mag == 1 || serial) && leader(VBI_EVENT_TTX_PAGE) >= 0;
    page_switch_possible = false;
    if (rolling) for (int h : hdr_seen) if (h != hid) page_switch_possible = true;
    if (page_switch_possible) {
      // The Teletext evidence says "another station" (see hdr_seen): the decoder may assume a switch now.  Observed through
      // a blank NETWORK event when a station was identified (eval_line()); silent otherwise, so whatever such a reset
      // forgets is held leniently from here: cached pages, identifiers (announced afresh), aspect ratio memory.
      for (int p : must_pages) maybe_pages.insert(p);
      must_pages.clear();
      for (int k = 0; k < 3; k++) blanked[k] = true;
      dirty = true; aspect_known = false; pi_known = false; wss_live = 0;
      ctx->count("page_header_of_another_station");
    }
    if (serial) ctx->count("pages_serial_mode");
    Line L; L.kind = L_TTX;
    int save_max = frame_max; frame_max = 8;
    ttx::Packet h = hdr(page_bcd, true);
    sl.push_back(ttx_sliced(h.b, 7)); lines.push_back(L);
    for (int y = 1; y <= 2; y++) {
      uint8_t ch[40]; for (int i = 0; i < 40; i++) ch[i] = (uint8_t)(0x41 + (seed + i * y) % 26);
      ttx::Packet rw = ttx::row(mag, y, ch);
      sl.push_back(ttx_sliced(rw.b, 7 + y)); lines.push_back(L);
    }
    ttx::Packet e = hdr(0x99, true);
    sl.push_back(ttx_sliced(e.b, 10)); lines.push_back(L);
    ctx->log("tx page %x header %d%s", pgno, hid, serial ? " serial" : "");
    flush();
    frame_max = save_max;
    page_switch_possible = false;
    if (rolling) hdr_seen.insert(hid);
    if (ctx->failed) return;
    int c; { SutScope ss; c = vbi_is_cached(dec, pgno, VBI_ANY_SUBNO); }
    if (mag > 1) ctx->count("pages_other_magazines");
    // while a channel switch is suspected the page may be dropped with the assumed switch (and must be with a real one)
    // (likewise while nobody has been listening to NETWORK: the decoder changes station and drops its cache unobserved)
    if (relaxed || !net_view_ok()) { if (c) { maybe_pages.insert(pgno); must_pages.erase(pgno); } return; }
    if (c && epoch == net_epoch) { must_pages.insert(pgno); maybe_pages.erase(pgno); ctx->count("pages_precached"); }
    else ctx->count("page_not_cached_unchecked");  // storing pages is C02's business
  }

  // --------------------------------------------------------------- script ---
  bool unlisted_stations = false;
  void set_station(const Op& op) {
    build_table();
    flush();  // a channel change happens between frames
    Air a;
    a.on = true;
    int mask = (int)(llabs(op.arg(1)) % 32);
    uint64_t ps = (uint64_t)op.arg(3);
    Rng r(ps ^ 0x5151, "station");
    if (mode == 2) {
      static const char* names[] = {"NBC", "PBS Kids", "Fox Network", "ABC", "CBS Television", "Univision", "The WB", "Q"};
      static const char* calls[] = {"WNBC", "KQED-TV", "WNYW", "WABC", "KCBS", "WXTV", "KTLA", "WQ"};
      // a second affiliate of the same network, and call letters used under more than one network name
      static const char* calls2[] = {"KNBC", "WETA", "KTTV", "KABC", "WCBS", "KMEX", "WPIX", "KQ"};
      static const char* shared[] = {"KAAA", "WX"};
      size_t k = (size_t)(llabs(op.arg(0)) % 8);
      int v = (int)(llabs(op.arg(4)) % 16);
      a.name = names[k];
      const char* cl = (v % 4 <= 1) ? calls[k] : (v % 4 == 2) ? calls2[k] : shared[(v / 4) % 2];
      a.call = (mask & 1) ? cl : "";  // stations without call letters exist
      int tr = (int)(llabs(op.arg(5)) % 4);  // 1: call letters cut to their first three, 2: name cut to its first three, 3: both
      if ((tr & 1) && a.call.size() > 3) a.call.resize(3);
      if ((tr & 2) && a.name.size() > 3) a.name.resize(3);
      a.has[0] = true; a.has[1] = !a.call.empty();
      air = a; ctx->log("station xds '%s' '%s'", a.name.c_str(), a.call.c_str());
      return;
    }
    // two thirds of the stations are taken from the rows that have codes for at least two carriers
    { int64_t v = llabs(op.arg(0)); a.row = (v % 3 && !g_multi.empty()) ? g_multi[(size_t)((v / 3) % (int64_t)g_multi.size())] : (int)((v / 3) % (int64_t)g_rows.size()); }
    const Row& row = g_rows[(size_t)a.row];
    int n = 0;
    for (int c = 0; c < 3; c++) { a.code[c] = row.code[c]; a.has[c] = row.code[c] && (mask >> c & 1); n += a.has[c]; }
    if (!n) for (int c = 0; c < 3; c++) if (row.code[c]) { a.has[c] = true; break; }
    a.dc3 = (mask & 16) && (row.code[0] == 0xDC1 || row.code[0] == 0xDC2);
    if (unlisted_stations && llabs(op.arg(0)) % 7 == 3) {
      // a station the network table does not know (one in seven, knob unlisted_stations; older plans: none): VPS and / or
      // 8/30 format 1 with a CNI that no row of the table has in that column.  A change from a table station to such a
      // station is a station change like any other: the decoder cannot name it, but the old station's pages must go.
      a.dc3 = false; a.has[2] = false;
      if (!a.has[0] && !a.has[1]) a.has[0] = true;
      for (int c = 0; c < 2; c++) {
        if (!a.has[c]) continue;
        int lim = c == 0 ? 0xFFE : 0xFFFE, cand = 0;
        for (int t = 0; t < 200; t++) {
          cand = 1 + (int)((r.next() >> 8) % (uint64_t)lim);
          bool used = c == 0 && cand >= 0xDC1 && cand <= 0xDC3;
          for (auto& rw : g_rows) if (rw.code[c] == cand || (c == 0 && (rw.code[2] & 0xFFF) == cand)) { used = true; break; }
          if (!used) break;
        }
        a.code[c] = cand;
      }
      ctx->count("stations_not_in_the_table");
    }
    a.has_wss = mask >> 3 & 1;
    set_wss(a, (int)op.arg(2));
    set_prog(a, ps);
    a.junk = r.next();
    a.t.off = (int)r.below(26); a.t.neg = r.chance(1, 3); a.t.mjd = 45000 + (int)r.below(15000); a.t.h = (int)r.below(24); a.t.m = (int)r.below(60); a.t.s = (int)r.below(60);
    air = a;
    ctx->log("station row %d id %d vps=%x 8301=%x 8302=%x mask=%x wss=%04x", a.row, row.id, a.has[0] ? a.code[0] : 0, a.has[1] ? a.code[1] : 0, a.has[2] ? a.code[2] : 0, mask, a.has_wss ? a.wss : -1);
  }
  static void set_wss(Air& a, int v) {
    // format code with correct parity, unless bits 12 and 13 of v are both set: persistently wrong parity (1 station in 4)
    static const int fmt[8] = {0x8, 0x1, 0x2, 0xB, 0x4, 0xD, 0xE, 0x7};  // EN 300 294 Table 1: b0-b2 with odd parity b3
    int w = fmt[v & 7];
    w |= v & 0x1F0;                 // film, colour coding, helper, reserved, teletext subtitles
    int s = (v >> 9) & 3; if (s == 3) s = 0;  // subtitle code 11 is reserved: not transmitted
    w |= s << 9;
    w |= v & 0x3800;                // surround, copyright, generation
    w &= 0x3FFF;
    if (((v >> 12) & 3) == 3) w ^= 8;  // a station with a broken encoder: parity bit wrong all the time
    a.wss = w;
  }
  static void set_prog(Air& a, uint64_t seed) {
    Rng r(seed, "prog");
    a.prog.pil = (int)r.below(1 << 20); a.prog.pcs = (int)r.below(4); a.prog.pty = (int)r.below(256);
    a.prog.lci = (int)r.below(4); a.prog.luf = (int)r.below(2); a.prog.prf = (int)r.below(2); a.prog.mi = (int)r.below(2);
  }

  // ------------------------------------------------------------- carriers ---
  void rx_vps(const Op& op) {
    if (!air.on || !air.has[C_VPS]) return;
    int f = fault_of(op); int arg = (int)llabs(op.arg(1));
    if (f == F_DROP) { ctx->count("fault_drop"); return; }
    int raw = air.dc3 ? 0xDC3 : air.code[C_VPS]; bool b3 = air.dc3 ? air.code[C_VPS] == 0xDC1 : (air.junk >> 20 & 1);
    Pid q = air.prog; Line L; L.kind = L_VPS;
    if (f == F_CNI) { int m = arg & 0xFFF; if (!m) m = (arg >> 4) & 0xFFF; if (!m) m = 1; raw ^= m; if (raw == 0) raw ^= 0x800; L.faulted = true; ctx->count("fault_vps_cni"); }
    if (f == F_FIELD) { q.pil ^= (arg & 0xFFFFF) ? (arg & 0xFFFFF) : 1; q.pty ^= arg >> 8 & 0xFF; L.faulted = true; ctx->count("fault_vps_pil"); }
    L.cni = vps_value(raw, b3); L.pid = q; L.pid.cni = L.cni;
    vbi_sliced s; memset(&s, 0, sizeof s); s.id = VBI_SLICED_VPS; s.line = 16;
    enc_vps(s.data, raw, q.pil, q.pcs, q.pty, b3, air.junk);
    emit(s, L, 0);
  }
  void rx_8301(const Op& op) {
    if (!air.on || !air.has[C_8301]) return;
    int f = fault_of(op); int arg = (int)llabs(op.arg(1));
    // the clock runs whether or not the line is received
    TimeF& t = air.t; if (++t.s >= 60) { t.s = 0; if (++t.m >= 60) { t.m = 0; if (++t.h >= 24) { t.h = 0; t.mjd++; } } }
    if (f == F_DROP) { ctx->count("fault_drop"); return; }
    int cni = air.code[C_8301]; Line L; L.kind = L_8301;
    if (f == F_CNI) { int m = arg & 0xFFFF; if (!m) m = 1; cni ^= m; if (cni == 0) cni ^= 0x8000; L.faulted = true; ctx->count("fault_8301_cni"); }
    ttx::Packet p = enc_8301((int)(op.arg(2) & 1), cni, t, air.status);
    int pos = (int)(llabs(op.arg(3)) % (1 << 24));  // fault position; 0 (older plans): digits of MJD / UTC only, no Hamming faults
    if (f == F_FIELD) {
      int bit = pos > 0 ? (pos - 1) % 56 : arg % 48, base = pos > 0 ? 11 : 12;  // time offset, MJD, UTC
      p.b[base + bit / 8] ^= (uint8_t)(1 << (bit % 8)); ctx->count("fault_8301_time");
      if (base + bit / 8 == 11) ctx->count("fault_8301_time_offset");
    }
    if ((f == F_HAM1 || f == F_HAM2) && pos > 0) {
      // Hamming 8/4 protected: designation (byte 2), initial page (bytes 3-8)
      int byte = 2 + (pos - 1) % 7, b1 = (pos - 1) / 7 % 8, b2 = (b1 + 1 + (pos - 1) / 56 % 7) % 8;
      if (f == F_HAM1) { p.b[byte] ^= (uint8_t)(1 << b1); ctx->count("fault_8301_ham1"); }  // corrected: received as sent
      else {
        p.b[byte] ^= (uint8_t)((1 << b1) | (1 << b2));
        if (byte == 2) L.valid = false; else L.undecided = true;  // not even recognisable as 8/30 format 1 / only the initial page is lost
        ctx->count("fault_8301_ham2");
      }
    }
    L.cni = cni; L.time_ok = dec_time(p.b, &L.time, &L.east);
    emit(ttx_sliced(p.b, 17), L, 1);
  }
  void rx_8302(const Op& op) {
    if (!air.on || !air.has[C_8302]) return;
    int f = fault_of(op); int arg = (int)llabs(op.arg(1));
    if (f == F_DROP) { ctx->count("fault_drop"); return; }
    Pid q = air.prog; q.cni = air.code[C_8302]; Line L; L.kind = L_8302;
    if (f == F_CNI) { int m = arg & 0xFFFF; if (!m) m = 1; q.cni ^= m; if (q.cni == 0) q.cni ^= 0x8000; if (q.cni == 0x0DC3) q.cni ^= 0x1000; L.faulted = true; ctx->count("fault_8302_cni"); }
    if (f == F_FIELD) { q.pil ^= (arg & 0xFFFFF) ? (arg & 0xFFFFF) : 1; q.pty ^= arg >> 8 & 0xFF; ctx->count("fault_8302_pil"); }
    ttx::Packet p = enc_8302((int)(op.arg(2) & 1), q, air.status);
    // Hamming 8/4 protected: designation (byte 2), initial page (3-8), PDC (9-21), every byte with the same probability
    // (fourth argument; older plans: position from the deviation mask)
    int pos = (int)(llabs(op.arg(3)) % (1 << 24));
    int hbyte = pos > 0 ? 2 + (pos - 1) % 20 : 2 + arg % 20;
    int hb1 = pos > 0 ? (pos - 1) / 20 % 8 : arg / 32 % 8, hb2 = (hb1 + 1 + (pos > 0 ? (pos - 1) / 160 : arg / 256) % 7) % 8;
    if (f == F_HAM1) { p.b[hbyte] ^= (uint8_t)(1 << hb1); ctx->count("fault_ham1"); }  // corrected: received as sent
    if (f == F_HAM2) {
      p.b[hbyte] ^= (uint8_t)((1 << hb1) | (1 << hb2));
      bool cni_byte = hbyte == 11 || hbyte == 12 || hbyte == 17 || hbyte == 18 || hbyte == 19;  // see enc_8302()
      if (hbyte == 2) { L.valid = false; L.pid_valid = false; }        // not recognisable as 8/30 format 2
      else if (hbyte <= 8) L.undecided = true;                         // initial page: identifier and label intact
      else { L.pid_valid = false; if (cni_byte) L.valid = false; else L.undecided = true; }
      ctx->count("fault_ham2");
      ctx->count(hbyte == 2 ? "fault_ham2_designation" : hbyte <= 8 ? "fault_ham2_initial_page" : hbyte == 9 ? "fault_ham2_lci_luf_prf" : cni_byte ? "fault_ham2_cni_byte" : "fault_ham2_other_pdc_byte");
    }
    L.cni = q.cni; L.pid = q;
    emit(ttx_sliced(p.b, 18), L, 2);
  }
  void rx_wss(const Op& op) {
    if (!air.on || !air.has_wss) return;
    int f = fault_of(op); int arg = (int)llabs(op.arg(1));
    if (f == F_DROP) { ctx->count("fault_drop"); return; }
    int w = air.wss; Line L; L.kind = L_WSS;
    if (f == F_CNI) { int m = arg & 0x3FFF; if (!m) m = (arg >> 2) & 0x3FFF; if (!m) m = 1; w ^= m; L.faulted = true; ctx->count("fault_wss_word"); }
    if (f == F_FIELD) { w ^= 1 << (arg & 3); L.faulted = true; ctx->count("fault_wss_parity"); }
    L.word = w;
    vbi_sliced s; memset(&s, 0, sizeof s); s.id = VBI_SLICED_WSS_625; s.line = 23; s.data[0] = (uint8_t)(w & 0xFF); s.data[1] = (uint8_t)(w >> 8 & 0x3F);
    emit(s, L, 3);
  }
  int fault_of(const Op& op) const { int f = (int)(llabs(op.arg(0)) % F_N); return f; }

  // XDS: one byte pair per frame on line 284 (and a filler pair on line 21)
  void xds_pair(int b0, int b1) {
    if (ctx->failed) return;
    flush();
    vbi_sliced s[2]; memset(s, 0, sizeof s);
    s[0].id = VBI_SLICED_CAPTION_525; s[0].line = 21; s[0].data[0] = 0x80; s[0].data[1] = 0x80;
    s[1].id = VBI_SLICED_CAPTION_525; s[1].line = 284; s[1].data[0] = (uint8_t)b0; s[1].data[1] = (uint8_t)b1;
    Line a; a.kind = L_CC1; Line b; b.kind = L_XDS; b.b0 = b0; b.b1 = b1;
    sl.push_back(s[0]); lines.push_back(a);
    sl.push_back(s[1]); lines.push_back(b);
    ctx->log("tx xds %02x %02x", b0, b1);
    flush();
  }

  // ------------------------------------------------------------------ run --
  static void self_check(RunCtx& c) {
    // second opinion on the encoders: the library's stand-alone decode functions (not the service decoder under test)
    static bool done = false, good = true; static char why[200] = "";
    if (!done) {
      done = true;
      Rng r(12345, "selfcheck");
      for (int i = 0; i < 200 && good; i++) {
        int cni = 1 + (int)r.below(0xFFF); if (cni == 0xDC3) cni = 0xDC1;
        int pil = (int)r.below(1 << 20), pcs = (int)r.below(4), pty = (int)r.below(256);
        uint8_t d[13]; enc_vps(d, cni, pil, pcs, pty, false, r.next());
        unsigned got; vbi_program_id pid;
        vbi_decode_vps_cni(&got, d); vbi_decode_vps_pdc(&pid, d);
        if ((int)got != cni || (int)pid.pil != pil || (int)pid.pcs_audio != pcs || (int)pid.pty != pty) { good = false; snprintf(why, sizeof why, "VPS cni %x pil %x -> %x %x", cni, pil, got, pid.pil); }
        int c16 = 1 + (int)r.below(0xFFFF);
        TimeF t; t.off = (int)r.below(32); t.neg = r.chance(1, 2); t.mjd = 41000 + (int)r.below(20000); t.h = (int)r.below(24); t.m = (int)r.below(60); t.s = (int)r.below(60);
        ttx::Packet p1 = enc_8301(0, c16, t, "01234567890123456789");
        time_t tt; int east; int64_t mt; int me;
        vbi_decode_teletext_8301_cni(&got, p1.b);
        bool okd = vbi_decode_teletext_8301_local_time(&tt, &east, p1.b) && dec_time(p1.b, &mt, &me);
        if ((int)got != c16 || !okd || (int64_t)tt != mt || east != me || mt != ((int64_t)t.mjd - 40587) * 86400 + t.h * 3600 + t.m * 60 + t.s || me != t.off * 1800 * (t.neg ? -1 : 1)) { good = false; snprintf(why, sizeof why, "8/30-1 cni %x mjd %d", c16, t.mjd); }
        Pid q; q.cni = c16; q.pil = pil; q.pcs = pcs; q.pty = pty; q.lci = (int)r.below(4); q.luf = (int)r.below(2); q.prf = (int)r.below(2); q.mi = (int)r.below(2);
        ttx::Packet p2 = enc_8302(0, q, "01234567890123456789");
        vbi_program_id p;
        bool ok2 = vbi_decode_teletext_8302_cni(&got, p2.b) && vbi_decode_teletext_8302_pdc(&p, p2.b);
        if (!ok2 || (int)got != c16 || (int)p.cni != c16 || (int)p.pil != pil || (int)p.pcs_audio != pcs || (int)p.pty != pty || (int)p.channel != VBI_PID_CHANNEL_LCI_0 + q.lci || !!p.luf != !!q.luf || !!p.prf != !!q.prf || !!p.mi != !!q.mi) { good = false; snprintf(why, sizeof why, "8/30-2 cni %x pil %x -> %x %x", c16, pil, got, p.pil); }
      }
    }
    // not a verdict: if either side is wrong the fidelity clauses fire on their own; this only helps triage
    if (!good) { c.count("codec_second_opinion_disagrees"); c.log("second opinion disagrees: %s", why); }
  }

  void run(const Plan& plan, RunCtx& c) override {
    static bool warmed = false;
    if (!warmed) { warmed = true; vbi_decoder* d = vbi_decoder_new(); vbi_decoder_delete(d); build_table(); }
    alloc_track_reset();
    ctx = &c; g = this;
    self_check(c);
    mode = (int)(llabs(plan.knob("mode")) % 3);
    relaxed = false; ts = 7000.0; dt = mode == 2 ? 1001.0 / 30000.0 : 0.04; next_gap = 0;
    frame_max = (int)(llabs(plan.knob("frame_max", 3)) % 6); if (frame_max < 1) frame_max = 1;
    sl.clear(); lines.clear(); memset(in_frame, 0, sizeof in_frame); cur_line = -1; in_decode = false; line_events.clear(); pre_events.clear();
    air = Air();
    for (int k = 0; k < 3; k++) { have[k] = false; last[k] = 0; streak[k] = 0; blanked[k] = false; }
    dirty = false; any_net = false; last_net_nuid = 0; last_net_name.clear(); last_net_call.clear();
    wss_have = false; wss_last = 0; wss_streak = 0; aspect_known = false; memset((void*)&last_aspect, 0, sizeof last_aspect);
    vps_pids.clear(); must_pages.clear(); maybe_pages.clear(); pending_drop = false; net_epoch = 0;
    xref = XdsRef(); have_name = have_call = false; last_name.clear(); last_call.clear(); name_streak = 0; xds_last_sender = -1;
    call_open_uncertain = false; call_alts.clear(); xds_dirty = false; stable_names = 0;
    receptions = legit_net = quiet_receptions = 0;
    for (int k = 0; k < NSLOT; k++) { hmask[k] = 0; asp_wit[k] = pi_wit[k] = false; }
    unlisted_stations = plan.knob("unlisted_stations", 0) != 0;
    mandatory = plan.knob("h0_free") ? (mode == 2 ? (unsigned)VBI_EVENT_NETWORK : 0u) : plan.knob("net_churn") ? (unsigned)(VBI_EVENT_NETWORK | VBI_EVENT_TTX_PAGE) : MANDATORY;
    hmask[0] = bits_to_mask(plan.knob("h0_mask", 0x7F) % 128) | mandatory;  // absent: every event type of the property (older plans)
    pi_known = false; memset((void*)&last_pi, 0, sizeof last_pi);
    // before the first announcement: vbi_reset_prog_info()'s documented default (625 line system: full format 4:3, lines 23-310)
    memset((void*)&view, 0, sizeof view); view.first_line = 23; view.last_line = 310; view.ratio = 1.0; view.film_mode = 0; view.open_subtitles = VBI_SUBT_UNKNOWN;
    wss_live = 0; for (int k = 0; k < NSLOT; k++) view_wit[k] = (hmask[k] & VBI_EVENT_ASPECT) != 0;
    // a fresh decoder has announced nothing: that is what the handlers registered now know
    for (int k = 0; k < NSLOT; k++) { net_wit[k] = (hmask[k] & VBI_EVENT_NETWORK) != 0; nid_wit[k] = (hmask[k] & VBI_EVENT_NETWORK_ID) != 0; }
    for (int k = 0; k < 3; k++) { alt[k].clear(); was_undecided[k] = false; hyp[k].clear(); }
    wss_since = net_view_ok() ? 0 : 1 << 20;
    own_headers = mode == 2 ? 0 : (int)(llabs(plan.knob("own_headers")) % 3); hdr_seen.clear(); page_switch_possible = false;
    observed_events = 0;
    Sched sched(c, (uint64_t)plan.knob("sched_seed", (int64_t)plan.seed), (Policy)(llabs(plan.knob("policy")) % 3), (int)plan.knob("pparam"));
    { SutScope ss;
      dec = vbi_decoder_new();
      if (hmask[0]) vbi_event_handler_register(dec, (int)hmask[0], slot_fn(0), &hmask[0]);
    }
    c.log("handler slot 0 mask %x", hmask[0]);
    const int NT = 5;
    std::vector<std::vector<const Op*>> per(NT);
    for (auto& op : plan.ops) per[(size_t)(((op.task % NT) + NT) % NT)].push_back(&op);

    // the receiver is tuned when the run starts: the script up to its first station runs before the carriers
    size_t script_start = 0;
    auto script_op = [&](const Op* op) {
        if (op->kind == "station") set_station(*op);
        else if (op->kind == "prog") { set_prog(air, (uint64_t)op->arg(0)); c.log("prog pil=%x", air.prog.pil); }
        else if (op->kind == "wss") { set_wss(air, (int)op->arg(0)); c.log("wss %04x", air.wss); }
        else if (op->kind == "page") { int pg = (int)(llabs(op->arg(0)) % 90); send_page((pg / 10) * 16 + pg % 10, (int)(llabs(op->arg(1)) % 1000), (int)(llabs(op->arg(2)) % 9), (llabs(op->arg(3)) & 1) != 0); }
        else if (op->kind == "handler") set_handler(*op);
    };
    for (size_t i = 0; i < per[0].size() && !c.failed; i++)
      if (per[0][i]->kind == "station") { for (size_t k = 0; k <= i; k++) script_op(per[0][k]); script_start = i + 1; break; }
    // script task
    if (per[0].size() > script_start) sched.spawn("script", [&] {
      for (size_t oi = script_start; oi < per[0].size(); oi++) {
        const Op* op = per[0][oi];
        if (c.failed) return;
        if (op->kind == "station" || op->kind == "prog" || op->kind == "wss" || op->kind == "page" || op->kind == "handler") script_op(op);
        else if (op->kind == "wait") { int n = (int)(llabs(op->arg(0)) % 64); for (int i = 0; i < n && !c.failed; i++) sched.yield(); continue; }
        else if (op->kind == "idle") { int n = (int)(llabs(op->arg(0)) % 64); flush(); for (int i = 0; i < n && !c.failed; i++) flush(true); }  // frames without data
        else if (op->kind == "gap") { if (mode == 1) { flush(); next_gap = 1 + (double)(llabs(op->arg(0)) % 80); flush(true); } }
        sched.yield();
      }
    });
    if (mode != 2) {
      for (int t = 1; t <= 4; t++) {
        if (per[(size_t)t].empty()) continue;
        static const char* tn[] = {"", "vps", "p8301", "p8302", "wss"};
        sched.spawn(tn[t], [&, t] {
          for (const Op* op : per[(size_t)t]) {
            if (c.failed) return;
            if (op->kind != "rx") continue;
            switch (t) { case 1: rx_vps(*op); break; case 2: rx_8301(*op); break; case 3: rx_8302(*op); break; default: rx_wss(*op); break; }
            sched.yield();
          }
        });
      }
    } else {
      // XDS sources: 1 = network name, 2 = call letters, 3 = idle pairs; the scheduler is the field 2 multiplexer
      struct Src { bool open = false; int type = 1; };
      static Src src[4];
      for (auto& s : src) s = Src();
      src[1].type = 1; src[2].type = 2;
      auto send = [&](int t, int b0, int b1, bool is_start) {
        if (c.failed) return;
        if (t <= 2 && src[t].open && !is_start && xds_last_sender != t) { xds_pair(tx::odd_parity(6), tx::odd_parity((uint8_t)src[t].type)); c.count("mux_continue_inserted"); }
        xds_pair(b0, b1);
        xds_last_sender = t;
        sched.yield();
      };
      for (int t = 1; t <= 3; t++) {
        if (per[(size_t)t].empty()) continue;
        sched.spawn(t == 1 ? "xds-name" : t == 2 ? "xds-call" : "idle", [&, t, send] {
          for (const Op* op : per[(size_t)t]) {
            if (c.failed) return;
            if (op->kind != "rx") continue;
            if (t == 3) { xds_pair(0x80, 0x80); sched.yield(); continue; }  // idle pairs carry no channel: no interruption
            if (!air.on || !air.has[t - 1]) { sched.yield(); continue; }
            int f = fault_of(*op); int arg = (int)llabs(op->arg(1));
            if (f == F_DROP) { c.count("fault_xds_drop"); sched.yield(); continue; }
            std::string pl = t == 1 ? air.name : air.call;
            if (f == F_CNI) { size_t k = (size_t)arg % pl.size(); pl[k] = (char)(0x41 + (pl[k] - 0x41 + 1 + arg / 64 % 20) % 26); c.count("fault_xds_deviate"); }
            int c1 = 5, c2 = t;  // class "channel" start, type
            unsigned sum = (unsigned)(c1 + c2);
            send(t, tx::odd_parity((uint8_t)c1), tx::odd_parity((uint8_t)c2), true);
            src[t].open = true;
            size_t npairs = (pl.size() + 1) / 2;
            for (size_t k = 0; k < npairs; k++) {
              int a = (unsigned char)pl[2 * k], b = 2 * k + 1 < pl.size() ? (unsigned char)pl[2 * k + 1] : 0;
              sum += (unsigned)(a + b);
              int pa = tx::odd_parity((uint8_t)a), pb = tx::odd_parity((uint8_t)b);
              if (f == F_FIELD && k == (size_t)arg % npairs) { if (arg & 64) pa ^= 0x80; else pb ^= 0x80; c.count("fault_xds_parity"); }
              send(t, pa, pb, false);
            }
            int ck = (int)((0x80 - ((sum + 0x0F) & 0x7F)) & 0x7F);
            if (f == F_HAM1) { ck = (ck + 1 + arg % 126) & 0x7F; c.count("fault_xds_checksum"); }
            send(t, tx::odd_parity(0x0F), tx::odd_parity((uint8_t)ck), false);
            src[t].open = false;
          }
        });
      }
    }
    int rc = sched.run(20000000);
    if (rc == 2) c.fail("harness:budget", "scheduler budget exhausted");
    flush();
    c.state(sched.interleaving_hash());
    { SutScope ss; vbi_decoder_delete(dec); dec = nullptr; }
    if (!c.failed && alloc_track_available() && alloc_live_blocks() != 0)
      c.fail("leak", "%zu blocks (%zu bytes; sizes %s) still allocated after vbi_decoder_delete", alloc_live_blocks(), alloc_live_bytes(), alloc_live_summary().c_str());
    c.count("receptions", receptions);
    c.count("network_events_accepted", legit_net);
    c.count("quiescent_receptions", quiet_receptions);
    c.count(mode == 0 ? "runs_625_strict" : mode == 1 ? "runs_625_gaps" : "runs_525_xds");
    c.count("events_evaluated", observed_events);
    c.nontrivial = receptions >= 20 && (legit_net >= 1 || observed_events >= 5);
    c.sim_seconds = ts - 7000.0;
    g = nullptr;
  }
};
C13* C13::g = nullptr;
ZSIM_REGISTER_WORLD(C13)

}  // namespace

// ---- link-time observers of the per-line entry points (see w_c13.mk) -------
extern "C" {
void __wrap_vbi_decode_vps(vbi_decoder* v, uint8_t* b) {
  if (C13::g) { HarnessScope hs; C13::g->line_begin(L_VPS); }
  __real_vbi_decode_vps(v, b);
  if (C13::g) { HarnessScope hs; C13::g->line_end(); }
}
vbi_bool __wrap_vbi_decode_teletext(vbi_decoder* v, uint8_t* b) {
  if (C13::g) { HarnessScope hs; C13::g->line_begin(L_TTX); }
  vbi_bool r = __real_vbi_decode_teletext(v, b);
  if (C13::g) { HarnessScope hs; C13::g->line_end(); }
  return r;
}
void __wrap_vbi_decode_caption(vbi_decoder* v, int line, uint8_t* b) {
  if (C13::g) { HarnessScope hs; C13::g->line_begin(L_CC1); }
  __real_vbi_decode_caption(v, line, b);
  if (C13::g) { HarnessScope hs; C13::g->line_end(); }
}
void __wrap_vbi_decode_wss_625(vbi_decoder* v, uint8_t* b, double t) {
  if (C13::g) { HarnessScope hs; C13::g->line_begin(L_WSS); }
  __real_vbi_decode_wss_625(v, b, t);
  if (C13::g) { HarnessScope hs; C13::g->line_end(); }
}
}
