// C01 — the service decoder survives every input: no crash, abort, hang, bad
// access or leak.
//
// World: one vbi_decoder.  Task "bc" (broadcaster) emits frames of 0-40 sliced
// lines: well-formed Teletext (Level 1 ... 3.5 material, system pages, POP /
// DRCS / MOT / MIP / TOP tables, EACEM trigger page), caption streams for the
// eight channels, XDS packets, ITV triggers, VPS / WSS / CPR-1204 lines, random
// lines, all through a faulty channel and with regular or broken timestamps.
// Task "vw" (viewer) issues the read-side API on whatever is cached.  The
// seeded scheduler interleaves both at frame granularity; a third op list is
// executed from inside event callbacks (re-entrant subset).
// Oracle: sanitizers, asserts, deterministic edge budget per call, self-deadlock
// detector on the library's mutexes, allocator accounting.  Nothing functional.
#include <iconv.h>
#include <pthread.h>
#include <sys/time.h>
#include <unistd.h>

#include <algorithm>
#include <cstdio>
#include <cstdlib>
#include <cstring>
#include <ctime>
#include <map>
#include <set>

#include "alloc.h"
#include "sim.h"
#include "ttx.h"

extern "C" {
#include "src/libzvbi.h"
const char* zsim_c01_tripwire(const vbi_decoder* vbi);  // worlds/c/tripwire_c01.c
}

using namespace sim;

// ------------------------------------------------------------ link seams ----
// (worlds/w_c01.mk wraps these symbols for this binary only)
static bool g_in_run = false;
static double g_sim_now = 0;  // simulated wall clock seen by vbi_classify_page()
static const void* g_held[16];
static int g_nheld = 0;

extern "C" {
int __real_gettimeofday(struct timeval* tv, void* tz);
int __wrap_gettimeofday(struct timeval* tv, void* tz) {
  if (!g_in_run) return __real_gettimeofday(tv, tz);
  if (tv) { tv->tv_sec = (time_t)g_sim_now; tv->tv_usec = (suseconds_t)((g_sim_now - (double)(time_t)g_sim_now) * 1e6); }
  return 0;
}
time_t __real_mktime(struct tm* tp);
time_t __wrap_mktime(struct tm* tp) { sim::HarnessScope hs; return __real_mktime(tp); }  // libc's private TZ string churn is not decoder memory
int __real_pthread_mutex_lock(pthread_mutex_t* m);
int __real_pthread_mutex_unlock(pthread_mutex_t* m);
int __real_pthread_mutex_trylock(pthread_mutex_t* m);
static void deadlock() {
  static const char msg[] = "\nZSIM-FATAL deadlock pthread_mutex_lock on a mutex this (only) thread already holds\n";
  if (write(2, msg, sizeof msg - 1)) {}
  _exit(79);
}
int __wrap_pthread_mutex_lock(pthread_mutex_t* m) {
  if (g_in_run) {
    for (int i = 0; i < g_nheld; i++) if (g_held[i] == m) deadlock();
    if (g_nheld < 16) g_held[g_nheld++] = m;
  }
  return __real_pthread_mutex_lock(m);
}
int __wrap_pthread_mutex_trylock(pthread_mutex_t* m) {
  int r = __real_pthread_mutex_trylock(m);
  if (g_in_run && r == 0 && g_nheld < 16) g_held[g_nheld++] = m;
  return r;
}
int __wrap_pthread_mutex_unlock(pthread_mutex_t* m) {
  if (g_in_run)
    for (int i = g_nheld; i-- > 0;) if (g_held[i] == m) { g_held[i] = g_held[--g_nheld]; break; }
  return __real_pthread_mutex_unlock(m);
}
}

namespace {

// Forward search from a start page above every cached page with no match never
// returned (DESIGN.md section 8 row 4; property C17 owned the fix, committed to
// /repo as 0d8639e / 260a0e3).  With 1 the viewer only starts forward searches at
// page 0x100 so that the hang is not provoked; 0 since the repair is in the tree
// (3000 runs without steering are clean).  Delete the constant when convenient.
#ifndef AVOID_SEARCH_WRAP_HANG
#define AVOID_SEARCH_WRAP_HANG 0
#endif

// A fetched vbi_page keeps raw pointers into the cache (pg->drcs_clut, pg->drcs[]) without holding a reference
// (cache.c says so itself: "reference counting never really worked", vbi_unref_page() is empty).  Rendering a page
// that was fetched before a later vbi_decode() replaced the DRCS page / switched the network reads freed memory
// (asan:heap-use-after-free@vbi_draw_vt_page_region, @png_export, @xpm_export; replays under out/C01/).  There
// is no small fix (vbi_page has no room for references, ABI).  While this is 1 the viewer fetches the page again
// before it renders or exports a Teletext page that is older than the last decoded frame; set to 0 to see the defect.
#ifndef AVOID_STALE_PAGE_POINTERS
#define AVOID_STALE_PAGE_POINTERS 1
#endif

struct Line { uint32_t id; uint32_t line; uint8_t d[56]; };

static inline int64_t uabs(int64_t v) { return v < 0 ? (v == INT64_MIN ? 0 : -v) : v; }
static inline int um(int64_t v, int m) { return (int)(uabs(v) % m); }

// ---------------------------------------------------------- Teletext side ---
static Line ttx_line(const ttx::Packet& p) {
  Line l; memset(&l, 0, sizeof l);
  l.id = VBI_SLICED_TELETEXT_B; l.line = 0;
  memcpy(l.d, p.b, 42);
  return l;
}
static ttx::Packet trip_packet(int mag, int y, int designation, const uint32_t v[13]) {
  ttx::Packet p; memset(&p, 0, sizeof p); ttx::mrag(p, mag, y);
  p.b[2] = tx::ham84((unsigned)designation & 15);
  for (int i = 0; i < 13; i++) tx::ham2418(v[i] & 0x3FFFF, p.b + 3 + i * 3);
  return p;
}
static ttx::Packet nibble_packet(int mag, int y, const uint8_t n[40]) {
  ttx::Packet p; memset(&p, 0, sizeof p); ttx::mrag(p, mag, y);
  for (int i = 0; i < 40; i++) p.b[2 + i] = tx::ham84(n[i] & 15);
  return p;
}
static inline uint32_t trip(int address, int mode, int data) {
  return (uint32_t)(address & 0x3F) | ((uint32_t)(mode & 0x1F) << 6) | ((uint32_t)(data & 0x7F) << 11);
}
struct BitW {  // 13 triplets of 18 bits, LSB first
  uint32_t t[13]; int pos = 0;
  BitW() { memset(t, 0, sizeof t); }
  void put(unsigned v, int n) { for (int i = 0; i < n; i++, pos++) if (pos < 234 && ((v >> i) & 1)) t[pos / 18] |= 1u << (pos % 18); }
};

// layout of the simulated station: where the object / DRCS / TOP pages live
struct Layout { int gpop, pop[2], gdrcs, drcs[2], ait, mpt, mptex; };

static const char* const kWords[] = {
  "NEWS", "Sport 100", "Wetter 150-170", "see page 200", "http://www.zapping.sf.net/index.html", "www.example.org",
  "mail me@example.com now", "ftp://host/dir", "12345678901234567890", ">> 300", "Index 100 101 102 199", "p.899",
  "1/3", "12/15", "TV heute 20.15 Uhr", "https://secure.example.net/a?b=c", "user.name@sub.domain.tld", "   ", "777 778 779",
  "9999999999", "1.5 2,5 100.000", "Seite 123/45"};

static void gen_row(Rng& r, int style, uint8_t out[40]) {
  for (int c = 0; c < 40; c++) {
    bool ctl = style == 0 ? r.chance(1, 20) : style == 6 ? false : r.chance(1, 4);
    if (!ctl) { out[c] = (uint8_t)(0x20 + r.below(0x60)); continue; }
    int ch;
    switch (style) {
      case 1: { static const int s[] = {0,1,2,3,4,5,6,7,8,9,0x18,0x1C,0x1D,0x1B}; ch = s[r.below(sizeof s / sizeof s[0])]; break; }
      case 2: { static const int s[] = {0x10,0x11,0x12,0x13,0x14,0x15,0x16,0x17,0x19,0x1A,0x1E,0x1F,1,7,0x1D,0x1C}; ch = s[r.below(sizeof s / sizeof s[0])]; break; }
      case 3: { static const int s[] = {0x0C,0x0D,0x0E,0x0F,0x0D,0x0C,2,0x12,0x1E}; ch = s[r.below(sizeof s / sizeof s[0])]; break; }
      case 4: { ch = r.chance(1, 2) ? 0x0A : 0x0B; out[c] = (uint8_t)ch; if (c < 39 && r.chance(2, 3)) out[++c] = (uint8_t)ch; continue; }
      default: ch = (int)r.below(0x20); break;
    }
    out[c] = (uint8_t)ch;
  }
  if (style == 6 || r.chance(1, 3)) {  // words the link scanner (keyword()) looks for
    int n = 1 + (int)r.below(3);
    for (int k = 0; k < n; k++) {
      const char* w = kWords[r.below(sizeof kWords / sizeof kWords[0])];
      size_t len = strlen(w); int at = (int)r.below(40);
      for (size_t i = 0; i < len && at + (int)i < 40; i++) out[at + i] = (uint8_t)w[i];
    }
  }
}

// one random X/26 triplet drawn from the interesting modes
static uint32_t rand_triplet(Rng& r, bool allow_term) {
  int kind = (int)r.below(16);
  if (kind < 5) {  // column triplet
    static const int modes[] = {0,1,2,3,6,7,8,9,0x0B,0x0C,0x0D,0x0E,0x0F,0x10,0x11,0x15,0x1A,0x1F,4,5,0x0A};
    int m = modes[r.below(sizeof modes / sizeof modes[0])];
    int data = (int)r.below(128);
    if (m == 0x0D && r.chance(3, 4)) data = (int)(r.below(2) << 6 | r.below(48));
    if ((m == 0 || m == 3) && r.chance(3, 4)) data &= 0x1F;
    return trip((int)r.below(40), m, data);
  }
  if (kind < 11) {  // row triplet
    static const int modes[] = {0,1,4,4,4,7,8,9,0x0A,0x0B,0x0C,0x0D,0x10,0x10,0x18,0x18,2,0x0E,0x19};
    int m = modes[r.below(sizeof modes / sizeof modes[0])];
    int a = 40 + (int)r.below(24);
    int data = (int)r.below(128);
    if (m == 4 && r.chance(3, 4)) data = (int)r.below(40);
    if (m == 7 && r.chance(3, 4)) a = 63;
    if (m == 0x10 && r.chance(3, 4)) data = (int)r.below(72);
    if (m == 0x18) data = (int)(r.below(2) << 6 | r.below(16));
    return trip(a, m, data);
  }
  if (kind < 13) return trip((int)r.below(64), (int)r.below(32), (int)r.below(128));
  if (kind == 13 && allow_term) return trip(63, 0x1F, (int)r.below(128));
  return trip((int)r.below(40), 0x09 + (int)r.below(2) * 6, 0x20 + (int)r.below(0x60));
}

// Object k (0..11) of a POP/GPOP page: type 1 + k%3, pointer packet 1, pointer
// triplet (k/3)*3 + type, low half; definition at triplet 22*k of packets 3...
static inline int obj_type(int k) { return 1 + k % 3; }
static inline int obj_data(int k, int s1) { return ((k / 3) & 3) << 5 | (s1 & 15); }
static inline int obj_ptr(int k) { return 22 * k; }
static uint32_t obj_invocation(int k, bool global, int s1) { return trip((global ? 56 : 48), 0x10 + obj_type(k), obj_data(k, s1)); }

static void build_x26(Rng& r, const Layout&, int variant, std::vector<uint32_t>& out) {
  // variant 0: random enhancement; 1: object invocations + DRCS; 2: local objects; 3: PDC-ish
  int n = 13 * (1 + (int)r.below(r.chance(1, 6) ? 16 : 3));
  for (int i = 0; i < n; i++) out.push_back(rand_triplet(r, i > 6));
  auto put = [&](size_t at, uint32_t v) { if (at < out.size()) out[at] = v; };
  if (variant == 1) {
    size_t at = 0;
    put(at++, trip(40 + 1 + (int)r.below(23), 4, (int)r.below(40)));
    int ninv = 1 + (int)r.below(4);
    for (int i = 0; i < ninv; i++) {
      if (r.chance(1, 3)) put(at++, trip(40 + (int)r.below(24), 0x10, (int)r.below(72)));
      put(at++, obj_invocation((int)r.below(12), r.chance(1, 2), r.chance(15, 16) ? 0 : (int)r.below(16)));
      if (r.chance(1, 2)) put(at++, trip(40 + 1 + (int)r.below(23), 4, (int)r.below(40)));
    }
    int nd = (int)r.below(6);
    for (int i = 0; i < nd; i++) {
      if (r.chance(1, 3)) put(at++, trip(40 + (int)r.below(24), 0x18, (int)(r.below(2) << 6 | (r.chance(3, 4) ? 0 : r.below(16)))));
      put(at++, trip((int)r.below(40), 0x0D, (int)(r.below(2) << 6 | r.below(48))));
    }
  } else if (variant == 2) {
    // local object definitions further down, invoked from the first packet
    int ndef = 1 + (int)r.below(3);
    size_t at = 0;
    for (int i = 0; i < ndef; i++) {
      int des = (int)r.below((uint64_t)(n / 13)), tr = (int)r.below(13), t = 1 + (int)r.below(3);
      put(at++, trip(40 + 1 + (int)r.below(23), 4, (int)r.below(40)));
      put(at++, trip(40 | (des >> 4), 0x10 + t, (des & 15) << 4 | tr));
      // a local object may itself invoke another one (recursion must stay bounded)
      if (r.chance(1, 2)) put((size_t)(des * 13 + tr + 1 + (int)r.below(3)), trip(40 | (des >> 4), 0x10 + 1 + (int)r.below(3), (des & 15) << 4 | tr));
      if (r.chance(1, 2)) put((size_t)(des * 13 + tr), trip(40, 0x14 + t, (int)r.below(128)));
    }
  } else if (variant == 3) {
    size_t at = 0;
    for (int i = 0; i < 6 && at + 6 < out.size(); i++) {
      put(at++, trip(40 + (int)r.below(24), 0x08, (int)r.below(128)));
      put(at++, trip(40 + (int)r.below(16), 0x09, (int)r.below(0x32)));
      put(at++, trip(40 + 1 + (int)r.below(23), 0x0A, (int)r.below(128)));
      put(at++, trip((int)r.below(40), 0x06, (int)r.below(0x60)));
      put(at++, trip(40 + 1 + (int)r.below(23), 0x0B, (int)r.below(128)));
      put(at++, trip((int)r.below(40), 0x06, (int)r.below(0x60)));
    }
  }
}

static void link_nibbles(int pgno, int subno, int mag, unsigned out[6]) {  // X/27/0-3, 8/30 link coding
  int m = (mag & 7) ^ ((pgno >> 8) & 7);
  out[0] = (unsigned)pgno & 15; out[1] = ((unsigned)pgno >> 4) & 15; out[2] = (unsigned)subno & 15;
  out[3] = (((unsigned)subno >> 4) & 7) | ((unsigned)(m & 1) << 3);
  out[4] = ((unsigned)subno >> 8) & 15;
  out[5] = (((unsigned)subno >> 12) & 3) | ((unsigned)((m >> 1) & 1) << 2) | ((unsigned)((m >> 2) & 1) << 3);
}
// Page numbers the station of the current run really transmits (filled by run() from the plan, empty while plans are
// generated): links inside transmitted pages - TOP titles, FLOF, X/27, MOT - point at existing pages half of the time, as
// a real service's do, so that navigation data and page titles are found when the viewer asks for them.
static std::vector<int> g_station_pages;
static int rand_pgno(Rng& r) {
  if (!g_station_pages.empty() && r.chance(1, 2)) return g_station_pages[r.below(g_station_pages.size())];
  return (1 + (int)r.below(8)) * 256 + (r.chance(3, 4) ? (int)(r.below(10) << 4 | r.below(10)) : (int)r.below(256));
}

enum PageKind { K_LOP = 0, K_LOP_X26, K_LOP_OBJ, K_LOP_LOCAL, K_LOP_PDC, K_POP, K_GPOP, K_DRCS, K_GDRCS, K_MOT, K_MIP, K_BTT, K_AIT, K_MPT, K_MPTEX, K_TRIGGER, K_NIBBLE, K_HEADER, K_N };
enum PageFlag { PF_X27_0 = 1, PF_X27_123 = 2, PF_X27_4 = 4, PF_X27_5 = 8, PF_X28_0 = 16, PF_X28_1 = 32, PF_X28_4 = 64, PF_X28_3 = 128, PF_ROW24 = 256, PF_ROW25 = 512,
                PF_SHUFFLE = 1024, PF_FILLER = 2048, PF_M29_0 = 4096, PF_M29_1 = 8192, PF_M29_4 = 16384, PF_TWICE = 32768, PF_ENH_FIRST = 65536, PF_DENSE = 131072 };

static const char* const kTriggers[] = {
  "<http://zapping.sf.net>[n:Zapping][5450]", "<http://www.example.org/itv>[name:Show][e:20301231T235959][s:go()][t:p][v:t][C2A1]",
  "<lid://local/app>[type:program][expires:19990101][script:x=1]", "<http://a.b/%41%42c>[n:%5B%5D%25][tve:1.0]",
  "<http://x>[priority:9][delete][autoload][counter:12][active:300]", "<http://y>[name:%", "<http://y>[%4", "<>[]", "<http://z>[e:99999999T999999]",
  "<http://q>[n:A very long name that goes on and on and on and on and on and on and on and on and on and on and on and on and on and on and on and on and on and on end]",
  "<http://w>[1234][abcd][FFFF]", "[n:no url]", "<http://later.example/a>[countdown:2][name:later]", "<http://later.example/b>[countdown:1F10][active:3]",
  "<http://later.example/a>[countdown:2][delete]", "<http://later.example/c>[c:3F05][n:x][p:5][s:run()]", "<http://t.example>[time:20010909T014650][n:timed]", "<http://t.example>[time:20010909T014655][expires:20010909T0150]",
  "<http://later.example/d>[countdown:0F20]<http://later.example/e>[countdown:1]<http://later.example/f>[countdown:3]", "<http://v>[v:w][t:q][program][network][station][sponsor][operator]", "<ttx://123.45>[n:ttx]", "<tw://1.2.3>[t:o]"};

static void trigger_string(Rng& r, std::string& s) {
  s = kTriggers[r.below(sizeof kTriggers / sizeof kTriggers[0])];
  int muts = r.chance(1, 2) ? 0 : 1 + (int)r.below(3);
  for (int i = 0; i < muts && !s.empty(); i++) {
    size_t at = r.below(s.size());
    switch (r.below(5)) {
      case 0: s[at] = (char)(0x20 + r.below(0x5F)); break;
      case 1: s.erase(at, 1 + r.below(4)); break;
      case 2: s.insert(at, 1, "<>[]:%"[r.below(6)]); break;
      case 3: s.resize(at); break;
      default: s.insert(at, std::string(1 + r.below(300), (char)('a' + r.below(26)))); break;
    }
  }
}

static void build_page(int kind, int mag, int page, int sub, unsigned ctrl, uint64_t seed, int flags, const Layout& L, std::vector<Line>& out) {
  Rng r(seed, "page");
  mag = ((mag - 1) & 7) + 1;
  page &= 0xFF;
  int pgno = mag * 256 + page;
  int m0 = mag & 7;
  std::vector<ttx::Packet> body, enh, ext;
  uint8_t text[32];
  { char t[48]; snprintf(t, sizeof t, "ZSIMTEXT%03X Network News AB12:34:%02d", pgno, (int)r.below(r.chance(1, 8) ? 60 : 1)); memcpy(text, t, 32);
    if (r.chance(1, 10)) for (int i = 0; i < 32; i++) if (r.chance(1, 4)) text[i] = (uint8_t)r.below(128); }
  ttx::Packet hdr = ttx::header(mag, page, sub, ctrl, text);
  auto nib_row = [&](int y, int lo, int hi) { uint8_t n[40] = {0}; for (auto& x : n) x = (uint8_t)(lo + r.below((uint64_t)(hi - lo + 1))); body.push_back(nibble_packet(mag, y, n)); };
  auto text_row = [&](int y, int style) { uint8_t c[40]; gen_row(r, style, c); body.push_back(ttx::row(mag, y, c)); };
  auto top_link = [&](uint8_t* n, int pg, int sb, int fn) { n[0] = (uint8_t)(pg >> 8); n[1] = (uint8_t)((pg >> 4) & 15); n[2] = (uint8_t)(pg & 15); n[3] = (uint8_t)((sb >> 12) & 15); n[4] = (uint8_t)((sb >> 8) & 15); n[5] = (uint8_t)((sb >> 4) & 15); n[6] = (uint8_t)(sb & 15); n[7] = (uint8_t)fn; };
  switch (kind) {
    case K_LOP: case K_LOP_X26: case K_LOP_OBJ: case K_LOP_LOCAL: case K_LOP_PDC: {
      int style = (int)r.below(7);
      int density = (flags & PF_DENSE) ? 3 : (int)r.below(4);
      for (int y = 1; y <= 23; y++) if (density == 3 || r.below(4) <= (uint64_t)density) text_row(y, r.chance(1, 3) ? (int)r.below(7) : style);
      if (flags & PF_ROW24) text_row(24, r.chance(1, 2) ? 0 : 6);
      if (flags & PF_ROW25) text_row(25, 5);
      if (kind != K_LOP) {
        std::vector<uint32_t> t; build_x26(r, L, kind - K_LOP_X26, t);
        for (size_t d = 0; d * 13 < t.size() && d < 16; d++) {
          int des = (int)d;
          if (r.chance(1, 40)) des = (int)r.below(16);  // out of sequence designation
          enh.push_back(trip_packet(mag, 26, des, &t[d * 13]));
        }
      }
      break;
    }
    case K_POP: case K_GPOP: {
      // 39*13 triplets: packets 3..25 then 26/0..15
      uint32_t T[507];
      for (auto& v : T) v = r.chance(1, 3) ? trip(63, 0x1F, 0) : rand_triplet(r, true);
      uint32_t P[4][13];
      for (auto& pk : P) for (auto& v : pk) v = r.chance(1, 4) ? (uint32_t)r.below(1 << 18) : 0x3FFFF;
      int nobj = r.chance(3, 4) ? 12 : 1 + (int)r.below(12);
      for (int k = 0; k < nobj; k++) {
        int t = obj_type(k), tri = (k / 3) * 3 + t, ptr = obj_ptr(k);
        P[0][tri] = (uint32_t)ptr | (0x1FFu << 9);
        T[ptr] = trip(40, 0x14 + t, obj_data(k, sub));
        int len = 1 + (int)r.below(20);
        for (int i = 1; i <= len && ptr + i < 507; i++) T[ptr + i] = rand_triplet(r, false);
        // nested invocation of a higher type object, and of an equal / lower one (must be refused)
        if (r.chance(1, 2) && ptr + 2 < 507) {
          // any object, or itself / another one of its own type (EN 300 706 13.2: must be refused, else the invocation recurses for ever)
          int target = r.chance(1, 2) ? (int)r.below(12) : r.chance(1, 2) ? k : (k + 3 * (1 + (int)r.below(3))) % 12;
          T[ptr + 1 + (int)r.below((uint64_t)len)] = obj_invocation(target, kind == K_GPOP || r.chance(1, 3), sub);
        }
        if (ptr + len + 1 < 507) T[ptr + len + 1] = trip(63, 0x1F, 0);
      }
      if (r.chance(1, 4)) for (int i = 0; i < 13; i++) P[(int)r.below(4)][i] = (uint32_t)r.below(1 << 18);  // wild pointers
      int npp = r.chance(1, 3) ? 4 : 2;
      for (int p = 1; p <= npp; p++) body.push_back(trip_packet(mag, p, r.chance(15, 16) ? 1 : (int)r.below(16), P[p - 1]));
      for (int p = npp + 1; p <= 25; p++) if (r.chance(5, 6)) body.push_back(trip_packet(mag, p, r.chance(15, 16) ? 0 : (int)r.below(16), &T[(p - 3) * 13]));
      int n26 = (int)r.below(17);
      for (int d = 0; d < n26; d++) enh.push_back(trip_packet(mag, 26, d, &T[(23 + d) * 13]));
      break;
    }
    case K_DRCS: case K_GDRCS: {
      for (int y = 1; y <= 24; y++) if (r.chance(9, 10)) {
        uint8_t c[40]; for (auto& x : c) x = (uint8_t)(r.chance(49, 50) ? 0x40 + r.below(0x40) : r.below(128));
        body.push_back(ttx::row(mag, y, c));
      }
      flags |= r.chance(3, 4) ? PF_X28_3 : 0;
      break;
    }
    case K_MOT: {
      for (int y = 1; y <= 8; y++) if (r.chance(5, 6)) { uint8_t n[40] = {0}; for (int i = 0; i < 40; i += 2) { n[i] = (uint8_t)(r.chance(7, 8) ? 1 + r.below(2) : r.below(16)); n[i + 1] = (uint8_t)(r.chance(7, 8) ? 1 + r.below(2) : r.below(16)); } body.push_back(nibble_packet(mag, y, n)); }
      for (int y = 9; y <= 14; y++) if (r.chance(1, 2)) nib_row(y, 0, r.chance(1, 2) ? 3 : 15);
      auto pop_row = [&](int y) {
        uint8_t n[40] = {0};
        for (int i = 0; i < 4; i++) {
          int target = i == 0 ? L.gpop : L.pop[(i - 1) & 1];
          if (r.chance(1, 16)) target = rand_pgno(r);
          uint8_t* q = n + i * 10;
          q[0] = (uint8_t)((target >> 8) & 7); q[1] = (uint8_t)((target >> 4) & 15); q[2] = (uint8_t)(target & 15); q[3] = (uint8_t)r.below(16);
          q[4] = (uint8_t)r.below(16);
          int k0 = (int)r.below(12), k1 = (int)r.below(12);
          int t0 = r.chance(1, 4) ? 0 : obj_type(k0), t1 = r.chance(1, 2) ? 0 : obj_type(k1);
          q[5] = (uint8_t)(t0 | t1 << 2);
          int a0 = obj_data(k0, 0), a1 = obj_data(k1, 0);
          if (r.chance(1, 8)) a0 = (int)r.below(256);
          q[6] = (uint8_t)(a0 & 15); q[7] = (uint8_t)(a0 >> 4); q[8] = (uint8_t)(a1 & 15); q[9] = (uint8_t)(a1 >> 4);
        }
        body.push_back(nibble_packet(mag, y, n));
      };
      auto drcs_row = [&](int y) {
        uint8_t n[40] = {0};
        for (int i = 0; i < 8; i++) { int target = i == 0 ? L.gdrcs : L.drcs[(i - 1) & 1]; if (r.chance(1, 8)) target = rand_pgno(r);
          n[i * 4] = (uint8_t)((target >> 8) & 7); n[i * 4 + 1] = (uint8_t)((target >> 4) & 15); n[i * 4 + 2] = (uint8_t)(target & 15); n[i * 4 + 3] = (uint8_t)r.below(16); }
        body.push_back(nibble_packet(mag, y, n));
      };
      if (r.chance(15, 16)) pop_row(19);
      if (r.chance(1, 2)) pop_row(20);
      if (r.chance(15, 16)) drcs_row(21);
      if (r.chance(1, 3)) pop_row(22);
      if (r.chance(1, 3)) pop_row(23);
      if (r.chance(1, 3)) drcs_row(24);
      for (int y = 15; y <= 18; y++) if (r.chance(1, 6)) nib_row(y, 0, 15);
      break;
    }
    case K_MIP: {
      static const int codes[] = {0x00, 0x01, 0x01, 0x01, 0x02, 0x10, 0x4F, 0x50, 0x51, 0x52, 0x70, 0x73, 0x77, 0x78, 0x79, 0x7A, 0x7B, 0x7C, 0x7D, 0x7E, 0x7F, 0x80, 0x81, 0x82, 0xCF, 0xD0, 0xD1, 0xD5,
                                  0xE0, 0xE1, 0xE2, 0xE3, 0xE4, 0xE5, 0xE6, 0xE7, 0xE8, 0xEB, 0xEC, 0xEF, 0xF0, 0xF3, 0xF4, 0xF7, 0xF8, 0xF9, 0xFA, 0xFC, 0xFD, 0xFE, 0xFF};
      bool subpage_heavy = r.chance(1, 5);  // every page refers to the sub-page table in packets 15-25 (more than 10 x 13 entries)
      auto code_for = [&](int pg) -> int {
        if (subpage_heavy) { static const int sc[] = {0x50, 0x51, 0xD0, 0xD1, 0xE0, 0xE1, 0x7B, 0xF8, 0x51, 0x51}; return sc[r.below(10)]; }
        if (r.chance(7, 8)) {
          if (pg == L.gpop || pg == L.pop[0] || pg == L.pop[1]) return r.chance(1, 2) ? 0xE6 : 0xEC + (int)r.below(4);
          if (pg == L.gdrcs || pg == L.drcs[0] || pg == L.drcs[1]) return r.chance(1, 2) ? 0xE5 : 0xE8 + (int)r.below(4);
        }
        if (r.chance(1, 2)) return 0x01;
        if (r.chance(1, 12)) return (int)r.below(256);
        return codes[r.below(sizeof codes / sizeof codes[0])];
      };
      for (int y = 1; y <= 8; y++) if (r.chance(5, 6)) {
        uint8_t n[40] = {0}; int base = mag * 256 + (y - 1) * 0x20;
        for (int i = 0; i < 20; i++) { int pg = base + (i < 10 ? i : 0x10 + i - 10); int c = code_for(pg); n[2 * i] = (uint8_t)(c & 15); n[2 * i + 1] = (uint8_t)(c >> 4); }
        body.push_back(nibble_packet(mag, y, n));
      }
      for (int y = 9; y <= 14; y++) if (r.chance(4, 6)) {
        uint8_t n[40] = {0}; int base = mag * 256 + (y - 9) * 0x30;
        for (int i = 0; i < 18; i++) { int pg = base + (i / 6) * 0x10 + 0x0A + i % 6; int c = code_for(pg); n[2 * i] = (uint8_t)(c & 15); n[2 * i + 1] = (uint8_t)(c >> 4); }
        n[36] = n[37] = n[38] = n[39] = (uint8_t)r.below(16);
        body.push_back(nibble_packet(mag, y, n));
      }
      for (int y = 15; y <= 25; y++) if (subpage_heavy || r.chance(1, 2)) nib_row(y, subpage_heavy ? 2 : 0, r.chance(1, 2) ? 9 : 15);
      break;
    }
    case K_BTT: {
      for (int y = 1; y <= 20; y++) if (r.chance(3, 4)) nib_row(y, 0, r.chance(3, 4) ? 11 : 15);
      for (int y = 21; y <= 23; y++) if (y < 23 ? r.chance(5, 6) : r.chance(1, 3)) {
        uint8_t n[40] = {0};
        for (int i = 0; i < 5; i++) {
          int which = (int)r.below(5);
          int pg = which == 0 ? L.ait : which == 1 ? L.mpt : which == 2 ? L.mptex : which == 3 ? L.ait : rand_pgno(r);
          int fn = which == 0 || which == 3 ? 2 : which == 1 ? 1 : which == 2 ? 3 : (int)r.below(16);
          if (r.chance(1, 10)) pg = (int)r.below(0x1000);
          top_link(n + i * 8, pg, r.chance(3, 4) ? 0 : (int)r.below(0x10000), fn);
        }
        body.push_back(nibble_packet(mag, y, n));
      }
      break;
    }
    case K_AIT: {
      for (int y = 1; y <= 23; y++) if (r.chance(3, 4)) {
        ttx::Packet p; memset(&p, 0, sizeof p); ttx::mrag(p, mag, y);
        for (int e = 0; e < 2; e++) {
          uint8_t n[8] = {0}; top_link(n, r.chance(7, 8) ? rand_pgno(r) : (int)r.below(0x1000), r.chance(1, 2) ? 0 : (int)r.below(0x10000), (int)r.below(4));
          for (int i = 0; i < 8; i++) p.b[2 + e * 20 + i] = tx::ham84(n[i]);
          const char* w = kWords[r.below(sizeof kWords / sizeof kWords[0])];
          for (int i = 0; i < 12; i++) p.b[2 + e * 20 + 8 + i] = tx::odd_parity((uint8_t)(i < (int)strlen(w) ? w[i] : (r.chance(1, 20) ? r.below(128) : 0x20)));
        }
        body.push_back(p);
      }
      break;
    }
    case K_MPT: for (int y = 1; y <= 23; y++) if (r.chance(3, 4)) nib_row(y, 0, r.chance(3, 4) ? 9 : 15); break;
    case K_MPTEX: {
      for (int y = 1; y <= 23; y++) if (r.chance(3, 4)) {
        uint8_t n[40] = {0};
        for (int i = 0; i < 5; i++) top_link(n + i * 8, r.chance(7, 8) ? rand_pgno(r) : (int)r.below(0x1000), (int)r.below(0x10000), (int)r.below(16));
        body.push_back(nibble_packet(mag, y, n));
      }
      break;
    }
    case K_TRIGGER: {
      std::string all;
      int n = 1 + (int)r.below(4);
      for (int i = 0; i < n; i++) { std::string s; trigger_string(r, s); all += s; all += std::string(r.below(30), ' '); }
      for (int y = 1; y <= 24 && !all.empty(); y++) {
        uint8_t c[40]; for (int i = 0; i < 40; i++) c[i] = (uint8_t)(i < (int)all.size() ? all[(size_t)i] & 0x7F : 0x20);
        all.erase(0, std::min<size_t>(40, all.size()));
        body.push_back(ttx::row(mag, y, c));
      }
      if (r.chance(1, 3)) { std::vector<uint32_t> t; build_x26(r, L, 0, t); enh.push_back(trip_packet(mag, 26, 0, &t[0])); }
      break;
    }
    case K_NIBBLE: {
      for (int y = 1; y <= 25; y++) if (r.chance(1, 2)) {
        switch (r.below(4)) {
          case 0: nib_row(y, 0, 15); break;
          case 1: text_row(y, 5); break;
          case 2: { uint32_t v[13]; for (auto& x : v) x = (uint32_t)r.below(1 << 18); body.push_back(trip_packet(mag, y, (int)r.below(16), v)); break; }
          default: { ttx::Packet p; memset(&p, 0, sizeof p); ttx::mrag(p, mag, y); for (int i = 2; i < 42; i++) p.b[i] = (uint8_t)r.below(256); body.push_back(p); break; }
        }
      }
      if (r.chance(1, 3)) { std::vector<uint32_t> t; build_x26(r, L, (int)r.below(4), t); for (size_t d = 0; d * 13 < t.size() && d < 16; d++) enh.push_back(trip_packet(mag, 26, (int)d, &t[d * 13])); }
      break;
    }
    default: break;
  }
  // extension packets
  for (int d = 0; d < 4; d++) {
    if (!(flags & (d == 0 ? PF_X27_0 : PF_X27_123))) continue;
    if (d > 0 && !r.chance(1, 2)) continue;
    ttx::Packet p; memset(&p, 0, sizeof p); ttx::mrag(p, mag, 27);
    p.b[2] = tx::ham84((unsigned)d);
    for (int i = 0; i < 6; i++) {
      unsigned v[6]; int tp = r.chance(1, 6) ? (rand_pgno(r) | 0xFF) : rand_pgno(r);
      link_nibbles(tp, r.chance(1, 2) ? 0x3F7F : (int)r.below(0x4000), m0, v);
      for (int k = 0; k < 6; k++) p.b[3 + i * 6 + k] = tx::ham84(v[k]);
    }
    p.b[39] = tx::ham84((unsigned)r.below(16)); p.b[40] = (uint8_t)r.below(256); p.b[41] = (uint8_t)r.below(256);
    ext.push_back(p);
  }
  for (int d = 4; d <= 5; d++) {
    if (!(flags & (d == 4 ? PF_X27_4 : PF_X27_5))) continue;
    uint32_t v[13];
    for (int i = 0; i < 6; i++) {
      int tp = d == 4 ? (i == 0 ? L.gpop : i == 1 ? (r.chance(1, 2) ? L.pop[0] : L.drcs[0]) : i == 2 ? L.gdrcs : i == 3 ? L.drcs[1] : rand_pgno(r)) : rand_pgno(r);
      if (r.chance(1, 8)) tp = rand_pgno(r) | (r.chance(1, 2) ? 0xFF : 0);
      int rel = ((tp >> 8) & 7) ^ m0;
      v[2 * i] = (uint32_t)(r.below(4)) | (uint32_t)(r.below(4) << 2) | (uint32_t)((tp & 15) << 7) | (uint32_t)(rel << 12) | (uint32_t)(((tp >> 4) & 7) << 15);
      v[2 * i + 1] = (uint32_t)r.below(1 << 18);
    }
    v[12] = (uint32_t)r.below(1 << 18);
    ext.push_back(trip_packet(mag, 27, d, v));
  }
  auto x28_0 = [&](int y, int d) {
    BitW w;
    w.put(r.chance(9, 10) ? 0 : (unsigned)r.below(16), 4); w.put((unsigned)r.below(8), 3);
    w.put(r.chance(1, 2) ? (unsigned)r.below(88) : (unsigned)r.below(128), 7); w.put((unsigned)r.below(128), 7);
    w.put((unsigned)r.below(2), 1); w.put((unsigned)r.below(2), 1); w.put((unsigned)r.below(2), 1); w.put((unsigned)r.below(16), 4);
    for (int i = 0; i < 16; i++) w.put((unsigned)r.below(4096), 12);
    w.put((unsigned)r.below(32), 5); w.put((unsigned)r.below(32), 5); w.put((unsigned)r.below(2), 1); w.put((unsigned)r.below(8), 3);
    ext.push_back(trip_packet(mag, y, d, w.t));
  };
  auto x28_1 = [&](int y) { uint32_t v[13]; for (auto& x : v) x = (uint32_t)r.below(1 << 18); ext.push_back(trip_packet(mag, y, 1, v)); };
  if (flags & PF_X28_0) x28_0(28, 0);
  if (flags & PF_X28_4) x28_0(28, 4);
  if (flags & PF_X28_1) x28_1(28);
  if (flags & PF_X28_3) {
    BitW w; int fn = kind == K_GDRCS ? 4 : kind == K_DRCS ? 5 : (int)r.below(16);
    if (r.chance(1, 12)) fn = (int)r.below(16);
    w.put((unsigned)fn, 4); w.put((unsigned)r.below(8), 3); w.put((unsigned)r.below(2048), 11);
    int style = (int)r.below(4);
    for (int i = 0; i < 48; i++) w.put(style == 0 ? 0u : style == 1 ? (unsigned)r.below(4) : style == 2 ? (unsigned)r.below(16) : (i % 4 ? 14u : 2u), 4);
    ext.push_back(trip_packet(mag, 28, 3, w.t));
  }
  if (flags & PF_M29_0) x28_0(29, 0);
  if (flags & PF_M29_4) x28_0(29, 4);
  if (flags & PF_M29_1) x28_1(29);
  // order: header, then (enhancement first | rows first), shuffled on demand
  std::vector<ttx::Packet> seq;
  if (flags & PF_ENH_FIRST) { seq.insert(seq.end(), ext.begin(), ext.end()); seq.insert(seq.end(), enh.begin(), enh.end()); seq.insert(seq.end(), body.begin(), body.end()); }
  else { seq.insert(seq.end(), body.begin(), body.end()); seq.insert(seq.end(), ext.begin(), ext.end()); seq.insert(seq.end(), enh.begin(), enh.end()); }
  if (flags & PF_SHUFFLE) for (size_t i = seq.size(); i > 1; i--) { size_t j = r.below(i); if (seq[i - 1].y != 26 || seq[j].y != 26) std::swap(seq[i - 1], seq[j]); }
  int reps = (flags & PF_TWICE) ? 2 : 1;
  for (int k = 0; k < reps; k++) {
    out.push_back(ttx_line(hdr));
    for (auto& p : seq) out.push_back(ttx_line(p));
    if (k + 1 < reps || (flags & PF_FILLER)) {  // a time filling header ends the page
      uint8_t t2[32]; memcpy(t2, text, 32);
      out.push_back(ttx_line(ttx::header(mag, 0xFF, 0x3F7F, ctrl & ~(unsigned)ttx::C4_ERASE, t2)));
    }
  }
}

// ----------------------------------------------------------- caption side ---
static Line cc_pair(int field, int b0, int b1, bool parity = true) {
  Line l; memset(&l, 0, sizeof l);
  l.id = VBI_SLICED_CAPTION_525; l.line = field == 2 ? 284 : 21;
  l.d[0] = parity ? tx::odd_parity((uint8_t)b0) : (uint8_t)b0; l.d[1] = parity ? tx::odd_parity((uint8_t)b1) : (uint8_t)b1;
  return l;
}
// channel 0..7 = CC1 CC2 CC3 CC4 T1 T2 T3 T4
static inline int ch_field(int ch) { return (ch & 2) ? 2 : 1; }
static void build_caption(int ch, uint64_t seed, int n, std::vector<Line>& out) {
  Rng r(seed, "cc");
  ch &= 7;
  int f = ch_field(ch), cb = (ch & 1) << 3;
  bool text = ch >= 4;
  auto ctl = [&](int b0, int b1) { out.push_back(cc_pair(f, b0 | cb, b1)); if (f == 1 && r.chance(4, 5)) out.push_back(cc_pair(f, b0 | cb, b1)); };
  // select the channel / mode
  static const int cap_modes[] = {0x20, 0x25, 0x26, 0x27, 0x29};
  ctl(0x14, text ? (r.chance(1, 2) ? 0x2A : 0x2B) : cap_modes[r.below(5)]);
  for (int i = 0; i < n; i++) {
    switch (r.below(12)) {
      case 0: { static const int b0s[] = {0x11, 0x12, 0x15, 0x16, 0x17, 0x10, 0x13, 0x14}; ctl(b0s[r.below(8)], 0x40 + (int)r.below(0x40)); break; }  // PAC
      case 1: ctl(0x11, 0x20 + (int)r.below(0x20)); break;                          // mid-row / special
      case 2: ctl(0x14 + (int)r.below(2), 0x20 + (int)r.below(0x10)); break;        // misc control
      case 3: ctl(0x17, 0x21 + (int)r.below(3)); break;                             // tab
      case 4: ctl(0x12 + (int)r.below(2), 0x20 + (int)r.below(0x20)); break;        // extended chars
      case 5: ctl(0x10 + (int)r.below(8), 0x20 + (int)r.below(0x60)); break;        // anything in the control range
      case 6: ctl(0x14, r.chance(1, 2) ? 0x2D : 0x2F); break;                       // CR / EOC
      case 7: out.push_back(cc_pair(f, 0, 0)); break;                               // NUL pair
      default: {
        int len = 1 + (int)r.below(20);
        for (int k = 0; k < len; k++) out.push_back(cc_pair(f, 0x20 + (int)r.below(0x60), r.chance(1, 10) ? 0 : 0x20 + (int)r.below(0x60)));
        break;
      }
    }
  }
}
static void build_itv(uint64_t seed, std::vector<Line>& out) {
  Rng r(seed, "itv");
  std::string s; trigger_string(r, s);
  if (r.chance(1, 2)) {  // append the ATVEF checksum field so that some triggers pass
    unsigned sum = 0; std::string t = s;
    if (t.size() & 1) t += '\0';
    for (size_t i = 0; i + 1 < t.size(); i += 2) { sum += (unsigned)((unsigned char)t[i] << 8 | (unsigned char)t[i + 1]); }
    while (sum >> 16) sum = (sum & 0xFFFF) + (sum >> 16);
    char b[8]; snprintf(b, sizeof b, "[%04X]", (~sum) & 0xFFFF); s += b;
  }
  out.push_back(cc_pair(1, 0x1C, 0x2A)); out.push_back(cc_pair(1, 0x1C, 0x2A));  // T2: text restart
  for (size_t i = 0; i < s.size(); i += 2) out.push_back(cc_pair(1, s[i] & 0x7F, i + 1 < s.size() ? s[i + 1] & 0x7F : 0));
  if (r.chance(5, 6)) { out.push_back(cc_pair(1, 0x1C, 0x2D)); out.push_back(cc_pair(1, 0x1C, 0x2D)); }  // CR ends the trigger
}
// XDS packet of any class / type, declared length 0..40, fault: 0 none, 1 bad checksum, 2 parity error inside,
// 3 no terminator, 4 NUL padded middle pair, 5 interrupted by a caption control code and continued
static void build_xds(int cls, int type, int len, uint64_t seed, int fault, int fa, std::vector<Line>& out) {
  Rng r(seed, "xds");
  cls = um(cls, 7); type &= 0x7F; len = um(len, 41);
  std::string pl;
  static const char* const names[] = {"ZSIM NETWORK", "The Late Show with A Very Long Title", "WXYZ", "News", ""};
  bool binary = r.chance(1, 2);
  const char* nm = names[r.below(5)];
  for (int i = 0; i < len; i++) pl += binary ? (char)(0x40 | r.below(0x40)) : (i < (int)strlen(nm) ? nm[i] : (char)(0x20 + r.below(0x60)));
  if (r.chance(1, 8)) for (auto& c : pl) c = (char)r.below(128);
  int c1 = cls * 2 + 1, c2 = type;
  unsigned sum = (unsigned)(c1 + c2);
  out.push_back(cc_pair(2, c1, c2));
  size_t npairs = (pl.size() + 1) / 2;
  for (size_t k = 0; k < npairs; k++) {
    int a = (unsigned char)pl[2 * k] & 0x7F, b = 2 * k + 1 < pl.size() ? (unsigned char)pl[2 * k + 1] & 0x7F : 0;
    if (fault == 4 && npairs > 1 && k == (size_t)um(fa, (int)npairs)) b = 0;
    sum += (unsigned)(a + b);
    Line l = cc_pair(2, a, b);
    if (fault == 2 && k == (size_t)um(fa, (int)npairs)) l.d[fa & 64 ? 0 : 1] ^= 0x80;
    out.push_back(l);
    if (fault == 5 && k == (size_t)um(fa, (int)npairs)) {
      out.push_back(cc_pair(2, 0x14, 0x2C)); out.push_back(cc_pair(2, 0x41, 0x42));
      out.push_back(cc_pair(2, cls * 2 + 2, c2));  // continue code
    }
  }
  if (fault != 3) {
    int ck = (int)((0x80 - ((sum + 0x0F) & 0x7F)) & 0x7F);
    if (fault == 1) ck = (ck + 1 + um(fa, 126)) & 0x7F;
    out.push_back(cc_pair(2, 0x0F, ck));
  }
}

// -------------------------------------------------------------- misc lines --
static const int kCni[] = {0x0DC1, 0x0DC2, 0x0DC3, 0x0D85, 0x0490, 0x0000, 0x04C1, 0x2C7F, 0x0FFF, 0x1234, 0xFFFF};
static Line vps_line(uint64_t seed) {
  Rng r(seed, "vps");
  Line l; memset(&l, 0, sizeof l); l.id = VBI_SLICED_VPS; l.line = 16;
  for (int i = 0; i < 13; i++) l.d[i] = (uint8_t)r.below(256);
  if (r.chance(3, 4)) {  // ETS 300 231 layout with a CNI from the table
    unsigned cni = (unsigned)kCni[r.below(sizeof kCni / sizeof kCni[0])];
    l.d[10] = (uint8_t)((l.d[10] & 0xFC) | ((cni >> 10) & 3));
    l.d[8] = (uint8_t)((l.d[8] & 0x3F) | (cni & 0xC0));
    l.d[11] = (uint8_t)(((cni >> 2) & 0xC0) | (cni & 0x3F));
    l.d[2] = (uint8_t)((l.d[2] & 0xF0) | ((cni >> 12) & 15));
  }
  return l;
}
static Line wss_line(uint64_t seed, bool cpr) {
  Rng r(seed, "wss");
  Line l; memset(&l, 0, sizeof l);
  if (cpr) { l.id = VBI_SLICED_WSS_CPR1204; l.line = 20; for (int i = 0; i < 3; i++) l.d[i] = (uint8_t)r.below(256); }
  else {
    l.id = VBI_SLICED_WSS_625; l.line = 23;
    static const int ar[] = {0x08, 0x01, 0x02, 0x0B, 0x04, 0x0D, 0x0E, 0x07};
    l.d[0] = (uint8_t)(r.chance(3, 4) ? ar[r.below(8)] | (int)(r.below(16) << 4) : (int)r.below(256)); l.d[1] = (uint8_t)r.below(256);
  }
  return l;
}
static Line p830_line(uint64_t seed) {
  Rng r(seed, "830");
  ttx::Packet p; memset(&p, 0, sizeof p); ttx::mrag(p, 8, 30 + (r.chance(1, 8) ? 1 : 0));
  int des = r.chance(7, 8) ? (int)r.below(4) : (int)r.below(16);
  p.b[2] = tx::ham84((unsigned)des);
  unsigned v[6]; link_nibbles(r.chance(1, 4) ? (rand_pgno(r) | 0xFF) : rand_pgno(r), r.chance(1, 2) ? 0x3F7F : (int)r.below(0x4000), 0, v);
  for (int k = 0; k < 6; k++) p.b[3 + k] = tx::ham84(v[k]);
  unsigned cni = (unsigned)kCni[r.below(sizeof kCni / sizeof kCni[0])];
  if (des < 2) {
    p.b[9] = tx::rev8((uint8_t)(cni >> 8)); p.b[10] = tx::rev8((uint8_t)cni);
    for (int i = 11; i < 22; i++) p.b[i] = (uint8_t)(r.chance(1, 2) ? r.below(256) : ((1 + r.below(10)) << 4 | (1 + r.below(10))));
  } else {
    for (int i = 9; i < 22; i++) p.b[i] = tx::ham84((unsigned)r.below(16));
  }
  for (int i = 22; i < 42; i++) p.b[i] = tx::odd_parity((uint8_t)(0x20 + r.below(0x60)));
  if (r.chance(1, 8)) for (int i = 3; i < 42; i++) if (r.chance(1, 6)) p.b[i] = (uint8_t)r.below(256);
  return ttx_line(p);
}
static Line random_line(Rng& r) {
  static const uint32_t ids[] = {0, VBI_SLICED_TELETEXT_B, VBI_SLICED_TELETEXT_B_L10_625, VBI_SLICED_TELETEXT_B_L25_625, VBI_SLICED_VPS, VBI_SLICED_VPS_F2, VBI_SLICED_CAPTION_625,
                                 VBI_SLICED_CAPTION_625_F1, VBI_SLICED_CAPTION_625_F2, VBI_SLICED_CAPTION_525, VBI_SLICED_CAPTION_525_F1, VBI_SLICED_CAPTION_525_F2, VBI_SLICED_2xCAPTION_525,
                                 VBI_SLICED_WSS_625, VBI_SLICED_WSS_CPR1204, VBI_SLICED_TELETEXT_A, VBI_SLICED_NABTS, VBI_SLICED_TELETEXT_BD_525, VBI_SLICED_VBI_625, VBI_SLICED_VBI_525, 0xFFFFFFFFu};
  static const uint32_t lines[] = {0, 7, 16, 21, 22, 23, 20, 284, 335, 318, 1, 625, 700, 0x7FFFFFFF, 0xFFFFFFFFu};
  Line l; memset(&l, 0, sizeof l);
  l.id = r.chance(3, 4) ? ids[r.below(sizeof ids / sizeof ids[0])] : (uint32_t)r.next();
  l.line = r.chance(3, 4) ? lines[r.below(sizeof lines / sizeof lines[0])] : (uint32_t)r.below(1000);
  int style = (int)r.below(4);
  for (int i = 0; i < 56; i++) l.d[i] = style == 0 ? (uint8_t)r.below(256) : style == 1 ? tx::ham84((unsigned)r.below(16)) : style == 2 ? tx::odd_parity((uint8_t)r.below(128)) : (uint8_t)(r.chance(1, 2) ? 0 : 0xFF);
  return l;
}

// channel faults applied to the lines one op emits
enum ChFault { CF_NONE = 0, CF_BIT, CF_BITS2, CF_BURST, CF_BYTE, CF_DROP, CF_DUP, CF_SWAP, CF_ID, CF_LINE, CF_N };
static const char* const cf_name[] = {"none", "bitflip", "bitflip2", "burst", "byte", "drop", "dup", "reorder", "wrong_id", "wrong_line"};
static int payload_bytes(const Line& l) { return (l.id & VBI_SLICED_TELETEXT_B) ? 42 : (l.id & VBI_SLICED_VPS) ? 13 : (l.id & VBI_SLICED_WSS_CPR1204) ? 3 : 2; }
static bool apply_fault(std::vector<Line>& ls, int kind, int64_t a, int64_t b, int64_t c) {
  if (ls.empty() || kind <= CF_NONE || kind >= CF_N) return false;
  size_t i = (size_t)um(a, (int)ls.size());
  int nb = payload_bytes(ls[i]) * 8;
  switch (kind) {
    case CF_BIT: ls[i].d[um(b, nb) / 8] ^= (uint8_t)(1 << (um(b, nb) % 8)); break;
    case CF_BITS2: ls[i].d[um(b, nb) / 8] ^= (uint8_t)(1 << (um(b, nb) % 8)); ls[i].d[um(c, nb) / 8] ^= (uint8_t)(1 << (um(c, nb) % 8)); break;
    case CF_BURST: { int s = um(b, nb), n = 2 + um(c, 15); for (int k = s; k < s + n && k < nb; k++) ls[i].d[k / 8] ^= (uint8_t)(1 << (k % 8)); break; }
    case CF_BYTE: ls[i].d[um(b, nb / 8)] = (uint8_t)um(c, 256); break;
    case CF_DROP: ls.erase(ls.begin() + (long)i); break;
    case CF_DUP: { Line l = ls[i]; ls.insert(ls.begin() + (long)um(b, (int)ls.size() + 1), l); break; }
    case CF_SWAP: std::swap(ls[i], ls[(size_t)um(b, (int)ls.size())]); break;
    case CF_ID: { static const uint32_t ids[] = {VBI_SLICED_TELETEXT_B, VBI_SLICED_CAPTION_525, VBI_SLICED_CAPTION_625, VBI_SLICED_VPS, VBI_SLICED_WSS_625, VBI_SLICED_WSS_CPR1204, 0}; ls[i].id = ids[um(b, 7)]; break; }
    case CF_LINE: { static const uint32_t lines[] = {21, 22, 284, 335, 16, 23, 0, 7, 318}; ls[i].line = lines[um(b, 9)]; break; }
    default: return false;
  }
  return true;
}

// ------------------------------------------------------------------ world ---
static const uint16_t kPat[][24] = {
  {'N', 'E', 'W', 'S', 0}, {'1', '0', '0', 0}, {'Q', 'Q', 'Q', 0}, {'[', '0', '-', '9', ']', '+', 0}, {'a', '.', '*', 'b', 0}, {'(', 'n', 'e', '|', 'S', 'p', ')', '.', 0},
  {'^', 'Z', 'S', 'I', 'M', 0}, {'\\', 'd', '{', '2', ',', '3', '}', 0}, {'[', '^', 'a', '-', 'z', ']', '*', '$', 0}, {'w', 'w', 'w', '\\', '.', 0}, {'(', '(', 'a', ')', '*', ')', '*', 'b', 0},
  {'[', 0}, {'(', 0}, {'*', 0}, {'\\', 0}, {0}, {0xE9, 0x20AC, 0}, {'x', '{', '9', '9', '9', '}', 0}, {'.', '?', '+', '*', 0}, {'[', ':', 'a', 'l', 'p', 'h', 'a', ':', ']', '+', 0},
  {'\\', 'w', '+', '@', '\\', 'w', '+', 0}, {'a', '|', 'b', '|', 'c', '|', 0}, {'[', 'z', '-', 'a', ']', 0}, {'\\', 'x', '{', '4', '1', '}', 0}, {' ', ' ', ' ', 0},
  {'\\', 'p', '{', 'L', 'u', '}', '+', 0}, {'\\', 'S', '+', '\\', 's', '\\', 'D', 0}, {'[', '[', ':', 'd', 'i', 'g', 'i', 't', ':', ']', ']', '{', '3', '}', 0}, {'^', '$', 0}, {'(', 'a', '|', ')', '+', 0},
  {'\\', 'U', '\\', 'L', '\\', 'u', '\\', 'l', 0}, {'[', '\\', ']', ']', 0}, {'a', '{', '2', ',', '}', 0}, {'a', '{', ',', '3', '}', 0}, {'\\', 'N', '{', '1', ',', '2', '}', 0}, {'[', 'a', '-', 0},
  {'W', 'e', 't', 't', 'e', 'r', ' ', '1', '5', '0', 0}, {'s', 'P', 'O', 'R', 'T', 0}, {'.', '{', '4', '0', '}', 0}, {0x41, 0x300, 0}, {0xFFFF, 0}, {'\\', 'b', 'p', '\\', 'B', 0}};
static const int kNPat = (int)(sizeof kPat / sizeof kPat[0]);

struct C01 : World {
  const char* name() const override { return "c01"; }
  const char* property() const override { return "C01"; }

  struct PageDef { int kind, mag, page, sub; unsigned ctrl; int flags; int64_t seed; };

  Plan generate(uint64_t seed, const std::string& tier) override {
    Plan p; p.world = name(); p.seed = seed;
    g_station_pages.clear();
    Rng r(seed, "plan");
    bool thorough = tier == "thorough";
    p.knobs["sched_seed"] = (int64_t)(r.next() >> 1);
    p.knobs["policy"] = (int64_t)r.below(3);
    p.knobs["pparam"] = (p.knobs["policy"] == 1) ? 30 + (int64_t)r.below(65) : (int64_t)r.below(4);
    p.knobs["frame_max"] = r.chance(1, 4) ? 1 + (int64_t)r.below(4) : 1 + (int64_t)r.below(40);
    p.knobs["mask0"] = r.chance(3, 4) ? 0xFFF : (int64_t)r.below(0x1000) | (r.chance(3, 4) ? 2 : 0);
    p.knobs["ts_step_us"] = r.chance(3, 4) ? 40000 : 33367;
    // station layout
    auto hexpage = [&](int mag) { static const int lo[] = {0xEA, 0xEB, 0xEC, 0xED, 0xEE, 0xEF, 0xF1, 0xF2, 0xAA, 0x1F, 0xCD, 0x99, 0x98}; return mag * 256 + lo[r.below(sizeof lo / sizeof lo[0])]; };
    int m1 = 1 + (int)r.below(8), m2 = r.chance(1, 2) ? m1 : 1 + (int)r.below(8);
    Layout L;
    L.gpop = hexpage(r.chance(1, 2) ? 1 : m1); L.pop[0] = hexpage(m1); L.pop[1] = hexpage(m2);
    L.gdrcs = hexpage(r.chance(1, 2) ? 1 : m1); L.drcs[0] = hexpage(m1); L.drcs[1] = hexpage(m2);
    L.ait = 0x100 + (r.chance(1, 2) ? 0xF1 : (int)r.below(256)); L.mpt = 0x100 + (r.chance(1, 2) ? 0xF2 : (int)r.below(256)); L.mptex = 0x100 + (r.chance(1, 2) ? 0xF3 : (int)r.below(256));
    p.knobs["gpop"] = L.gpop; p.knobs["pop0"] = L.pop[0]; p.knobs["pop1"] = L.pop[1];
    p.knobs["gdrcs"] = L.gdrcs; p.knobs["drcs0"] = L.drcs[0]; p.knobs["drcs1"] = L.drcs[1];
    p.knobs["ait"] = L.ait; p.knobs["mpt"] = L.mpt; p.knobs["mptex"] = L.mptex;
    // swarm: which sources and faults exist in this run
    bool faults = r.chance(2, 3);
    unsigned fmask = faults ? ((unsigned)r.below(1u << CF_N) | 2u) : 0;
    bool ts_faults = faults && r.chance(1, 2);
    bool level25 = r.chance(3, 4);
    bool src_ttx = r.chance(7, 8), src_cc = r.chance(1, 2), src_xds = r.chance(1, 3), src_itv = r.chance(1, 4), src_misc = r.chance(1, 3), src_rand = faults && r.chance(1, 3);
    if (!src_ttx && !src_cc && !src_xds) src_ttx = true;
    bool serial = r.chance(1, 3);
    // carousel
    std::vector<PageDef> car;
    int ncar = src_ttx ? 3 + (int)r.below(thorough ? 40 : 14) : 0;
    for (int i = 0; i < ncar; i++) {
      PageDef d; d.seed = (int64_t)r.below(1u << 30);
      d.mag = r.chance(2, 3) ? (r.chance(1, 2) ? m1 : m2) : 1 + (int)r.below(8);
      d.page = r.chance(4, 5) ? (int)(r.below(10) << 4 | r.below(10)) : (int)r.below(256);
      d.sub = r.chance(1, 2) ? 0 : r.chance(3, 4) ? 1 + (int)r.below(4) : (int)r.below(0x4000);
      d.ctrl = (serial ? ttx::C11_SERIAL : 0) | ttx::ctrl_national((int)r.below(8));
      if (r.chance(1, 3)) d.ctrl |= ttx::C4_ERASE;
      if (r.chance(1, 8)) d.ctrl |= (unsigned)r.below(1 << 11) << 4;
      d.flags = 0;
      for (int b = 0; b < 18; b++) if (r.chance(1, b == 10 || b == 16 ? 8 : 5)) d.flags |= 1 << b;
      d.flags &= ~(PF_X28_3);
      int k = (int)r.below(100);
      if (!level25) d.kind = k < 70 ? K_LOP : k < 80 ? K_LOP_X26 : k < 90 ? K_NIBBLE : K_HEADER;
      else if (k < 18) d.kind = K_LOP;
      else if (k < 28) d.kind = K_LOP_X26;
      else if (k < 44) d.kind = K_LOP_OBJ;
      else if (k < 50) d.kind = K_LOP_LOCAL;
      else if (k < 54) d.kind = K_LOP_PDC;
      else if (k < 60) { d.kind = K_POP; int t = L.pop[r.below(2)]; d.mag = t >> 8; d.page = t & 255; d.sub = r.chance(7, 8) ? 0 : (int)r.below(16); }
      else if (k < 65) { d.kind = K_GPOP; d.mag = L.gpop >> 8; d.page = L.gpop & 255; d.sub = r.chance(7, 8) ? 0 : (int)r.below(16); }
      else if (k < 71) { d.kind = K_DRCS; int t = L.drcs[r.below(2)]; d.mag = t >> 8; d.page = t & 255; d.sub = r.chance(3, 4) ? 0 : (int)r.below(16); }
      else if (k < 76) { d.kind = K_GDRCS; d.mag = L.gdrcs >> 8; d.page = L.gdrcs & 255; d.sub = r.chance(3, 4) ? 0 : (int)r.below(16); }
      else if (k < 81) { d.kind = K_MOT; d.page = 0xFE; d.sub = 0; }
      else if (k < 85) { d.kind = K_MIP; d.page = 0xFD; d.sub = 0; }
      else if (k < 89) { d.kind = K_BTT; d.mag = 1; d.page = 0xF0; d.sub = 0; }
      else if (k < 92) { d.kind = K_AIT; d.mag = L.ait >> 8; d.page = L.ait & 255; d.sub = 0; }
      else if (k < 94) { d.kind = K_MPT; d.mag = L.mpt >> 8; d.page = L.mpt & 255; d.sub = 0; }
      else if (k < 96) { d.kind = K_MPTEX; d.mag = L.mptex >> 8; d.page = L.mptex & 255; d.sub = 0; }
      else if (k < 98) { d.kind = K_TRIGGER; d.mag = 1; d.page = 0xE7; d.sub = 0; }
      else d.kind = r.chance(1, 2) ? K_NIBBLE : K_HEADER;
      if (d.kind == K_LOP_OBJ && r.chance(1, 2)) d.flags |= PF_X27_4;
      car.push_back(d);
    }
    // most Level 2.5 stations transmit the complete set an object invocation needs: MOT, (G)POP, (G)DRCS and pages using them
    if (src_ttx && level25 && r.chance(3, 4)) {
      auto core = [&](int kind, int pgno, int flags) {
        PageDef d; d.kind = kind; d.mag = pgno >> 8; d.page = pgno & 255; d.sub = 0; d.seed = (int64_t)r.below(1u << 30); d.flags = flags;
        d.ctrl = (serial ? ttx::C11_SERIAL : 0) | ttx::ctrl_national((int)r.below(8)) | (r.chance(1, 2) ? ttx::C4_ERASE : 0);
        car.push_back(d);
      };
      core(K_MOT, m1 * 256 + 0xFE, 0);
      core(K_GPOP, L.gpop, 0); core(K_POP, L.pop[0], 0); core(K_POP, L.pop[1], 0);
      core(K_GDRCS, L.gdrcs, 0); core(K_DRCS, L.drcs[0], 0); core(K_DRCS, L.drcs[1], 0);
      int n = 2 + (int)r.below(3);
      for (int i = 0; i < n; i++) core(r.chance(3, 4) ? K_LOP_OBJ : K_LOP, m1 * 256 + (int)(r.below(10) << 4 | r.below(10)), (r.chance(1, 3) ? PF_X27_4 : 0) | (r.chance(1, 4) ? PF_X28_0 : 0) | PF_DENSE);
      if (r.chance(1, 2)) core(K_MIP, m1 * 256 + 0xFD, 0);
    }
    // a station with TOP navigation transmits the complete set: the basic TOP table, the title page(s) it links, often the
    // multi-page tables (otherwise BTT and AIT meet in one carousel in a few runs in a thousand only, and page titles, TOP
    // labels and the TOP index page are built from nothing)
    if (src_ttx && r.chance(1, 3)) {
      auto top = [&](int kind, int pgno) {
        PageDef d; d.kind = kind; d.mag = pgno >> 8; d.page = pgno & 255; d.sub = 0; d.seed = (int64_t)r.below(1u << 30); d.flags = 0;
        d.ctrl = (serial ? ttx::C11_SERIAL : 0) | (r.chance(1, 2) ? ttx::C4_ERASE : 0);
        car.push_back(d);
      };
      top(K_BTT, 0x1F0); top(K_AIT, L.ait); if (r.chance(1, 2)) top(K_AIT, L.ait);
      if (r.chance(1, 2)) top(K_MPT, L.mpt);
      if (r.chance(1, 3)) top(K_MPTEX, L.mptex);
    }
    auto add_faults = [&](Op& o) {
      while (o.a.size() < 16) o.a.push_back(0);
      for (int s = 0; s < 2; s++) {
        if (!faults || !r.chance(1, s ? 12 : 4)) continue;
        int k = 1 + (int)r.below(CF_N - 1);
        if (!(fmask >> k & 1)) continue;
        o.a[8 + 4 * s] = k; o.a[9 + 4 * s] = (int64_t)r.below(64); o.a[10 + 4 * s] = (int64_t)r.below(336); o.a[11 + 4 * s] = (int64_t)r.below(336);
      }
    };
    int nbc = thorough ? 40 + (int)r.below(400) : 15 + (int)r.below(110);
    for (int i = 0; i < nbc; i++) {
      Op o; o.task = 0;
      int pick = (int)r.below(100);
      int flush = r.chance(1, 3);
      if (src_ttx && (pick < 60 || (!src_cc && !src_xds && !src_misc && pick < 90))) {
        PageDef d = car[r.below(car.size())];
        if (r.chance(1, 10)) d.seed = (int64_t)r.below(1u << 30);                       // content update
        if (r.chance(1, 10) && d.sub) d.sub = (d.sub & ~0xF) | (int)r.below(10);          // another subpage
        if (r.chance(1, 12)) d.flags ^= 1 << r.below(18);
        o.kind = "page"; o.a = {d.kind, d.mag, d.page, d.sub, (int64_t)d.ctrl, d.seed, d.flags, flush};
      } else if (src_cc && pick < 75) { o.kind = "cc"; o.a = {(int64_t)r.below(8), (int64_t)r.below(1u << 30), 1 + (int64_t)r.below(12), 0, 0, 0, 0, flush}; }
      else if (src_xds && pick < 85) {
        int cls = r.chance(7, 8) ? (int)r.below(4) : (int)r.below(7);
        int type = r.chance(3, 4) ? (int)r.below(0x18) : r.chance(1, 2) ? 0x40 + (int)r.below(0x10) : (int)r.below(0x80);
        int len = r.chance(1, 6) ? 31 + (int)r.below(10) : (int)r.below(33);
        int xf = faults && r.chance(1, 3) ? 1 + (int)r.below(5) : 0;
        o.kind = "xds"; o.a = {cls, type, len, (int64_t)r.below(r.chance(1, 2) ? 3 : 1u << 30), xf, (int64_t)r.below(64), 0, flush};
      } else if (src_itv && pick < 90) { o.kind = "itv"; o.a = {(int64_t)r.below(1u << 30), 0, 0, 0, 0, 0, 0, flush}; }
      else if (src_misc && pick < 96) {
        static const char* const mk[] = {"vps", "wss", "cpr", "p830"};
        o.kind = mk[r.below(4)]; o.a = {(int64_t)r.below(r.chance(1, 2) ? 4 : 1u << 30), 1 + (int64_t)r.below(4), 0, 0, 0, 0, 0, flush};
      } else if (src_rand && pick < 98) { o.kind = "rand"; o.a = {(int64_t)r.below(1u << 30), 1 + (int64_t)r.below(40), 0, 0, 0, 0, 0, flush}; }
      else if (ts_faults && r.chance(1, 2)) { o.kind = "ts"; o.a = {1 + (int64_t)r.below(7), (int64_t)r.below(1000)}; p.ops.push_back(o); continue; }
      else { o.kind = "idle"; o.a = {1 + (int64_t)r.below(r.chance(1, 4) ? 45 : 4)}; p.ops.push_back(o); continue; }
      add_faults(o);
      p.ops.push_back(o);
    }
    // viewer
    auto vpgno = [&]() -> int64_t {
      if (!car.empty() && r.chance(3, 4)) { const PageDef& d = car[r.below(car.size())]; return d.mag * 256 + d.page; }
      if (r.chance(1, 8)) return 0x900;
      return rand_pgno(r);
    };
    auto vsub = [&]() -> int64_t { return r.chance(1, 2) ? VBI_ANY_SUBNO : r.chance(3, 4) ? (int64_t)r.below(6) : (int64_t)r.below(0x4000); };
    auto viewer_op = [&](int task, bool cb) {
      Op o; o.task = task;
      int k = (int)r.below(100);
      int slot = (int)r.below(3);
      if (cb) k = r.chance(1, 8) ? 92 + (int)r.below(3) : k % 40;  // from a callback: the re-entrant subset, and (un)registering handlers (documented as safe; the order clauses are C11's)
      if (k < 22) { o.kind = "fetch"; o.a = {slot, vpgno(), vsub(), (int64_t)r.below(4), r.chance(2, 3) ? 25 : (int64_t)r.below(28), (int64_t)r.below(2)}; }
      else if (k < 27) { o.kind = "fetch_cc"; o.a = {slot, r.chance(7, 8) ? 1 + (int64_t)r.below(8) : (int64_t)r.below(14) - 3, (int64_t)r.below(2)}; }
      else if (k < 31) { o.kind = "classify"; o.a = {r.chance(1, 4) ? (int64_t)r.below(12) : vpgno()}; }
      else if (k < 35) { o.kind = "title"; o.a = {vpgno(), vsub()}; }
      else if (k < 38) { o.kind = "cached"; o.a = {vpgno(), vsub()}; }
      else if (k < 40) { o.kind = "hisub"; o.a = {vpgno()}; }
      else if (k < 52) { o.kind = "export"; o.a = {slot, (int64_t)r.below(32), (int64_t)r.below(1u << 30), (int64_t)r.below(4)}; }
      else if (k < 62) { o.kind = "draw"; o.a = {slot, (int64_t)r.below(3), (int64_t)r.below(41), (int64_t)r.below(25), 1 + (int64_t)r.below(41), 1 + (int64_t)r.below(25), (int64_t)r.below(2), (int64_t)r.below(2), (int64_t)r.below(2)};
                         if (r.chance(1, 2)) { o.a[2] = 0; o.a[3] = 0; o.a[4] = 41; o.a[5] = 25; } }
      else if (k < 67) { o.kind = "print"; o.a = {slot, r.chance(1, 2) ? 8192 : (int64_t)r.below(3000), (int64_t)r.below(8), (int64_t)r.below(2), (int64_t)r.below(2), (int64_t)r.below(41), (int64_t)r.below(25), 1 + (int64_t)r.below(41), 1 + (int64_t)r.below(25)};
                         if (r.chance(1, 2)) { o.a[5] = 0; o.a[6] = 0; o.a[7] = 41; o.a[8] = 25; } }
      else if (k < 72) { o.kind = "link"; o.a = {slot, (int64_t)r.below(41), (int64_t)r.below(25)}; }
      else if (k < 74) { o.kind = "home"; o.a = {slot}; }
      else if (k < 76) { o.kind = "unref"; o.a = {slot}; }
      else if (k < 81) { o.kind = "s_new"; o.a = {r.chance(1, 2) ? 0x100 : vpgno(), vsub(), (int64_t)r.below((uint64_t)kNPat), (int64_t)r.below(2), (int64_t)r.below(2), (int64_t)r.below(4)}; }
      else if (k < 88) { o.kind = "s_next"; o.a = {r.chance(3, 4) ? 1 : -1, 1 + (int64_t)r.below(4)}; }
      else if (k < 90) { o.kind = "s_del"; }
      else if (k < 92) { o.kind = "chsw"; }
      else if (k < 95) { o.kind = "handler"; o.a = {(int64_t)r.below(3), (int64_t)r.below(0x1000), (int64_t)r.below(2)}; }
      else if (k < 96) { o.kind = "bright"; o.a = {(int64_t)r.below(400) - 100}; }
      else if (k < 97) { o.kind = "contrast"; o.a = {(int64_t)r.below(400) - 200}; }
      else if (k < 99) { o.kind = "region"; o.a = {r.chance(3, 4) ? (int64_t)r.below(11) * 8 : (int64_t)r.below(120) - 10}; }
      else { o.kind = "level"; o.a = {(int64_t)r.below(6) - 1}; }
      p.ops.push_back(o);
    };
    int nvw = thorough ? 20 + (int)r.below(300) : 10 + (int)r.below(90);
    for (int i = 0; i < nvw; i++) viewer_op(1, false);
    int ncb = r.chance(1, 3) ? 0 : (int)r.below(thorough ? 120 : 40);
    for (int i = 0; i < ncb; i++) viewer_op(2, true);
    return p;
  }

  // -------------------------------------------------------------------- run --
  struct St {
    RunCtx* ctx = nullptr; Sched* sched = nullptr;
    vbi_decoder* dec = nullptr;
    vbi_page* slot[4] = {nullptr, nullptr, nullptr, nullptr};  // exact-size heap objects
    bool slot_valid[4] = {false, false, false, false};
    bool slot_cc[4] = {false, false, false, false};
    int slot_frame[4] = {0, 0, 0, 0};          // frame count when the slot was fetched
    int slot_args[4][5] = {{0}, {0}, {0}, {0}};  // pgno, subno, level, rows, nav of that fetch
    vbi_search* search = nullptr;
    int search_progress_mode = 0; int progress_calls = 0;
    std::vector<const Op*> cbq; size_t cb_pos = 0;
    int in_callback = 0;
    bool handler_on[3] = {false, false, false};
    uint64_t events = 0;
    std::vector<Line> pending;
    double ts = 0; int ts_mode = 0; int ts_val = 0; double ts_step = 0.04;
    int frame_max = 8;
    bool refetch_stale = true;
    int frames = 0;
    std::set<int> keys;       // distinct (pgno, subcode) transmitted
    int64_t extra_pages = 0;  // allowance for pages created by faults / random lines
    size_t base_bytes = 0;
    int fetch_ok = 0, fetch_cc_ok = 0, exports_ok = 0, draws = 0, searches = 0, fetch25_ok = 0;
    uint64_t max_decode_edges = 0, max_search_edges = 0;
  };
  static St* g;
  static int g_nmodules;

  // viewer operation; returns false when the op kind is not a viewer op
  static void do_viewer_op(const Op& op, bool cb) {
    St& s = *g; RunCtx& c = *s.ctx;
    const std::string& k = op.kind;
    auto begin = [&](const char* fn, uint64_t edges) { if (!cb) budget_begin(fn, edges); };
    auto end = [&] { if (!cb) budget_end(); };
    // documented Teletext page numbers 0x100 ... 0x8FF; the TOP index pseudo page 0x900 only where it is documented
    // (vbi_fetch_vt_page).  Other numbers are outside the quantifier of the statement (vbi_cache_hi_subno(0x900) asserts).
    auto pgno_of = [&](int64_t v) { int p = (int)(uabs(v) % 0x901); if (p < 0x100) p += 0x100; if (p > 0x8FF && k != "fetch") p = 0x100; return p; };
    auto subno_of = [&](int64_t v) { return (int)(uabs(v) % 0x4000); };
    int sl = cb ? 3 : um(op.arg(0), 3);
    if (k == "fetch") {
      int pgno = pgno_of(op.arg(1)), subno = subno_of(op.arg(2));
      int level = um(op.arg(3), 4), rows = um(op.arg(4), 28), nav = (int)(op.arg(5) & 1);
      vbi_bool ok;
      begin("vbi_fetch_vt_page", 30000000);
      { SutScope ss; ok = vbi_fetch_vt_page(s.dec, s.slot[sl], pgno, subno, (vbi_wst_level)level, rows, nav); }
      end();
      s.slot_valid[sl] = ok; s.slot_cc[sl] = false; s.slot_frame[sl] = s.frames;
      s.slot_args[sl][0] = pgno; s.slot_args[sl][1] = subno; s.slot_args[sl][2] = level; s.slot_args[sl][3] = rows; s.slot_args[sl][4] = nav;
      if (ok) { s.fetch_ok++; if (level >= 2) s.fetch25_ok++; }
      if (ok && pgno == 0x900) { c.count("top_index_pages_fetched"); int filled = 0; for (int i = 41; i < s.slot[sl]->rows * 41 && i < 25 * 41; i++) if (s.slot[sl]->text[i].unicode > 0x20) filled++; if (filled > 0) c.count("top_index_pages_with_titles"); }
      c.log("%sfetch %x.%x L%d rows %d nav %d -> %d", cb ? "cb " : "", pgno, subno, level, rows, nav, ok);
    } else if (k == "fetch_cc") {
      int pgno = (int)(op.arg(1) % 16), reset = (int)(op.arg(2) & 1);
      vbi_bool ok;
      begin("vbi_fetch_cc_page", 5000000);
      { SutScope ss; ok = vbi_fetch_cc_page(s.dec, s.slot[sl], pgno, reset); }
      end();
      s.slot_valid[sl] = ok; s.slot_cc[sl] = true;
      if (ok) s.fetch_cc_ok++;
      c.log("%sfetch_cc %d -> %d", cb ? "cb " : "", pgno, ok);
    } else if (k == "classify") {
      int pgno = (int)(uabs(op.arg(0)) % 0x1000); vbi_subno sub = 0; char* lang = nullptr; int t;
      begin("vbi_classify_page", 1000000);
      { SutScope ss; t = vbi_classify_page(s.dec, pgno, &sub, &lang); }
      end();
      size_t ll = lang ? strlen(lang) : 0;  // the label must be a readable string
      c.log("%sclassify %x -> %d sub %x lang %zu", cb ? "cb " : "", pgno, t, sub, ll);
    } else if (k == "title") {
      int pgno = pgno_of(op.arg(0)), subno = subno_of(op.arg(1));
      char* buf = (char*)malloc(41); memset(buf, 0x55, 41); vbi_bool ok;
      begin("vbi_page_title", 5000000);
      { SutScope ss; ok = vbi_page_title(s.dec, pgno, subno, buf); }
      end();
      size_t n = ok ? strnlen(buf, 41) : 0;
      if (ok && n >= 41) c.fail("oracle:title-unterminated", "vbi_page_title(%x) returned an unterminated string", pgno);
      c.log("%stitle %x.%x -> %d len %zu", cb ? "cb " : "", pgno, subno, ok, n);
      if (ok) c.count("titles_found");
      free(buf);
    } else if (k == "cached") {
      int pgno = pgno_of(op.arg(0)), subno = subno_of(op.arg(1)), r;
      begin("vbi_is_cached", 1000000);
      { SutScope ss; r = vbi_is_cached(s.dec, pgno, subno); }
      end();
      c.log("%scached %x.%x -> %d", cb ? "cb " : "", pgno, subno, r);
    } else if (k == "hisub") {
      int pgno = pgno_of(op.arg(0)), r;
      begin("vbi_cache_hi_subno", 1000000);
      { SutScope ss; r = vbi_cache_hi_subno(s.dec, pgno); }
      end();
      c.log("%shisub %x -> %x", cb ? "cb " : "", pgno, r);
    } else if (cb && k != "handler") {
      return;  // everything below is not in the re-entrant subset (except handler (un)registration)
    } else if (k == "export") {
      if (!s.slot_valid[sl] || !refresh(sl)) return;
      vbi_page* pg = s.slot[sl];
      int mi = um(op.arg(1), g_nmodules > 0 ? g_nmodules : 1);
      Rng r((uint64_t)op.arg(2), "export");
      vbi_export_info* xi; { SutScope ss; xi = vbi_export_info_enum(mi); }
      if (!xi) return;
      char* err = nullptr; vbi_export* e;
      std::string kw = xi->keyword;
      if (r.chance(1, 3)) {  // option string syntax "keyword,option=value,..."
        static const char* const opts[] = {",charset=UTF-8", ",format=3", ",compression=9", ",gfx_chr=64", ",control=2", ",color=1", ",header=0", ",aspect=0", ",titled=1", ", creator = zsim ", ",transparency=1",
                                           ",network='a b'", ",reveal", ",bogus=1", ",=", ",charset=", ",fg=9,bg=-1", ",term=2", ",quality=", ",,", ",charset=\"UTF-8\"", ",reveal=1,titled=0,aspect=1"};
        int n = 1 + (int)r.below(3);
        for (int i = 0; i < n; i++) kw += opts[r.below(sizeof opts / sizeof opts[0])];
      }
      { SutScope ss; e = vbi_export_new(kw.c_str(), &err); }
      if (!e) { { SutScope ss; free(err); } c.log("export %s new failed", kw.c_str()); return; }
      int nset = 0;
      for (int oi = 0;; oi++) {
        vbi_option_info* oinf; { SutScope ss; oinf = vbi_export_option_info_enum(e, oi); }
        if (!oinf) break;
        if (!r.chance(1, 2)) continue;
        vbi_bool ok = 0;
        static const char* const strs[] = {"", "UTF-8", "ISO-8859-1", "ASCII", "UCS-2", "no-such-charset", "zsim <&\"> creator", "ISO-8859-7", "KOI8-R", "EUC-JP", "%s%n%d"};
        SutScope ss;
        switch (oinf->type) {
          case VBI_OPTION_BOOL: case VBI_OPTION_INT: {
            int v = r.chance(3, 4) ? (int)r.range(oinf->min.num, std::max(oinf->min.num, oinf->max.num)) : (int)r.below(2000) - 1000;
            ok = vbi_export_option_set(e, oinf->keyword, v); break; }
          case VBI_OPTION_MENU: {
            int v = r.chance(3, 4) ? (int)r.range(oinf->min.num, std::max(oinf->min.num, oinf->max.num)) : (int)r.below(40) - 20;
            ok = r.chance(1, 2) ? vbi_export_option_menu_set(e, oinf->keyword, v) : vbi_export_option_set(e, oinf->keyword, v); break; }
          case VBI_OPTION_REAL: ok = vbi_export_option_set(e, oinf->keyword, (double)r.below(2000) / 100.0 - 5.0); break;
          case VBI_OPTION_STRING: ok = vbi_export_option_set(e, oinf->keyword, strs[r.below(sizeof strs / sizeof strs[0])]); break;
          default: break;
        }
        nset += ok;
      }
      int mode = um(op.arg(3), 4);
      long got = -1;
      budget_begin("vbi_export", 400000000);
      if (mode == 0) {
        void* buf = nullptr; size_t sz = 0; void* res;
        { SutScope ss; res = vbi_export_alloc(e, &buf, &sz, pg); }
        if (res) { got = (long)sz; volatile unsigned char sink = 0; for (size_t i = 0; i < sz; i += 97) sink ^= ((unsigned char*)buf)[i]; (void)sink; SutScope ss; free(buf); }
      } else {
        size_t cap = mode == 1 ? (size_t)r.below(64) : mode == 2 ? (size_t)r.below(20000) : 4u << 20;
        char* buf = (char*)malloc(cap ? cap : 1);
        ssize_t n; { SutScope ss; n = vbi_export_mem(e, buf, cap, pg); }
        got = (long)n;
        free(buf);
      }
      budget_end();
      { SutScope ss; (void)vbi_export_errstr(e); vbi_export_delete(e); }
      if (got >= 0) s.exports_ok++;
      c.count(std::string("export_") + xi->keyword);
      c.log("export %s opts %d mode %d -> %ld", xi->keyword, nset, mode, got);
    } else if (k == "draw") {
      if (!s.slot_valid[sl] || !refresh(sl)) return;
      vbi_page* pg = s.slot[sl];
      int cols = pg->columns, rows = pg->rows;
      if (cols < 1 || rows < 1 || cols > 64 || rows > 64) { c.fail("oracle:page-dims", "fetched page has %d columns %d rows", cols, rows); return; }
      int col = um(op.arg(2), cols), row = um(op.arg(3), rows);
      int w = 1 + um(op.arg(4) - 1, cols - col), h = 1 + um(op.arg(5) - 1, rows - row);
      int fmti = um(op.arg(1), 3);
      vbi_pixfmt fmt = fmti == 0 ? VBI_PIXFMT_RGBA32_LE : fmti == 1 ? VBI_PIXFMT_PAL8 : VBI_PIXFMT_YUV420;
      int bpp = fmt == VBI_PIXFMT_PAL8 ? 1 : 4;
      int cw = s.slot_cc[sl] ? 16 : 12, chh = s.slot_cc[sl] ? 26 : 10;
      bool full = (col == 0 && w == cols);
      int stride = w * cw * bpp;
      bool dflt = full && (op.arg(8) & 1);
      size_t size = (size_t)stride * (size_t)h * (size_t)chh;
      uint8_t* canvas = (uint8_t*)malloc(size);  // exactly the documented size
      memset(canvas, 0, size);
      budget_begin("vbi_draw_page_region", 100000000);
      {
        SutScope ss;
        if (s.slot_cc[sl]) vbi_draw_cc_page_region(pg, fmt, canvas, dflt ? -1 : stride, col, row, w, h);
        else vbi_draw_vt_page_region(pg, fmt, canvas, dflt ? -1 : stride, col, row, w, h, (int)(op.arg(6) & 1), (int)(op.arg(7) & 1));
      }
      budget_end();
      free(canvas);
      s.draws++;
      c.log("draw %s fmt %d region %d,%d %dx%d", s.slot_cc[sl] ? "cc" : "vt", fmti, col, row, w, h);
    } else if (k == "print") {
      if (!s.slot_valid[sl]) return;
      vbi_page* pg = s.slot[sl];
      int cols = pg->columns, rows = pg->rows;
      if (cols < 1 || rows < 1 || cols > 64 || rows > 64) return;
      int size = um(op.arg(1), 8193);
      static const char* const fmts[] = {"UTF-8", "ISO-8859-1", "ASCII", "UCS-2", "ISO-8859-5", "no-such", "UTF-16", "ISO-8859-15"};
      const char* f = fmts[um(op.arg(2), 8)];
      int col = um(op.arg(5), cols), row = um(op.arg(6), rows);
      int w = 1 + um(op.arg(7) - 1, cols - col), h = 1 + um(op.arg(8) - 1, rows - row);
      char* buf = (char*)malloc(size ? (size_t)size : 1);
      int n;
      budget_begin("vbi_print_page_region", 50000000);
      { SutScope ss; n = vbi_print_page_region(pg, buf, size, f, (int)(op.arg(3) & 1), (int)(op.arg(4) & 1), col, row, w, h); }
      budget_end();
      if (n > size) c.fail("oracle:print-overrun", "vbi_print_page_region returned %d for a buffer of %d bytes", n, size);
      free(buf);
      c.log("print %s size %d region %d,%d %dx%d -> %d", f, size, col, row, w, h, n);
    } else if (k == "link") {
      if (!s.slot_valid[sl] || s.slot_cc[sl]) return;
      vbi_page* pg = s.slot[sl];
      int col = um(op.arg(1), 41), row = um(op.arg(2), 25);
      vbi_link* ld = (vbi_link*)malloc(sizeof(vbi_link)); memset(ld, 0x55, sizeof *ld);
      budget_begin("vbi_resolve_link", 5000000);
      { SutScope ss; vbi_resolve_link(pg, col, row, ld); }
      budget_end();
      c.log("link %d,%d -> type %d pgno %x", col, row, (int)ld->type, ld->pgno);
      free(ld);
    } else if (k == "home") {
      if (!s.slot_valid[sl] || s.slot_cc[sl]) return;
      vbi_link* ld = (vbi_link*)malloc(sizeof(vbi_link)); memset(ld, 0x55, sizeof *ld);
      budget_begin("vbi_resolve_home", 1000000);
      { SutScope ss; vbi_resolve_home(s.slot[sl], ld); }
      budget_end();
      c.log("home -> type %d pgno %x", (int)ld->type, ld->pgno);
      free(ld);
    } else if (k == "unref") {
      if (!s.slot_valid[sl]) return;
      { SutScope ss; vbi_unref_page(s.slot[sl]); }
      s.slot_valid[sl] = false;
      c.log("unref %d", sl);
    } else if (k == "s_new") {
      if (s.search) { SutScope ss; vbi_search_delete(s.search); s.search = nullptr; }
      int pgno = pgno_of(op.arg(0)); if (pgno > 0x8FF) pgno = 0x100;
      int subno = subno_of(op.arg(1));
#if AVOID_SEARCH_WRAP_HANG
      pgno = 0x100; subno = VBI_ANY_SUBNO;
#endif
      int pi = um(op.arg(2), kNPat);
      uint16_t* pat = (uint16_t*)malloc(sizeof kPat[0]); memcpy(pat, kPat[pi], sizeof kPat[0]);
      s.search_progress_mode = um(op.arg(5), 4); s.progress_calls = 0;
      budget_begin("vbi_search_new", 50000000);
      { SutScope ss; s.search = vbi_search_new(s.dec, pgno, subno, pat, (int)(op.arg(3) & 1), (int)(op.arg(4) & 1), s.search_progress_mode ? progress_cb : nullptr); }
      budget_end();
      free(pat);
      c.log("s_new %x.%x pat %d cf %d re %d -> %d", pgno, subno, pi, (int)(op.arg(3) & 1), (int)(op.arg(4) & 1), s.search != nullptr);
    } else if (k == "s_next") {
      if (!s.search) return;
      int dir = op.arg(0) < 0 ? -1 : 1, n = 1 + um(op.arg(1), 4);
#if AVOID_SEARCH_WRAP_HANG
      dir = 1;  // the backward walk has the mirror-image problem below the lowest cached page
#endif
      for (int i = 0; i < n; i++) {
        vbi_page* pg = nullptr; int st;
        uint64_t e0 = edges_executed();
        budget_begin("vbi_search_next", 300000000ull);
        { SutScope ss; st = vbi_search_next(s.search, &pg, dir); }
        budget_end();
        s.max_search_edges = std::max(s.max_search_edges, edges_executed() - e0);
        s.searches++;
        int found = -1;
        if (st == VBI_SEARCH_SUCCESS && pg) found = pg->pgno;
        c.log("s_next dir %d -> %d page %x", dir, st, found);
        if (st != VBI_SEARCH_SUCCESS) break;
      }
    } else if (k == "s_del") {
      if (!s.search) return;
      { SutScope ss; vbi_search_delete(s.search); } s.search = nullptr;
      c.log("s_del");
    } else if (k == "chsw") {
      { SutScope ss; vbi_channel_switched(s.dec, 0); }
      s.extra_pages += 0;
      c.log("chsw");
    } else if (k == "handler") {
      int which = um(op.arg(0), 3); int mask = (int)(uabs(op.arg(1)) & 0xFFF); bool reg = op.arg(2) & 1;
      if (which == 0 && !reg) return;  // the primary handler stays (it keeps Teletext decoding alive)
      SutScope ss;
      if (reg) { vbi_bool ok = vbi_event_handler_register(s.dec, which == 0 ? (mask | VBI_EVENT_TTX_PAGE) : mask, handlers[which], (void*)(intptr_t)which); s.handler_on[which] = ok && mask; }
      else { vbi_event_handler_unregister(s.dec, handlers[which], (void*)(intptr_t)which); s.handler_on[which] = false; }
      c.log("handler %d mask %x reg %d", which, mask, (int)reg);
    } else if (k == "bright") { SutScope ss; vbi_set_brightness(s.dec, (int)op.arg(0)); c.log("bright %d", (int)op.arg(0)); }
    else if (k == "contrast") { SutScope ss; vbi_set_contrast(s.dec, (int)op.arg(0)); c.log("contrast %d", (int)op.arg(0)); }
    else if (k == "region") { SutScope ss; vbi_teletext_set_default_region(s.dec, (int)op.arg(0)); c.log("region %d", (int)op.arg(0)); }
    else if (k == "level") { SutScope ss; vbi_teletext_set_level(s.dec, (int)op.arg(0)); c.log("level %d", (int)op.arg(0)); }
  }

  // see AVOID_STALE_PAGE_POINTERS
  static bool refresh(int sl) {
    St& s = *g;
    // run-time switch: plan knob refetch_stale (default AVOID_STALE_PAGE_POINTERS); the known finding's own replay sets it to 0
    if (s.refetch_stale && !s.slot_cc[sl] && s.slot_frame[sl] != s.frames) {
      vbi_bool ok;
      budget_begin("vbi_fetch_vt_page", 30000000);
      { SutScope ss; ok = vbi_fetch_vt_page(s.dec, s.slot[sl], s.slot_args[sl][0], s.slot_args[sl][1], (vbi_wst_level)s.slot_args[sl][2], s.slot_args[sl][3], s.slot_args[sl][4]); }
      budget_end();
      s.slot_valid[sl] = ok; s.slot_frame[sl] = s.frames;
      s.ctx->log("refetch %x.%x -> %d", s.slot_args[sl][0], s.slot_args[sl][1], ok);
      s.ctx->count("refetch_stale_page");
      return ok;
    }
    (void)s; (void)sl;
    return true;
  }

  static int progress_cb(vbi_page* pg) {
    HarnessScope hs;
    St& s = *g;
    s.progress_calls++;
    volatile int touch = pg->pgno + pg->text[0].unicode + pg->text[40 * 24].unicode; (void)touch;
    // mode 1: always continue; 2: cancel after 3 pages; 3: cancel at once
    if (s.search_progress_mode == 2) return s.progress_calls < 3;
    if (s.search_progress_mode == 3) return 0;
    return 1;
  }

  static void on_event(vbi_event* ev, int which) {
    HarnessScope hs;
    St& s = *g; RunCtx& c = *s.ctx;
    s.events++;
    switch (ev->type) {
      case VBI_EVENT_TTX_PAGE: c.log("ev%d ttx %x.%x", which, ev->ev.ttx_page.pgno, ev->ev.ttx_page.subno);
        if (ev->ev.ttx_page.raw_header) { volatile uint8_t t = ev->ev.ttx_page.raw_header[0] ^ ev->ev.ttx_page.raw_header[39]; (void)t; } break;
      case VBI_EVENT_CAPTION: c.log("ev%d cc %d", which, ev->ev.caption.pgno); break;
      case VBI_EVENT_NETWORK: case VBI_EVENT_NETWORK_ID: c.log("ev%d net %d '%.*s' cni %x %x %x", which, ev->type, 40, (const char*)ev->ev.network.name, ev->ev.network.cni_vps, ev->ev.network.cni_8301, ev->ev.network.cni_8302); break;
      case VBI_EVENT_TRIGGER: { vbi_link* l = ev->ev.trigger;
        // an application can only use these as C strings: an unterminated array makes every use an out-of-bounds read
        if (strnlen((const char*)l->url, sizeof l->url) >= sizeof l->url || strnlen((const char*)l->name, sizeof l->name) >= sizeof l->name ||
            strnlen((const char*)l->script, sizeof l->script) >= sizeof l->script) {
          c.fail("oracle:trigger-unterminated", "VBI_EVENT_TRIGGER delivered a vbi_link whose url/name/script array holds no terminating NUL");
        }
        int ltype; memcpy(&ltype, &l->type, sizeof ltype);  // may be garbage: do not load it as an enum
        c.log("ev%d trigger type %d url %zu name %zu script %zu", which, ltype, strnlen((const char*)l->url, 256), strnlen((const char*)l->name, 80), strnlen((const char*)l->script, 256)); c.count("trigger_events"); break; }
      case VBI_EVENT_ASPECT: c.log("ev%d aspect %d-%d", which, ev->ev.aspect.first_line, ev->ev.aspect.last_line); break;
      case VBI_EVENT_PROG_INFO: { vbi_program_info* pi = ev->ev.prog_info; c.log("ev%d prog_info title %zu rating %d", which, strnlen((const char*)pi->title, 64), (int)pi->rating_id); c.count("prog_info_events");
        { SutScope ss; const char* a = vbi_rating_string(pi->rating_auth, pi->rating_id); const char* b = vbi_prog_type_string(pi->type_classf, pi->type_id[0]);
          volatile size_t n = (a ? strlen(a) : 0) + (b ? strlen(b) : 0); (void)n; }
        break; }
      case VBI_EVENT_LOCAL_TIME: c.log("ev%d local_time", which); break;
      case VBI_EVENT_PROG_ID: c.log("ev%d prog_id ch %d", which, (int)ev->ev.prog_id->channel); break;
      default: c.log("ev%d type %x", which, ev->type); break;
    }
    if (which != 0 || s.in_callback || c.failed) return;
    // the viewer acting from inside the callback (re-entrant subset only)
    s.in_callback++;
    if (s.cb_pos < s.cbq.size()) { do_viewer_op(*s.cbq[s.cb_pos++], true); c.count("ops_from_callback"); }
    s.in_callback--;
  }
  static void h0(vbi_event* ev, void*) { on_event(ev, 0); }
  static void h1(vbi_event* ev, void*) { on_event(ev, 1); }
  static void h2(vbi_event* ev, void*) { on_event(ev, 2); }
  static vbi_event_handler handlers[3];

  // one frame into the decoder
  static void decode_frame(std::vector<Line>& ls) {
    St& s = *g; RunCtx& c = *s.ctx;
    double step = s.ts_step;
    switch (s.ts_mode) {  // timestamp faults (one frame each)
      case 1: step = 0; c.count("fault_ts_repeat"); break;
      case 2: step = -(double)(1 + s.ts_val % 100) * 0.04; c.count("fault_ts_backwards"); break;
      case 3: step = (double)(1 + s.ts_val) * 3.7; c.count("fault_ts_jump"); break;
      case 4: step = 1e9 * (1 + s.ts_val % 7); c.count("fault_ts_huge"); break;
      case 5: step = 0.001 * (1 + s.ts_val % 24); c.count("fault_ts_short"); break;
      case 6: step = 0.051 + 0.001 * (s.ts_val % 200); c.count("fault_ts_gap"); break;
      default: break;
    }
    double t = s.ts + step;
    if (s.ts_mode == 7) { t = 0; c.count("fault_ts_zero"); }
    else s.ts = t;
    s.ts_mode = 0;
    g_sim_now = std::max(g_sim_now, s.ts) + 0.001;
    size_t n = ls.size();
    vbi_sliced* sl = (vbi_sliced*)malloc(n ? n * sizeof(vbi_sliced) : 1);  // exact size: one-past reads are visible
    Fnv h;
    for (size_t i = 0; i < n; i++) {
      memset(&sl[i], 0, sizeof sl[i]);
      sl[i].id = ls[i].id; sl[i].line = ls[i].line ? ls[i].line : (uint32_t)(7 + i % 16);
      memcpy(sl[i].data, ls[i].d, 56);
      h.u64(sl[i].id); h.u64(sl[i].line); h.bytes(sl[i].data, 56);
    }
    c.log("frame %d lines %zu t %.3f h %016llx", s.frames, n, t, (unsigned long long)h.h);
    uint64_t e0 = edges_executed();
    budget_begin("vbi_decode", 2000000000ull);
    { SutScope ss; vbi_decode(s.dec, sl, (int)n, t); }
    budget_end();
    s.max_decode_edges = std::max(s.max_decode_edges, edges_executed() - e0);
    free(sl);
    s.frames++;
    ls.clear();
    // "never accesses memory outside its objects": the big decoder object is one heap block, an overrun of one member into
    // the next is invisible to ASan.  Tripwires at member boundaries that are cheap to test between two frames: the three
    // mutexes are not held now, so their memory is what PTHREAD_MUTEX_INITIALIZER left (all zero); vt.current points to one
    // of the eight raw pages (it sits right behind raw_page[7], in front of the caption mutex).
    if (!c.failed) {
      const char* bad = zsim_c01_tripwire(s.dec);
      if (bad) c.fail("oracle:decoder-memory-tripwire", "after frame %d the decoder member %s holds bytes nothing may have written there: a neighbouring member was overrun", s.frames, bad);
    }
    // "never grows without bound": what the decoder holds between two frames is bounded by what was transmitted
    if (alloc_track_available() && !alloc_overflowed() && !c.failed) {
      size_t held = alloc_live_bytes();
      size_t bound = s.base_bytes + 400000 /* one search context, rounding */ + 6000 * (s.keys.size() + (size_t)s.extra_pages + 2);
      if (held > bound)
        c.fail("oracle:growth", "decoder holds %zu bytes after frame %d; bound %zu = base %zu + 6000 x (%zu distinct pages sent + %lld possibly created by faults)",
               held, s.frames, bound, s.base_bytes, s.keys.size(), (long long)s.extra_pages);
    }
  }
  static void flush(bool all) {
    St& s = *g;
    while (!s.pending.empty() && (all || (int)s.pending.size() >= s.frame_max) && !s.ctx->failed) {
      size_t n = std::min(s.pending.size(), (size_t)s.frame_max);
      std::vector<Line> fr(s.pending.begin(), s.pending.begin() + (long)n);
      s.pending.erase(s.pending.begin(), s.pending.begin() + (long)n);
      decode_frame(fr);
      s.sched->yield();
    }
  }

  static void do_broadcast_op(const Op& op, const Layout& L) {
    St& s = *g; RunCtx& c = *s.ctx;
    const std::string& k = op.kind;
    std::vector<Line> ls;
    int reps = 1;
    if (k == "page") {
      int kind = um(op.arg(0), K_N), mag = ((um(op.arg(1), 8) + 7) & 7) + 1, page = um(op.arg(2), 256), sub = um(op.arg(3), 0x4000);
      unsigned ctrl = (unsigned)(uabs(op.arg(4)) & 0x7FF0);
      build_page(kind, mag, page, sub, ctrl, (uint64_t)op.arg(5), (int)(uabs(op.arg(6)) & 0x3FFFF), L, ls);
      s.keys.insert(((mag & 7) * 256 + page) << 16 | sub);
      c.count(kind <= K_LOP_PDC ? "tx_lop" : kind <= K_GDRCS ? "tx_object_pages" : kind <= K_MPTEX ? "tx_table_pages" : "tx_other_pages");
    } else if (k == "cc") { build_caption(um(op.arg(0), 8), (uint64_t)op.arg(1), um(op.arg(2), 40), ls); c.count("tx_caption"); }
    else if (k == "itv") { build_itv((uint64_t)op.arg(0), ls); c.count("tx_itv"); }
    else if (k == "xds") {
      int f = um(op.arg(4), 6);
      build_xds((int)op.arg(0), (int)(uabs(op.arg(1)) & 0x7F), (int)op.arg(2), (uint64_t)op.arg(3), f, (int)uabs(op.arg(5)), ls);
      c.count("tx_xds");
      if (f) c.count("fault_xds_malformed");
    } else if (k == "vps") { ls.push_back(vps_line((uint64_t)op.arg(0))); reps = 1 + um(op.arg(1), 6); c.count("tx_vps"); }
    else if (k == "wss") { ls.push_back(wss_line((uint64_t)op.arg(0), false)); reps = 1 + um(op.arg(1), 6); c.count("tx_wss"); }
    else if (k == "cpr") { ls.push_back(wss_line((uint64_t)op.arg(0), true)); reps = 1 + um(op.arg(1), 6); c.count("tx_cpr"); }
    else if (k == "p830") { ls.push_back(p830_line((uint64_t)op.arg(0))); reps = 1 + um(op.arg(1), 6); c.count("tx_830"); }
    else if (k == "rand") {
      Rng r((uint64_t)op.arg(0), "rand"); int n = 1 + um(op.arg(1), 40);
      for (int i = 0; i < n; i++) ls.push_back(random_line(r));
      s.extra_pages += n; c.count("fault_random_line", n);
    } else if (k == "idle") {
      int n = 1 + um(op.arg(0), 50);
      flush(true);
      for (int i = 0; i < n && !c.failed; i++) { std::vector<Line> none; decode_frame(none); s.sched->yield(); }
      return;
    } else if (k == "ts") { s.ts_mode = um(op.arg(0), 8); s.ts_val = um(op.arg(1), 1000); return; }
    else return;
    for (int f = 0; f < 2; f++) {
      int fk = um(op.arg(8 + 4 * (size_t)f), CF_N);
      if (apply_fault(ls, fk, op.arg(9 + 4 * (size_t)f), op.arg(10 + 4 * (size_t)f), op.arg(11 + 4 * (size_t)f))) { c.count(std::string("fault_") + cf_name[fk]); s.extra_pages += 2; }
    }
    for (int i = 0; i < reps && !c.failed; i++) {
      s.pending.insert(s.pending.end(), ls.begin(), ls.end());
      if (reps > 1) flush(true); else flush(false);
    }
    if (op.arg(7) & 1) flush(true);
  }

  void run(const Plan& plan, RunCtx& c) override {
    static bool warmed = false;
    handlers[0] = h0; handlers[1] = h1; handlers[2] = h2;
    if (!warmed) {  // process-global one-time initialisation (export module list, iconv, libpng, gettext) is not a per-decoder leak
      warmed = true;
      { time_t t0 = 86400; struct tm tm; tzset(); localtime_r(&t0, &tm); (void)mktime(&tm); (void)timegm(&tm); }  // time zone data is loaded once
      vbi_decoder* d = vbi_decoder_new();
      vbi_event_handler_register(d, 0xFFF, h1, nullptr);
      vbi_page* pg = (vbi_page*)calloc(1, sizeof(vbi_page));
      vbi_fetch_cc_page(d, pg, 1, 0);
      g_nmodules = 0;
      while (vbi_export_info_enum(g_nmodules)) {
        vbi_export_info* xi = vbi_export_info_enum(g_nmodules++);
        vbi_export* e = vbi_export_new(xi->keyword, nullptr);
        if (!e) continue;
        void* buf = nullptr; size_t sz = 0;
        if (vbi_export_alloc(e, &buf, &sz, pg)) free(buf);
        vbi_export_delete(e);
      }
      // every character set the viewer may name: iconv loads its conversion modules once per process
      static const char* const cs[] = {"UTF-8", "ISO-8859-1", "ASCII", "UCS-2", "ISO-8859-5", "no-such", "UTF-16", "ISO-8859-15", "no-such-charset", "ISO-8859-7", "KOI8-R", "EUC-JP", "", "zsim <&\"> creator", "%s%n%d",
                                       "ISO-8859-2", "ISO-8859-4", "ISO-8859-6", "ISO-8859-8", "ISO-8859-9", "KOI8-U", "ISO-8859-3", "ISO-8859-10", "ISO-8859-13", "ISO-8859-14", "ISO-8859-16", "TIS-620", "CP1251", "CP1252"};
      for (const char* f : cs) {
        // glibc unloads a conversion module again when its last user closes it; a handle kept open for the
        // life of the process pins the module so that its load/unload is not mistaken for decoder memory
        static const char* const other[] = {"UCS-2", "UTF-8"};
        for (const char* o : other) { (void)iconv_open(f, o); (void)iconv_open(o, f); }
        char tmp[256]; vbi_print_page_region(pg, tmp, sizeof tmp, f, 1, 1, 0, 0, pg->columns, pg->rows);
        for (int mi = 0; mi < g_nmodules; mi++) {
          vbi_export* e = vbi_export_new(vbi_export_info_enum(mi)->keyword, nullptr);
          if (!e) continue;
          if (vbi_export_option_info_keyword(e, "charset") && vbi_export_option_set(e, "charset", f)) { void* buf = nullptr; size_t sz = 0; if (vbi_export_alloc(e, &buf, &sz, pg)) free(buf); }
          vbi_export_delete(e);
        }
      }
      uint16_t pat[] = {'a', 0};
      vbi_search* se = vbi_search_new(d, 0x100, VBI_ANY_SUBNO, pat, 0, 1, nullptr);
      if (se) vbi_search_delete(se);
      free(pg);
      vbi_event_handler_unregister(d, h1, nullptr);
      vbi_decoder_delete(d);
    }
    g_station_pages.clear();
    for (auto& op : plan.ops)
      if (op.kind == "page" && um(op.arg(0), K_N) <= K_LOP_PDC && g_station_pages.size() < 64) {
        int pg = (((um(op.arg(1), 8) + 7) & 7) + 1) * 256 + um(op.arg(2), 256);
        if (std::find(g_station_pages.begin(), g_station_pages.end(), pg) == g_station_pages.end()) g_station_pages.push_back(pg);
      }
    alloc_track_reset();
    St st; st.ctx = &c; g = &st;
    g_in_run = true; g_nheld = 0; g_sim_now = 1.0e9;
    st.ts = 1.0e9; st.ts_step = (double)(plan.knob("ts_step_us", 40000) % 60000) / 1e6; if (st.ts_step <= 0) st.ts_step = 0.04;
    st.frame_max = (int)(uabs(plan.knob("frame_max", 8)) % 41); if (st.frame_max < 1) st.frame_max = 1;
    st.refetch_stale = plan.knob("refetch_stale", AVOID_STALE_PAGE_POINTERS) != 0;
    Layout L;
    L.gpop = (int)(uabs(plan.knob("gpop", 0x1EA)) % 0x900); L.pop[0] = (int)(uabs(plan.knob("pop0", 0x1EB)) % 0x900); L.pop[1] = (int)(uabs(plan.knob("pop1", 0x1EC)) % 0x900);
    L.gdrcs = (int)(uabs(plan.knob("gdrcs", 0x1ED)) % 0x900); L.drcs[0] = (int)(uabs(plan.knob("drcs0", 0x1EE)) % 0x900); L.drcs[1] = (int)(uabs(plan.knob("drcs1", 0x1EF)) % 0x900);
    L.ait = (int)(uabs(plan.knob("ait", 0x1F1)) % 0x900); L.mpt = (int)(uabs(plan.knob("mpt", 0x1F2)) % 0x900); L.mptex = (int)(uabs(plan.knob("mptex", 0x1F3)) % 0x900);
    Sched sched(c, (uint64_t)plan.knob("sched_seed", (int64_t)plan.seed), (Policy)(uabs(plan.knob("policy")) % 3), (int)(uabs(plan.knob("pparam")) % 100));
    st.sched = &sched;
    for (int i = 0; i < 4; i++) { st.slot[i] = (vbi_page*)malloc(sizeof(vbi_page)); memset(st.slot[i], 0, sizeof(vbi_page)); }
    {
      SutScope ss;
      st.dec = vbi_decoder_new();
      int mask0 = (int)(uabs(plan.knob("mask0", 0xFFF)) & 0xFFF);
      vbi_event_handler_register(st.dec, mask0 | VBI_EVENT_TTX_PAGE, h0, (void*)(intptr_t)0);
      st.handler_on[0] = true;
    }
    st.base_bytes = alloc_live_bytes();
    std::vector<const Op*> bc, vw;
    for (auto& op : plan.ops) {
      int t = ((op.task % 3) + 3) % 3;
      if (t == 0) bc.push_back(&op); else if (t == 1) vw.push_back(&op); else st.cbq.push_back(&op);
    }
    sched.spawn("bc", [&] {
      for (const Op* op : bc) { if (c.failed) return; do_broadcast_op(*op, L); }
      flush(true);
      // trailing headers terminate the last page of every magazine
      std::vector<Line> tail;
      uint8_t text[32]; memset(text, 0x20, 32);
      for (int m = 1; m <= 8; m++) tail.push_back(ttx_line(ttx::header(m, 0xFF, 0x3F7F, 0, text)));
      if (!c.failed) { decode_frame(tail); sched.yield(); }
    });
    sched.spawn("vw", [&] {
      for (const Op* op : vw) { if (c.failed) return; do_viewer_op(*op, false); sched.yield(); }
    });
    int rc = sched.run(20000000);
    if (rc == 2) c.fail("harness:budget", "scheduler budget exhausted");
    c.state(sched.interleaving_hash());
    c.state(hash_mix((uint64_t)st.fetch_ok, (uint64_t)st.events));
    {
      SutScope ss;
      if (st.search) vbi_search_delete(st.search);
      for (int i = 0; i < 4; i++) if (st.slot_valid[i]) vbi_unref_page(st.slot[i]);
      vbi_decoder_delete(st.dec);
    }
    for (int i = 0; i < 4; i++) free(st.slot[i]);
    if (!c.failed && g_nheld != 0) c.fail("oracle:mutex-held", "%d library mutexes still locked after vbi_decoder_delete", g_nheld);
    g_in_run = false;
    if (!c.failed && alloc_track_available() && !alloc_overflowed() && alloc_live_blocks() != 0)
      c.fail("leak", "%zu blocks (%zu bytes; sizes %s) still allocated after vbi_decoder_delete", alloc_live_blocks(), alloc_live_bytes(), alloc_live_summary().c_str());
    c.count("frames", st.frames);
    c.count("events", (int64_t)st.events);
    c.count("fetch_ok", st.fetch_ok);
    c.count("fetch_level25_ok", st.fetch25_ok);
    c.count("fetch_cc_ok", st.fetch_cc_ok);
    c.count("exports_ok", st.exports_ok);
    c.count("draws", st.draws);
    c.count("search_steps", st.searches);
    c.count("peak_kbytes", (int64_t)(alloc_peak_bytes() / 1024));
    c.count("max_decode_kedges", (int64_t)(st.max_decode_edges / 1000));
    c.count("max_search_kedges", (int64_t)(st.max_search_edges / 1000));
    // non-trivial: the decoder consumed at least 10 frames and the viewer got at least one page out of it
    c.nontrivial = st.frames >= 10 && (st.fetch_ok + st.fetch_cc_ok) >= 1;
    c.sim_seconds = (double)st.frames * st.ts_step;
    g = nullptr;
  }
};
C01::St* C01::g = nullptr;
int C01::g_nmodules = 0;
vbi_event_handler C01::handlers[3];
ZSIM_REGISTER_WORLD(C01)

}  // namespace
