// C07 — DVB demultiplexer: output depends only on the bytes, robust to any damage, recovers within one frame.
//
// World: source tasks (the VBI service: PES packets / TS packets of the selected PID; two foreign
// sources: other stream ids / PIDs, null and adaptation-only packets, legal duplicates, stuffing) are
// multiplexed unit by unit by the seeded scheduler; a channel applies the planned faults to the unit
// they are attached to; the bytes go through a pipe to a transport task that hands them to the real
// demultiplexer in pieces whose size the plan and the scheduler (how much is in the pipe) decide,
// through the callback or the coroutine interface.  Afterwards the same bytes go through a fresh
// demultiplexer in ONE call (reference).
//
// The stream ENCODER below is written from the standards, not from dvb_demux.c / dvb_mux.c:
//  ISO/IEC 13818-1 2.4.3.2/3 (transport packet: sync 0x47, TEI, PUSI, priority, PID, scrambling,
//  adaptation_field_control, continuity_counter; counter not incremented without payload; duplicate
//  packets), 2.4.3.6/7 (PES packet: start code prefix, stream_id, PES_packet_length, '10', flags,
//  PES_header_data_length, PTS '0010'/'0011' + DTS '0001' with marker bits, stuffing 0xFF);
//  EN 300 472 4.1/4.2 and EN 301 775 4.3 (private_stream_1, PES_packet_length = N*184-6,
//  data_alignment_indicator 1, PES_header_data_length 0x24, PTS present, data_identifier 0x10-0x1F
//  (every data unit 0x2C long) / 0x99-0x9B, TS: adaptation_field_control '01' or '10' only);
//  EN 301 775 4.4-4.9 (data unit = id, length, data field, stuffing 0xFF; '11' field_parity(1 = first
//  field) line_offset; Teletext 0x02/0x03: framing code 0xE4 + 42 bytes, line_offset 0 or 7..22; VPS
//  0xC3 line 16; WSS 0xC4 line 23, 14 bits + '11'; Closed Caption 0xC5 line 21; monochrome samples
//  0xC6; stuffing 0xFF; lines of a frame in ascending order; one frame per PES packet, a frame may
//  use several packets).  Bits on the wire are in transmission order msb first; vbi_sliced stores
//  Teletext / WSS / caption bytes first-transmitted-bit = lsb, VPS msb first (sliced.h).
//
// Oracles
//  (a) partition: frames (PTS, line, id, payload) delivered by the piecewise run == frames of the
//      one-call run of the same bytes (per segment between vbi_dvb_demux_reset calls); for short
//      streams every single cut and a lattice of two-cut partitions is enumerated as well.
//  (b) robustness: sanitizers, asserts, edge budget per call, no stall of the coroutine, no leak.
//  (c) delivery / recovery: every sent frame that is intact, not the first intact frame after a
//      damaged place, and whose successor's first PES packet arrives intact (the demultiplexer
//      hands a frame out when the next one starts) is delivered exactly as sent, in order, once;
//      nothing else is delivered except in place of the exempt frames.  Evaluated when the run has no
//      damage at all, or only framed-safe damage in a stream whose framing patterns (00 00 01 / 0x47)
//      occur only at true unit starts (verified on the final bytes).
#include <cstdio>
#include <cstdlib>
#include <cstring>
#include <map>
#include <set>

#include "alloc.h"
#include "sim.h"

extern "C" {
#include "src/libzvbi.h"
// declared in src/dvb_demux.h ("experimental"), not in the installed header
vbi_dvb_demux* _vbi_dvb_ts_demux_new(vbi_dvb_demux_cb* callback, void* user_data, unsigned int pid);
}

using namespace sim;

namespace {

typedef std::string Bytes;
static const int64_t PTS_MASK = 0x1FFFFFFFFll;

static unsigned rev8(unsigned c) { unsigned r = 0; for (int i = 0; i < 8; i++) if (c & (1u << i)) r |= 0x80u >> i; return r; }
static int64_t iabs(int64_t v) { return v < 0 ? (v == INT64_MIN ? 0 : -v) : v; }

// ------------------------------------------------------------------------
// what is sent
// ------------------------------------------------------------------------
enum { K_TTX = 0, K_VPS, K_WSS, K_CC };
struct ELine {
  int kind = K_TTX;
  unsigned du_id = 0x02;
  int field = 0;  // 0 first, 1 second
  int off = 7;    // line_offset, 0 = unknown line (Teletext only)
  Bytes wire;     // payload bytes as transmitted (42 / 13 / 2 / 2)
  unsigned line() const { return off == 0 ? 0u : (unsigned)(off + (field ? 313 : 0)); }
};
struct GLine { unsigned id, line; Bytes data; };
struct GFrame { int64_t pts = 0; std::vector<GLine> lines; };

static size_t relevant_bytes(unsigned id) {
  if (id & VBI_SLICED_TELETEXT_B_625) return 42;
  if (id & (VBI_SLICED_VPS | VBI_SLICED_VPS_F2)) return 13;
  if (id & VBI_SLICED_WSS_CPR1204) return 3;
  return 2;
}
static bool same_frame(const GFrame& a, const GFrame& b) {
  if (a.pts != b.pts || a.lines.size() != b.lines.size()) return false;
  for (size_t i = 0; i < a.lines.size(); i++)
    if (a.lines[i].id != b.lines[i].id || a.lines[i].line != b.lines[i].line || a.lines[i].data != b.lines[i].data) return false;
  return true;
}
static std::string frame_str(const GFrame& f) {
  char b[64]; snprintf(b, sizeof b, "pts=%llx n=%zu [", (unsigned long long)f.pts, f.lines.size());
  std::string s = b;
  for (size_t i = 0; i < f.lines.size() && i < 10; i++) { snprintf(b, sizeof b, "%s%u:%x:%s", i ? " " : "", f.lines[i].line, f.lines[i].id, hex(f.lines[i].data.substr(0, 2)).c_str()); s += b; }
  if (f.lines.size() > 10) s += " ..";
  return s + "]";
}
static uint64_t frame_hash(const GFrame& f) {
  Fnv h; h.u64((uint64_t)f.pts);
  for (auto& l : f.lines) { h.u64(l.id); h.u64(l.line); h.str(l.data); }
  return h.h;
}

// does the delivered line carry the sent one?  The service is compared as a class: the statement
// says "services", the demultiplexer reports the union id for Teletext and a field subset for caption.
static bool line_matches(const ELine& e, const GLine& g) {
  if (g.line != e.line()) return false;
  unsigned allowed = 0;
  switch (e.kind) {
    case K_TTX: allowed = VBI_SLICED_TELETEXT_B_625; break;
    case K_VPS: allowed = VBI_SLICED_VPS; break;
    case K_WSS: allowed = VBI_SLICED_WSS_625; break;
    default: allowed = VBI_SLICED_CAPTION_625; break;
  }
  if (g.id == 0 || (g.id & ~allowed)) return false;
  if (e.kind == K_CC && !(g.id & VBI_SLICED_CAPTION_625_F1)) return false;  // line 21 is in the first field
  if (g.data.size() < e.wire.size()) return false;
  for (size_t i = 0; i < e.wire.size(); i++) {
    unsigned want = (unsigned char)e.wire[i], have = (unsigned char)g.data[i], mask = 0xFF;
    if (e.kind != K_VPS) want = rev8(want);
    if (e.kind == K_WSS && i == 1) mask = 0x3F;  // 14 bits are carried, the other two are reserved
    if ((want ^ have) & mask) return false;
  }
  return true;
}
struct SentFrame {
  std::vector<ELine> lines;
  int64_t pts = 0;
  std::vector<std::vector<int>> pkt_lines;  // line indices per PES packet
  std::vector<int> nts;                     // units per PES packet (1 in PES mode)
  // classification on the final unit list
  bool intact = false, must = false;
  int a = -1, b = -1, e1 = -1;
};
static bool frame_matches(const SentFrame& s, const GFrame& g) {
  if (g.pts != s.pts || g.lines.size() != s.lines.size()) return false;
  for (size_t i = 0; i < s.lines.size(); i++) if (!line_matches(s.lines[i], g.lines[i])) return false;
  return true;
}

// ------------------------------------------------------------------------
// encoder
// ------------------------------------------------------------------------
// wire bytes that cannot take part in a start code prefix or imitate a TS sync byte
static bool safe_byte(unsigned c) { return c != 0x00 && c != 0x47; }
static unsigned safe_pick(Rng& r) { for (;;) { unsigned c = (unsigned)r.below(256); if (safe_byte(c)) return c; } }

// mode: 0 random, 1 zeros, 2 ones, 3 start code / sync byte imitations, 4 safe
static Bytes gen_wire(Rng& r, int n, int mode, int stamp) {
  Bytes d;
  static const unsigned char pat[] = {0x00, 0x00, 0x01, 0xBD, 0x00, 0xB2, 0x47, 0x00, 0x00, 0x01, 0xE0, 0x47, 0x40};
  int ph = (int)r.below(13);
  for (int i = 0; i < n; i++) {
    switch (mode) {
      case 1: d += (char)0; break;
      case 2: d += (char)0xFF; break;
      case 3: d += (char)pat[(i + ph) % 13]; break;
      case 4: d += (char)safe_pick(r); break;
      default: d += (char)r.below(256); break;
    }
  }
  if (stamp >= 0 && n >= 1) {  // attributable: frame number in the first bytes (values 1..70, never 0x00 / 0x47)
    d[0] = (char)(1 + stamp % 70);
    if (n >= 3) d[1] = (char)(1 + (stamp / 70) % 70);
  }
  return d;
}

static unsigned lofp_of(const ELine& l) { return 0xC0u | (l.field == 0 ? 0x20u : 0u) | (unsigned)(l.off & 31); }

// one data unit; `len` = data_unit_length (>= minimum of the kind), data field then stuffing 0xFF
static Bytes du_line(const ELine& l, int len) {
  Bytes d;
  d += (char)l.du_id; d += (char)len; d += (char)lofp_of(l);
  if (l.kind == K_TTX) d += (char)0xE4;
  d += l.wire;
  while ((int)d.size() < 2 + len) d += (char)0xFF;
  return d;
}
static int du_minlen(const ELine& l) { return l.kind == K_TTX ? 0x2C : l.kind == K_VPS ? 0x0E : 0x03; }
static Bytes du_stuffing(int len) { Bytes d; d += (char)0xFF; d += (char)len; d.append((size_t)len, (char)0xFF); return d; }

struct Item { Bytes b; int line = -1; bool var = false; };
struct DuSpan { size_t off, len; int line; };

// PES header of a VBI packet (46 bytes incl. data_identifier).  hv: bit0 priority, bit1 copyright,
// bit2 original, bit3 PTS and DTS
static Bytes pes_header(int64_t pts, unsigned pes_len, unsigned hv, unsigned di) {
  Bytes h;
  h += (char)0; h += (char)0; h += (char)1; h += (char)0xBD;
  h += (char)(pes_len >> 8); h += (char)(pes_len & 255);
  h += (char)(0x84 | ((hv & 1) ? 0x08 : 0) | ((hv & 2) ? 0x02 : 0) | ((hv & 4) ? 0x01 : 0));
  bool dts = hv & 8;
  h += (char)(dts ? 0xC0 : 0x80);
  h += (char)0x24;
  auto stamp = [&](unsigned prefix, int64_t t) {
    h += (char)((prefix << 4) | (unsigned)(((t >> 30) & 7) << 1) | 1);
    h += (char)((t >> 22) & 0xFF);
    h += (char)((((t >> 15) & 0x7F) << 1) | 1);
    h += (char)((t >> 7) & 0xFF);
    h += (char)(((t & 0x7F) << 1) | 1);
  };
  stamp(dts ? 3 : 2, pts);
  if (dts) stamp(1, (pts - 3600) & PTS_MASK);
  while (h.size() < 45) h += (char)0xFF;
  h += (char)di;
  return h;
}

// Lays data units and fillers into a PES packet of N*184 bytes (N minimal + extra).
static Bytes build_pes(std::vector<Item> items, int extra, unsigned di, int64_t pts, unsigned hv, Rng& r, bool safe, std::vector<DuSpan>* spans, bool keep_first = false, size_t min_n = 1) {
  auto where = [&]() -> long { return (long)((keep_first && !items.empty()) ? 1 + r.below(items.size()) : r.below(items.size() + 1)); };
  bool fixed = di >= 0x10 && di <= 0x1F;
  size_t S = 0;
  for (auto& it : items) S += it.b.size();
  size_t n184 = (46 + S + 183) / 184;
  if (n184 < min_n) n184 = min_n;
  n184 += (size_t)extra;
  if (n184 > 356) n184 = 356;  // PES_packet_length is 16 bits
  while (n184 * 184 < 46 + S) n184++;
  size_t R = n184 * 184 - 46 - S;
  if (fixed) {
    // every unit is 46 bytes
    size_t k = R / 46;
    for (size_t i = 0; i < k; i++) { Item f; f.b = du_stuffing(0x2C); items.insert(items.begin() + where(), f); }
  } else {
    if (R == 1) {  // a single byte cannot be a data unit: lengthen a variable unit, else take another 184
      bool done = false;
      for (auto& it : items) if (it.var && (unsigned char)it.b[1] < 250) { it.b[1] = (char)((unsigned char)it.b[1] + 1); it.b += (char)0xFF; done = true; break; }
      if (done) R = 0; else { R += 184; n184++; }
    }
    while (R > 0) {  // invariant: R >= 2
      size_t t = 0;
      for (int tries = 0; tries < 50 && !t; tries++) {
        size_t c = (R <= 257 && r.chance(1, 2)) ? R : 2 + (size_t)r.below(std::min<size_t>(256, R - 1));  // 2..min(257,R)
        if (c > R) c = R;
        if (R - c == 1) continue;
        if (safe && (c - 2 == 0 || c - 2 == 0x47)) continue;
        t = c;
      }
      if (!t) { t = R <= 257 ? R : 100; if (R - t == 1) t--; }
      Item f; f.b = du_stuffing((int)t - 2);
      items.insert(items.begin() + where(), f);
      R -= t;
    }
  }
  Bytes p = pes_header(pts, (unsigned)(n184 * 184 - 6), hv, di);
  for (auto& it : items) { if (spans) spans->push_back({p.size(), it.b.size(), it.line}); p += it.b; }
  return p;
}

static Bytes ts_packet(unsigned pid, bool pusi, unsigned prio, unsigned afc, unsigned cc, const Bytes& payload184) {
  Bytes t;
  t += (char)0x47;
  t += (char)((pusi ? 0x40 : 0) | (prio ? 0x20 : 0) | ((pid >> 8) & 0x1F));
  t += (char)(pid & 0xFF);
  t += (char)(((afc & 3) << 4) | (cc & 15));
  t += payload184;
  while (t.size() < 188) t += (char)0xFF;
  return t.substr(0, 188);
}

// Frame content from a seed: a sorted set of numbered lines, optionally Teletext units with unknown line.
static void gen_frame_lines(Rng& r, int nl, int style, int pmode, int stamp, std::vector<ELine>& out) {
  std::vector<ELine> fld[2];
  if (nl < 1) nl = 1;
  if (nl > 33) nl = 33;
  // candidate slots: first field 7..23, second field 7..22
  std::vector<std::pair<int, int>> slots;
  for (int o = 7; o <= 23; o++) slots.push_back({0, o});
  for (int o = 7; o <= 22; o++) slots.push_back({1, o});
  // choose nl of them
  for (size_t i = 0; i < slots.size(); i++) { size_t j = i + (size_t)r.below(slots.size() - i); std::swap(slots[i], slots[j]); }
  slots.resize((size_t)nl);
  std::sort(slots.begin(), slots.end());
  for (auto& s : slots) {
    ELine l; l.field = s.first; l.off = s.second;
    l.kind = K_TTX; l.du_id = r.chance(1, 4) ? 0x03 : 0x02;
    if (s.first == 0 && s.second == 16 && r.chance(1, 2)) { l.kind = K_VPS; l.du_id = 0xC3; }
    if (s.first == 0 && s.second == 21 && r.chance(1, 2)) { l.kind = K_CC; l.du_id = 0xC5; }
    if (s.first == 0 && s.second == 23) { l.kind = K_WSS; l.du_id = 0xC4; }  // Teletext is not allowed on line 23
    int n = l.kind == K_TTX ? 42 : l.kind == K_VPS ? 13 : 2;
    l.wire = gen_wire(r, n, pmode, stamp);
    if (l.kind == K_WSS) { l.wire[1] = (char)(((unsigned char)l.wire[1] & 0xFC) | 3); if ((unsigned char)l.wire[1] == 0x47) l.wire[1] = (char)0x4B; }
    fld[s.first].push_back(l);
  }
  if (style == 1) {
    int k = (int)r.below(4);
    for (int i = 0; i < k; i++) {
      ELine l; l.field = (int)r.below(2); l.off = 0; l.kind = K_TTX; l.du_id = 0x02;
      l.wire = gen_wire(r, 42, pmode, stamp);
      fld[l.field].insert(fld[l.field].begin() + (long)r.below(fld[l.field].size() + 1), l);
    }
  }
  out = fld[0];
  out.insert(out.end(), fld[1].begin(), fld[1].end());
}

// ------------------------------------------------------------------------
// the demultiplexer under test and what it hands out
// ------------------------------------------------------------------------
struct Dx {
  RunCtx* ctx = nullptr;
  vbi_dvb_demux* dx = nullptr;
  bool cor = false;
  unsigned m = 64;  // max_lines of the coroutine interface
  bool quiet = false;
  const char* tag = "";
  std::vector<GFrame> got;
  uint64_t calls = 0, false_returns = 0;

  void record(const vbi_sliced* s, unsigned n, int64_t pts) {
    GFrame f; f.pts = pts;
    for (unsigned i = 0; i < n; i++) {
      GLine l; l.id = s[i].id; l.line = s[i].line;
      l.data.assign((const char*)s[i].data, relevant_bytes(s[i].id));
      f.lines.push_back(l);
    }
    got.push_back(f);
    if (!quiet) ctx->log("%s frame %zu: %s", tag, got.size() - 1, frame_str(f).c_str());
  }
  static vbi_bool cb(vbi_dvb_demux*, void* ud, const vbi_sliced* s, unsigned n, int64_t pts) {
    HarnessScope hs;
    Dx* k = (Dx*)ud;
    if (n > 64) { k->ctx->fail("oracle:demux-lines", "callback with %u lines (the frame buffer has 64)", n); n = 64; }
    k->record(s, n, pts);
    return TRUE;
  }
  bool open(RunCtx* c, bool ts, unsigned pid, bool use_cor, unsigned max_lines) {
    ctx = c; cor = use_cor; m = max_lines;
    SutScope ss;
    dx = ts ? _vbi_dvb_ts_demux_new(use_cor ? nullptr : cb, this, pid) : vbi_dvb_pes_demux_new(use_cor ? nullptr : cb, this);
    return dx != nullptr;
  }
  void close() { if (dx) { SutScope ss; vbi_dvb_demux_delete(dx); dx = nullptr; } }
  void reset() { SutScope ss; vbi_dvb_demux_reset(dx); }
  // one piece, in an exactly sized heap buffer
  void feed(const unsigned char* data, size_t n) {
    if (n == 0 || ctx->failed) return;
    unsigned char* hb = (unsigned char*)malloc(n);
    memcpy(hb, data, n);
    calls++;
    if (!cor) {
      budget_begin("vbi_dvb_demux_feed", 400 * (uint64_t)n + 400000);
      vbi_bool r;
      { SutScope ss; r = vbi_dvb_demux_feed(dx, hb, (unsigned)n); }
      budget_end();
      if (!r) false_returns++;
      if (!quiet) ctx->log("%s feed %zu -> %d", tag, n, r);
    } else {
      const uint8_t* p = hb; unsigned left = (unsigned)n;
      vbi_sliced* out = (vbi_sliced*)malloc((m ? m : 1) * sizeof(vbi_sliced));  // exactly max_lines elements
      int idle = 0;
      while (left > 0 && !ctx->failed) {
        int64_t pts = -12345;
        const uint8_t* p0 = p; unsigned l0 = left;
        budget_begin("vbi_dvb_demux_cor", 400 * (uint64_t)left + 400000);
        unsigned nl;
        { SutScope ss; nl = vbi_dvb_demux_cor(dx, out, m, &pts, &p, &left); }
        budget_end();
        if (p < p0 || (size_t)(p - p0) != l0 - left || left > l0) { ctx->fail("oracle:demux-cor-pointer", "vbi_dvb_demux_cor moved the buffer by %ld but buffer_left %u -> %u", (long)(p - p0), l0, left); break; }
        if (nl > m) { ctx->fail("oracle:demux-lines", "vbi_dvb_demux_cor returned %u lines, max_lines was %u", nl, m); break; }
        if (!quiet) ctx->log("%s cor %u -> %u lines, %u left", tag, l0, nl, left);
        if (nl > 0) record(out, nl, pts);
        // a call that neither consumes nor returns lines may happen once per frame (a frame completed but
        // max_lines is 0 / the frame is empty); repeated, the caller can never make progress
        if (nl == 0 && left == l0) { if (++idle > 3) { ctx->fail("oracle:demux-cor-stall", "vbi_dvb_demux_cor keeps returning 0 lines without consuming any of the %u bytes left", left); break; } }
        else idle = 0;
      }
      free(out);
    }
    free(hb);
  }
};

// ------------------------------------------------------------------------
// units of the final stream, faults
// ------------------------------------------------------------------------
struct FUnit {
  Bytes b;
  int frame = -1, pkt = -1, tsi = -1;  // VBI unit of a frame
  int fsrc = -1, fidx = -1;            // foreign unit j of source s
  bool vbi = false;      // carries the selected stream (frame unit or stuffing-only VBI packet)
  bool dmg = false;      // present but modified / out of place / not part of the sent stream
  bool gap_before = false;  // something that was sent is missing right before this unit
  bool start = true;     // begins with a genuine unit header (false: garbage, tail of a split unit)
  bool dup = false;
};

enum {
  F_NONE = 0,
  F_DROP, F_DUP, F_SWAP, F_TS_CC, F_TS_TEI, F_TS_SCR, F_TS_PUSI, F_TS_AFC, F_TS_TRUNC, F_TS_PID,
  F_PES_TRUNC, F_PES_LENGTH, F_PES_HEADER, F_DU_ILLEGAL, F_BITFLIP_DU, F_BITFLIP_ANY, F_GARBAGE_SAFE, F_GARBAGE_ANY, F_FOREIGN,
  F_DU_FLOOD,  // (appended: replay files store kind numbers)
  F_N
};
static bool fault_is_pes_level(int k) { return k == F_PES_LENGTH || k == F_PES_HEADER || k == F_DU_ILLEGAL || k == F_BITFLIP_DU || k == F_DU_FLOOD; }
static bool fault_unsafe(int k) { return k == F_BITFLIP_ANY || k == F_GARBAGE_ANY; }

struct Fault { int kind; int64_t frame, pkt, tsi, x, y; bool fired = false; };

static const unsigned DI_TABLE[] = {0x10, 0x99, 0x11, 0x9A, 0x1F, 0x9B, 0x15, 0x99};
static const int STRADDLE[] = {2, 3, 4, 5, 6, 7, 8, 9, 10, 11, 45, 46, 47, 48, 49, 178, 183, 184, 185, 187, 188, 189, 192, 196, 197, 198, 368, 376};
static const int NSTRADDLE = (int)(sizeof STRADDLE / sizeof STRADDLE[0]);

static bool pts_bytes_safe(int64_t pts, bool dts) {
  Bytes h = pes_header(pts, 178, dts ? 8 : 0, 0x10);
  for (size_t i = 9; i < 19; i++) if ((unsigned char)h[i] == 0x47) return false;
  return true;
}

struct C07 : World {
  const char* name() const override { return "c07"; }
  const char* property() const override { return "C07"; }

  // Inputs that trigger a defect already reported (see out/C07): the oracle is unchanged, only generate()
  // steers around them so that other violations are not masked.  0 = no steering.
  static const int STEER_DEFAULT = 0;  // the three dvb_demux.c defects are repaired in /repo (see regress/C07): nothing is steered around any more

  // plan: knobs = configuration of stream, interface and scheduler; ops:
  //  task 0 "frame"   a=[fseed, nlines, split, extra184, pts]   one video frame of the VBI service
  //  task 0 "stuff"   a=[n184, seed]                            stuffing-only PES packet of the VBI service
  //  task 1/2 "foreign" a=[kind, size, seed]                    one unit of foreign source A / B
  //  task 3 "fault"   a=[kind, frame, pkt, tsi, x, y]           attached to the unit it hits
  //  task 4 "piece"   a=[mode, n, wait]   "reset" a=[]          transport: next piece / vbi_dvb_demux_reset
  Plan generate(uint64_t seed, const std::string& tier) override {
    Plan p; p.world = name(); p.seed = seed;
    Rng r(seed, "plan");
    // development switch (not used by bin/check): C07_NOSTEER=1 generates the unsteered plans that reproduce the reported defects
    const int STEER_KNOWN = getenv("C07_NOSTEER") ? 0 : STEER_DEFAULT;
    bool thorough = tier == "thorough";
    p.knobs["sched_seed"] = (int64_t)(r.next() >> 1);
    p.knobs["policy"] = (int64_t)r.below(3);
    p.knobs["pparam"] = (p.knobs["policy"] == 1) ? 30 + (int64_t)r.below(65) : (int64_t)r.below(4);
    bool ts = r.chance(1, 2);
    p.knobs["ts"] = ts;
    int flavour = (int)r.below(100);
    int src = flavour < 6 ? 1 : 0;             // 1: the real vbi_dvb_mux produces the stream
    bool random_stream = flavour >= 6 && flavour < 12;
    p.knobs["src"] = src;
    bool faulty = r.chance(2, 3);
    bool safe = faulty ? r.chance(5, 6) : r.chance(1, 3);
    if (random_stream) safe = false;
    p.knobs["safe"] = safe;
    unsigned pid;
    for (;;) {
      pid = 0x10 + (unsigned)r.below(0x1FFF - 0x10);
      if (!safe) break;
      if ((pid >> 8) != 7 && (pid & 0xFF) != 0x47 && (pid & 0xFF) != 0x00) break;
    }
    p.knobs["pid"] = pid;
    p.knobs["iface"] = r.chance(2, 5) ? 1 : 0;
    // out/C07/empty-frame-coroutine-livelock.json: damaged bytes parsed as data units can hit the same livelock of the
    // PES coroutine (an unknown-line unit of the second field after a non-line unit in a fresh frame)
    p.knobs["enum_cor"] = 1;  // enumerated partitions alternate between the two interfaces
    if (STEER_KNOWN && !ts && (faulty || random_stream)) { p.knobs["iface"] = 0; p.knobs["enum_cor"] = 0; }
    p.knobs["max_lines"] = r.chance(3, 4) ? 64 : r.chance(1, 4) ? 100 : (int64_t)r.below(64);
    p.knobs["di"] = (int64_t)r.below(8);
    p.knobs["style"] = r.chance(1, 3) ? 1 : 0;
    p.knobs["steer"] = STEER_KNOWN;
    // out/C07/empty-frame-*.json, pes-error-keeps-frame.json: unknown-line units only where those two defects cannot interfere
    if (STEER_KNOWN && !(p.knobs["iface"] == 0 && (ts || !faulty))) p.knobs["style"] = 0;
    p.knobs["pmode"] = safe ? 4 : (int64_t)r.below(5);
    p.knobs["hv"] = (int64_t)r.below(16);
    p.knobs["fillers"] = (int64_t)r.below(3);
    bool enumerate = !random_stream && r.chance(1, 5);
    p.knobs["enum"] = enumerate;
    p.knobs["lat_step"] = 5 + (int64_t)r.below(40);
    p.knobs["lat_off"] = (int64_t)r.below(64);
    p.knobs["lead_in"] = STEER_KNOWN ? 1 : (int64_t)r.below(2);
    // out/C07/ts-sync-drops-single-packet-pes.json: the defect also strikes when sync is regained after damage
    p.knobs["ts_min2"] = (STEER_KNOWN && ts && faulty) ? 1 : 0;
    int big = thorough ? 3 : 1;
    int nframes = enumerate ? 1 + (int)r.below(3) : 2 + (int)r.below(13 * (uint64_t)big);
    if (random_stream) nframes = (int)r.below(4);
    int64_t pts = (int64_t)(r.next() & (uint64_t)PTS_MASK);
    if (r.chance(1, 6)) pts = PTS_MASK - (int64_t)r.below(3600 * 6);  // wraps inside the run
    for (int i = 0; i < nframes + 2; i++) {
      bool trailing = i >= nframes;
      Op o; o.task = 0; o.kind = "frame";
      int nl;
      switch (r.below(4)) { case 0: nl = 1 + (int)r.below(3); break; case 1: nl = 1 + (int)r.below(12); break; case 2: nl = 1 + (int)r.below(33); break; default: nl = 2 + (int)r.below(6); break; }
      int split = r.chance(3, 5) ? 1 : r.chance(3, 4) ? 2 : 3;
      int extra = r.chance(17, 20) ? 0 : 1 + (int)r.below(2);
      if (!enumerate && !trailing && r.chance(1, 70)) extra = 20 + (int)r.below(340);  // up to the 16-bit length limit
      if (enumerate || trailing) { nl = 1 + (int)r.below(3); split = 1; extra = 0; }
      pts = (pts + (r.chance(9, 10) ? 0 : (int64_t)r.below(90000))) & PTS_MASK;
      o.a = {(int64_t)(r.next() >> 1), nl, split, extra, pts};
      p.ops.push_back(o);
      if (!enumerate && r.chance(1, 10)) { Op s; s.task = 0; s.kind = "stuff"; s.a = {1 + (int64_t)r.below(3), (int64_t)r.below(100000)}; p.ops.push_back(s); }
    }
    int nfor = enumerate ? (int)r.below(3) : (int)r.below(12);
    if (r.chance(1, 5)) nfor = 0;
    for (int i = 0; i < nfor; i++) {
      Op o; o.task = 1 + (int)r.below(2); o.kind = "foreign";
      o.a = {(int64_t)r.below(8), (int64_t)r.below(enumerate ? 200 : 700), (int64_t)r.below(1000000)};
      p.ops.push_back(o);
    }
    if (random_stream) {
      int nb = 1 + (int)r.below(6);
      for (int i = 0; i < nb; i++) { Op o; o.task = 1 + (int)r.below(2); o.kind = "foreign"; o.a = {9, (int64_t)r.below(1500), (int64_t)r.below(1000000)}; p.ops.push_back(o); }
    }
    if (faulty) {
      int nf = 1 + (int)r.below(4);
      // swarm: a random subset of kinds is enabled in this run
      std::vector<int> kinds;
      for (int k = 1; k < F_N; k++) {
        if (ts && k == F_PES_TRUNC) continue;
        if (!ts && k >= F_TS_CC && k <= F_TS_PID) continue;
        if (safe && fault_unsafe(k) && !r.chance(1, 8)) continue;
        if (r.chance(1, 2)) kinds.push_back(k);
      }
      if (kinds.empty()) kinds.push_back(F_DROP);
      for (int i = 0; i < nf; i++) {
        Op o; o.task = 3; o.kind = "fault";
        o.a = {kinds[r.below(kinds.size())], (int64_t)r.below(64), (int64_t)r.below(4), (int64_t)r.below(64), (int64_t)r.below(100000), (int64_t)r.below(100000)};
        p.ops.push_back(o);
      }
    }
    if (faulty && !enumerate && !random_stream && r.chance(1, 10)) {
      // directed: one frame in a single fixed-unit-size PES packet with 17-30 x 184 bytes of stuffing, flooded (F_DU_FLOOD)
      std::vector<size_t> fr; for (size_t i = 0; i < p.ops.size(); i++) if (p.ops[i].kind == "frame") fr.push_back(i);
      if (fr.size() > 3) {
        size_t fi = (size_t)r.below(fr.size() - 2);
        p.ops[fr[fi]].a[2] = 1; p.ops[fr[fi]].a[3] = 17 + (int64_t)r.below(14);
        p.knobs["di"] = 2 * (int64_t)r.below(4);
        Op o; o.task = 3; o.kind = "fault"; o.a = {F_DU_FLOOD, (int64_t)fi, 0, 0, (int64_t)r.below(100000), (int64_t)r.below(100000)};
        p.ops.push_back(o);
      }
    }
    // transport: swarm over piece modes
    int weights[8];
    for (int& w : weights) w = r.chance(1, 2) ? (int)r.below(8) : 0;
    if (r.chance(1, 6)) { for (int& w : weights) w = 0; weights[1] = 1; }  // single bytes throughout
    int wsum = 0; for (int w : weights) wsum += w;
    if (!wsum) { weights[0] = 1; wsum = 1; }
    int npieces = (int)r.below(120);
    for (int i = 0; i < npieces; i++) {
      Op o; o.task = 4;
      if (r.chance(1, 45)) { o.kind = "reset"; p.ops.push_back(o); continue; }
      o.kind = "piece";
      int x = (int)r.below((uint64_t)wsum), mode = 0;
      for (int k = 0; k < 8; k++) { if (x < weights[k]) { mode = k; break; } x -= weights[k]; }
      int64_t n = r.chance(1, 2) ? 1 + (int64_t)r.below(12) : r.chance(1, 2) ? 1 + (int64_t)r.below(400) : 1 + (int64_t)r.below(5000);
      o.a = {mode, n, (int64_t)r.below(2)};
      p.ops.push_back(o);
    }
    return p;
  }

  struct VPkt { Bytes b; int frame = -1, pkt = -1; std::vector<DuSpan> dus; bool dmg = false; };
  static vbi_bool mux_cb(vbi_dvb_mux*, void* ud, const uint8_t* p, unsigned n) {
    HarnessScope hs;
    ((std::vector<Bytes>*)ud)->push_back(Bytes((const char*)p, n));
    return TRUE;
  }

  static Bytes filler_unit(Rng& r, bool fixed, bool safe) {
    Bytes d;
    auto rb = [&]() -> unsigned { return safe ? safe_pick(r) : (unsigned)r.below(256); };
    if (r.chance(1, 2)) {
      // reserved / user defined ids no decoder of EN 301 775 services knows.  0xB4-0xB6 are left out: libzvbi
      // uses them for private 525-line extensions (generator constraint, the statement is silent on them)
      // and 0x00 (reserved): dvb_demux.c uses "last data_unit_id == 0" as its "no unit seen yet" mark, a unit with id 0 makes it miss a
      // following frame boundary that is signalled by the field parity of an unknown-line unit only (reported, not generated)
      static const unsigned ids[] = {0x01, 0x04, 0x10, 0x7F, 0x80, 0xB0, 0xC0, 0xC1, 0xC2, 0xC7, 0xD0, 0xFE};
      unsigned id = ids[r.below(12)];
      int len = fixed ? 0x2C : (int)r.below(60);
      if (safe && (len == 0 || len == 0x47)) len = 5;
      d += (char)id; d += (char)len;
      for (int i = 0; i < len; i++) d += (char)rb();
    } else {
      // monochrome 4:2:2 samples (EN 301 775 4.9): flags, line, first_pixel_position, n_pixels, samples
      int n = 1 + (int)r.below(fixed ? 40 : 100);
      if (safe && n == 0x47) n = 0x46;
      int len = fixed ? 0x2C : 4 + n + (int)r.below(4);
      if (safe && len == 0x47) len++;
      unsigned pos = (unsigned)r.below(720 - (unsigned)n);
      if (safe) { pos = 0x100 + (pos & 0xFF); if ((pos & 0xFF) == 0 || (pos & 0xFF) == 0x47) pos = 0x111; }
      d += (char)0xC6; d += (char)len;
      d += (char)(0xC0 | (r.chance(1, 2) ? 0x20 : 0) | (7 + (unsigned)r.below(16)));
      d += (char)(pos >> 8); d += (char)(pos & 255); d += (char)n;
      for (int i = 0; i < n; i++) d += (char)rb();
      while ((int)d.size() < 2 + len) d += (char)0xFF;
    }
    return d;
  }

  // PES-level damage; returns true when something was changed
  static bool apply_pes_fault(VPkt& vp, Fault& f, RunCtx& ctx) {
    Bytes& b = vp.b;
    if (b.size() < 184) return false;
    std::vector<const DuSpan*> ld;
    for (auto& d : vp.dus) if (d.line >= 0) ld.push_back(&d);
    switch (f.kind) {
      case F_PES_LENGTH: {
        unsigned cur = ((unsigned char)b[4] << 8) | (unsigned char)b[5], nl = cur;
        switch (f.x % 6) {
          case 0: nl = cur + 184; break;
          case 1: nl = cur >= 184 + 178 ? cur - 184 : 100; break;
          case 2: nl = cur + 1 + (unsigned)(f.y % 3); break;
          case 3: nl = (unsigned)(f.y % 178); break;
          case 4: nl = 0xFFFF; break;
          default: nl = (unsigned)(f.y % 65536); break;
        }
        nl &= 0xFFFF;
        if (nl == cur) nl = cur ^ 8;
        b[4] = (char)(nl >> 8); b[5] = (char)(nl & 255);
        ctx.count("fault_pes_length");
        return true;
      }
      case F_PES_HEADER: {
        static const unsigned bad_di[] = {0x20, 0x0F, 0x98, 0x9C, 0xFF, 0x80, 0x21};
        static const unsigned bad_b6[] = {0x80, 0x94, 0xA4, 0x44, 0xC4, 0x04};
        static const unsigned bad_sid[] = {0xBE, 0xC0, 0xBC, 0xE0, 0xBF};
        switch (f.x % 8) {
          case 0: b[8] = (char)(0x24 + 1 + f.y % 3 - (f.y % 2) * 4); break;
          case 1: b[45] = (char)bad_di[f.y % 7]; break;
          case 2: b[6] = (char)bad_b6[f.y % 6]; break;
          case 3: b[7] = (char)0x20; break;                    // no PTS
          case 4: b[3] = (char)bad_sid[f.y % 5]; break;        // another stream id
          case 5: b[3] = (char)0xB9; break;                    // not a PES stream id
          case 6: b[2] = (char)0x02; break;                    // start code prefix broken
          default: b[9] = (char)((unsigned char)b[9] & 0xFE); b[11] = (char)((unsigned char)b[11] & 0xFE); break;  // marker bits
        }
        ctx.count("fault_pes_header");
        return true;
      }
      case F_DU_ILLEGAL: {
        if (ld.empty()) return false;
        const DuSpan& d = *ld[(size_t)(f.x % (int64_t)ld.size())];
        size_t o = d.off;
        unsigned id = (unsigned char)b[o];
        switch (f.y % 7) {
          case 0: b[o + 1] = (char)0xFF; break;                                  // crosses the end of the packet (or swallows followers)
          case 1: b[o + 1] = (char)(id <= 3 ? 0x2B : 1); break;                  // too short for its kind
          case 2: {                                                              // illegal line for the kind
            unsigned lofp = (unsigned char)b[o + 2], off = lofp & 31;
            unsigned noff = id <= 3 ? (f.x % 2 ? 1 + (unsigned)(f.x % 6) : 24 + (unsigned)(f.x % 8)) : off + 1;
            b[o + 2] = (char)((lofp & 0xE0) | (noff & 31));
            break;
          }
          case 3:                                                                // duplicate of the previous line
            if (ld.size() >= 2) { size_t i = (size_t)(f.x % (int64_t)ld.size()); if (i == 0) i = 1; b[ld[i]->off + 2] = b[ld[i - 1]->off + 2]; }
            else b[o + 2] = (char)0xC1;
            break;
          case 4: if (id <= 3) b[o + 3] = (char)0xE5; else b[o + 1] = (char)1; break;  // framing code
          case 5: b[o] = (char)0x04; break;                                      // the line becomes a reserved unit
          default:                                                               // two lines in descending order
            if (ld.size() >= 2 && ld[0]->len == ld[1]->len) { Bytes t = b.substr(ld[0]->off, ld[0]->len); b.replace(ld[0]->off, ld[0]->len, b.substr(ld[1]->off, ld[1]->len)); b.replace(ld[1]->off, ld[1]->len, t); }
            else b[o + 2] = (char)0xDF;
            break;
        }
        ctx.count("fault_du_illegal");
        return true;
      }
      case F_BITFLIP_DU: {
        if (ld.empty()) return false;
        const DuSpan& d = *ld[(size_t)(f.x % (int64_t)ld.size())];
        size_t from = d.off + ((unsigned char)b[d.off] <= 3 ? 4 : 3), n = ((unsigned char)b[d.off] <= 3) ? 42 : ((unsigned char)b[d.off] == 0xC3 ? 13 : 2);
        int flips = 1 + (int)(f.y % 3);
        for (int i = 0; i < flips; i++) b[from + (size_t)((f.y / 3 + i * 17) % (int64_t)n)] ^= (char)(1 << ((f.y / 7 + i) % 8));
        ctx.count("fault_bitflip_du");
        return true;
      }
      case F_DU_FLOOD: {
        // illegal data units: every 46 byte stuffing unit of the packet becomes a Teletext unit with line_offset 0
        // ("line unknown", exempt from the ascending line rule) - with enough stuffing the packet carries more lines
        // than any video frame has (and than a receiver's frame buffer holds)
        int made = 0, lines = (int)ld.size();
        uint32_t z = (uint32_t)(f.y * 2654435761u + 12345u);
        bool second_field = false;   // the new units stay in the field of the numbered line in front of them (fields must not go backwards)
        for (auto& d : vp.dus) {
          if (d.line >= 0) { second_field = !((unsigned char)b[d.off + 2] & 0x20); continue; }
          if (d.len != 46 || (unsigned char)b[d.off] != 0xFF || (unsigned char)b[d.off + 1] != 0x2C) continue;
          if (f.x % 4 == 3 && made >= 40) break;   // sometimes a large but legal number
          b[d.off] = (char)0x02; b[d.off + 2] = (char)(0xC0 | (second_field ? 0 : 0x20)); b[d.off + 3] = (char)0xE4;
          for (size_t i = 4; i < 46; i++) { z = z * 1664525u + 1013904223u; unsigned c = (z >> 24) & 0xFF; if (c == 0x00 || c == 0x01 || c == 0x47) c = 0x55; b[d.off + i] = (char)c; }
          made++;
        }
        if (!made) return false;
        ctx.count("fault_du_flood");
        if (lines + made > 64) ctx.count("fault_du_flood_more_than_64_lines");
        return true;
      }
      default: return false;
    }
  }

  // final stream of one run, and the classification of the sent frames on it
  struct Stream {
    std::vector<FUnit> fin;
    Bytes bytes;
    std::vector<size_t> off;  // start offset of each unit
    bool gap_at_end = false;
  };

  void run(const Plan& plan, RunCtx& ctx) override {
    alloc_track_reset();
    const bool ts = plan.knob("ts") & 1;
    const int src = (int)(iabs(plan.knob("src")) % 2);
    const bool safe = plan.knob("safe") & 1;
    unsigned pid = (unsigned)(iabs(plan.knob("pid", 0x100)) % 0x1FFF);
    if (pid < 0x10) pid += 0x10;
    const bool use_cor = plan.knob("iface") & 1;
    const unsigned m = (unsigned)(iabs(plan.knob("max_lines", 64)) % 129);
    const unsigned di = DI_TABLE[iabs(plan.knob("di")) % 8];
    const bool fixed = di <= 0x1F;
    const int style = src == 1 ? 0 : (int)(plan.knob("style") & 1);
    int pmode = (int)(iabs(plan.knob("pmode")) % 5);
    if (safe) pmode = 4;
    const unsigned hv = (unsigned)(plan.knob("hv") & 15);
    const int fillers = (int)(iabs(plan.knob("fillers")) % 3);
    const bool lead_in = plan.knob("lead_in") & 1;
    const bool steer = plan.knob("steer") & 1;
    const size_t min_n = (plan.knob("ts_min2") & 1) ? 2 : 1;  // steering: no PES packet that fits into one TS packet

    // ---- 1. the VBI service: frames -> PES packets
    std::vector<SentFrame> frames;
    struct Ent { bool stuff; const Op* op; int frame; };
    std::vector<Ent> order;
    std::vector<std::vector<VPkt>> fpk;  // PES packets per frame
    {
      bool have_prev = false; unsigned prevLn = 0; int prev_field = 0;
      for (auto& op : plan.ops) {
        if (op.task != 0) continue;
        if (op.kind == "stuff") { order.push_back({true, &op, -1}); continue; }
        if (op.kind != "frame") continue;
        int k = (int)frames.size();
        Rng fr((uint64_t)op.arg(0), "frame");
        SentFrame sf;
        gen_frame_lines(fr, (int)(iabs(op.arg(1)) % 34), style, pmode, k, sf.lines);
        // Generator constraint: consecutive frames are recognisable.  EN 301 775 has no frame delimiter
        // other than the PTS; the statement speaks of "frames as sent", so the first data unit of a frame
        // is numbered and not above the last line of the previous frame, or (unknown line) of the other field.
        if (have_prev || steer) {
          const ELine& f0 = sf.lines[0];
          bool ok = !have_prev || (f0.off ? f0.line() <= prevLn : f0.field != prev_field);
          if (steer && f0.off == 0 && f0.field == 1) ok = false;  // steering, see generate()
          if (!ok) {
            ELine l7; bool found = false;
            for (size_t i = 0; i < sf.lines.size(); i++)
              if (sf.lines[i].off == 7 && sf.lines[i].field == 0) { l7 = sf.lines[i]; sf.lines.erase(sf.lines.begin() + (long)i); found = true; break; }
            if (!found) { l7.kind = K_TTX; l7.du_id = 0x02; l7.field = 0; l7.off = 7; l7.wire = gen_wire(fr, 42, pmode, k); }
            sf.lines.insert(sf.lines.begin(), l7);
          }
        }
        prevLn = 0;
        for (auto& l : sf.lines) if (l.off) prevLn = std::max(prevLn, l.line());
        prev_field = sf.lines.back().field;
        have_prev = true;
        bool dts = hv & 8;
        int64_t pts = (op.arg(4) + (int64_t)k * 3600) & PTS_MASK;
        if (safe) for (int i = 0; i < 4000 && !pts_bytes_safe(pts, dts); i++) pts = (pts + 33001) & PTS_MASK;
        sf.pts = pts;
        // split into PES packets: each has at least one line; a continuation must not begin with an
        // unknown-line unit of the other field (that is how a new frame begins)
        size_t n = sf.lines.size();
        int npk = 1 + (int)(iabs(op.arg(2)) % 3);
        std::set<size_t> cuts;
        for (int i = 1; i < npk && n > 1; i++) {
          size_t c = 1 + (size_t)fr.below(n - 1);
          while (c < n && sf.lines[c].off == 0 && sf.lines[c].field != sf.lines[c - 1].field) c++;
          if (c < n) cuts.insert(c);
        }
        std::vector<VPkt> pk;
        size_t from = 0;
        std::vector<size_t> ends(cuts.begin(), cuts.end());
        ends.push_back(n);
        for (size_t pi = 0; pi < ends.size(); pi++) {
          VPkt vp; vp.frame = k; vp.pkt = (int)pi;
          std::vector<Item> items; std::vector<int> li;
          for (size_t i = from; i < ends[pi]; i++) {
            const ELine& l = sf.lines[i];
            Item it; it.line = (int)i; it.var = !fixed && l.kind != K_TTX;
            int len = fixed ? 0x2C : du_minlen(l) + ((it.var && fr.chance(1, 3)) ? (int)fr.below(20) : 0);
            if (safe && len == 0x47) len++;
            it.b = du_line(l, len);
            items.push_back(it); li.push_back((int)i);
          }
          int nfil = fillers ? (int)fr.below((uint64_t)fillers + 1) : 0;
          bool keep_first = steer && !items.empty() && sf.lines[(size_t)items[0].line].off == 0;  // steering: nothing before a leading unknown-line unit
          for (int i = 0; i < nfil; i++) { Item it; it.b = filler_unit(fr, fixed, safe); items.insert(items.begin() + (long)(keep_first ? 1 + fr.below(items.size()) : fr.below(items.size() + 1)), it); }
          int extra = pi == 0 ? (int)(iabs(op.arg(3)) % 357) : (fr.chance(1, 6) ? 1 : 0);
          int64_t ppts = pi == 0 ? pts : (fr.chance(1, 2) ? pts : (pts + 1800) & PTS_MASK);
          if (safe && pi) for (int i = 0; i < 4000 && !pts_bytes_safe(ppts, dts); i++) ppts = (ppts + 33001) & PTS_MASK;
          vp.b = build_pes(items, extra, di, ppts, hv, fr, safe, &vp.dus, keep_first, min_n);
          pk.push_back(vp);
          sf.pkt_lines.push_back(li);
          sf.nts.push_back(ts ? (int)(vp.b.size() / 184) : 1);
          from = ends[pi];
        }
        fpk.push_back(pk);
        frames.push_back(sf);
        order.push_back({false, &op, k});
      }
    }
    for (size_t k = 0; k < frames.size(); k++) {
      std::string d;
      for (size_t pi = 0; pi < frames[k].pkt_lines.size(); pi++) {
        d += pi ? " |" : "";
        for (int i : frames[k].pkt_lines[pi]) { char b[32]; snprintf(b, sizeof b, " %u/f%d/%02x", frames[k].lines[(size_t)i].line(), frames[k].lines[(size_t)i].field + 1, frames[k].lines[(size_t)i].du_id); d += b; }
      }
      ctx.log("sent frame %zu pts=%llx:%s", k, (unsigned long long)frames[k].pts, d.c_str());
    }
    const int nframes = (int)frames.size();
    if (src == 1 && nframes) {
      // the real multiplexer makes the PES packets of this run (an additional stream source; its output is
      // judged by C06, here it is only a byte stream for clauses (a) and (b))
      std::vector<Bytes> out;
      vbi_dvb_mux* mx;
      { SutScope ss; mx = vbi_dvb_pes_mux_new(mux_cb, &out); }
      if (mx) {
        { SutScope ss; vbi_dvb_mux_set_data_identifier(mx, di); }
        for (int k = 0; k < nframes; k++) {
          SentFrame& sf = frames[(size_t)k];
          std::vector<vbi_sliced> sl(sf.lines.size());
          for (size_t i = 0; i < sf.lines.size(); i++) {
            const ELine& l = sf.lines[i];
            memset(&sl[i], 0, sizeof sl[i]);
            sl[i].id = l.kind == K_TTX ? VBI_SLICED_TELETEXT_B_625 : l.kind == K_VPS ? VBI_SLICED_VPS : l.kind == K_WSS ? VBI_SLICED_WSS_625 : VBI_SLICED_CAPTION_625;
            sl[i].line = l.line();
            for (size_t j = 0; j < l.wire.size(); j++) sl[i].data[j] = (uint8_t)(l.kind == K_VPS ? (unsigned char)l.wire[j] : rev8((unsigned char)l.wire[j]));
          }
          out.clear();
          budget_begin("vbi_dvb_mux_feed", 20000000);
          vbi_bool ok;
          { SutScope ss; ok = vbi_dvb_mux_feed(mx, sl.data(), (unsigned)sl.size(), (vbi_service_set)-1, nullptr, nullptr, sf.pts); }
          budget_end();
          bool usable = ok && !out.empty();
          for (auto& b : out) if (b.size() < 184 || b.size() % 184) usable = false;
          if (!usable) continue;  // keep the packets of my encoder for this frame
          std::vector<VPkt> pk;
          sf.nts.clear(); sf.pkt_lines.clear();
          for (size_t i = 0; i < out.size(); i++) { VPkt vp; vp.frame = k; vp.pkt = (int)i; vp.b = out[i]; pk.push_back(vp); sf.nts.push_back(ts ? (int)(out[i].size() / 184) : 1); sf.pkt_lines.push_back({}); }
          fpk[(size_t)k] = pk;
          ctx.count("real_mux_frames");
        }
        { SutScope ss; vbi_dvb_mux_delete(mx); }
      }
    }
    std::vector<VPkt> vpk;  // in the order of transmission
    for (size_t i = 0; i < order.size(); i++) {
      if (!order[i].stuff) { for (auto& vp : fpk[(size_t)order[i].frame]) vpk.push_back(vp); continue; }
      // a stuffing-only packet counts as the first packet of the frame that follows (it carries its PTS):
      // the standard ties every VBI PES packet to one frame
      int64_t pts = iabs(order[i].op->arg(1));
      for (size_t j = i + 1; j < order.size(); j++) if (!order[j].stuff) { pts = frames[(size_t)order[j].frame].pts; break; }
      Rng sr((uint64_t)order[i].op->arg(1), "stuff");
      VPkt vp;
      vp.b = build_pes({}, (int)(iabs(order[i].op->arg(0)) % 3), di, pts & PTS_MASK, hv, sr, safe, &vp.dus, false, min_n);
      vpk.push_back(vp);
    }

    // ---- 2. faults
    std::vector<Fault> faults;
    bool unsafe_damage = false;   // damage that may imitate framing: recovery clause not evaluated
    bool any_damage = false;
    for (auto& op : plan.ops) {
      if (op.task != 3 || op.kind != "fault") continue;
      Fault f{(int)(iabs(op.arg(0)) % F_N), iabs(op.arg(1)), iabs(op.arg(2)), iabs(op.arg(3)), iabs(op.arg(4)), iabs(op.arg(5))};
      if (f.kind == F_NONE) continue;
      faults.push_back(f);
    }
    std::vector<std::vector<const Op*>> fops(2);
    for (auto& op : plan.ops) if ((op.task == 1 || op.task == 2) && op.kind == "foreign") fops[(size_t)op.task - 1].push_back(&op);
    for (Fault& f : faults) {
      if (f.kind == F_FOREIGN) { f.frame %= 2; f.pkt = fops[(size_t)f.frame].empty() ? -1 : f.tsi % (int64_t)fops[(size_t)f.frame].size(); continue; }
      if (!nframes) { f.frame = -1; continue; }
      f.frame %= nframes;
      f.pkt %= (int64_t)frames[(size_t)f.frame].nts.size();
      f.tsi %= frames[(size_t)f.frame].nts[(size_t)f.pkt];
      if (fault_is_pes_level(f.kind))
        for (auto& vp : vpk)
          if (vp.frame == f.frame && vp.pkt == f.pkt && apply_pes_fault(vp, f, ctx)) { vp.dmg = true; f.fired = true; any_damage = true; }
    }

    // ---- 3. multiplex, channel, pipe, transport
    Sched sched(ctx, (uint64_t)plan.knob("sched_seed", (int64_t)plan.seed), (Policy)(iabs(plan.knob("policy")) % 3), (int)plan.knob("pparam"));
    Stream st;
    Bytes& pipe = st.bytes;
    std::vector<size_t> bounds;
    bool closed = false;
    Task* waiter = nullptr;
    bool pending_gap = false, have_held = false;
    FUnit held, last_vbi;
    bool last_vbi_ok = false;
    unsigned vbi_cc = (unsigned)(plan.knob("sched_seed") & 15);
    std::map<unsigned, unsigned> fcc;
    int legal_dups = 0, blobs = 0;

    auto push = [&](FUnit u) {
      if (u.b.empty()) { pending_gap = true; return; }
      if (pending_gap) { u.gap_before = true; pending_gap = false; }
      st.off.push_back(pipe.size());
      pipe += u.b;
      bounds.push_back(pipe.size());
      ctx.log("unit %zu: %zu bytes frame %d pkt %d ts %d foreign %d/%d%s%s%s", st.fin.size(), u.b.size(), u.frame, u.pkt, u.tsi, u.fsrc, u.fidx, u.dmg ? " damaged" : "", u.gap_before ? " gap-before" : "", u.dup ? " duplicate" : "");
      st.fin.push_back(u);
      if (waiter) { Task* w = waiter; waiter = nullptr; sched.wake(w); }
    };
    auto garbage = [&](int64_t x, int64_t y, bool safe_kind) {
      Rng g((uint64_t)(x * 1000003 + y), "garbage");
      size_t n = (x % 7 == 0) ? 188 * (1 + (size_t)(x % 3)) : 1 + (size_t)(x % 600);
      FUnit u; u.start = false; u.dmg = true;
      for (size_t i = 0; i < n; i++) {
        unsigned c;
        if (safe_kind) { do c = (unsigned)g.below(256); while (c == 0x00 || c == 0x01 || c == 0x47); }
        else {
          static const unsigned char pat[] = {0x00, 0x00, 0x01, 0xBD, 0xFF, 0xFF, 0x84, 0x80, 0x24, 0x47, 0x40, 0x00, 0x10};
          c = g.chance(1, 3) ? pat[(i + (size_t)y) % 13] : (unsigned)g.below(256);
        }
        u.b += (char)c;
      }
      return u;
    };
    auto emit = [&](FUnit u) {
      std::vector<FUnit> before, after;
      bool drop = false, dup = false, swap = false;
      size_t split_at = 0; FUnit split_g; bool split = false;
      for (Fault& f : faults) {
        bool hit;
        if (u.fsrc >= 0) hit = f.kind == F_FOREIGN && f.frame == u.fsrc && f.pkt == u.fidx;
        else hit = u.frame >= 0 && f.kind != F_FOREIGN && !fault_is_pes_level(f.kind) && f.frame == u.frame && f.pkt == u.pkt &&
                   (f.tsi == u.tsi || (ts && f.kind == F_PES_TRUNC && u.tsi >= f.tsi));
        if (!hit) continue;
        int kind = f.kind;
        int64_t x = f.x, y = f.y;
        if (kind == F_FOREIGN) {
          // damage to a foreign unit.  Dropping / duplicating it leaves the selected service untouched.
          ctx.count("fault_foreign"); f.fired = true;
          switch (x % 4) {
            case 0: drop = true; u.start = true; ctx.count("foreign_dropped"); continue;
            case 1: if (!(ts && u.vbi)) { FUnit c = u; c.dup = true; after.push_back(c); ctx.count("foreign_duplicated"); } continue;
            case 2: u.b.resize((size_t)(y % (int64_t)(u.b.size() + 1))); u.dmg = true; any_damage = true; continue;  // truncated
            default: kind = F_BITFLIP_ANY; break;
          }
        }
        switch (kind) {
          case F_DROP: drop = true; pending_gap = true; any_damage = true; ctx.count(ts ? "fault_ts_drop" : "fault_pes_drop"); break;
          case F_PES_TRUNC:
            if (ts) { drop = true; pending_gap = true; }
            else { u.b.resize((size_t)(x % (int64_t)(u.b.size() + 1))); u.dmg = true; }
            any_damage = true; ctx.count("fault_pes_trunc"); break;
          case F_DUP: dup = true; ctx.count(ts ? "fault_ts_dup" : "fault_pes_dup"); break;
          case F_SWAP: swap = true; any_damage = true; ctx.count(ts ? "fault_ts_swap" : "fault_pes_swap"); break;
          case F_TS_CC:
            if (!ts || u.b.size() < 4) continue;
            if (x % 2) { unsigned d = 1 + (unsigned)(y % 15); u.b[3] = (char)(((unsigned char)u.b[3] & 0xF0) | (((unsigned char)u.b[3] + d) & 15)); vbi_cc += d; }  // the counter jumps for good
            else u.b[3] = (char)(((unsigned char)u.b[3] & 0xF0) | (((unsigned char)u.b[3] + 1 + (unsigned)(y % 15)) & 15));                                          // this packet only
            u.dmg = true; any_damage = true; ctx.count("fault_ts_cc"); break;
          case F_TS_TEI: if (!ts || u.b.size() < 4) continue; u.b[1] = (char)((unsigned char)u.b[1] | 0x80); u.dmg = true; any_damage = true; ctx.count("fault_ts_tei"); break;
          case F_TS_SCR: if (!ts || u.b.size() < 4) continue; u.b[3] = (char)((unsigned char)u.b[3] | ((1 + x % 3) << 6)); u.dmg = true; any_damage = true; ctx.count("fault_ts_scrambled"); break;
          case F_TS_PUSI: if (!ts || u.b.size() < 4) continue; u.b[1] = (char)((unsigned char)u.b[1] ^ 0x40); u.dmg = true; any_damage = true; ctx.count("fault_ts_pusi"); break;
          case F_TS_AFC: { if (!ts || u.b.size() < 4) continue; static const unsigned v[] = {0x00, 0x20, 0x30}; u.b[3] = (char)(((unsigned char)u.b[3] & 0xCF) | v[x % 3]); u.dmg = true; any_damage = true; ctx.count("fault_ts_afc"); break; }
          case F_TS_TRUNC: if (!ts || u.b.size() < 4) continue; u.b.resize((size_t)(x % 188)); u.dmg = true; any_damage = true; ctx.count("fault_ts_trunc"); break;
          case F_TS_PID: {
            if (!ts || u.b.size() < 4) continue;
            unsigned np = (pid ^ (1u << (x % 13))) & 0x1FFF;
            u.b[1] = (char)(((unsigned char)u.b[1] & 0xE0) | (np >> 8)); u.b[2] = (char)(np & 255);
            u.dmg = true; any_damage = true; ctx.count("fault_ts_pid"); break;
          }
          case F_BITFLIP_ANY: {
            if (u.b.empty()) continue;
            int flips = 1 + (int)(x % 8);
            for (int i = 0; i < flips; i++) u.b[(size_t)((y + i * 7919) % (int64_t)u.b.size())] ^= (char)(1 << ((x / 8 + i) % 8));
            u.dmg = true; any_damage = true; unsafe_damage = true; ctx.count("fault_bitflip_any"); break;
          }
          case F_GARBAGE_SAFE:
          case F_GARBAGE_ANY: {
            FUnit g = garbage(x, y, kind == F_GARBAGE_SAFE);
            any_damage = true;
            if (kind == F_GARBAGE_ANY) unsafe_damage = true;
            ctx.count(kind == F_GARBAGE_SAFE ? "fault_garbage_safe" : "fault_garbage_any");
            switch (y % 3) {
              case 0: before.push_back(g); break;
              case 1: after.push_back(g); break;
              default: if (u.b.size() > 1) { split = true; split_at = 1 + (size_t)((y / 3) % (int64_t)(u.b.size() - 1)); split_g = g; ctx.count("garbage_inside_unit"); } else before.push_back(g); break;
            }
            break;
          }
          default: continue;
        }
        f.fired = true;
      }
      for (auto& g : before) push(g);
      if (drop) { /* nothing */ }
      else if (swap && !have_held) { held = u; held.dmg = true; have_held = true; }
      else {
        bool was_vbi_ts = ts && u.vbi && u.fsrc < 0;
        if (split && split_at >= u.b.size()) split = false, before.clear(), push(split_g);
        if (split) {
          FUnit head = u, tail = u;
          head.b = u.b.substr(0, split_at); head.dmg = true;
          tail.b = u.b.substr(split_at); tail.dmg = true; tail.start = false; tail.frame = -2;
          push(head); push(split_g); push(tail);
        } else push(u);
        if (dup) {
          // TS: ISO 13818-1 2.4.3.3 permits one duplicate of a packet, same continuity_counter, next in its PID.
          // PES: a repeated PES packet is damage.
          FUnit c = u; c.dup = true; c.frame = -3;
          if (!ts) { c.dmg = true; any_damage = true; }
          push(c);
        }
        last_vbi_ok = false;
        if (was_vbi_ts && !u.dmg && !split && !dup) { last_vbi = u; last_vbi_ok = true; }
        if (have_held && u.vbi) { st.fin.back().dmg = true; have_held = false; push(held); }
      }
      for (auto& g : after) push(g);
    };

    std::function<void()> source_done;
    // the VBI service
    sched.spawn("vbi", [&] {
      if (ts && lead_in) { FUnit u; u.fsrc = 2; u.fidx = 0; u.b = ts_packet(0x1FFF, false, 0, 1, 0, Bytes(184, (char)0xFF)); emit(u); sched.yield(); }
      for (auto& vp : vpk) {
        int nts = ts ? (int)(vp.b.size() / 184) : 1;
        for (int t = 0; t < nts; t++) {
          if (ctx.failed) { source_done(); return; }
          FUnit u; u.vbi = true; u.frame = vp.frame; u.pkt = vp.pkt; u.tsi = vp.frame >= 0 ? t : -1; u.dmg = vp.dmg;
          if (vp.frame < 0) u.frame = -1;
          if (ts) { u.b = ts_packet(pid, t == 0, (unsigned)((vp.b.size() >> 3) & 1), 1, vbi_cc & 15, vp.b.substr((size_t)t * 184, 184)); vbi_cc++; }
          else u.b = vp.b;
          emit(u);
          sched.yield();
        }
      }
      source_done();
    });

    int live_sources = 3;
    source_done = [&] {
      if (--live_sources > 0) return;
      if (have_held) { have_held = false; push(held); }
      st.gap_at_end = pending_gap;
      closed = true;
      if (waiter) { Task* w = waiter; waiter = nullptr; sched.wake(w); }
    };
    auto foreign_unit = [&](int s, int j, const Op& op, FUnit& u) -> bool {
      Rng r((uint64_t)op.arg(2) * 31 + (uint64_t)j, "foreign");
      int kind = (int)(iabs(op.arg(0)) % 10);
      size_t size = (size_t)(iabs(op.arg(1)) % 5000);
      u.fsrc = s; u.fidx = j;
      auto payload = [&](size_t n, bool force_safe) {
        Bytes d;
        if (safe || force_safe) { for (size_t i = 0; i < n; i++) d += (char)safe_pick(r); return d; }
        return gen_wire(r, (int)n, (int)r.below(4), -1);
      };
      if (kind == 9) {
        // arbitrary bytes sprinkled with framing patterns
        blobs++; unsafe_damage = true; any_damage = true;
        u.start = false; u.dmg = true;
        u.b = gen_wire(r, (int)size + 1, 0, -1);
        int sp = (int)r.below(6);
        for (int i = 0; i < sp && u.b.size() > 12; i++) {
          static const unsigned char p1[] = {0x00, 0x00, 0x01, 0xBD, 0x00, 0xB2, 0x84, 0x80, 0x24};
          size_t at = (size_t)r.below(u.b.size() - 10);
          if (r.chance(1, 2)) { memcpy(&u.b[at], p1, 9); if (r.chance(1, 2)) { u.b[at + 4] = (char)r.below(256); u.b[at + 5] = (char)r.below(256); } }
          else { u.b[at] = 0x47; u.b[at + 1] = (char)((pid >> 8) | (r.chance(1, 2) ? 0x40 : 0)); u.b[at + 2] = (char)(pid & 255); u.b[at + 3] = (char)(0x10 | r.below(16)); if (at + 188 < u.b.size()) u.b[at + 188] = 0x47; }
        }
        return true;
      }
      if (ts) {
        unsigned fp = 0;
        for (int i = 0; i < 64; i++) {
          fp = (pid + 1 + (unsigned)r.below(0x1FFF)) % 0x1FFF;
          if (kind == 7) fp = pid ^ (1u << r.below(13));
          if (fp == pid || fp < 0x10) continue;
          if (safe && ((fp >> 8) == 7 || (fp & 255) == 0x47 || (fp & 255) == 0)) { if (kind == 7) kind = 0; continue; }
          break;
        }
        if (fp == pid || fp < 0x10) fp = pid == 0x20 ? 0x21 : 0x20;
        if (safe && (kind == 6)) kind = 0;
        switch (kind) {
          case 1: u.b = ts_packet(0x1FFF, false, 0, 1, (unsigned)r.below(16), Bytes(184, (char)0xFF)); break;
          case 2: {  // adaptation field only, on the selected PID: the continuity counter does not advance
            Bytes af; af += (char)183; af += (char)(safe ? 0x40 : 0x00); af.append(182, (char)0xFF);
            u.b = ts_packet(pid, false, 0, 2, (vbi_cc - 1) & 15, af);
            break;
          }
          case 3: {  // another private_stream_1 service (e.g. a second VBI stream) on a foreign PID
            Rng pr(r.next(), "p");
            Bytes pes = build_pes({}, 0, 0x10, (int64_t)(r.next() & (uint64_t)PTS_MASK), 0, pr, safe, nullptr);
            if (safe) for (size_t i = 9; i < 14; i++) if ((unsigned char)pes[i] == 0x47 || pes[i] == 0) pes[i] = (char)0x21;
            u.b = ts_packet(fp, true, 0, 1, fcc[fp]++, pes.substr(0, 184));
            break;
          }
          case 4: {  // adaptation field and payload
            size_t afl = 1 + size % 120;
            Bytes pl; pl += (char)afl; pl += (char)(safe ? 0x40 : 0x00); pl.append(afl - 1, (char)0xFF); pl += payload(184 - 1 - afl, false);
            u.b = ts_packet(fp, r.chance(1, 4), 0, 3, fcc[fp]++, pl);
            break;
          }
          case 5:  // legal duplicate of the last packet of the selected PID
            if (!last_vbi_ok) return false;
            u = last_vbi; u.fsrc = s; u.fidx = j; u.frame = -3; u.dup = true; last_vbi_ok = false; legal_dups++;
            break;
          case 6: {  // a table section: pointer_field, table id, ...
            Bytes pl; pl += (char)0; pl += (char)0x02; pl += (char)0xB0; pl += payload(181, false);
            u.b = ts_packet(fp, true, 0, 1, fcc[fp]++, pl);
            break;
          }
          default: u.b = ts_packet(fp, r.chance(1, 5), (unsigned)r.below(2), 1, fcc[fp]++, payload(184, false)); break;
        }
      } else {
        static const unsigned sids[] = {0xBC, 0xBE, 0xBF, 0xC0, 0xC1, 0xDF, 0xE0, 0xEF, 0xF0, 0xFF};
        Bytes d;
        auto hdr = [&](unsigned sid, size_t len) { d += (char)0; d += (char)0; d += (char)1; d += (char)sid; d += (char)(len >> 8); d += (char)(len & 255); };
        switch (kind) {
          case 1: {  // private_stream_1 but not a VBI service
            size_t len = 46 + size % 600;
            hdr(0xBD, len);
            d += (char)0x84; d += (char)0x80;
            if (r.chance(1, 2)) { d += (char)0x05; d.append(5, (char)0x21); d += (char)0x20; }   // short header (subtitles)
            else { d += (char)0x24; d.append(5, (char)0x21); d.append(31, (char)0xFF); d += (char)0x20; }  // VBI shaped header, foreign data_identifier
            d += payload(6 + len - d.size(), false);
            break;
          }
          case 2: d += (char)0; d += (char)0; d += (char)1; d += (char)(r.chance(1, 2) ? 0xBA : (unsigned)r.below(0xBC)); d += payload(4 + size % 60, true); break;
          case 3: hdr(0xBE, size % 700); d.append(size % 700, (char)0xFF); break;
          case 4: d.append(1 + size % 100, (char)0xFF); u.start = false; break;  // stuffing bytes between packets
          case 5: { size_t len = 3 + size % 170; hdr(0xBD, len); d += (char)0x84; d += (char)0x80; d += (char)0x24; d += payload(len - 3, true); break; }
          case 6: hdr(0xE0, 0); d += payload(size % 300, true); break;  // unbounded video packet: its payload is scanned
          default: { size_t len = size % 800; hdr(sids[r.below(10)], len); d += payload(len, false); break; }
        }
        u.b = d;
      }
      return true;
    };
    for (int s = 0; s < 2; s++) {
      sched.spawn(s ? "foreignB" : "foreignA", [&, s] {
        for (size_t j = 0; j < fops[(size_t)s].size(); j++) {
          if (ctx.failed) break;
          FUnit u;
          if (foreign_unit(s, (int)j, *fops[(size_t)s][j], u)) emit(u);
          sched.yield();
        }
        source_done();
      });
    }
    // transport
    Dx main_dx; main_dx.tag = "main";
    if (!main_dx.open(&ctx, ts, pid, use_cor, m)) { ctx.fail("harness:new", "demux constructor failed"); return; }
    std::vector<const Op*> pieces;
    for (auto& op : plan.ops) if (op.task == 4 && (op.kind == "piece" || op.kind == "reset")) pieces.push_back(&op);
    struct Seg { size_t byte_from; size_t got_from; };
    std::vector<Seg> segs = {{0, 0}};
    sched.spawn("transport", [&] {
      size_t rd = 0, opi = 0;
      while (!ctx.failed) {
        size_t avail = pipe.size() - rd;
        if (avail == 0) {
          if (closed) break;
          waiter = sched.current(); sched.block();
          continue;
        }
        const Op* op = pieces.empty() ? nullptr : pieces[opi % pieces.size()];
        bool first_pass = opi < pieces.size();
        opi++;
        size_t want = avail;
        bool wait = false;
        if (op && op->kind == "reset") {
          if (first_pass) {
            ctx.log("reset at byte %zu", rd);
            main_dx.reset();
            segs.push_back({rd, main_dx.got.size()});
            ctx.count("demux_reset");
            continue;
          }
        } else if (op) {
          int mode = (int)(iabs(op->arg(0)) % 8);
          size_t n = (size_t)(iabs(op->arg(1)) % 70000);
          wait = op->arg(2) & 1;
          size_t nb = pipe.size();  // next unit boundary after rd (the pipe always ends on one)
          { auto it = std::upper_bound(bounds.begin(), bounds.end(), rd); if (it != bounds.end()) nb = *it; }
          size_t k = 1 + n % 9;
          switch (mode) {
            case 0: want = std::max<size_t>(1, n); break;
            case 1: want = 1; break;
            case 2: want = nb - rd; break;
            case 3: want = nb - rd > k ? nb - rd - k : 1; break;
            case 4: want = nb - rd + k; break;
            case 5: want = (size_t)STRADDLE[n % NSTRADDLE]; break;
            case 6: want = avail; wait = false; break;
            default: { auto it = std::upper_bound(bounds.begin(), bounds.end(), nb); want = (it != bounds.end() ? *it : nb) - rd; break; }
          }
        }
        while (want > pipe.size() - rd && wait && !closed && !ctx.failed) { waiter = sched.current(); sched.block(); }
        avail = pipe.size() - rd;
        size_t n = std::min(want, avail);
        if (n == 0) n = 1;
        main_dx.feed((const unsigned char*)pipe.data() + rd, n);
        rd += n;
        sched.yield();
      }
    });
    int rc = sched.run(50000000);
    if (rc == 2) ctx.fail("harness:budget", "scheduler budget exhausted");
    else if (rc == 1 && !ctx.failed) ctx.fail("harness:deadlock", "tasks blocked at the end of the run");
    ctx.state(sched.interleaving_hash());
    ctx.sim_seconds = nframes * 0.04;

    const size_t total = pipe.size();
    ctx.log("stream: %zu bytes in %zu units, %zu calls", total, st.fin.size(), (size_t)main_dx.calls);
    auto finish = [&] {
      main_dx.close();
      if (!ctx.failed && alloc_track_available() && alloc_live_blocks() != 0)
        ctx.fail("leak", "%zu blocks (%zu bytes) still allocated after vbi_dvb_demux_delete", alloc_live_blocks(), alloc_live_bytes());
    };
    if (ctx.failed) { finish(); return; }

    // ---- (a) partition independence: the same bytes through a fresh demultiplexer in one call
    auto one_call = [&](size_t from, size_t to, std::vector<GFrame>& out) {
      Dx ref; ref.tag = "ref"; ref.quiet = true;
      if (!ref.open(&ctx, ts, pid, false, 64)) { ctx.fail("harness:new", "demux constructor failed"); return; }
      if (to > from) ref.feed((const unsigned char*)pipe.data() + from, to - from);
      out.swap(ref.got);
      ref.close();
    };
    auto expect_of = [&](const std::vector<GFrame>& ref, bool cor_iface, unsigned ml) {
      // the coroutine interface stores "at most max_lines" lines (documented); a frame without lines is not observable there
      std::vector<GFrame> e;
      for (auto& f : ref) {
        GFrame g = f;
        if (cor_iface) { if (g.lines.size() > ml) g.lines.resize(ml); if (g.lines.empty()) continue; }
        e.push_back(g);
      }
      return e;
    };
    auto compare = [&](const std::vector<GFrame>& want, const std::vector<GFrame>& have, size_t have_from, size_t have_to, const char* cls, const std::string& what) {
      size_t n = have_to - have_from;
      for (size_t i = 0; i < std::min(n, want.size()); i++)
        if (!same_frame(want[i], have[have_from + i])) {
          ctx.fail(cls, "%s: frame %zu differs: one call %s, pieces %s", what.c_str(), i, frame_str(want[i]).c_str(), frame_str(have[have_from + i]).c_str());
          return false;
        }
      if (n != want.size()) {
        const GFrame& x = n > want.size() ? have[have_from + want.size()] : want[n];
        ctx.fail(cls, "%s: %zu frames in one call, %zu frames in pieces; first %s one: %s", what.c_str(), want.size(), n, n > want.size() ? "extra" : "missing", frame_str(x).c_str());
        return false;
      }
      return true;
    };
    std::vector<GFrame> ref_full;
    one_call(0, total, ref_full);
    if (ctx.failed) { finish(); return; }
    for (size_t i = 0; i < ref_full.size(); i++) ctx.log("ref frame %zu: %016llx", i, (unsigned long long)frame_hash(ref_full[i]));
    for (size_t si = 0; si < segs.size() && !ctx.failed; si++) {
      size_t bf = segs[si].byte_from, bt = si + 1 < segs.size() ? segs[si + 1].byte_from : total;
      size_t gf = segs[si].got_from, gt = si + 1 < segs.size() ? segs[si + 1].got_from : main_dx.got.size();
      std::vector<GFrame> ref_seg;
      if (segs.size() == 1) ref_seg = ref_full; else one_call(bf, bt, ref_seg);
      char what[160];
      snprintf(what, sizeof what, "%s %s, bytes %zu..%zu%s in %llu calls (max_lines %u)", ts ? "TS" : "PES", use_cor ? "coroutine" : "callback", bf, bt, segs.size() > 1 ? " (segment after reset)" : "", (unsigned long long)main_dx.calls, m);
      compare(expect_of(ref_seg, use_cor, m), main_dx.got, gf, gt, segs.size() > 1 && si > 0 ? "oracle:partition-after-reset" : "oracle:partition", what);
    }
    if (ctx.failed) { finish(); return; }

    // ---- (a') short streams: every single cut, and a lattice of two-cut partitions
    const size_t enum_max = ctx.tier == "thorough" ? 2400 : 1300;
    if ((plan.knob("enum") & 1) && total >= 2 && total <= enum_max) {
      Dx e; e.tag = "enum"; e.quiet = true;
      if (!e.open(&ctx, ts, pid, false, 64)) { ctx.fail("harness:new", "demux constructor failed"); finish(); return; }
      Dx ec; ec.tag = "enumc"; ec.quiet = true;
      if (!ec.open(&ctx, ts, pid, true, 64)) { ctx.fail("harness:new", "demux constructor failed"); e.close(); finish(); return; }
      const unsigned char* base = (const unsigned char*)pipe.data();
      std::vector<GFrame> want_cor = expect_of(ref_full, true, 64);
      const bool enum_cor = plan.knob("enum_cor", 1) & 1;
      Fnv eh;
      for (size_t c = 1; c < total && !ctx.failed; c++) {
        Dx& d = ((c & 1) || !enum_cor) ? e : ec;
        d.got.clear();
        d.reset();  // documented: back to the state after _new()
        d.feed(base, c); d.feed(base + c, total - c);
        char what[96]; snprintf(what, sizeof what, "%s %s, %zu bytes cut at %zu", ts ? "TS" : "PES", d.cor ? "coroutine" : "callback", total, c);
        if (!ctx.failed) compare(d.cor ? want_cor : ref_full, d.got, 0, d.got.size(), "oracle:partition-enum", what);
        eh.u64(d.got.size());
      }
      ctx.count("enum_single_cuts", (int64_t)total - 1);
      size_t step = std::max<size_t>((size_t)(iabs(plan.knob("lat_step", 7)) % 64) + 1, (total + 44) / 45);
      size_t o1 = (size_t)(iabs(plan.knob("lat_off")) % (int64_t)step), pairs = 0;
      for (size_t c1 = 1 + o1; c1 < total && !ctx.failed; c1 += step)
        for (size_t c2 = c1 + 1 + (c1 * 7 + o1) % step; c2 < total && !ctx.failed; c2 += step) {
          Dx& d = ((pairs & 1) || !enum_cor) ? e : ec;
          d.got.clear();
          d.reset();
          d.feed(base, c1); d.feed(base + c1, c2 - c1); d.feed(base + c2, total - c2);
          char what[96]; snprintf(what, sizeof what, "%s %s, %zu bytes cut at %zu and %zu", ts ? "TS" : "PES", d.cor ? "coroutine" : "callback", total, c1, c2);
          if (!ctx.failed) compare(d.cor ? want_cor : ref_full, d.got, 0, d.got.size(), "oracle:partition-enum", what);
          pairs++;
        }
      ctx.count("enum_two_cuts", (int64_t)pairs);
      ctx.count("enum_runs");
      ctx.log("enum: %zu single cuts, %zu pairs, %016llx", total - 1, pairs, (unsigned long long)eh.h);
      e.close(); ec.close();
    }
    if (ctx.failed) { finish(); return; }

    // ---- (c) delivery and recovery
    // classification of the units of the final stream
    std::vector<FUnit>& U = st.fin;
    const int nu = (int)U.size();
    if (!ts) {
      // PES framing is by length: a damaged unit that still begins with a packet header is entitled to the
      // bytes its PES_packet_length claims; what lies there is damaged as well (leniency: the statement's
      // "once intact packets follow" cannot apply to packets a preceding header declares to be payload)
      for (int i = 0; i < nu; i++) {
        const FUnit& u = U[(size_t)i];
        if (!u.dmg || !u.start || st.off[(size_t)i] + 6 > total) continue;
        const unsigned char* b = (const unsigned char*)pipe.data() + st.off[(size_t)i];  // the length may lie in what follows a cut header
        if (b[0] || b[1] || b[2] != 1 || b[3] < 0xBC) continue;
        size_t ext = st.off[(size_t)i] + 6 + ((size_t)b[4] << 8 | b[5]);
        for (int j = i + 1; j < nu && st.off[(size_t)j] < ext; j++) if (!U[(size_t)j].dmg) { U[(size_t)j].dmg = true; ctx.count("units_inside_claimed_length"); }
      }
    }
    // are the framing patterns confined to genuine unit starts?
    bool framing_safe = true;
    {
      std::set<size_t> starts;
      for (int i = 0; i < nu; i++) if (U[(size_t)i].start) starts.insert(st.off[(size_t)i]);
      const unsigned char* b = (const unsigned char*)pipe.data();
      if (ts) { for (size_t i = 0; i < total && framing_safe; i++) if (b[i] == 0x47 && !starts.count(i)) framing_safe = false; }
      else { for (size_t i = 0; i + 2 < total && framing_safe; i++) if (b[i] == 0 && b[i + 1] == 0 && b[i + 2] == 1 && !starts.count(i)) framing_safe = false; }
    }
    // damage points in doubled unit coordinates: unit i -> 2i+1, a gap before unit i -> 2i
    std::vector<int> dpts;
    for (int i = 0; i < nu; i++) { if (U[(size_t)i].gap_before) dpts.push_back(2 * i); if (U[(size_t)i].dmg) dpts.push_back(2 * i + 1); }
    if (st.gap_at_end) dpts.push_back(2 * nu);
    const bool damaged = !dpts.empty() || any_damage;
    auto damage_in = [&](int lo, int hi) {  // any damage point p with lo < p <= hi
      auto it = std::upper_bound(dpts.begin(), dpts.end(), lo);
      return it != dpts.end() && *it <= hi;
    };
    // where the units of each frame are
    std::vector<std::vector<int>> where((size_t)nframes);
    for (int i = 0; i < nu; i++) if (U[(size_t)i].frame >= 0 && U[(size_t)i].frame < nframes) where[(size_t)U[(size_t)i].frame].push_back(i);
    for (int k = 0; k < nframes; k++) {
      SentFrame& f = frames[(size_t)k];
      std::vector<std::pair<int, int>> expect;
      for (size_t p = 0; p < f.nts.size(); p++) for (int t = 0; t < f.nts[p]; t++) expect.push_back({(int)p, t});
      const std::vector<int>& w = where[(size_t)k];
      // the first PES packet, complete and in order?
      f.e1 = -1;
      if ((int)w.size() >= f.nts[0]) {
        bool ok = true;
        for (int t = 0; t < f.nts[0]; t++) { const FUnit& u = U[(size_t)w[(size_t)t]]; if (u.pkt != 0 || u.tsi != t || u.dmg) ok = false; }
        if (ok && !damage_in(2 * w[0] + 1, 2 * w[(size_t)f.nts[0] - 1] + 1)) f.e1 = w[(size_t)f.nts[0] - 1];
      }
      f.intact = w.size() == expect.size();
      for (size_t i = 0; f.intact && i < w.size(); i++) { const FUnit& u = U[(size_t)w[i]]; if (u.pkt != expect[i].first || u.tsi != expect[i].second || u.dmg) f.intact = false; }
      if (f.intact) { f.a = w.front(); f.b = w.back(); if (damage_in(2 * f.a + 1, 2 * f.b + 1)) f.intact = false; }
      if (!w.empty()) { f.a = w.front(); f.b = w.back(); }
    }
    for (int k = 0; k < nframes; k++) {
      SentFrame& f = frames[(size_t)k];
      f.must = false;
      if (!f.intact) continue;
      // flushed: the next frame's first PES packet follows, intact, nothing damaged in between
      if (k + 1 >= nframes) continue;
      const SentFrame& nx = frames[(size_t)k + 1];
      if (nx.e1 < 0 || nx.a <= f.b || damage_in(2 * f.b + 1, 2 * nx.e1 + 1)) { ctx.count("frames_exempt_pending"); continue; }
      // not the first intact frame after a damaged place
      auto it = std::lower_bound(dpts.begin(), dpts.end(), 2 * f.a + 1);
      if (it != dpts.begin()) {
        int x = *(it - 1);
        int earlier = 0, first_after = -1;
        for (int j = k - 1; j >= 0; j--) if (frames[(size_t)j].intact && 2 * frames[(size_t)j].a + 1 > x) { earlier++; first_after = j; }
        if (!earlier) { ctx.count("frames_exempt_first_after"); continue; }
        if (earlier == 1 && frames[(size_t)first_after].nts.size() > 1) {
          // The first frame after the damage may lose its leading PES packet(s): in TS regaining sync / continuity
          // costs a packet, in both modes its start may not be recognisable after what is left of the damaged
          // frame before it.  What remains of it may in turn not let the start of THIS frame be recognised (no
          // numbered line at or above this frame's first line, or an unknown-line unit of the same field): then the
          // two are one frame to any receiver that has no other delimiter than line order and field parity, and the
          // statement's "first frame after the damage" covers both.  (Only streams with unknown-line units.)
          const SentFrame& A = frames[(size_t)first_after];
          const ELine& b0 = f.lines[0];
          bool recognisable = true;
          for (size_t from = 1; from < A.pkt_lines.size() && recognisable; from++) {
            unsigned ln = 0; int lf = 0;
            for (size_t p = from; p < A.pkt_lines.size(); p++) for (int i : A.pkt_lines[p]) { if (A.lines[(size_t)i].off) ln = std::max(ln, A.lines[(size_t)i].line()); lf = A.lines[(size_t)i].field; }
            recognisable = b0.off ? b0.line() <= ln : b0.field != lf;
          }
          if (!recognisable) { ctx.count("frames_exempt_merged_with_first_after"); continue; }
        }
      }
      f.must = true;
    }
    const bool no_model = src == 1;  // the real multiplexer made the packets: no independent expectation of the lines
    const bool eligible = !no_model && (!damaged || (framing_safe && !unsafe_damage));
    if (damaged && !no_model && !unsafe_damage && !framing_safe) ctx.count("recovery_skipped_framing_pattern_in_data");
    size_t n_must = 0;
    for (auto& f : frames) if (f.must) n_must++;
    if (eligible) {
      ctx.count(damaged ? "recovery_evaluated" : "strict_evaluated");
      ctx.count(damaged ? "recovery_must_frames" : "strict_must_frames", (int64_t)n_must);
      const char* c_lost = damaged ? "oracle:recovery-lost" : "oracle:frame-lost";
      const char* c_spur = damaged ? "oracle:recovery-spurious" : "oracle:frame-spurious";
      int cursor = 0; size_t junk = 0;
      auto next_must = [&](int from) { int j = from; while (j < nframes && !frames[(size_t)j].must) j++; return j; };
      auto describe = [&](int k) {
        const SentFrame& f = frames[(size_t)k];
        char b[200]; snprintf(b, sizeof b, "frame %d (pts %llx, %zu lines, first line %u, %zu PES packets, units %d..%d)", k, (unsigned long long)f.pts, f.lines.size(), f.lines[0].line(), f.nts.size(), f.a, f.b);
        return std::string(b);
      };
      for (size_t di_ = 0; di_ < ref_full.size() && !ctx.failed; di_++) {
        const GFrame& d = ref_full[di_];
        int nm = next_must(cursor);
        if (nm < nframes && frame_matches(frames[(size_t)nm], d)) { cursor = nm + 1; junk = 0; continue; }
        // something else was delivered: admissible only in place of exempt frames
        size_t room = 0;
        for (int j = cursor; j < nm; j++) room += frames[(size_t)j].nts.size() + 1;
        if (junk < room) { junk++; ctx.count("frames_delivered_in_exempt_zone"); continue; }
        if (nm < nframes)
          ctx.fail(c_spur, "%s: delivered frame %zu %s is not the next frame due, %s%s", ts ? "TS" : "PES", di_, frame_str(d).c_str(), describe(nm).c_str(), room ? " (more frames than the exempt ones could yield)" : "");
        else
          ctx.fail(c_spur, "%s: delivered frame %zu %s but no sent frame is due any more", ts ? "TS" : "PES", di_, frame_str(d).c_str());
      }
      if (!ctx.failed) {
        int nm = next_must(cursor);
        if (nm < nframes) ctx.fail(c_lost, "%s: %s was sent intact%s, its successor's first packet followed intact, but it was not delivered (%zu frames delivered)", ts ? "TS" : "PES", describe(nm).c_str(), damaged ? " and is not the first frame after the damage" : "", ref_full.size());
      }
      // the callback never fails and nothing is wrong with the stream: FALSE ("the data contained errors") is not expected
      if (!ctx.failed && !damaged && main_dx.false_returns) ctx.fail("oracle:feed-false", "vbi_dvb_demux_feed returned FALSE %llu times on an intact stream", (unsigned long long)main_dx.false_returns);
    }
    finish();
    for (auto& f : faults) if (!f.fired) ctx.count("faults_planned_not_applicable");
    if (blobs) ctx.count("fault_random_stream", blobs);
    if (legal_dups) ctx.count("legal_duplicate_packets", legal_dups);
    ctx.count(ts ? "runs_ts" : "runs_pes");
    ctx.count(use_cor ? "runs_coroutine" : "runs_callback");
    if (use_cor && m < 64) ctx.count("runs_coroutine_small_array");
    if (src == 1) ctx.count("runs_real_mux_source");
    ctx.count("frames_delivered", (int64_t)ref_full.size());
    ctx.count("feed_calls", (int64_t)main_dx.calls);
    ctx.nontrivial = ref_full.size() >= 3 && main_dx.calls >= 4;
  }
};
ZSIM_REGISTER_WORLD(C07)

}  // namespace
